"""C19 — reproducibility under manual_seed, independence of hash order"""
import os, sys, json, subprocess, hashlib
import numpy as np
import common
from common import show_ints, outcome

PROP = 'C19'
LEAN_TARGETS = ['Props.C19']
REQUIRED_THEOREMS = ['Props.C19.persistent_state_is_the_documented_one', 'Props.C19.randomsites_seeded', 'Props.C19.draws_seeded', 'Props.C19.seeded_noninterference']
RULE = ('(a) draw signatures: every random-consuming API (rand/randn/normal/randint, nn.init, Linear/Conv constructors, Dropout, '
        'shuffled split) is called with np.random.* wrapped and the (function, count) sequence must equal the model; '
        '(b) seeded programs (random tensors, layers with init, dropout, shuffled split, 3 SGD/Adam steps, an integer fan-out graph and a '
        'float32 fan-out graph whose six-fold accumulation order shows in the last bits) are hashed (tensors, gradients, parameters, '
        'bit patterns) 8 times in-process with different amounts of live garbage in between (so addresses differ) and in fresh '
        'processes under 3 (quick) / 12 (thorough) PYTHONHASHSEED values and allocation preludes; all hashes must be identical. '
        '(c) FAULTS: the same programs ending in a section where the program meets faults, catches them and carries on — an exception raised by the library or by user code inside no_grad (plain, nested) / retain_grads blocks, '
        'inside Module.forward in training mode, inside optimizer.step (corrupted gradient), inside backward, inside a DataLoader transform, inside the Trainer callbacks, inside the criterion during validation, inside Trainer.test — '
        'every subset drawn per case, one case with all of them; each such program is run three times in ONE fresh process (and in several processes): the second and third run must reproduce the first '
        '(each run also hashes what the process-wide switches do: whether a product of a leaf tracks, whether a non-leaf keeps its gradient). '
        '(d) REPETITION inside the run: every seeded program also records each of 36 sub-computations (every loss class with its reductions, every layer / activation class in train and eval mode, composite tensor-op expressions, a model with a loss; inputs are non-leaf) and '
        'back-propagates k = 2 / 3 times over the SAME recorded graph with the gradients zeroed in between (bit-identical gradients required), twice without zeroing (accumulates to twice one pass), evaluates the same forward again from the same generator state '
        '(bit-identical value and gradients) and sweeps the first graph once more; and (e) trains BatchNorm1d/2d models (momentum None = cumulative average in every program, numeric momenta incl. 0 and 1, track_running_stats / affine on and off) for 4 steps with 0 / a / b read-only '
        'interludes after each step (eval-mode forwards with and without no_grad, validation passes, Trainer.test, Evaluator; drawn per program): final parameters, running statistics, the batch counter and predictions must not depend on the number of interludes. '
        'Both are compared INSIDE the run (a dependence on the repetition count is the same in every run) and enter the hash. '
        '(f) DEGENERATE LAYER GEOMETRIES: Linear / Neuron / Conv1d / Conv2d / BatchNorm1d / BatchNorm2d with every extent (features, channels, kernel extents) in {0, 1} (quick) / {0, 1, 2} (thorough) exhaustively plus random ones, '
        'bias / affine on and off, constructed and reset_parameters() called 0..2 more times: the draw signature of every stage equals the model, and parameters after every stage, the next draw, a forward and a backward pass '
        'are bit-identical under 5 allocation histories (freed small buffers and np.empty contents filled with 0 / 7 / nan / -1e30 / a denormal by the harness). '
        'Non-trivial: a program that draws from >= 3 different APIs and trains.')
EXHAUSTIVE = {'quick': False, 'thorough': False}
ASSUMPTIONS = ['NumPy generators and BLAS are deterministic given the same state and inputs (not modelled)']
TRUSTED_BASE = ['harness/props/c19.py', 'harness/extract.py (random-site extractor)']

FNS = ['rand', 'randn', 'normal', 'randint', 'uniform', 'shuffle']


def extract():
    import extract as ex
    return ex.write_random_sites() + ex.write_persistent_sites()


def cases(rng, tier):
    out = []
    for _ in range(12 if tier == 'quick' else 200):
        sh = [rng.randint(1, 4) for _ in range(rng.randint(1, 3))]
        for k in ('rand', 'randn', 'normal', 'randint', 'init_uniform', 'init_normal', 'init_const'):
            out.append({'kind': 'sig', 'api': k, 'shape': sh, 'lines': [f'rng {k} {show_ints(sh)}']})
        i, o, b = rng.randint(1, 5), rng.randint(1, 5), rng.chance(.6)
        out.append({'kind': 'sig', 'api': 'linear', 'args': [i, o, b], 'lines': [f'rng linear {i} {o} {int(b)}']})
        ci, co, k = rng.randint(1, 3), rng.randint(1, 3), rng.randint(1, 3)
        out.append({'kind': 'sig', 'api': 'conv1d', 'args': [ci, co, k, b], 'lines': [f'rng conv1d {ci} {co} {k} {int(b)}']})
        kh, kw = rng.randint(1, 3), rng.randint(1, 3)
        out.append({'kind': 'sig', 'api': 'conv2d', 'args': [ci, co, kh, kw, b], 'lines': [f'rng conv2d {ci} {co} {kh} {kw} {int(b)}']})
        n, tr = rng.randint(1, 9), rng.chance(.7)
        out.append({'kind': 'sig', 'api': 'dropout', 'args': [n, tr], 'lines': [f'rng dropout {n} {int(tr)}']})
        n, sh_ = rng.randint(0, 9), rng.chance(.6)
        out.append({'kind': 'sig', 'api': 'split', 'args': [n, sh_], 'lines': [f'rng split {n} {int(sh_)}']})
    out += _geom_cases(rng, tier)
    nprog = 6 if tier == 'quick' else 40
    for k in range(nprog):       # boundary seeds first
        out.append({'kind': 'prog', 'seed': [0, 1, 2 ** 32 - 1][k] if k < 3 else rng.randrange(2 ** 31), 'variant': rng.randrange(4), 'hashseeds': 6 if tier == 'quick' else 12, 'lines': ['rng dropout 1 0']})
    # programs that meet faults and survive them: all fault points at once, then random subsets (order of the blocks is fixed)
    for k in range(4 if tier == 'quick' else 40):
        fs = list(FAULT_POINTS) if k == 0 else [f for f in FAULT_POINTS if rng.chance(.35)] or [rng.pick(FAULT_POINTS)]
        out.append({'kind': 'prog', 'seed': rng.randrange(2 ** 31), 'variant': rng.randrange(4), 'hashseeds': 2 if tier == 'quick' else 6, 'faults': fs, 'lines': ['rng dropout 1 0']})
    # every seeded program REPEATS sub-computations (k backward passes over one graph, re-evaluated forwards; every loss / layer)
    # and trains BatchNorm models with a variable number of read-only interludes between the steps
    order = list(REPEAT_SUBS); rng.shuffle(order)
    for i, c in enumerate([c for c in out if c['kind'] == 'prog']):
        c['rep'] = _rep_params(rng, i, order, trainer=bool(c.get('faults')))
    for c in out:
        c['desc'] = {k: (v if k != 'rep' else dict(v, subs=f"{len(v['subs'])} sub-computations")) for k, v in c.items() if k != 'lines'}
    _FAULT_BATCH[:] = [c for c in out if c.get('faults')]
    return out


GEOM_LAYERS = {'linear': 2, 'neuron': 1, 'conv1d': 3, 'conv2d': 4, 'batchnorm1d': 1, 'batchnorm2d': 1}      # layer with parameters -> number of extents
POISONS = (0.0, 7.0, float('nan'), -1e30, 3e-41)


def _geom_line(api, dims, flag):
    """the model's line for constructing the layer (reset_parameters() called again = the same draws again = the same line again)"""
    if api == 'neuron': return f'rng linear {dims[0]} 1 {int(flag)}'
    if api.startswith('batchnorm'): return f'rng init_const {show_ints([dims[0]])}'       # ones_ / zeros_: no draw
    return f"rng {api} {' '.join(str(d) for d in dims)} {int(flag)}"


def _geom_cases(rng, tier):
    """DEGENERATE LAYER GEOMETRIES: every layer class with parameters, every extent (features / channels / kernel extents) in
    {0, 1} exhaustively (quick) / {0, 1, 2} (thorough) plus random larger ones, bias / affine on and off, constructed and then
    reset_parameters() called 0..2 more times. Observed: the draw signature of every stage (construction, each reset) against the
    model, and that parameters after each stage, the generator state afterwards, a forward / backward pass through the layer are
    bit-identical under different allocation histories (freed buffers / np.empty contents differ per history)."""
    import itertools
    out = []
    vals = (0, 1) if tier == 'quick' else (0, 1, 2)
    for api, nd in GEOM_LAYERS.items():
        combos = [list(t) for t in itertools.product(vals, repeat=nd)]
        for _ in range(4 if tier == 'quick' else 40):
            combos.append([rng.pick([0, 1, 1, 2, 3, 5]) for _ in range(nd)])
        for dims in combos:
            for flag in (True, False):
                if api == 'neuron' and not flag: continue      # Neuron has no bias switch
                resets = rng.randrange(3)
                out.append({'kind': 'sig', 'api': api, 'geom': True, 'args': list(dims) + [flag], 'resets': resets, 'seed': rng.randrange(2 ** 31),
                            'lines': [_geom_line(api, dims, flag)] * (1 + resets)})
    return out


def _geom_build(nn, api, a):
    d, flag = a[:-1], a[-1]
    if api == 'linear': return nn.Linear(d[0], d[1], bias=flag)
    if api == 'neuron': return nn.Neuron(d[0])
    if api == 'conv1d': return nn.Conv1d(d[0], d[1], d[2], bias=flag)
    if api == 'conv2d': return nn.Conv2d(d[0], d[1], (d[2], d[3]), bias=flag)
    if api == 'batchnorm1d': return nn.BatchNorm1d(d[0], affine=flag)
    if api == 'batchnorm2d': return nn.BatchNorm2d(d[0], affine=flag)
    raise ValueError(api)


def _geom_input(api, a):
    d = a[:-1]
    return {'linear': (2, d[0]), 'neuron': (2, d[0]), 'conv1d': (2, d[0], 3), 'conv2d': (2, d[0], 3, 2), 'batchnorm1d': (3, d[0]), 'batchnorm2d': (2, d[0], 2, 2)}[api]


def _geom_probe(c):
    """the layer of the case built, reset and run once per allocation history; returns None when all histories agree bit for
    bit, else a description of the first observation that differs. A history = short-lived float32 buffers of small sizes filled
    with a value and freed just before, and np.empty / np.empty_like handing out buffers filled with that value (an
    uninitialised buffer has arbitrary contents: the harness chooses them)."""
    sg = common.impl()
    from synapgrad import nn
    api, a = c['api'], c['args']
    orig = (np.empty, np.empty_like)
    runs = []
    for fill in POISONS:
        def poisoned(f, fill=fill):
            def g(*ar, **kw):
                r = f(*ar, **kw)
                if r.dtype.kind == 'f': r.fill(fill)
                return r
            return g
        junk = [np.full(n, fill, dtype=np.float32) for n in range(1, 10) for _ in range(3)]
        del junk
        np.empty, np.empty_like = poisoned(orig[0]), poisoned(orig[1])
        obs = []
        def add(k, f):
            try:
                v = f()
                obs.append((k, 'none' if v is None else f'{v.dtype}{v.shape}:' + np.ascontiguousarray(v).tobytes().hex()[:400]))
            except Exception as e:
                obs.append((k, 'raises:' + type(e).__name__))
        try:
            with common.quiet():
                sg.manual_seed(c.get('seed', 0))
                try: m = _geom_build(nn, api, a)
                except Exception as e: m = None; obs.append(('construct', 'raises:' + type(e).__name__))
                if m is not None:
                    def params(stage):
                        ps = m.parameters()
                        obs.append((f'{stage}: number of parameters', str(len(ps))))
                        for i, p_ in enumerate(ps): add(f'{stage}: parameter {i} ({getattr(p_, "name", "")})', lambda: np.array(p_.data))
                    params('after construction')
                    for r in range(c.get('resets', 0) + 1):        # (one more reset than the signature stages: the probe always resets)
                        try: m.reset_parameters()
                        except Exception as e: obs.append((f'reset_parameters() #{r + 1}', 'raises:' + type(e).__name__))
                        params(f'after reset_parameters() #{r + 1}')
                    add('next draw of the seeded generator', lambda: np.random.rand(2))
                    shp = _geom_input(api, a)
                    x = sg.Tensor(np.linspace(-1, 1, int(np.prod(shp))).reshape(shp).astype(np.float32), requires_grad=True)
                    ys = []
                    def fwd():
                        y = m(x); ys.append(y)
                        return np.array(y.data)
                    add('forward', fwd)
                    if ys:
                        def bwd():
                            ys[0].sum().backward(); return None if x._grad is None else np.array(x._grad)
                        add('backward: input gradient', bwd)
                        for i, p_ in enumerate(m.parameters()): add(f'backward: gradient of parameter {i}', lambda: None if p_._grad is None else np.array(p_._grad))
        finally:
            np.empty, np.empty_like = orig
        runs.append(obs)
    for fill, r in zip(POISONS[1:], runs[1:]):
        if [k for k, _ in r] != [k for k, _ in runs[0]]:
            return f'the observations themselves differ between allocation histories: {[k for k, _ in runs[0]]} vs {[k for k, _ in r]}'
        for (k, v0), (_, v) in zip(runs[0], r):
            if v0 != v:
                return f'{k}: {v0[:120]} (freed / uninitialised buffers held {POISONS[0]}) vs {v[:120]} (they held {fill})'
    return None


REPEAT_SUBS = ('MSELoss', 'MSELoss/sum', 'NLLLoss', 'BCELoss', 'BCEWithLogitsLoss', 'CrossEntropyLoss', 'CrossEntropyLoss/none', 'F.cross_entropy', 'Linear', 'Linear/no-bias', 'Neuron', 'Flatten', 'Dropout/train',
               'MaxPool1d', 'MaxPool2d', 'AvgPool1d', 'AvgPool2d', 'Conv1d', 'Conv2d', 'BatchNorm1d/train', 'BatchNorm1d/eval', 'BatchNorm2d/train', 'BatchNorm2d/cumulative', 'Unfold', 'Fold',
               'ReLU', 'LeakyReLU', 'SELU', 'Sigmoid', 'Tanh', 'Softmax', 'LogSoftmax', 'tensor-ops/pointwise', 'tensor-ops/reduce-index', 'tensor-ops/matmul-join', 'model+loss')
INTERLUDES = ('eval-forward/no_grad', 'eval-forward/tracked', 'validation-pass', 'trainer-test', 'evaluator', 'eval-forward-twice')


NSUBS = 12


def _rep_params(rng, i=None, order=None, trainer=True):
    """what a seeded program repeats: k backward passes over each of NSUBS recorded sub-computations (program i of a run takes
    the i-th window of the run's random order of all of them, so three programs cover every one), and BatchNorm configurations
    (momentum None = cumulative average always among them) trained with 0 / a / b read-only interludes per step.
    `trainer`: may the interludes use Trainer / Evaluator (their import costs a fresh process seconds: the programs that
    meet faults import them anyway, the others leave them out)"""
    if order is None:
        order = list(REPEAT_SUBS); rng.shuffle(order)
    i = rng.randrange(len(order)) if i is None else i
    subs = [order[(NSUBS * i + j) % len(order)] for j in range(NSUBS)]
    bn = [[None, True, rng.chance(.7), rng.pick([1, 2])], [rng.pick([None, 0.1, 0.5, 1.0, 0.0]), rng.chance(.7), rng.chance(.7), rng.pick([1, 2])]]
    pool = [k for k in INTERLUDES if trainer or k not in ('trainer-test', 'evaluator')]
    kinds = [k for k in pool if rng.chance(.5)] or [rng.pick(pool)]
    rng.shuffle(kinds)
    return {'k': rng.pick([2, 3]), 'subs': subs, 'bn': bn, 'counts': [0] + sorted(rng.sample([1, 2, 3], 2)), 'interludes': kinds}


def _signature(c):
    sg = common.impl()
    from synapgrad import nn
    from synapgrad.nn.utils.data import split_dataset
    log = []
    orig = {f: getattr(np.random, f) for f in FNS}
    def wrap(f):
        def g(*a, **k):
            r = orig[f](*a, **k)
            if f == 'shuffle': n = len(a[0])
            else: n = int(np.size(r))
            log.append((f, n)); return r
        return g
    for f in FNS: setattr(np.random, f, wrap(f))
    try:
        api = c['api']
        sh = c.get('shape')
        if c.get('geom'):
            from synapgrad import nn as nn_
            m = _geom_build(nn_, api, c['args'])
            marks = [len(log)]
            for _ in range(c.get('resets', 0)):
                m.reset_parameters(); marks.append(len(log))
            show = lambda l: ','.join(f'{f}:{n}' for f, n in l) or '_'
            return [show(log[(marks[i - 1] if i else 0):marks[i]]) for i in range(len(marks))]
        elif api == 'rand': sg.rand(*sh)
        elif api == 'randn': sg.randn(*sh)
        elif api == 'normal': sg.normal(0.0, 1.0, *sh)
        elif api == 'randint': sg.randint(0, 5, tuple(sh))
        elif api == 'init_uniform': nn.init.uniform_(sg.zeros(*sh))
        elif api == 'init_normal': nn.init.normal_(sg.zeros(*sh))
        elif api == 'init_const': nn.init.constant_(sg.zeros(*sh), 2.0)
        elif api == 'linear': nn.Linear(c['args'][0], c['args'][1], bias=c['args'][2])
        elif api == 'conv1d': nn.Conv1d(c['args'][0], c['args'][1], c['args'][2], bias=c['args'][3])
        elif api == 'conv2d': nn.Conv2d(c['args'][0], c['args'][1], (c['args'][2], c['args'][3]), bias=c['args'][4])
        elif api == 'dropout':
            d = nn.Dropout(0.3)
            if not c['args'][1]: d.eval()
            d(sg.ones(c['args'][0]))
        elif api == 'split':
            n = c['args'][0]
            split_dataset(np.zeros((n, 2)), np.zeros(n), 0.25, None, shuffle=c['args'][1])
    finally:
        for f in FNS: setattr(np.random, f, orig[f])
    return ','.join(f'{f}:{n}' for f, n in log) or '_'


PROGRAM = r'''
import sys, hashlib, types
sys.path.insert(0, STUBS); sys.path.insert(0, REPO)
import numpy as np
import warnings; warnings.simplefilter('ignore')
import synapgrad as sg
from synapgrad import nn, optim
from synapgrad.nn.utils.data import split_dataset
class Fault(Exception): pass
FAULTS = ('no_grad/library-raises', 'no_grad/user-raises', 'no_grad/nested', 'retain_grads/user-raises', 'retain_grads/backward-raises', 'forward/train-mode',
          'optimizer-step', 'backward', 'dataloader/transform-raises', 'trainer/train-callback', 'trainer/validation-callback', 'trainer/validation-criterion', 'trainer/test')
def observe_modes(add):
    # what the process-wide switches do to a computation (not their names): does a product of a leaf track, does a non-leaf keep its gradient
    t = sg.Tensor(np.array([1.0, 2.0]), requires_grad=True)
    y = t * 2.0
    add(np.array([t.requires_grad, y.requires_grad, y.grad_fn is not None, len(y._children)], dtype=np.int64))
    if y.requires_grad:
        (y * y).sum().backward()
        add(np.array([y._grad is None, t._grad is None], dtype=np.int64))
def run_faults(add, faults):
    # the program meets faults, catches them and carries on (a malformed batch, an interrupted step, a callback that gives up);
    # each block is an ordinary, deterministic piece of user code
    from synapgrad.nn.utils.data import DataLoader
    from synapgrad.nn.utils.train import Trainer, Evaluator
    caught = []
    model = nn.Sequential(nn.Linear(4, 3), nn.ReLU(), nn.BatchNorm1d(3), nn.Dropout(0.2), nn.Linear(3, 1))
    opt = optim.SGD(model.parameters(), lr=0.05, momentum=0.5)
    X = np.random.rand(12, 4).astype(np.float32); y = (np.arange(12) % 2).astype(np.float32)
    good, bad = sg.Tensor(X[:4]), sg.Tensor(X[:4, :3])
    def guarded(name, f):
        if name not in faults: return
        try:
            f()
            caught.append(0)
        except (Exception, Fault) as e:
            caught.append(1)
    def f_ng_lib():
        with sg.no_grad():
            add(model(good).data); model(bad)                 # the layer rejects the malformed batch inside the block
    def f_ng_user():
        with sg.no_grad():
            add((good * 2.0).data); raise Fault('give up')
    def f_ng_nested():
        with sg.no_grad():
            try:
                with sg.no_grad():
                    raise Fault('inner')
            except Fault:
                caught.append(2)
            add((good + 1.0).data)
        with sg.no_grad():
            with sg.no_grad():
                model(bad)
    def f_rg_user():
        w = sg.Tensor(np.array([1.0, -2.0, 3.0]), requires_grad=True)
        with sg.retain_grads():
            u = w * w; (u * 3.0).sum().backward(); add(u._grad); add(w._grad)
            raise Fault('after backward')
    def f_rg_bw():
        w = sg.Tensor(np.array([1.0, -2.0, 3.0]), requires_grad=True)
        with sg.retain_grads():
            (w * w).backward()                                # non-scalar root without a gradient: backward raises inside the block
    def f_fwd():
        model.train(); add(model(good).data); model(bad)
    def f_step():
        model.train()
        nn.MSELoss()(model(good).squeeze(dim=1), sg.Tensor(y[:4])).backward()
        last = model.parameters()[-2]
        keep = last._grad
        last._grad = np.zeros((7, 7), dtype=np.float32)       # a corrupted gradient: the update of this parameter raises in the middle of step()
        try: opt.step()
        finally: last._grad = keep
    def f_bw():
        w = sg.Tensor(np.array([[1.0, 2.0], [3.0, 4.0]]), requires_grad=True)
        ((w @ w) * w).backward(sg.Tensor(np.ones((3, 3))))    # gradient of the wrong shape
    def f_dl():
        class TF:
            n = 0
            def __call__(self, dl, Xb, yb):
                TF.n += 1
                if TF.n == 2: raise Fault('bad batch')
                return sg.Tensor(Xb), sg.Tensor(yb)
        dl = DataLoader(X, y, 4, TF())
        for k in range(2):
            try:
                for xb, yb in dl: add(model(xb).data)
            except Fault:
                caught.append(3)
    def trainer():
        tr = Trainer(model, sg)
        tr.compile(nn.MSELoss(), opt, Evaluator(mode=Evaluator.BINARY))
        TFm = lambda dl, Xb, yb: (sg.Tensor(Xb), sg.Tensor(yb))
        return tr, DataLoader(X, y, 4, TFm), DataLoader(X[:8], y[:8], 4, TFm)
    def f_tr_cb():
        tr, tl, vl = trainer()
        n = [0]
        def cb(m, l):
            n[0] += 1
            if n[0] == 2: raise Fault('stop training')
        tr.fit(tl, 3, validation_loader=vl, on_train_epoch=cb)
    def f_val_cb():
        tr, tl, vl = trainer()
        def cb(m, l): raise Fault('stop validating')
        tr.fit(tl, 2, validation_loader=vl, on_validation_epoch=cb)
    def f_val_crit():
        tr, tl, vl = trainer()
        base = nn.MSELoss()
        def crit(out, lab):
            if not model.training: raise Fault('criterion fails on the validation batch')
            return base(out, lab)
        tr.criterion = crit
        tr.fit(tl, 2, validation_loader=vl)
    def f_test():
        tr, tl, vl = trainer()
        class L:
            def __iter__(self):
                yield sg.Tensor(X[:4]), sg.Tensor(y[:4])
                yield sg.Tensor(X[:4, :3]), sg.Tensor(y[:4])      # malformed batch inside Trainer.test's no_grad block
        tr.test(L())
    for name, f in zip(FAULTS, (f_ng_lib, f_ng_user, f_ng_nested, f_rg_user, f_rg_bw, f_fwd, f_step, f_bw, f_dl, f_tr_cb, f_val_cb, f_val_crit, f_test)):
        guarded(name, f)
    add(np.array(caught, dtype=np.int64))
    for p_ in model.parameters(): add(p_.data)
REPEAT_SUBS = ('MSELoss', 'MSELoss/sum', 'NLLLoss', 'BCELoss', 'BCEWithLogitsLoss', 'CrossEntropyLoss', 'CrossEntropyLoss/none', 'F.cross_entropy', 'Linear', 'Linear/no-bias', 'Neuron', 'Flatten', 'Dropout/train',
               'MaxPool1d', 'MaxPool2d', 'AvgPool1d', 'AvgPool2d', 'Conv1d', 'Conv2d', 'BatchNorm1d/train', 'BatchNorm1d/eval', 'BatchNorm2d/train', 'BatchNorm2d/cumulative', 'Unfold', 'Fold',
               'ReLU', 'LeakyReLU', 'SELU', 'Sigmoid', 'Tanh', 'Softmax', 'LogSoftmax', 'tensor-ops/pointwise', 'tensor-ops/reduce-index', 'tensor-ops/matmul-join', 'model+loss')
def run_repeats(add, diffs, k, subs):
    """REPEAT sub-computations: backward k times over the SAME recorded graph (gradients zeroed in between), twice without zeroing
    (accumulation), and the same forward evaluated again — the j-th repetition must reproduce the first one bit for bit"""
    F = sg.nn.functional
    rnd = lambda *sh: (np.random.rand(*sh).astype(np.float32) * 2 - 1)
    def leaf(*sh): return sg.Tensor(rnd(*sh), requires_grad=True)
    labels = lambda n, c: sg.Tensor((np.arange(n) * 2 % c).astype(np.int8), dtype=np.int8)
    def layer(m, *sh, eval_=False, pre=None):
        def make():
            x0 = leaf(*sh); wgt = sg.Tensor(rnd(1)[0] + rnd(*m(sg.Tensor(rnd(*sh))).shape))
            if pre: pre(m)
            m.eval() if eval_ else m.train()
            return [x0] + list(m.parameters()), (lambda: (m(x0 * 1.0) * wgt).sum()), None
        return make
    def loss(L, kind, red='mean'):
        def make():
            if kind == 'class':
                z0 = leaf(5, 4); y = labels(5, 4)
                f = (lambda: L(F.log_softmax(z0 * 1.0, 1), y)) if isinstance(L, nn.NLLLoss) else (lambda: L(z0 * 1.0, y))
            elif kind == 'prob':
                z0 = leaf(6); y = sg.Tensor((np.arange(6) % 2).astype(np.float32)); f = lambda: L(F.sigmoid(z0 * 1.0), y)
            else:
                z0 = leaf(6); y = sg.Tensor(rnd(6) if kind == 'real' else (np.arange(6) % 2).astype(np.float32)); f = lambda: L(z0 * 1.0, y)
            up = sg.Tensor(rnd(5)) if red == 'none' and kind == 'class' else sg.Tensor(rnd(6)) if red == 'none' else None
            return [z0], f, up
        return make
    def warm(m):        # running statistics that are not the initial ones
        m.train(); m(sg.Tensor(rnd(6, m.num_features) if isinstance(m, nn.BatchNorm1d) else rnd(3, m.num_features, 2, 2)))
    def t_pointwise():
        a, b = leaf(2, 3), leaf(2, 3)
        return [a, b], (lambda: ((a * b).exp() / (b * b + 1.5) + (a * a + 0.5).sqrt() * (a * a + 1.0).log() - (a + 2.0) ** 1.5 + (-b).clone() + 2.0 ** a).sum()), None
    def t_reduce():
        a = leaf(3, 4)
        return [a], (lambda: (a.max(1) * a.min(0).sum() + a.mean(0).sum() * a[1:, ::2].sum() + a.transpose(0, 1).reshape((2, 6)).sum(0)[2] + a.squeeze().unsqueeze(0).flatten()[3])), sg.Tensor(rnd(3))
    def t_matmul():
        a, b = leaf(3, 4), leaf(4, 2)
        def f():
            c = a @ b
            parts = sg.unbind(c, 0)
            return (sg.stack([parts[0], parts[2] * parts[1]], 0).sum() + sg.concat([c, c * 2.0], 1).mean()) * c.sum()
        return [a, b], f, None
    def t_model():
        model = nn.Sequential(nn.Conv1d(2, 3, 2), nn.BatchNorm1d(3), nn.ReLU(), nn.MaxPool1d(2), nn.Flatten(), nn.Dropout(0.3), nn.Linear(6, 4))
        x0 = leaf(5, 2, 5); y = labels(5, 4); crit = nn.CrossEntropyLoss()
        return [x0] + list(model.parameters()), (lambda: crit(model(x0), y)), None
    table = {
        'MSELoss': loss(nn.MSELoss(), 'real'), 'MSELoss/sum': loss(nn.MSELoss(reduction='sum'), 'real'), 'NLLLoss': loss(nn.NLLLoss(), 'class'), 'BCELoss': loss(nn.BCELoss(), 'prob'),
        'BCEWithLogitsLoss': loss(nn.BCEWithLogitsLoss(), 'binary'), 'CrossEntropyLoss': loss(nn.CrossEntropyLoss(), 'class'), 'CrossEntropyLoss/none': loss(nn.CrossEntropyLoss(reduction='none'), 'class', 'none'),
        'F.cross_entropy': loss(lambda z, y: F.cross_entropy(z, y).sum(), 'class'),
        'Linear': layer(nn.Linear(3, 2), 4, 3), 'Linear/no-bias': layer(nn.Linear(3, 2, bias=False), 4, 3), 'Neuron': layer(nn.Neuron(3), 4, 3), 'Flatten': layer(nn.Flatten(), 2, 3, 2),
        'Dropout/train': layer(nn.Dropout(0.4), 4, 5), 'MaxPool1d': layer(nn.MaxPool1d(2), 2, 2, 6), 'MaxPool2d': layer(nn.MaxPool2d(2, stride=1), 2, 1, 3, 3), 'AvgPool1d': layer(nn.AvgPool1d(2), 2, 2, 6),
        'AvgPool2d': layer(nn.AvgPool2d(2), 1, 2, 4, 4), 'Conv1d': layer(nn.Conv1d(2, 3, 2, padding=1), 2, 2, 5), 'Conv2d': layer(nn.Conv2d(1, 2, (2, 2), stride=1), 2, 1, 3, 4),
        'BatchNorm1d/train': layer(nn.BatchNorm1d(3), 5, 3), 'BatchNorm1d/eval': layer(nn.BatchNorm1d(3), 5, 3, eval_=True, pre=warm), 'BatchNorm2d/train': layer(nn.BatchNorm2d(2), 3, 2, 2, 2),
        'BatchNorm2d/cumulative': layer(nn.BatchNorm2d(2, momentum=None), 3, 2, 2, 2, pre=warm), 'Unfold': layer(nn.Unfold(2), 1, 2, 3, 3), 'Fold': layer(nn.Fold((3, 3), 2), 1, 8, 4),
        'ReLU': layer(nn.ReLU(), 3, 4), 'LeakyReLU': layer(nn.LeakyReLU(0.1), 3, 4), 'SELU': layer(nn.SELU(), 3, 4), 'Sigmoid': layer(nn.Sigmoid(), 3, 4), 'Tanh': layer(nn.Tanh(), 3, 4),
        'Softmax': layer(nn.Softmax(1), 3, 4), 'LogSoftmax': layer(nn.LogSoftmax(1), 3, 4),
        'tensor-ops/pointwise': t_pointwise, 'tensor-ops/reduce-index': t_reduce, 'tensor-ops/matmul-join': t_matmul, 'model+loss': t_model}
    assert sorted(table) == sorted(REPEAT_SUBS)
    same = lambda a, b: len(a) == len(b) and all((x is None and y is None) or (x is not None and y is not None and x.dtype == y.dtype and x.shape == y.shape and x.tobytes() == y.tobytes()) for x, y in zip(a, b))
    for name in subs:
        leaves, fwd, up = table[name]()
        def grads(root):
            for p in leaves:
                if p.requires_grad: p.zero_()
            root.backward(up) if up is not None else root.backward()
            return [None if p._grad is None else np.array(p._grad) for p in leaves]
        state = np.random.get_state()
        root = fwd()
        out1 = np.array(root.data)
        g1 = grads(root)
        add(out1)
        for g in g1:
            if g is not None: add(g)
        for j in range(2, k + 1):
            if not same(grads(root), g1): diffs.append(f'{name}: backward #{j} over the same recorded graph (gradients zeroed in between) gives gradients that differ from those of backward #1'); break
        ga = grads(root)
        root.backward(up) if up is not None else root.backward()            # a second sweep without zeroing: accumulation
        gacc = [None if p._grad is None else np.array(p._grad) for p in leaves]
        # (a leaf used several times receives its contributions one by one: (g + c1) + c2 is 2g only up to rounding)
        if not all((a is None and b is None) or (a is not None and b is not None and np.allclose(a + a, b, rtol=1e-4, atol=1e-6, equal_nan=True)) for a, b in zip(ga, gacc)):
            diffs.append(f'{name}: two backward passes over the same recorded graph without zeroing do not accumulate to twice the gradient of one pass')
        np.random.set_state(state)
        root2 = fwd()                                                        # the same forward evaluated again (same generator state)
        if not same([np.array(root2.data)], [out1]): diffs.append(f'{name}: the same forward evaluated a second time gives a different value')
        elif not same(grads(root2), g1): diffs.append(f'{name}: the same forward evaluated a second time gives different gradients')
        if not same(grads(root), g1): diffs.append(f'{name}: backward over the first graph after the second evaluation differs from backward #1')
INTERLUDES = ('eval-forward/no_grad', 'eval-forward/tracked', 'validation-pass', 'trainer-test', 'evaluator', 'eval-forward-twice')
def run_interludes(add, diffs, configs, counts, kinds):
    """training steps with a VARIABLE number of read-only interludes (eval-mode forwards, validation passes, Trainer.test) in between:
    final parameters, BatchNorm buffers and predictions must not depend on how many read-only passes ran"""
    if 'trainer-test' in kinds or 'evaluator' in kinds:
        from synapgrad.nn.utils.train import Trainer, Evaluator
    F = sg.nn.functional
    data = np.random.rand(40, 4).astype(np.float32)
    state = np.random.get_state()
    def train(cfg, n_inter):
        momentum, track, affine, dims = cfg
        np.random.set_state(state)
        if dims == 1:
            model = nn.Sequential(nn.Linear(4, 5), nn.BatchNorm1d(5, momentum=momentum, affine=affine, track_running_stats=track), nn.ReLU(), nn.Dropout(0.2), nn.Linear(5, 1))
            shape = lambda a: a
        else:
            model = nn.Sequential(nn.Conv2d(1, 3, (2, 1)), nn.BatchNorm2d(3, momentum=momentum, affine=affine, track_running_stats=track), nn.ReLU(), nn.Flatten(), nn.Dropout(0.2), nn.Linear(6, 1))
            shape = lambda a: a.reshape(len(a), 1, 2, 2)
        bn = model.submodules()[1]
        opt = optim.SGD(model.parameters(), lr=0.05, momentum=0.9)
        mse = nn.MSELoss()
        yv = (data.sum(1) > 2.0).astype(np.float32)
        xval, yval = sg.Tensor(shape(data[30:])), sg.Tensor(yv[30:])
        ev = Evaluator(mode=Evaluator.BINARY) if 'trainer-test' in kinds or 'evaluator' in kinds else None
        def interlude(kind):
            model.eval()
            if kind == 'eval-forward/no_grad':
                with sg.no_grad(): model(xval)
            elif kind == 'eval-forward/tracked': model(xval)
            elif kind == 'eval-forward-twice':
                with sg.no_grad(): model(xval); model(sg.Tensor(shape(data[20:26])))
            elif kind == 'validation-pass':
                with sg.no_grad():
                    for lo in (30, 35): mse(model(sg.Tensor(shape(data[lo:lo + 5]))).squeeze(dim=1), sg.Tensor(yv[lo:lo + 5])).item()
            elif kind == 'trainer-test':
                tr = Trainer(model, sg); tr.compile(mse, opt, ev); tr.test([(xval, yval), (sg.Tensor(shape(data[26:30])), sg.Tensor(yv[26:30]))])
            elif kind == 'evaluator':
                with sg.no_grad(): ev.step(yval, F.sigmoid(model(xval)), prefix='val'); ev.compute(prefix='val')
            model.train()
        for step in range(4):
            model.train()
            xb, yb = sg.Tensor(shape(data[step * 6:step * 6 + 6])), sg.Tensor(yv[step * 6:step * 6 + 6])
            l_ = mse(model(xb).squeeze(dim=1), yb)
            opt.zero_grad(); l_.backward(); opt.step()
            for i in range(n_inter): interlude(kinds[(step + i) % len(kinds)])
        model.eval()
        with sg.no_grad(): pred = model(xval)
        res = {'prediction': np.array(pred.data), 'num_batches_tracked': np.array([-1 if bn.num_batches_tracked is None else int(bn.num_batches_tracked)])}
        for i, p_ in enumerate(model.parameters()): res[f'parameter {i}'] = np.array(p_.data)
        for nm in ('running_mean', 'running_var'):
            b = getattr(bn, nm, None)
            if b is not None: res[nm] = np.array(b.data)
        return res
    for cfg in configs:
        base = train(cfg, 0)
        for k_ in sorted(base): add(base[k_])
        for n_inter in counts:
            if n_inter == 0: continue
            r = train(cfg, n_inter)
            bad = [k_ for k_ in sorted(base) if k_ not in r or r[k_].shape != base[k_].shape or r[k_].tobytes() != base[k_].tobytes()]
            if bad:
                diffs.append(f'BatchNorm{cfg[3]}d(momentum={cfg[0]}, track_running_stats={cfg[1]}, affine={cfg[2]}): 4 training steps with {n_inter} read-only interlude(s) {list(kinds)} after each step end with different {bad} than with none'); break
def program(seed, variant, layout=0, faults=(), rep=None):
    h = hashlib.sha256()
    def add(a): h.update(np.ascontiguousarray(a).tobytes()); h.update(str(a.shape).encode()); h.update(str(a.dtype).encode())
    sg.manual_seed(seed)
    observe_modes(add)
    X = sg.rand(24, 5); add(X.data)
    noise = sg.randn(24, 5); add(noise.data)
    y = sg.randint(0, 3, (24,)); add(y.data)
    add(sg.normal(1.0, 2.0, 3, 2).data)
    (Xtr, ytr), (Xte, yte), val = split_dataset(list((X.data + 0.1 * noise.data)), list(y.data), 0.25, 0.2 if variant % 2 else None, shuffle=True)
    add(Xtr); add(ytr); add(Xte)
    layers = [nn.Linear(5, 6), nn.ReLU(), nn.Dropout(0.25), nn.Linear(6, 3)]
    if variant >= 2:
        layers.insert(1, nn.BatchNorm1d(6))
    model = nn.Sequential(*layers)
    conv = nn.Conv1d(2, 3, 2); conv2 = nn.Conv2d(1, 2, (2, 1)); convnb = nn.Conv1d(1, 2, 1, bias=False)     # parameter draws of layers with several parameters
    for m_ in (conv, conv2, convnb):
        for p_ in m_.parameters(): add(p_.data)
    nn.init.kaiming_uniform_(model.submodules()[0].weight)
    nn.init.xavier_normal_(model.submodules()[-1].weight)
    # (stateful optimizers: whatever state one optimizer object builds up must not reach the next object constructed in the process)
    opt = optim.Adam(model.parameters(), lr=0.05) if variant % 2 else optim.SGD(model.parameters(), lr=0.05, momentum=0.9, nesterov=bool(variant % 4))
    crit = nn.CrossEntropyLoss()
    for step in range(3):
        xb = sg.Tensor(Xtr[step * 4:(step + 1) * 4 + 2]); yb = sg.Tensor(ytr[step * 4:(step + 1) * 4 + 2].astype(np.int8), dtype=np.int8)
        out = model(xb)
        loss = crit(out, yb)
        opt.zero_grad(); loss.backward(); opt.step()
        add(out.data); add(loss.data)
        for p in model.parameters(): add(p.data); add(p._grad)
    # a fan-out graph whose traversal uses a set of tensors
    a = sg.Tensor(np.arange(6.).reshape(2, 3), requires_grad=True)
    parts = [a * a, a + a, a * 2.0, a.sum(0), a.mean()]
    z = (parts[0] * parts[1] + parts[2]).sum() + parts[3].sum() * parts[4]
    z.backward(); add(a.grad.data)
    # float32 fan-out through asymmetric paths: five or more contributions of very different magnitude reach x, so the
    # accumulation ORDER shows in the last bits; `junk` objects allocated in between move the tensors around in memory,
    # so an order that depends on addresses / hashes / id() differs between repetitions
    junk = [sg.Tensor(np.zeros(1)) for _ in range(layout)]
    x = sg.Tensor((np.random.rand(7).astype(np.float32) * 3 + 0.1), requires_grad=True)
    w = [sg.Tensor(np.float32(10.0 ** (k - 3)) * np.random.rand(7).astype(np.float32), requires_grad=True) for k in range(6)]
    del junk[::2]
    t1 = x * w[0] + (x * w[1]).exp()
    t2 = (t1 + x * w[2]) * (x + w[3])
    t3 = t2 + x.sqrt() * w[4] + (x * x) * w[5] + x
    z = (t3 * t3).sum() + (x * t1).sum()
    z.backward(); add(x.grad.data)
    for k in range(6): add(w[k].grad.data)
    # optimizers at the edge of their argument space: eps = 0 with an entry whose gradient is exactly 0 at every step (0/0 in the
    # update: whatever the rule answers there, it has to answer it every time)
    for O in (optim.Adam, optim.AdamW):
        q = sg.Tensor(np.array([1.0, 2.0, 3.0, -1.0, 0.5], dtype=np.float32), requires_grad=True)
        o = O([q], lr=0.1, eps=0.0)
        msk = sg.Tensor(np.array([1.0, 0.0, 2.0, 0.0, 0.0], dtype=np.float32))
        for _ in range(2):
            o.zero_grad(); (q * msk).sum().backward(); o.step(); add(q.data)
    # sub-computations REPEATED inside the run, and training with a variable number of read-only interludes: what the j-th
    # repetition / the run with n interludes produces is compared with the first / with none INSIDE the run (a dependence on the
    # number of repetitions is the same in every run, so the run-to-run comparison of the hashes cannot see it)
    diffs = []
    if rep:
        run_repeats(add, diffs, rep['k'], rep['subs'])
        run_interludes(add, diffs, rep['bn'], rep['counts'], rep['interludes'])
    # faults met and survived at the END of the run: the next run in this process must not notice that they happened
    if faults:
        run_faults(add, faults)
        observe_modes(add)
    return h.hexdigest() + ('|REPEAT-DIFFERS:' + '@@'.join(diffs).replace(' ', '~') if diffs else '')
'''


def _prog_inprocess(seed, variant, layout=0, rep=None):
    ns = {'STUBS': os.path.join(common.VERIF, 'harness', 'stubs'), 'REPO': common.REPO}
    common.impl()
    exec(PROGRAM, ns)
    assert tuple(ns['REPEAT_SUBS']) == REPEAT_SUBS and tuple(ns['INTERLUDES']) == INTERLUDES
    with common.quiet():
        return ns['program'](seed, variant, layout, (), rep)


def _prog_subprocess(seed, variant, hashseed, rep=None):
    code = (f"STUBS={os.path.join(common.VERIF, 'harness', 'stubs')!r}\nREPO={common.REPO!r}\n" + PROGRAM +
            f"\nimport io, contextlib\nwith contextlib.redirect_stdout(io.StringIO()): res = program({seed}, {variant}, {hashseed % 13}, (), {rep!r})\nprint(res)\n")
    env = dict(os.environ, PYTHONHASHSEED=str(hashseed))
    p = subprocess.run([sys.executable, '-c', code], capture_output=True, text=True, env=env, timeout=300)
    if p.returncode != 0:
        return 'rejected:' + p.stderr[-300:]
    return p.stdout.strip().split('\n')[-1]


FAULT_POINTS = ['no_grad/library-raises', 'no_grad/user-raises', 'no_grad/nested', 'retain_grads/user-raises', 'retain_grads/backward-raises', 'forward/train-mode',
                'optimizer-step', 'backward', 'dataloader/transform-raises', 'trainer/train-callback', 'trainer/validation-callback', 'trainer/validation-criterion', 'trainer/test']
NREP_FAULTS = 3


def _prog_faults_subprocess(seed, variant, hashseed, faults, rep=None):
    """the program with its fault section, NREP_FAULTS times in ONE fresh process; returns the list of hashes (a run that raises
    gives `raised:<type>`)"""
    code = (f"STUBS={os.path.join(common.VERIF, 'harness', 'stubs')!r}\nREPO={common.REPO!r}\n" + PROGRAM +
            f"\nassert list(FAULTS) == {FAULT_POINTS!r}\nimport io, contextlib\nres = []\nfor k in range({NREP_FAULTS}):\n"
            f"    try:\n        with contextlib.redirect_stdout(io.StringIO()): res.append(program({seed}, {variant}, {hashseed % 13}, {tuple(faults)!r}, {rep!r}))\n"
            f"    except Exception as e: res.append('raised:' + type(e).__name__ + ':' + str(e)[:80].replace(' ', '_'))\nprint('HASHES ' + ' '.join(res))\n")
    env = dict(os.environ, PYTHONHASHSEED=str(hashseed))
    p = subprocess.run([sys.executable, '-c', code], capture_output=True, text=True, env=env, timeout=300)
    last = [l for l in p.stdout.split('\n') if l.startswith('HASHES ')]
    if p.returncode != 0 or not last:
        return ['rejected:' + p.stderr[-300:]]
    return last[-1].split(' ')[1:]


def _fault_runs(c, faults=None, nproc=None):
    from concurrent.futures import ThreadPoolExecutor
    faults = c['faults'] if faults is None else faults
    with ThreadPoolExecutor(max_workers=min(16, os.cpu_count() or 4)) as ex:
        return list(ex.map(lambda k: _prog_faults_subprocess(c['seed'], c['variant'], 1 + 7919 * k, faults, c.get('rep')), range(nproc or c['hashseeds'])))


NREP = 8


_FAULT_BATCH = []       # the fault cases of the current run: their fresh processes are started together


def _hashes(c):
    if c.get('faults'):
        if any(c is b for b in _FAULT_BATCH):
            if '_runs' not in c:
                from concurrent.futures import ThreadPoolExecutor
                jobs = [(b, k) for b in _FAULT_BATCH for k in range(b['hashseeds'])]
                with ThreadPoolExecutor(max_workers=min(16, os.cpu_count() or 4)) as ex:
                    res = list(ex.map(lambda j: _prog_faults_subprocess(j[0]['seed'], j[0]['variant'], 1 + 7919 * j[1], j[0]['faults'], j[0].get('rep')), jobs))
                for b in _FAULT_BATCH: b['_runs'] = []
                for (b, k), r in zip(jobs, res): b['_runs'].append(r)
            return [h for run in c['_runs'] for h in run]
        return [h for run in _fault_runs(c) for h in run]
    keep = []
    hs = []
    for k in range(NREP):
        hs.append(_prog_inprocess(c['seed'], c['variant'], (5 * k) % 17, c.get('rep')))
        keep.append([object() for _ in range(37 * k)])      # shifts later allocations
    from concurrent.futures import ThreadPoolExecutor
    with ThreadPoolExecutor(max_workers=min(16, os.cpu_count() or 4)) as ex:
        hs += list(ex.map(lambda k: _prog_subprocess(c['seed'], c['variant'], 1 + 7919 * k, c.get('rep')), range(c['hashseeds'])))
    return hs


def impl(c):
    if c['kind'] == 'sig' and c.get('geom'):
        sigs = outcome(lambda: _signature(c))
        if sigs == 'rejected': return ['rejected'] * len(c['lines'])
        bad = outcome(lambda: _geom_probe(c))
        if bad: sigs = [sigs[0] + '|depends-on-allocation-history'] + sigs[1:]
        return sigs
    if c['kind'] == 'sig':
        return [outcome(lambda: _signature(c))]
    hs = outcome(lambda: _hashes(c))
    c['_hs'] = hs
    return ['_']          # the driver line is a dummy; the comparison is between the runs themselves


def compare(c, mo, io):
    if c['kind'] == 'sig':
        return [(c['lines'][0], m, i) for m, i in zip(mo, io) if m != i]
    hs = c.get('_hs')
    if hs == 'rejected' or any(str(h).startswith(('rejected', 'raised')) for h in hs):
        return [('program', 'runs', str(hs)[:300])]
    if len(set(hs)) != 1:
        return [('program', 'identical hashes over repetitions / processes / PYTHONHASHSEED', str(hs)[:600])]
    rd = _repeat_diffs(hs)
    if rd:
        return [('program', 'the j-th repetition of a sub-computation reproduces the first / read-only interludes leave no trace', '; '.join(rd)[:600])]
    return []


def _repeat_diffs(hs):
    """the in-run comparisons that failed (the program appends them to its hash), as readable text, each once"""
    out = []
    for h in hs if isinstance(hs, (list, tuple)) else []:
        if '|REPEAT-DIFFERS:' in str(h):
            for d in str(h).split('|REPEAT-DIFFERS:', 1)[1].split('@@'):
                d = d.replace('~', ' ')
                if d not in out: out.append(d)
    return out


def nontrivial(c):
    return c['kind'] == 'prog' or c['api'] in ('linear', 'conv1d', 'conv2d', 'dropout', 'split') or bool(c.get('geom'))


def distribution(cases):
    d = {}
    for c in cases:
        k = c['kind'] + ':' + c.get('api', f"variant{c.get('variant')}") + ('+faults' if c.get('faults') else '')
        d[k] = d.get(k, 0) + 1
        if c.get('geom'):
            ext = c['args'][:-1]
            for k in (f"layer geometry: {c['api']} " + ('with a zero extent' if 0 in ext else 'all extents 1' if set(ext) == {1} else 'other'),
                      f"layer geometry: reset_parameters() called {c['resets']} more time(s)", f"layer geometry: bias/affine={c['args'][-1]}",
                      f'layer geometry: {len(POISONS)} allocation histories per layer (parameters, next draw, forward, backward bit-compared)'):
                d[k] = d.get(k, 0) + 1
        for f in c.get('faults', []):
            d[f'fault survived: {f}'] = d.get(f'fault survived: {f}', 0) + 1
        r = c.get('rep')
        if r:
            d[f"repeated: {r['k']} backward passes over each of {len(r['subs'])} recorded sub-computations (+ accumulation, + re-evaluated forward)"] = d.get(f"repeated: {r['k']} backward passes over each of {len(r['subs'])} recorded sub-computations (+ accumulation, + re-evaluated forward)", 0) + 1
            for b in r['bn']:
                k = f"interludes: BatchNorm{b[3]}d momentum={b[0]} track_running_stats={b[1]} affine={b[2]}"
                d[k] = d.get(k, 0) + 1
            k = f"interludes: read-only passes per training step {r['counts']}"
            d[k] = d.get(k, 0) + 1
            for i_ in r['interludes']:
                d[f'interlude kind: {i_}'] = d.get(f'interlude kind: {i_}', 0) + 1
    return d


def oracle(c):
    if c['kind'] == 'sig' and c.get('geom'):
        cc = {k: v for k, v in c.items() if not k.startswith('_') and k not in ('lines', 'desc')}
        bad = outcome(lambda: _geom_probe(c))
        if bad:
            d, flag = c['args'][:-1], c['args'][-1]
            return {'key': {'cls': 'layer-depends-on-allocation-history', 'api': c['api']}, 'case': cc,
                    'what': f"after manual_seed({c.get('seed', 0)}), {c['api']} with extents {d} ({'affine' if c['api'].startswith('batchnorm') else 'bias'}={flag}), constructed and reset_parameters() called again, "
                            f"is not bit-identical from run to run - it depends on what freed / uninitialised buffers contain: {bad}"}
        return None
    if c['kind'] == 'sig':
        s = outcome(lambda: _signature(c))
        if s == 'rejected':
            return None
        # a draw through anything but the seeded global generators shows up as a *missing* entry
        m = common.run_driver(['reset'] + c['lines'])[1]
        if s != m:
            # decide by a direct double run: same seed twice must give the same tensor
            return None
        return None
    cc = {k: v for k, v in c.items() if not k.startswith('_') and k not in ('lines', 'desc')}
    if c.get('faults'):
        return _oracle_faults(c, cc)
    hs = outcome(lambda: _hashes(c))
    if hs == 'rejected' or any(str(h).startswith('rejected') for h in hs):
        return {'key': {'cls': 'program-raises'}, 'case': cc, 'what': f'seeded program raised: {hs}'}
    rd = _repeat_diffs(hs)
    if rd:
        return _repeat_failure(cc, rd)
    if len(set(hs)) != 1:
        inproc = len(set(hs[:NREP])) != 1
        return {'key': {'cls': 'in-process' if inproc else 'across-processes'}, 'case': cc,
                'what': f'the same seeded program produced different bit patterns ({"repeated in one process" if inproc else "in fresh processes under different PYTHONHASHSEED"}): {hs}'}
    return None


def _repeat_failure(cc, rd):
    """a repetition inside the seeded program did not reproduce the first one: shrink the program's repeated part to the first
    sub-computation / BatchNorm configuration named (the replayed case then runs only that one)"""
    first = rd[0]
    name = first.split(':', 1)[0]
    rep = dict(cc.get('rep') or {})
    if name in REPEAT_SUBS:
        small = dict(rep, subs=[name], bn=[])
    else:
        small = dict(rep, subs=[], bn=[b for b in rep.get('bn', []) if first.startswith(f'BatchNorm{b[3]}d(momentum={b[0]}, track_running_stats={b[1]}, affine={b[2]})')][:1] or rep.get('bn', []))
    c2 = dict(cc, rep=small, hashseeds=1)
    c2.pop('faults', None)
    hs2 = outcome(lambda: [_prog_inprocess(c2['seed'], c2['variant'], 0, small), _prog_subprocess(c2['seed'], c2['variant'], 1, small)])
    rd2 = _repeat_diffs(hs2)
    if rd2: cc, rd = c2, rd2
    return {'key': {'cls': 'repetition', 'sub': name}, 'case': cc,
            'what': 'inside one run of the seeded program (manual_seed, fixed data) a repeated computation does not reproduce itself: ' + '; '.join(rd)[:1500]}


def _oracle_faults(c, cc):
    """the program with its fault section, three times in one fresh process: every fault point of the case alone first (the
    smallest failing program), then all of them together"""
    def judge(runs):
        flat = [h for r in runs for h in r]
        if any(h.startswith('rejected') for h in flat):
            return 'program-raises', f'the fresh process failed: {flat}'
        if _repeat_diffs(flat):
            return 'repetition', '; '.join(_repeat_diffs(flat))[:1500]
        for r in runs:
            if len(set(r)) != 1:
                return 'in-process-after-fault', f'runs 1..{len(r)} of the same seeded program in ONE fresh process gave {r}'
        if len(set(flat)) != 1:
            return 'across-processes', f'fresh processes under different PYTHONHASHSEED gave {flat}'
        return None
    singles = [[f] for f in c['faults']] if len(c['faults']) > 1 else []
    sets = singles + [list(c['faults'])]
    from concurrent.futures import ThreadPoolExecutor
    jobs = [(i, k) for i in range(len(sets)) for k in range(2)]
    with ThreadPoolExecutor(max_workers=min(16, os.cpu_count() or 4)) as ex:
        res = list(ex.map(lambda j: _prog_faults_subprocess(c['seed'], c['variant'], 1 + 7919 * j[1], sets[j[0]], c.get('rep')), jobs))
    for i, fs in enumerate(sets):
        v = judge([r for (i_, _), r in zip(jobs, res) if i_ == i])
        if v and v[0] == 'repetition':
            return _repeat_failure(cc, _repeat_diffs([h for r in res for h in r]))
        if v:
            return {'key': {'cls': v[0], 'faults': fs}, 'case': dict(cc, faults=fs),
                    'what': f'a seeded program that met and survived the fault(s) {fs} does not reproduce itself: {v[1]}'}
    return None


def search(rng, tier):
    c = {'kind': 'prog', 'seed': rng.randrange(2 ** 31), 'variant': rng.randrange(4), 'hashseeds': 2, 'faults': list(FAULT_POINTS), 'rep': _rep_params(rng), 'lines': ['rng dropout 1 0']}
    f = oracle(c)
    if f: yield f
    order = list(REPEAT_SUBS); rng.shuffle(order)
    for v in range(4):
        c = {'kind': 'prog', 'seed': rng.randrange(2 ** 31), 'variant': v, 'hashseeds': 4, 'rep': _rep_params(rng, v, order, False), 'lines': ['rng dropout 1 0']}
        f = oracle(c)
        if f: yield f


def matches_known(k, fail): return k.get('key') == fail.get('key')
def rerun_known(k): return oracle(k['witness']) is not None
def replay(fail):
    f = oracle(fail['case'])
    return {'fails': f is not None, 'now': f}
