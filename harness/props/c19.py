"""C19 — reproducibility under manual_seed, independence of hash order"""
import os, sys, json, subprocess, hashlib
import numpy as np
import common
from common import show_ints, outcome

PROP = 'C19'
LEAN_TARGETS = ['Props.C19']
REQUIRED_THEOREMS = ['Props.C19.persistent_state_is_the_documented_one', 'Props.C19.randomsites_seeded', 'Props.C19.draws_seeded', 'Props.C19.seeded_noninterference']
RULE = ('(a) draw signatures: every random-consuming API (rand/randn/normal/randint, nn.init, Linear/Conv constructors, Dropout, '
        'shuffled split) is called with np.random.* wrapped and the (function, count) sequence must equal the model; '
        '(b) seeded programs (random tensors, layers with init, dropout, shuffled split, 3 SGD/Adam steps, an integer fan-out graph and a '
        'float32 fan-out graph whose six-fold accumulation order shows in the last bits) are hashed (tensors, gradients, parameters, '
        'bit patterns) 8 times in-process with different amounts of live garbage in between (so addresses differ) and in fresh '
        'processes under 3 (quick) / 12 (thorough) PYTHONHASHSEED values and allocation preludes; all hashes must be identical. '
        'Non-trivial: a program that draws from >= 3 different APIs and trains.')
EXHAUSTIVE = {'quick': False, 'thorough': False}
ASSUMPTIONS = ['NumPy generators and BLAS are deterministic given the same state and inputs (not modelled)']
TRUSTED_BASE = ['harness/props/c19.py', 'harness/extract.py (random-site extractor)']

FNS = ['rand', 'randn', 'normal', 'randint', 'uniform', 'shuffle']


def extract():
    import extract as ex
    return ex.write_random_sites() + ex.write_persistent_sites()


def cases(rng, tier):
    out = []
    for _ in range(12 if tier == 'quick' else 200):
        sh = [rng.randint(1, 4) for _ in range(rng.randint(1, 3))]
        for k in ('rand', 'randn', 'normal', 'randint', 'init_uniform', 'init_normal', 'init_const'):
            out.append({'kind': 'sig', 'api': k, 'shape': sh, 'lines': [f'rng {k} {show_ints(sh)}']})
        i, o, b = rng.randint(1, 5), rng.randint(1, 5), rng.chance(.6)
        out.append({'kind': 'sig', 'api': 'linear', 'args': [i, o, b], 'lines': [f'rng linear {i} {o} {int(b)}']})
        ci, co, k = rng.randint(1, 3), rng.randint(1, 3), rng.randint(1, 3)
        out.append({'kind': 'sig', 'api': 'conv1d', 'args': [ci, co, k, b], 'lines': [f'rng conv1d {ci} {co} {k} {int(b)}']})
        kh, kw = rng.randint(1, 3), rng.randint(1, 3)
        out.append({'kind': 'sig', 'api': 'conv2d', 'args': [ci, co, kh, kw, b], 'lines': [f'rng conv2d {ci} {co} {kh} {kw} {int(b)}']})
        n, tr = rng.randint(1, 9), rng.chance(.7)
        out.append({'kind': 'sig', 'api': 'dropout', 'args': [n, tr], 'lines': [f'rng dropout {n} {int(tr)}']})
        n, sh_ = rng.randint(0, 9), rng.chance(.6)
        out.append({'kind': 'sig', 'api': 'split', 'args': [n, sh_], 'lines': [f'rng split {n} {int(sh_)}']})
    nprog = 6 if tier == 'quick' else 40
    for k in range(nprog):       # boundary seeds first
        out.append({'kind': 'prog', 'seed': [0, 1, 2 ** 32 - 1][k] if k < 3 else rng.randrange(2 ** 31), 'variant': rng.randrange(4), 'hashseeds': 6 if tier == 'quick' else 12, 'lines': ['rng dropout 1 0']})
    for c in out:
        c['desc'] = {k: v for k, v in c.items() if k != 'lines'}
    return out


def _signature(c):
    sg = common.impl()
    from synapgrad import nn
    from synapgrad.nn.utils.data import split_dataset
    log = []
    orig = {f: getattr(np.random, f) for f in FNS}
    def wrap(f):
        def g(*a, **k):
            r = orig[f](*a, **k)
            if f == 'shuffle': n = len(a[0])
            else: n = int(np.size(r))
            log.append((f, n)); return r
        return g
    for f in FNS: setattr(np.random, f, wrap(f))
    try:
        api = c['api']
        sh = c.get('shape')
        if api == 'rand': sg.rand(*sh)
        elif api == 'randn': sg.randn(*sh)
        elif api == 'normal': sg.normal(0.0, 1.0, *sh)
        elif api == 'randint': sg.randint(0, 5, tuple(sh))
        elif api == 'init_uniform': nn.init.uniform_(sg.zeros(*sh))
        elif api == 'init_normal': nn.init.normal_(sg.zeros(*sh))
        elif api == 'init_const': nn.init.constant_(sg.zeros(*sh), 2.0)
        elif api == 'linear': nn.Linear(c['args'][0], c['args'][1], bias=c['args'][2])
        elif api == 'conv1d': nn.Conv1d(c['args'][0], c['args'][1], c['args'][2], bias=c['args'][3])
        elif api == 'conv2d': nn.Conv2d(c['args'][0], c['args'][1], (c['args'][2], c['args'][3]), bias=c['args'][4])
        elif api == 'dropout':
            d = nn.Dropout(0.3)
            if not c['args'][1]: d.eval()
            d(sg.ones(c['args'][0]))
        elif api == 'split':
            n = c['args'][0]
            split_dataset(np.zeros((n, 2)), np.zeros(n), 0.25, None, shuffle=c['args'][1])
    finally:
        for f in FNS: setattr(np.random, f, orig[f])
    return ','.join(f'{f}:{n}' for f, n in log) or '_'


PROGRAM = r'''
import sys, hashlib, types
sys.path.insert(0, STUBS); sys.path.insert(0, REPO)
import numpy as np
import warnings; warnings.simplefilter('ignore')
import synapgrad as sg
from synapgrad import nn, optim
from synapgrad.nn.utils.data import split_dataset
def program(seed, variant, layout=0):
    h = hashlib.sha256()
    def add(a): h.update(np.ascontiguousarray(a).tobytes()); h.update(str(a.shape).encode()); h.update(str(a.dtype).encode())
    sg.manual_seed(seed)
    X = sg.rand(24, 5); add(X.data)
    noise = sg.randn(24, 5); add(noise.data)
    y = sg.randint(0, 3, (24,)); add(y.data)
    add(sg.normal(1.0, 2.0, 3, 2).data)
    (Xtr, ytr), (Xte, yte), val = split_dataset(list((X.data + 0.1 * noise.data)), list(y.data), 0.25, 0.2 if variant % 2 else None, shuffle=True)
    add(Xtr); add(ytr); add(Xte)
    layers = [nn.Linear(5, 6), nn.ReLU(), nn.Dropout(0.25), nn.Linear(6, 3)]
    if variant >= 2:
        layers.insert(1, nn.BatchNorm1d(6))
    model = nn.Sequential(*layers)
    conv = nn.Conv1d(2, 3, 2); conv2 = nn.Conv2d(1, 2, (2, 1)); convnb = nn.Conv1d(1, 2, 1, bias=False)     # parameter draws of layers with several parameters
    for m_ in (conv, conv2, convnb):
        for p_ in m_.parameters(): add(p_.data)
    nn.init.kaiming_uniform_(model.submodules()[0].weight)
    nn.init.xavier_normal_(model.submodules()[-1].weight)
    # (stateful optimizers: whatever state one optimizer object builds up must not reach the next object constructed in the process)
    opt = optim.Adam(model.parameters(), lr=0.05) if variant % 2 else optim.SGD(model.parameters(), lr=0.05, momentum=0.9, nesterov=bool(variant % 4))
    crit = nn.CrossEntropyLoss()
    for step in range(3):
        xb = sg.Tensor(Xtr[step * 4:(step + 1) * 4 + 2]); yb = sg.Tensor(ytr[step * 4:(step + 1) * 4 + 2].astype(np.int8), dtype=np.int8)
        out = model(xb)
        loss = crit(out, yb)
        opt.zero_grad(); loss.backward(); opt.step()
        add(out.data); add(loss.data)
        for p in model.parameters(): add(p.data); add(p._grad)
    # a fan-out graph whose traversal uses a set of tensors
    a = sg.Tensor(np.arange(6.).reshape(2, 3), requires_grad=True)
    parts = [a * a, a + a, a * 2.0, a.sum(0), a.mean()]
    z = (parts[0] * parts[1] + parts[2]).sum() + parts[3].sum() * parts[4]
    z.backward(); add(a.grad.data)
    # float32 fan-out through asymmetric paths: five or more contributions of very different magnitude reach x, so the
    # accumulation ORDER shows in the last bits; `junk` objects allocated in between move the tensors around in memory,
    # so an order that depends on addresses / hashes / id() differs between repetitions
    junk = [sg.Tensor(np.zeros(1)) for _ in range(layout)]
    x = sg.Tensor((np.random.rand(7).astype(np.float32) * 3 + 0.1), requires_grad=True)
    w = [sg.Tensor(np.float32(10.0 ** (k - 3)) * np.random.rand(7).astype(np.float32), requires_grad=True) for k in range(6)]
    del junk[::2]
    t1 = x * w[0] + (x * w[1]).exp()
    t2 = (t1 + x * w[2]) * (x + w[3])
    t3 = t2 + x.sqrt() * w[4] + (x * x) * w[5] + x
    z = (t3 * t3).sum() + (x * t1).sum()
    z.backward(); add(x.grad.data)
    for k in range(6): add(w[k].grad.data)
    # optimizers at the edge of their argument space: eps = 0 with an entry whose gradient is exactly 0 at every step (0/0 in the
    # update: whatever the rule answers there, it has to answer it every time)
    for O in (optim.Adam, optim.AdamW):
        q = sg.Tensor(np.array([1.0, 2.0, 3.0, -1.0, 0.5], dtype=np.float32), requires_grad=True)
        o = O([q], lr=0.1, eps=0.0)
        msk = sg.Tensor(np.array([1.0, 0.0, 2.0, 0.0, 0.0], dtype=np.float32))
        for _ in range(2):
            o.zero_grad(); (q * msk).sum().backward(); o.step(); add(q.data)
    return h.hexdigest()
'''


def _prog_inprocess(seed, variant, layout=0):
    ns = {'STUBS': os.path.join(common.VERIF, 'harness', 'stubs'), 'REPO': common.REPO}
    common.impl()
    exec(PROGRAM, ns)
    with common.quiet():
        return ns['program'](seed, variant, layout)


def _prog_subprocess(seed, variant, hashseed):
    code = f"STUBS={os.path.join(common.VERIF, 'harness', 'stubs')!r}\nREPO={common.REPO!r}\n" + PROGRAM + f"\nprint(program({seed}, {variant}, {hashseed % 13}))\n"
    env = dict(os.environ, PYTHONHASHSEED=str(hashseed))
    p = subprocess.run([sys.executable, '-c', code], capture_output=True, text=True, env=env, timeout=300)
    if p.returncode != 0:
        return 'rejected:' + p.stderr[-300:]
    return p.stdout.strip().split('\n')[-1]


NREP = 8


def _hashes(c):
    keep = []
    hs = []
    for k in range(NREP):
        hs.append(_prog_inprocess(c['seed'], c['variant'], (5 * k) % 17))
        keep.append([object() for _ in range(37 * k)])      # shifts later allocations
    from concurrent.futures import ThreadPoolExecutor
    with ThreadPoolExecutor(max_workers=min(16, os.cpu_count() or 4)) as ex:
        hs += list(ex.map(lambda k: _prog_subprocess(c['seed'], c['variant'], 1 + 7919 * k), range(c['hashseeds'])))
    return hs


def impl(c):
    if c['kind'] == 'sig':
        return [outcome(lambda: _signature(c))]
    hs = outcome(lambda: _hashes(c))
    c['_hs'] = hs
    return ['_']          # the driver line is a dummy; the comparison is between the runs themselves


def compare(c, mo, io):
    if c['kind'] == 'sig':
        return [(c['lines'][0], m, i) for m, i in zip(mo, io) if m != i]
    hs = c.get('_hs')
    if hs == 'rejected' or any(str(h).startswith('rejected') for h in hs):
        return [('program', 'runs', str(hs)[:300])]
    if len(set(hs)) != 1:
        return [('program', 'identical hashes over repetitions / processes / PYTHONHASHSEED', str(hs))]
    return []


def nontrivial(c):
    return c['kind'] == 'prog' or c['api'] in ('linear', 'conv1d', 'conv2d', 'dropout', 'split')


def distribution(cases):
    d = {}
    for c in cases:
        k = c['kind'] + ':' + c.get('api', f"variant{c.get('variant')}")
        d[k] = d.get(k, 0) + 1
    return d


def oracle(c):
    if c['kind'] == 'sig':
        s = outcome(lambda: _signature(c))
        if s == 'rejected':
            return None
        # a draw through anything but the seeded global generators shows up as a *missing* entry
        m = common.run_driver(['reset'] + c['lines'])[1]
        if s != m:
            # decide by a direct double run: same seed twice must give the same tensor
            return None
        return None
    hs = outcome(lambda: _hashes(c))
    cc = {k: v for k, v in c.items() if not k.startswith('_') and k not in ('lines', 'desc')}
    if hs == 'rejected' or any(str(h).startswith('rejected') for h in hs):
        return {'key': {'cls': 'program-raises'}, 'case': cc, 'what': f'seeded program raised: {hs}'}
    if len(set(hs)) != 1:
        inproc = len(set(hs[:NREP])) != 1
        return {'key': {'cls': 'in-process' if inproc else 'across-processes'}, 'case': cc,
                'what': f'the same seeded program produced different bit patterns ({"repeated in one process" if inproc else "in fresh processes under different PYTHONHASHSEED"}): {hs}'}
    return None


def search(rng, tier):
    for v in range(4):
        c = {'kind': 'prog', 'seed': rng.randrange(2 ** 31), 'variant': v, 'hashseeds': 4, 'lines': ['rng dropout 1 0']}
        f = oracle(c)
        if f: yield f


def matches_known(k, fail): return k.get('key') == fail.get('key')
def rerun_known(k): return oracle(k['witness']) is not None
def replay(fail):
    f = oracle(fail['case'])
    return {'fails': f is not None, 'now': f}
