"""C19 — reproducibility under manual_seed, independence of hash order"""
import os, sys, json, subprocess, hashlib
import numpy as np
import common
from common import show_ints, outcome

PROP = 'C19'
LEAN_TARGETS = ['Props.C19']
REQUIRED_THEOREMS = ['Props.C19.persistent_state_is_the_documented_one', 'Props.C19.randomsites_seeded', 'Props.C19.draws_seeded', 'Props.C19.seeded_noninterference']
RULE = ('(a) draw signatures: every random-consuming API (rand/randn/normal/randint, nn.init, Linear/Conv constructors, Dropout, '
        'shuffled split) is called with np.random.* wrapped and the (function, count) sequence must equal the model; '
        '(b) seeded programs (random tensors, layers with init, dropout, shuffled split, 3 SGD/Adam steps, an integer fan-out graph and a '
        'float32 fan-out graph whose six-fold accumulation order shows in the last bits) are hashed (tensors, gradients, parameters, '
        'bit patterns) 8 times in-process with different amounts of live garbage in between (so addresses differ) and in fresh '
        'processes under 3 (quick) / 12 (thorough) PYTHONHASHSEED values and allocation preludes; all hashes must be identical. '
        '(c) FAULTS: the same programs ending in a section where the program meets faults, catches them and carries on — an exception raised by the library or by user code inside no_grad (plain, nested) / retain_grads blocks, '
        'inside Module.forward in training mode, inside optimizer.step (corrupted gradient), inside backward, inside a DataLoader transform, inside the Trainer callbacks, inside the criterion during validation, inside Trainer.test — '
        'every subset drawn per case, one case with all of them; each such program is run three times in ONE fresh process (and in several processes): the second and third run must reproduce the first '
        '(each run also hashes what the process-wide switches do: whether a product of a leaf tracks, whether a non-leaf keeps its gradient). '
        'Non-trivial: a program that draws from >= 3 different APIs and trains.')
EXHAUSTIVE = {'quick': False, 'thorough': False}
ASSUMPTIONS = ['NumPy generators and BLAS are deterministic given the same state and inputs (not modelled)']
TRUSTED_BASE = ['harness/props/c19.py', 'harness/extract.py (random-site extractor)']

FNS = ['rand', 'randn', 'normal', 'randint', 'uniform', 'shuffle']


def extract():
    import extract as ex
    return ex.write_random_sites() + ex.write_persistent_sites()


def cases(rng, tier):
    out = []
    for _ in range(12 if tier == 'quick' else 200):
        sh = [rng.randint(1, 4) for _ in range(rng.randint(1, 3))]
        for k in ('rand', 'randn', 'normal', 'randint', 'init_uniform', 'init_normal', 'init_const'):
            out.append({'kind': 'sig', 'api': k, 'shape': sh, 'lines': [f'rng {k} {show_ints(sh)}']})
        i, o, b = rng.randint(1, 5), rng.randint(1, 5), rng.chance(.6)
        out.append({'kind': 'sig', 'api': 'linear', 'args': [i, o, b], 'lines': [f'rng linear {i} {o} {int(b)}']})
        ci, co, k = rng.randint(1, 3), rng.randint(1, 3), rng.randint(1, 3)
        out.append({'kind': 'sig', 'api': 'conv1d', 'args': [ci, co, k, b], 'lines': [f'rng conv1d {ci} {co} {k} {int(b)}']})
        kh, kw = rng.randint(1, 3), rng.randint(1, 3)
        out.append({'kind': 'sig', 'api': 'conv2d', 'args': [ci, co, kh, kw, b], 'lines': [f'rng conv2d {ci} {co} {kh} {kw} {int(b)}']})
        n, tr = rng.randint(1, 9), rng.chance(.7)
        out.append({'kind': 'sig', 'api': 'dropout', 'args': [n, tr], 'lines': [f'rng dropout {n} {int(tr)}']})
        n, sh_ = rng.randint(0, 9), rng.chance(.6)
        out.append({'kind': 'sig', 'api': 'split', 'args': [n, sh_], 'lines': [f'rng split {n} {int(sh_)}']})
    nprog = 6 if tier == 'quick' else 40
    for k in range(nprog):       # boundary seeds first
        out.append({'kind': 'prog', 'seed': [0, 1, 2 ** 32 - 1][k] if k < 3 else rng.randrange(2 ** 31), 'variant': rng.randrange(4), 'hashseeds': 6 if tier == 'quick' else 12, 'lines': ['rng dropout 1 0']})
    # programs that meet faults and survive them: all fault points at once, then random subsets (order of the blocks is fixed)
    for k in range(4 if tier == 'quick' else 40):
        fs = list(FAULT_POINTS) if k == 0 else [f for f in FAULT_POINTS if rng.chance(.35)] or [rng.pick(FAULT_POINTS)]
        out.append({'kind': 'prog', 'seed': rng.randrange(2 ** 31), 'variant': rng.randrange(4), 'hashseeds': 2 if tier == 'quick' else 6, 'faults': fs, 'lines': ['rng dropout 1 0']})
    for c in out:
        c['desc'] = {k: v for k, v in c.items() if k != 'lines'}
    _FAULT_BATCH[:] = [c for c in out if c.get('faults')]
    return out


def _signature(c):
    sg = common.impl()
    from synapgrad import nn
    from synapgrad.nn.utils.data import split_dataset
    log = []
    orig = {f: getattr(np.random, f) for f in FNS}
    def wrap(f):
        def g(*a, **k):
            r = orig[f](*a, **k)
            if f == 'shuffle': n = len(a[0])
            else: n = int(np.size(r))
            log.append((f, n)); return r
        return g
    for f in FNS: setattr(np.random, f, wrap(f))
    try:
        api = c['api']
        sh = c.get('shape')
        if api == 'rand': sg.rand(*sh)
        elif api == 'randn': sg.randn(*sh)
        elif api == 'normal': sg.normal(0.0, 1.0, *sh)
        elif api == 'randint': sg.randint(0, 5, tuple(sh))
        elif api == 'init_uniform': nn.init.uniform_(sg.zeros(*sh))
        elif api == 'init_normal': nn.init.normal_(sg.zeros(*sh))
        elif api == 'init_const': nn.init.constant_(sg.zeros(*sh), 2.0)
        elif api == 'linear': nn.Linear(c['args'][0], c['args'][1], bias=c['args'][2])
        elif api == 'conv1d': nn.Conv1d(c['args'][0], c['args'][1], c['args'][2], bias=c['args'][3])
        elif api == 'conv2d': nn.Conv2d(c['args'][0], c['args'][1], (c['args'][2], c['args'][3]), bias=c['args'][4])
        elif api == 'dropout':
            d = nn.Dropout(0.3)
            if not c['args'][1]: d.eval()
            d(sg.ones(c['args'][0]))
        elif api == 'split':
            n = c['args'][0]
            split_dataset(np.zeros((n, 2)), np.zeros(n), 0.25, None, shuffle=c['args'][1])
    finally:
        for f in FNS: setattr(np.random, f, orig[f])
    return ','.join(f'{f}:{n}' for f, n in log) or '_'


PROGRAM = r'''
import sys, hashlib, types
sys.path.insert(0, STUBS); sys.path.insert(0, REPO)
import numpy as np
import warnings; warnings.simplefilter('ignore')
import synapgrad as sg
from synapgrad import nn, optim
from synapgrad.nn.utils.data import split_dataset
class Fault(Exception): pass
FAULTS = ('no_grad/library-raises', 'no_grad/user-raises', 'no_grad/nested', 'retain_grads/user-raises', 'retain_grads/backward-raises', 'forward/train-mode',
          'optimizer-step', 'backward', 'dataloader/transform-raises', 'trainer/train-callback', 'trainer/validation-callback', 'trainer/validation-criterion', 'trainer/test')
def observe_modes(add):
    # what the process-wide switches do to a computation (not their names): does a product of a leaf track, does a non-leaf keep its gradient
    t = sg.Tensor(np.array([1.0, 2.0]), requires_grad=True)
    y = t * 2.0
    add(np.array([t.requires_grad, y.requires_grad, y.grad_fn is not None, len(y._children)], dtype=np.int64))
    if y.requires_grad:
        (y * y).sum().backward()
        add(np.array([y._grad is None, t._grad is None], dtype=np.int64))
def run_faults(add, faults):
    # the program meets faults, catches them and carries on (a malformed batch, an interrupted step, a callback that gives up);
    # each block is an ordinary, deterministic piece of user code
    from synapgrad.nn.utils.data import DataLoader
    from synapgrad.nn.utils.train import Trainer, Evaluator
    caught = []
    model = nn.Sequential(nn.Linear(4, 3), nn.ReLU(), nn.BatchNorm1d(3), nn.Dropout(0.2), nn.Linear(3, 1))
    opt = optim.SGD(model.parameters(), lr=0.05, momentum=0.5)
    X = np.random.rand(12, 4).astype(np.float32); y = (np.arange(12) % 2).astype(np.float32)
    good, bad = sg.Tensor(X[:4]), sg.Tensor(X[:4, :3])
    def guarded(name, f):
        if name not in faults: return
        try:
            f()
            caught.append(0)
        except (Exception, Fault) as e:
            caught.append(1)
    def f_ng_lib():
        with sg.no_grad():
            add(model(good).data); model(bad)                 # the layer rejects the malformed batch inside the block
    def f_ng_user():
        with sg.no_grad():
            add((good * 2.0).data); raise Fault('give up')
    def f_ng_nested():
        with sg.no_grad():
            try:
                with sg.no_grad():
                    raise Fault('inner')
            except Fault:
                caught.append(2)
            add((good + 1.0).data)
        with sg.no_grad():
            with sg.no_grad():
                model(bad)
    def f_rg_user():
        w = sg.Tensor(np.array([1.0, -2.0, 3.0]), requires_grad=True)
        with sg.retain_grads():
            u = w * w; (u * 3.0).sum().backward(); add(u._grad); add(w._grad)
            raise Fault('after backward')
    def f_rg_bw():
        w = sg.Tensor(np.array([1.0, -2.0, 3.0]), requires_grad=True)
        with sg.retain_grads():
            (w * w).backward()                                # non-scalar root without a gradient: backward raises inside the block
    def f_fwd():
        model.train(); add(model(good).data); model(bad)
    def f_step():
        model.train()
        nn.MSELoss()(model(good).squeeze(dim=1), sg.Tensor(y[:4])).backward()
        last = model.parameters()[-2]
        keep = last._grad
        last._grad = np.zeros((7, 7), dtype=np.float32)       # a corrupted gradient: the update of this parameter raises in the middle of step()
        try: opt.step()
        finally: last._grad = keep
    def f_bw():
        w = sg.Tensor(np.array([[1.0, 2.0], [3.0, 4.0]]), requires_grad=True)
        ((w @ w) * w).backward(sg.Tensor(np.ones((3, 3))))    # gradient of the wrong shape
    def f_dl():
        class TF:
            n = 0
            def __call__(self, dl, Xb, yb):
                TF.n += 1
                if TF.n == 2: raise Fault('bad batch')
                return sg.Tensor(Xb), sg.Tensor(yb)
        dl = DataLoader(X, y, 4, TF())
        for k in range(2):
            try:
                for xb, yb in dl: add(model(xb).data)
            except Fault:
                caught.append(3)
    def trainer():
        tr = Trainer(model, sg)
        tr.compile(nn.MSELoss(), opt, Evaluator(mode=Evaluator.BINARY))
        TFm = lambda dl, Xb, yb: (sg.Tensor(Xb), sg.Tensor(yb))
        return tr, DataLoader(X, y, 4, TFm), DataLoader(X[:8], y[:8], 4, TFm)
    def f_tr_cb():
        tr, tl, vl = trainer()
        n = [0]
        def cb(m, l):
            n[0] += 1
            if n[0] == 2: raise Fault('stop training')
        tr.fit(tl, 3, validation_loader=vl, on_train_epoch=cb)
    def f_val_cb():
        tr, tl, vl = trainer()
        def cb(m, l): raise Fault('stop validating')
        tr.fit(tl, 2, validation_loader=vl, on_validation_epoch=cb)
    def f_val_crit():
        tr, tl, vl = trainer()
        base = nn.MSELoss()
        def crit(out, lab):
            if not model.training: raise Fault('criterion fails on the validation batch')
            return base(out, lab)
        tr.criterion = crit
        tr.fit(tl, 2, validation_loader=vl)
    def f_test():
        tr, tl, vl = trainer()
        class L:
            def __iter__(self):
                yield sg.Tensor(X[:4]), sg.Tensor(y[:4])
                yield sg.Tensor(X[:4, :3]), sg.Tensor(y[:4])      # malformed batch inside Trainer.test's no_grad block
        tr.test(L())
    for name, f in zip(FAULTS, (f_ng_lib, f_ng_user, f_ng_nested, f_rg_user, f_rg_bw, f_fwd, f_step, f_bw, f_dl, f_tr_cb, f_val_cb, f_val_crit, f_test)):
        guarded(name, f)
    add(np.array(caught, dtype=np.int64))
    for p_ in model.parameters(): add(p_.data)
def program(seed, variant, layout=0, faults=()):
    h = hashlib.sha256()
    def add(a): h.update(np.ascontiguousarray(a).tobytes()); h.update(str(a.shape).encode()); h.update(str(a.dtype).encode())
    sg.manual_seed(seed)
    observe_modes(add)
    X = sg.rand(24, 5); add(X.data)
    noise = sg.randn(24, 5); add(noise.data)
    y = sg.randint(0, 3, (24,)); add(y.data)
    add(sg.normal(1.0, 2.0, 3, 2).data)
    (Xtr, ytr), (Xte, yte), val = split_dataset(list((X.data + 0.1 * noise.data)), list(y.data), 0.25, 0.2 if variant % 2 else None, shuffle=True)
    add(Xtr); add(ytr); add(Xte)
    layers = [nn.Linear(5, 6), nn.ReLU(), nn.Dropout(0.25), nn.Linear(6, 3)]
    if variant >= 2:
        layers.insert(1, nn.BatchNorm1d(6))
    model = nn.Sequential(*layers)
    conv = nn.Conv1d(2, 3, 2); conv2 = nn.Conv2d(1, 2, (2, 1)); convnb = nn.Conv1d(1, 2, 1, bias=False)     # parameter draws of layers with several parameters
    for m_ in (conv, conv2, convnb):
        for p_ in m_.parameters(): add(p_.data)
    nn.init.kaiming_uniform_(model.submodules()[0].weight)
    nn.init.xavier_normal_(model.submodules()[-1].weight)
    # (stateful optimizers: whatever state one optimizer object builds up must not reach the next object constructed in the process)
    opt = optim.Adam(model.parameters(), lr=0.05) if variant % 2 else optim.SGD(model.parameters(), lr=0.05, momentum=0.9, nesterov=bool(variant % 4))
    crit = nn.CrossEntropyLoss()
    for step in range(3):
        xb = sg.Tensor(Xtr[step * 4:(step + 1) * 4 + 2]); yb = sg.Tensor(ytr[step * 4:(step + 1) * 4 + 2].astype(np.int8), dtype=np.int8)
        out = model(xb)
        loss = crit(out, yb)
        opt.zero_grad(); loss.backward(); opt.step()
        add(out.data); add(loss.data)
        for p in model.parameters(): add(p.data); add(p._grad)
    # a fan-out graph whose traversal uses a set of tensors
    a = sg.Tensor(np.arange(6.).reshape(2, 3), requires_grad=True)
    parts = [a * a, a + a, a * 2.0, a.sum(0), a.mean()]
    z = (parts[0] * parts[1] + parts[2]).sum() + parts[3].sum() * parts[4]
    z.backward(); add(a.grad.data)
    # float32 fan-out through asymmetric paths: five or more contributions of very different magnitude reach x, so the
    # accumulation ORDER shows in the last bits; `junk` objects allocated in between move the tensors around in memory,
    # so an order that depends on addresses / hashes / id() differs between repetitions
    junk = [sg.Tensor(np.zeros(1)) for _ in range(layout)]
    x = sg.Tensor((np.random.rand(7).astype(np.float32) * 3 + 0.1), requires_grad=True)
    w = [sg.Tensor(np.float32(10.0 ** (k - 3)) * np.random.rand(7).astype(np.float32), requires_grad=True) for k in range(6)]
    del junk[::2]
    t1 = x * w[0] + (x * w[1]).exp()
    t2 = (t1 + x * w[2]) * (x + w[3])
    t3 = t2 + x.sqrt() * w[4] + (x * x) * w[5] + x
    z = (t3 * t3).sum() + (x * t1).sum()
    z.backward(); add(x.grad.data)
    for k in range(6): add(w[k].grad.data)
    # optimizers at the edge of their argument space: eps = 0 with an entry whose gradient is exactly 0 at every step (0/0 in the
    # update: whatever the rule answers there, it has to answer it every time)
    for O in (optim.Adam, optim.AdamW):
        q = sg.Tensor(np.array([1.0, 2.0, 3.0, -1.0, 0.5], dtype=np.float32), requires_grad=True)
        o = O([q], lr=0.1, eps=0.0)
        msk = sg.Tensor(np.array([1.0, 0.0, 2.0, 0.0, 0.0], dtype=np.float32))
        for _ in range(2):
            o.zero_grad(); (q * msk).sum().backward(); o.step(); add(q.data)
    # faults met and survived at the END of the run: the next run in this process must not notice that they happened
    if faults:
        run_faults(add, faults)
        observe_modes(add)
    return h.hexdigest()
'''


def _prog_inprocess(seed, variant, layout=0):
    ns = {'STUBS': os.path.join(common.VERIF, 'harness', 'stubs'), 'REPO': common.REPO}
    common.impl()
    exec(PROGRAM, ns)
    with common.quiet():
        return ns['program'](seed, variant, layout)


def _prog_subprocess(seed, variant, hashseed):
    code = f"STUBS={os.path.join(common.VERIF, 'harness', 'stubs')!r}\nREPO={common.REPO!r}\n" + PROGRAM + f"\nprint(program({seed}, {variant}, {hashseed % 13}))\n"
    env = dict(os.environ, PYTHONHASHSEED=str(hashseed))
    p = subprocess.run([sys.executable, '-c', code], capture_output=True, text=True, env=env, timeout=300)
    if p.returncode != 0:
        return 'rejected:' + p.stderr[-300:]
    return p.stdout.strip().split('\n')[-1]


FAULT_POINTS = ['no_grad/library-raises', 'no_grad/user-raises', 'no_grad/nested', 'retain_grads/user-raises', 'retain_grads/backward-raises', 'forward/train-mode',
                'optimizer-step', 'backward', 'dataloader/transform-raises', 'trainer/train-callback', 'trainer/validation-callback', 'trainer/validation-criterion', 'trainer/test']
NREP_FAULTS = 3


def _prog_faults_subprocess(seed, variant, hashseed, faults):
    """the program with its fault section, NREP_FAULTS times in ONE fresh process; returns the list of hashes (a run that raises
    gives `raised:<type>`)"""
    code = (f"STUBS={os.path.join(common.VERIF, 'harness', 'stubs')!r}\nREPO={common.REPO!r}\n" + PROGRAM +
            f"\nassert list(FAULTS) == {FAULT_POINTS!r}\nimport io, contextlib\nres = []\nfor k in range({NREP_FAULTS}):\n"
            f"    try:\n        with contextlib.redirect_stdout(io.StringIO()): res.append(program({seed}, {variant}, {hashseed % 13}, {tuple(faults)!r}))\n"
            f"    except Exception as e: res.append('raised:' + type(e).__name__ + ':' + str(e)[:80].replace(' ', '_'))\nprint('HASHES ' + ' '.join(res))\n")
    env = dict(os.environ, PYTHONHASHSEED=str(hashseed))
    p = subprocess.run([sys.executable, '-c', code], capture_output=True, text=True, env=env, timeout=300)
    last = [l for l in p.stdout.split('\n') if l.startswith('HASHES ')]
    if p.returncode != 0 or not last:
        return ['rejected:' + p.stderr[-300:]]
    return last[-1].split(' ')[1:]


def _fault_runs(c, faults=None, nproc=None):
    from concurrent.futures import ThreadPoolExecutor
    faults = c['faults'] if faults is None else faults
    with ThreadPoolExecutor(max_workers=min(16, os.cpu_count() or 4)) as ex:
        return list(ex.map(lambda k: _prog_faults_subprocess(c['seed'], c['variant'], 1 + 7919 * k, faults), range(nproc or c['hashseeds'])))


NREP = 8


_FAULT_BATCH = []       # the fault cases of the current run: their fresh processes are started together


def _hashes(c):
    if c.get('faults'):
        if any(c is b for b in _FAULT_BATCH):
            if '_runs' not in c:
                from concurrent.futures import ThreadPoolExecutor
                jobs = [(b, k) for b in _FAULT_BATCH for k in range(b['hashseeds'])]
                with ThreadPoolExecutor(max_workers=min(16, os.cpu_count() or 4)) as ex:
                    res = list(ex.map(lambda j: _prog_faults_subprocess(j[0]['seed'], j[0]['variant'], 1 + 7919 * j[1], j[0]['faults']), jobs))
                for b in _FAULT_BATCH: b['_runs'] = []
                for (b, k), r in zip(jobs, res): b['_runs'].append(r)
            return [h for run in c['_runs'] for h in run]
        return [h for run in _fault_runs(c) for h in run]
    keep = []
    hs = []
    for k in range(NREP):
        hs.append(_prog_inprocess(c['seed'], c['variant'], (5 * k) % 17))
        keep.append([object() for _ in range(37 * k)])      # shifts later allocations
    from concurrent.futures import ThreadPoolExecutor
    with ThreadPoolExecutor(max_workers=min(16, os.cpu_count() or 4)) as ex:
        hs += list(ex.map(lambda k: _prog_subprocess(c['seed'], c['variant'], 1 + 7919 * k), range(c['hashseeds'])))
    return hs


def impl(c):
    if c['kind'] == 'sig':
        return [outcome(lambda: _signature(c))]
    hs = outcome(lambda: _hashes(c))
    c['_hs'] = hs
    return ['_']          # the driver line is a dummy; the comparison is between the runs themselves


def compare(c, mo, io):
    if c['kind'] == 'sig':
        return [(c['lines'][0], m, i) for m, i in zip(mo, io) if m != i]
    hs = c.get('_hs')
    if hs == 'rejected' or any(str(h).startswith(('rejected', 'raised')) for h in hs):
        return [('program', 'runs', str(hs)[:300])]
    if len(set(hs)) != 1:
        return [('program', 'identical hashes over repetitions / processes / PYTHONHASHSEED', str(hs))]
    return []


def nontrivial(c):
    return c['kind'] == 'prog' or c['api'] in ('linear', 'conv1d', 'conv2d', 'dropout', 'split')


def distribution(cases):
    d = {}
    for c in cases:
        k = c['kind'] + ':' + c.get('api', f"variant{c.get('variant')}") + ('+faults' if c.get('faults') else '')
        d[k] = d.get(k, 0) + 1
        for f in c.get('faults', []):
            d[f'fault survived: {f}'] = d.get(f'fault survived: {f}', 0) + 1
    return d


def oracle(c):
    if c['kind'] == 'sig':
        s = outcome(lambda: _signature(c))
        if s == 'rejected':
            return None
        # a draw through anything but the seeded global generators shows up as a *missing* entry
        m = common.run_driver(['reset'] + c['lines'])[1]
        if s != m:
            # decide by a direct double run: same seed twice must give the same tensor
            return None
        return None
    cc = {k: v for k, v in c.items() if not k.startswith('_') and k not in ('lines', 'desc')}
    if c.get('faults'):
        return _oracle_faults(c, cc)
    hs = outcome(lambda: _hashes(c))
    if hs == 'rejected' or any(str(h).startswith('rejected') for h in hs):
        return {'key': {'cls': 'program-raises'}, 'case': cc, 'what': f'seeded program raised: {hs}'}
    if len(set(hs)) != 1:
        inproc = len(set(hs[:NREP])) != 1
        return {'key': {'cls': 'in-process' if inproc else 'across-processes'}, 'case': cc,
                'what': f'the same seeded program produced different bit patterns ({"repeated in one process" if inproc else "in fresh processes under different PYTHONHASHSEED"}): {hs}'}
    return None


def _oracle_faults(c, cc):
    """the program with its fault section, three times in one fresh process: every fault point of the case alone first (the
    smallest failing program), then all of them together"""
    def judge(runs):
        flat = [h for r in runs for h in r]
        if any(h.startswith('rejected') for h in flat):
            return 'program-raises', f'the fresh process failed: {flat}'
        for r in runs:
            if len(set(r)) != 1:
                return 'in-process-after-fault', f'runs 1..{len(r)} of the same seeded program in ONE fresh process gave {r}'
        if len(set(flat)) != 1:
            return 'across-processes', f'fresh processes under different PYTHONHASHSEED gave {flat}'
        return None
    singles = [[f] for f in c['faults']] if len(c['faults']) > 1 else []
    sets = singles + [list(c['faults'])]
    from concurrent.futures import ThreadPoolExecutor
    jobs = [(i, k) for i in range(len(sets)) for k in range(2)]
    with ThreadPoolExecutor(max_workers=min(16, os.cpu_count() or 4)) as ex:
        res = list(ex.map(lambda j: _prog_faults_subprocess(c['seed'], c['variant'], 1 + 7919 * j[1], sets[j[0]]), jobs))
    for i, fs in enumerate(sets):
        v = judge([r for (i_, _), r in zip(jobs, res) if i_ == i])
        if v:
            return {'key': {'cls': v[0], 'faults': fs}, 'case': dict(cc, faults=fs),
                    'what': f'a seeded program that met and survived the fault(s) {fs} does not reproduce itself: {v[1]}'}
    return None


def search(rng, tier):
    c = {'kind': 'prog', 'seed': rng.randrange(2 ** 31), 'variant': rng.randrange(4), 'hashseeds': 2, 'faults': list(FAULT_POINTS), 'lines': ['rng dropout 1 0']}
    f = oracle(c)
    if f: yield f
    for v in range(4):
        c = {'kind': 'prog', 'seed': rng.randrange(2 ** 31), 'variant': v, 'hashseeds': 4, 'lines': ['rng dropout 1 0']}
        f = oracle(c)
        if f: yield f


def matches_known(k, fail): return k.get('key') == fail.get('key')
def rerun_known(k): return oracle(k['witness']) is not None
def replay(fail):
    f = oracle(fail['case'])
    return {'fails': f is not None, 'now': f}
