"""C13 — Dropout and BatchNorm over call histories (synapgrad/nn/layers.py) against Synap.Layers"""
import itertools
import numpy as np
import common
from common import fbits, show_floats, outcome, show_opt

PROP = 'C13'
LEAN_TARGETS = ['Props.C13']
REQUIRED_THEOREMS = ['Props.C13.eval_keeps_state', 'Props.C13.train_updates_once', 'Props.C13.running_mean_exponential',
                     'Props.C13.running_mean_cumulative', 'Props.C13.no_track_uses_batch_stats', 'Props.C13.dropout_eval_identity',
                     'Props.C13.dropout_train_spec', 'Props.C13.dropout_backward_same_mask']
RULE = ('BatchNorm: option grid momentum in {None, 0, .1, .5, 1} x affine x track_running_stats x input rank 2/3/4, random running '
        'statistics and affine parameters, histories of train/eval switches and forward calls on batches of varying size '
        '(incl. one value per channel); output values and (running_mean, running_var, num_batches_tracked) compared after every '
        'forward. Dropout: p over [0,1] incl. 0 and 1, train/eval, the uniform draws captured by wrapping np.random.rand so the '
        'mask relation is exact; backward through the same mask. Non-trivial: a history with >= 2 training forwards and a mode switch.')
EXHAUSTIVE = {'quick': False, 'thorough': False}
ASSUMPTIONS = ['float64 layers; np.mean/np.var pairwise summation differs from the model fold by rounding only (rel 1e-9 accepted)',
               'np.random.rand draws are captured, their distribution is trusted']
TRUSTED_BASE = ['harness/props/c13.py (generator, canonicalisation)']
MOMENTA = [None, 0.1, 0.5, 1.0, 0.0, 0.0]      # 0.0: the running statistics never move (a falsy value that is not None)
VIA = ['self', 'self', 'parent', 'root']


def gen_bn(rng, tier, mo, affine, track, rank):
    C = rng.randint(1, 3)
    rest = {2: (), 3: (rng.randint(1, 3),), 4: (rng.randint(1, 2), rng.randint(1, 3))}[rank]
    evs = []
    if track and rng.chance(0.7):
        evs.append(('setstats', [rng.dyadic(-2, 2) for _ in range(C)], [rng.randint(1, 32) / 8 for _ in range(C)]))
    if affine and rng.chance(0.7):
        evs.append(('setaffine', [rng.dyadic(-2, 2) for _ in range(C)], [rng.dyadic(-2, 2) for _ in range(C)]))
    for _ in range(rng.randint(2, 12 if tier == 'quick' else 30)):
        r = rng.random()
        # the switch reaches the layer directly, through its parent container, or through the root of a deeper tree
        if r < 0.2: evs.append(('train', rng.pick(VIA)))
        elif r < 0.4: evs.append(('eval', rng.pick(VIA)))
        else:
            N = rng.pick([1, 2, 2, 3, 4, 5])
            shape = (N, C) + rest
            if rng.chance(.15):    # a channel whose level dwarfs its spread (2^26 + k/8: still exact in binary64): variance by cancellation would lose it
                off = rng.pick([2.0 ** 26, -2.0 ** 26, 2.0 ** 24])
                evs.append(('fwd', shape, [off + rng.dyadic(-4, 4) for _ in range(int(np.prod(shape)))]))
            else:
                evs.append(('fwd', shape, [rng.dyadic(-4, 4) if rng.chance(.5) else rng.uniform(-3, 3) for _ in range(int(np.prod(shape)))]))
    return {'kind': 'bn', 'C': C, 'mo': mo, 'eps': rng.pick([1e-5, 1e-3, 0.5]), 'affine': affine, 'track': track, 'evs': evs}


def gen_drop(rng):
    n = rng.randint(1, 8)
    return {'kind': 'drop', 'p': rng.pick([0.0, 1.0, 0.5, 0.1, 0.25, 0.9, rng.random()]), 'training': rng.chance(0.75),
            'xs': [rng.dyadic(-4, 4) for _ in range(n)], 'gs': [rng.dyadic(-2, 2) for _ in range(n)], 'seed': rng.randrange(2 ** 31),
            'shape': rng.pick([(n,), (1, n), (n, 1)])}


def gen_dropseq(rng):
    """ONE Dropout layer called several times in training mode on inputs of the same shape; the outputs are back-propagated
    later and in another order: each must go through the mask of its own forward call"""
    n = rng.randint(2, 6)
    k = rng.randint(2, 4)
    order = rng.sample(list(range(k)), k)
    if order == sorted(order): order.reverse()
    return {'kind': 'dropseq', 'p': rng.pick([0.5, 0.25, 0.7, 0.4]), 'n': n, 'k': k, 'order': order, 'seed': rng.randrange(2 ** 31),
            'xs': [[rng.dyadic(-4, 4) for _ in range(n)] for _ in range(k)], 'gs': [[rng.dyadic(-2, 2) for _ in range(n)] for _ in range(k)]}


def _dropseq_impl(c):
    sg = common.impl()
    from synapgrad import nn
    caps = []
    orig = np.random.rand
    def rand(*a):
        r = orig(*a); caps.append(r.copy()); return r
    np.random.seed(c['seed'])
    np.random.rand = rand
    try:
        d = nn.Dropout(c['p'])
        xs = [sg.Tensor(np.array(v, dtype=np.float64), requires_grad=True) for v in c['xs']]
        ys = [d(x) for x in xs]                                  # all forwards first
        for j in c['order']:                                     # backward later, in another order
            ys[j].backward(sg.Tensor(np.array(c['gs'][j], dtype=np.float64)))
    finally:
        np.random.rand = orig
    c['_us_list'] = [[float(v) for v in u.ravel()] for u in caps]
    out = []
    for j in range(c['k']):
        out += [show_floats(ys[j].data.ravel()), show_floats(xs[j].grad.data.ravel())]
    return out


def lines_of(c):
    if c['kind'] == 'dropseq':
        out = []
        for j in range(c['k']):
            us = show_floats(c['_us_list'][j])
            out += [f"bn drop {fbits(c['p'])} 1 {show_floats(c['xs'][j])} {us}", f"bn dropbw {fbits(c['p'])} {show_floats(c['gs'][j])} {us}"]
        return out
    if c['kind'] == 'drop':
        return [f"bn drop {fbits(c['p'])} {int(c['training'])} {show_floats(c['xs'])} {{us}}", f"bn dropbw {fbits(c['p'])} {show_floats(c['gs'])} {{us}}"]
    out = [f"bn new {c['C']} {show_opt(lambda v: str(fbits(v)), c['mo'])} {fbits(c['eps'])} {int(c['affine'])} {int(c['track'])}"]
    for e in c['evs']:
        if e[0] in ('setstats', 'setaffine'):
            out.append(f"bn {e[0]} {show_floats(e[1])} {show_floats(e[2])}")
        elif e[0] == 'fwd':
            sh = e[1]
            out.append(f"bn fwd {sh[0]} {sh[1]} {int(np.prod(sh[2:]))} {show_floats(e[2])}")
        else:
            out.append(f"bn {e[0]}")
    return out


def cases(rng, tier):
    out = []
    for mo, affine, track, rank in itertools.product(MOMENTA, [False, True], [False, True], [2, 3, 4]):
        for _ in range(1 if tier == 'quick' else 20):
            out.append(gen_bn(rng, tier, mo, affine, track, rank))
    for _ in range(40 if tier == 'quick' else 1500):
        out.append(gen_bn(rng, tier, rng.pick(MOMENTA), rng.chance(.5), rng.chance(.7), rng.pick([2, 3, 4])))
    for _ in range(60 if tier == 'quick' else 1500):
        out.append(gen_drop(rng))
    for _ in range(30 if tier == 'quick' else 800):
        out.append(gen_dropseq(rng))
    for c in out:
        if c['kind'] == 'dropseq':
            _dropseq_impl(c)
        if c['kind'] == 'drop':
            _drop_impl(c)            # needs the captured draws to build the model's request
        c['lines'] = [l.format(us=show_floats(c.get('_us', []))) for l in lines_of(c)]
        c['desc'] = ' ; '.join(c['lines'])[:600]
    return out


def _state(bn, C):
    rm = bn.running_mean.data if bn.running_mean is not None else np.zeros(C)
    rv = bn.running_var.data if bn.running_var is not None else np.ones(C)
    return f"rm={show_floats(rm)} rv={show_floats(rv)} nbt={bn.num_batches_tracked} training={int(bn.training)}"


def _bn_impl(c):
    sg = common.impl()
    from synapgrad import nn
    out = []
    def go():
        bn = nn.BatchNorm1d(c['C'], eps=c['eps'], momentum=c['mo'], affine=c['affine'], track_running_stats=c['track'], dtype=np.float64)
        parent = nn.Sequential(bn)
        root = nn.Sequential(nn.ReLU(), parent)
        who = {'self': bn, 'parent': parent, 'root': root}
        out.append('ok')
        for e in c['evs']:
            if e[0] == 'setstats':
                if bn.running_mean is not None:
                    bn.running_mean.data = np.array(e[1], dtype=np.float64); bn.running_var.data = np.array(e[2], dtype=np.float64)
                out.append('ok')
            elif e[0] == 'setaffine':
                bn.weight.data = np.array(e[1], dtype=np.float64); bn.bias.data = np.array(e[2], dtype=np.float64)
                out.append('ok')
            elif e[0] == 'train':
                who[e[1] if len(e) > 1 else 'self'].train(); out.append('ok')
            elif e[0] == 'eval':
                who[e[1] if len(e) > 1 else 'self'].eval(); out.append('ok')
            else:
                x = sg.Tensor(np.array(e[2], dtype=np.float64).reshape(e[1]))
                before = x.data.copy()
                r = outcome(lambda: bn(x))
                if isinstance(r, str):
                    out.append(f"{r} {_state(bn, c['C'])}")
                else:
                    assert np.array_equal(before, x.data)
                    out.append(f"out={show_floats(r.data.ravel())} {_state(bn, c['C'])}")
    go()
    return out


def _drop_impl(c):
    sg = common.impl()
    from synapgrad import nn
    cap = {}
    orig = np.random.rand
    def rand(*a):
        r = orig(*a); cap['u'] = r.copy(); return r
    np.random.seed(c['seed'])
    np.random.rand = rand
    try:
        d = nn.Dropout(c['p'])
        if not c['training']: d.eval()
        x = sg.Tensor(np.array(c['xs'], dtype=np.float64).reshape(c['shape']), requires_grad=True)
        y = d(x)
        same = y is x
        res = [float(v) for v in y.data.ravel()]
        if c['training']:
            y.backward(sg.Tensor(np.array(c['gs'], dtype=np.float64).reshape(c['shape'])))
            gr = [float(v) for v in x.grad.data.ravel()]
        else:
            gr = None
    finally:
        np.random.rand = orig
    us = [float(v) for v in cap['u'].ravel()] if 'u' in cap else [0.5] * len(c['xs'])
    c['_us'] = us
    c['_same'] = same
    return res, gr


def impl(c):
    if c['kind'] == 'bn':
        return _bn_impl(c)
    if c['kind'] == 'dropseq':
        r = outcome(lambda: _dropseq_impl(c))
        return [r] * (2 * c['k']) if isinstance(r, str) else r
    r = outcome(lambda: _drop_impl(c))
    if isinstance(r, str):
        return [r, r]
    res, gr = r
    # eval mode: the model's backward line is still evaluated with the (dummy) draws; the implementation has no mask then
    return [show_floats(res), show_floats(gr) if gr is not None else None]


FLOAT_KEYS = ('out', 'rm', 'rv', 'dx', 'y', 'g')


def _close_tok(a, b):
    if a == b: return True
    try:
        x, y = common.bitsf(a), common.bitsf(b)
    except Exception:
        return False
    return abs(x - y) <= 1e-9 * (1 + abs(x) + abs(y))


def _close_line(m, i):
    if m == i: return True
    if i is None: return True
    mt, it = m.split(' '), i.split(' ')
    if len(mt) != len(it): return False
    for a, b in zip(mt, it):
        if a == b: continue
        if '=' in a and '=' in b:
            ka, va = a.split('=', 1); kb, vb = b.split('=', 1)
            if ka != kb: return False
            if ka not in FLOAT_KEYS: return False          # counters and flags are exact (never read as float bit patterns)
        else:
            va, vb = a, b
        la, lb = va.split(','), vb.split(',')
        if len(la) != len(lb) or not all(_close_tok(p, q) for p, q in zip(la, lb)): return False
    return True


def compare(c, mo, io):
    diffs = [(c['lines'][k][:80], m[:200], str(i)[:200]) for k, (m, i) in enumerate(zip(mo, io)) if not _close_line(m, i)]
    if c['kind'] == 'drop' and not c['training'] and c.get('_same') is False:
        diffs.append(('eval', 'identity (same tensor)', 'new tensor'))
    return diffs[:3]


def nontrivial(c):
    if c['kind'] == 'dropseq':
        return True
    if c['kind'] == 'drop':
        return c['training'] and 0 < c['p'] < 1
    f = [e for e in c['evs'] if e[0] == 'fwd']
    return len(f) >= 2 and any(e[0] in ('train', 'eval') for e in c['evs'])


def distribution(cases):
    d = {}
    for c in cases:
        k = c['kind'] + (f"/mo={c['mo']}/track={int(c['track'])}" if c['kind'] == 'bn' else '' if c['kind'] == 'dropseq' else f"/train={int(c['training'])}")
        d[k] = d.get(k, 0) + 1
    return d


# ---- property predicate on the implementation alone (independent NumPy recomputation) ---------
def oracle(c):
    sg = common.impl()
    from synapgrad import nn
    if c['kind'] == 'dropseq':
        r = outcome(lambda: _dropseq_impl(c))
        if isinstance(r, str):
            return {'key': {'kind': 'dropseq', 'cls': 'rejected'}, 'case': _strip(c), 'what': 'Dropout sequence raised'}
        p = c['p']; scale = 1 / (1 - p)
        for j in range(c['k']):
            us = c['_us_list'][j]
            wy = [0.0 if u <= p else x * scale for x, u in zip(c['xs'][j], us)]
            wg = [0.0 if u <= p else g * scale for g, u in zip(c['gs'][j], us)]
            gy, gg = common.parse_floats(r[2 * j]), common.parse_floats(r[2 * j + 1])
            if any(abs(a - b) > 1e-12 * (1 + abs(b)) for a, b in zip(gy, wy)):
                return {'key': {'kind': 'dropseq', 'cls': 'forward'}, 'case': _strip(c), 'what': f'call {j}: output {gy}, expected {wy}'}
            if any(abs(a - b) > 1e-12 * (1 + abs(b)) for a, b in zip(gg, wg)):
                return {'key': {'kind': 'dropseq', 'cls': 'backward-mask'}, 'case': _strip(c), 'what': f'call {j} of {c["k"]} on one Dropout layer, back-propagated after the later calls: gradient {gg}, its own mask gives {wg}'}
        return None
    if c['kind'] == 'drop':
        r = outcome(lambda: _drop_impl(c))
        if isinstance(r, str):
            return {'key': {'kind': 'drop', 'cls': 'rejected'}, 'case': _strip(c), 'what': 'Dropout raised'}
        res, gr = r
        xs, us, p = c['xs'], c['_us'], c['p']
        if not c['training']:
            if res != xs or not c['_same']:
                return {'key': {'kind': 'drop', 'cls': 'eval'}, 'case': _strip(c), 'what': 'eval-mode dropout is not the identity'}
            return None
        scale = 1 / (1 - p) if p < 1 else 1.0
        want = [0.0 if u <= p else x * scale for x, u in zip(xs, us)]
        wg = [0.0 if u <= p else g * scale for g, u in zip(c['gs'], us)]
        if any(abs(a - b) > 1e-12 * (1 + abs(b)) for a, b in zip(res, want)):
            return {'key': {'kind': 'drop', 'cls': 'forward'}, 'case': _strip(c), 'what': f'training output {res}, expected {want} for draws {us}'}
        if any(abs(a - b) > 1e-12 * (1 + abs(b)) for a, b in zip(gr, wg)):
            return {'key': {'kind': 'drop', 'cls': 'backward'}, 'case': _strip(c), 'what': f'gradient {gr}, expected {wg} (same mask)'}
        return None
    # batch norm: recompute with plain numpy from the documented rule
    C = c['C']
    rm, rv, nbt, training = np.zeros(C), np.ones(C), 0, True
    g, b = (np.ones(C), np.zeros(C)) if c['affine'] else (None, None)
    bn = nn.BatchNorm1d(C, eps=c['eps'], momentum=c['mo'], affine=c['affine'], track_running_stats=c['track'], dtype=np.float64)
    parent = nn.Sequential(bn)
    who = {'self': bn, 'parent': parent, 'root': nn.Sequential(nn.ReLU(), parent)}
    for k, e in enumerate(c['evs']):
        if e[0] == 'setstats':
            if c['track']:
                rm, rv = np.array(e[1]), np.array(e[2])
                bn.running_mean.data = rm.copy(); bn.running_var.data = rv.copy()
        elif e[0] == 'setaffine':
            g, b = np.array(e[1]), np.array(e[2]); bn.weight.data = g.copy(); bn.bias.data = b.copy()
        elif e[0] == 'train': training = True; who[e[1] if len(e) > 1 else 'self'].train()
        elif e[0] == 'eval': training = False; who[e[1] if len(e) > 1 else 'self'].eval()
        else:
            x = np.array(e[2]).reshape(e[1])
            r = outcome(lambda: bn(sg.Tensor(x.copy())))
            axes = tuple(i for i in range(x.ndim) if i != 1)
            n = x.size / C
            use_batch = training or not c['track']
            def fail(cls, what):
                return {'key': {'kind': 'bn', 'cls': cls}, 'case': _strip(c, k + 1), 'what': what}
            if use_batch and n <= 1:
                if not isinstance(r, str):
                    return fail('accept-n1', 'a batch with one value per channel was normalised with its own statistics')
                if training and c['track']: nbt += 1   # as in PyTorch the counter advances before the call is rejected
                continue
            if isinstance(r, str):
                return fail('rejected', 'forward raised on a legal batch')
            sh = tuple(C if i == 1 else 1 for i in range(x.ndim))
            m = x.mean(axes) if use_batch else rm
            v = x.var(axes) if use_batch else rv
            y = (x - m.reshape(sh)) / np.sqrt(v.reshape(sh) + c['eps'])
            if g is not None: y = y * g.reshape(sh) + b.reshape(sh)
            if training and c['track']:
                nbt += 1
                f = 1.0 / nbt if c['mo'] is None else c['mo']
                rm = m * f + rm * (1 - f); rv = v * (n / (n - 1)) * f + rv * (1 - f)
            if np.abs(r.data - y).max() > 1e-9 * (1 + np.abs(y).max()):
                return fail('output', f'forward {k}: output differs from the documented normalisation by {np.abs(r.data - y).max()}')
            if c['track']:
                if np.abs(bn.running_mean.data - rm).max() > 1e-9 * (1 + np.abs(rm).max()) or np.abs(bn.running_var.data - rv).max() > 1e-9 * (1 + np.abs(rv).max()) \
                        or bn.num_batches_tracked != nbt:
                    return fail('running', f'forward {k} (training={training}): running statistics {bn.running_mean.data},{bn.running_var.data},{bn.num_batches_tracked} expected {rm},{rv},{nbt}')
    return None


def _strip(c, nev=None):
    d = {k: v for k, v in c.items() if not k.startswith('_') and k not in ('lines', 'desc')}
    if nev and 'evs' in d: d['evs'] = d['evs'][:nev]
    return d


def search(rng, tier):
    for c in cases(rng, 'quick'):
        f = oracle(c)
        if f: yield f


def matches_known(k, fail): return k.get('key') == fail.get('key')
def rerun_known(k): return oracle(_fix(k['witness'])) is not None
def _fix(c):
    if 'evs' in c: c['evs'] = [tuple(tuple(x) if i == 1 and e[0] == 'fwd' else x for i, x in enumerate(e)) for e in c['evs']]
    if 'shape' in c: c['shape'] = tuple(c['shape'])
    return c
def replay(fail):
    f = oracle(_fix(fail['case']))
    return {'fails': f is not None, 'now': f}
