"""C13 — Dropout and BatchNorm over call histories (synapgrad/nn/layers.py) against Synap.Layers"""
import itertools
import numpy as np
import common
from common import fbits, show_floats, outcome, show_opt

PROP = 'C13'
LEAN_TARGETS = ['Props.C13']
REQUIRED_THEOREMS = ['Props.C13.eval_keeps_state', 'Props.C13.train_updates_once', 'Props.C13.running_mean_exponential',
                     'Props.C13.running_mean_cumulative', 'Props.C13.no_track_uses_batch_stats', 'Props.C13.dropout_eval_identity',
                     'Props.C13.dropout_train_spec', 'Props.C13.dropout_backward_same_mask',
                     'Props.C13.init_owns_by_options', 'Props.C13.forward_keeps_owned',
                     'Props.C13.attach_keeps_modes', 'Props.C13.register_keeps_modes', 'Props.C13.container_keeps_modes']
REQUIRED_THEOREMS += ['Props.C13.src_bn_forward_logic_is_model']   # tie to layers.py as read on this run
RULE = ('BatchNorm: option grid momentum in {None, 0, .1, .5, 1} x affine x track_running_stats x input rank 2/3/4, random running '
        'statistics and affine parameters, histories of train/eval switches and forward calls on batches of varying size '
        '(incl. one value per channel); output values and (running_mean, running_var, num_batches_tracked) compared after every '
        'forward. Dropout: p over [0,1] incl. 0 and 1, train/eval, the uniform draws captured by wrapping np.random.rand so the '
        'mask relation is exact; backward through the same mask. BACKWARD passes inside the histories: forwards on inputs that require grad '
        '(affine parameters trainable or frozen), any pending output back-propagated later, in any order, more than once, after further '
        'mode switches and forwards; after every backward and after every eval / untracked forward the buffers, the counter and the mode '
        'must be BIT-IDENTICAL to what they were before the call (kept=1). CONSTRUCTOR CALLS: BatchNorm1d AND BatchNorm2d, the options '
        '(eps, momentum, affine, track_running_stats, dtype) handed over positionally up to any position and by keyword from there on, options '
        'equal to their defaults left out or written; which of weight / bias / running_mean / running_var / num_batches_tracked exist after '
        'construction, then the history against the model configured with the SAME options. DROPOUT ON EXACT ZEROS: inputs that are ReLU '
        'outputs / one-hot / sparse rows (and upstream gradients that are not 0 there), through the layer object and through '
        'nn.functional.dropout where it exists; every sampling function of np.random is wrapped, the draws of a call are used when they are one '
        'array of uniforms of the size of the input, otherwise (other sampler, private generator, no draw) the relations that need no draws '
        'are checked: output in {0, x/(1-p)}, gradient in {0, g/(1-p)} with the zero pattern of the output wherever x != 0, p = 0 keeps and '
        'p = 1 drops everything also where x = 0; `dropstat`: 2048 elements, about half of them exact zeros, p in {0, .25, .5, .9}, float64 / '
        'float32: the fraction of zero-valued inputs that receive gradient must be 1-p (6 sigma), as must the fraction of survivors. ATTACHMENT histories (BatchNorm and Dropout): the layer is '
        'node 0 of a module tree that is built while the history runs - containers (Sequential / user Module) constructed around existing '
        'nodes, attribute assignment and register_module of any node under any other, re-attachment to another parent, detaching by '
        'assigning None / a plain value / another module under the name - interleaved with train()/eval() on ANY node and with forward '
        '(+ backward) calls; the mode of every node is observed, the layer must behave according to the last switch that reached it '
        'through the registrations that existed at the time of that call. Non-trivial: a history with >= 2 training forwards and a mode switch.')
EXHAUSTIVE = {'quick': False, 'thorough': False}
ASSUMPTIONS = ['float64 layers; np.mean/np.var pairwise summation differs from the model fold by rounding only (rel 1e-9 accepted)',
               'the draws of the global NumPy generator are captured (every sampler of np.random), their distribution is trusted; draws that '
               'cannot be attributed are replaced by the relations stated in RULE (and a 6-sigma frequency test on 2048 elements)']
TRUSTED_BASE = ['harness/props/c13.py (generator, canonicalisation)']
MOMENTA = [None, 0.1, 0.5, 1.0, 0.0, 0.0]      # 0.0: the running statistics never move (a falsy value that is not None)
VIA = ['self', 'self', 'parent', 'root']
TNAMES = ['a', 'b', 'layer', '0', '1', '_m']      # attribute names used when a node is attached to a parent (a small pool: names get re-assigned)


BN_DEFAULTS = {'eps': 1e-5, 'momentum': 0.1, 'affine': True, 'track_running_stats': True}


def gen_ctor(rng, cls=None, npos=None):
    """how the constructor is called: the class, how many leading arguments are positional (1 = only num_features ... 6 = all of
    num_features, eps, momentum, affine, track_running_stats, dtype), whether keyword options that equal their default are left out"""
    return {'cls': cls or rng.pick(['1d', '2d']), 'npos': npos or rng.pick([1, 1, 2, 3, 4, 5, 5, 6, 6]), 'omit': rng.chance(.4)}


def bn_call(c):
    """(class name, positional arguments, keyword arguments) of the constructor call of the case"""
    vals = [('num_features', c['C']), ('eps', c['eps']), ('momentum', c['mo']), ('affine', c['affine']), ('track_running_stats', c['track']), ('dtype', np.float64)]
    npos = c.get('npos', 1)
    dflt = lambda k, v: k in BN_DEFAULTS and type(v) is type(BN_DEFAULTS[k]) and v == BN_DEFAULTS[k]
    return ('BatchNorm2d' if c.get('cls') == '2d' else 'BatchNorm1d', [v for _, v in vals[:npos]],
            {k: v for k, v in vals[npos:] if not (c.get('omit') and dflt(k, v))})


def show_call(c):
    name, pos, kw = bn_call(c)
    sh = lambda v: 'float64' if v is np.float64 else repr(v)
    return f"{name}({', '.join([sh(v) for v in pos] + [f'{k}={sh(v)}' for k, v in kw.items()])})"


def gen_bn(rng, tier, mo, affine, track, rank, ctor=None):
    ctor = ctor or gen_ctor(rng)
    if ctor['cls'] == '2d': rank = 4
    C = rng.randint(1, 3)
    rest = {2: (), 3: (rng.randint(1, 3),), 4: (rng.randint(1, 2), rng.randint(1, 3))}[rank]
    evs = []
    if track and rng.chance(0.7):
        evs.append(('setstats', [rng.dyadic(-2, 2) for _ in range(C)], [rng.randint(1, 32) / 8 for _ in range(C)]))
    if affine and rng.chance(0.7):
        evs.append(('setaffine', [rng.dyadic(-2, 2) for _ in range(C)], [rng.dyadic(-2, 2) for _ in range(C)]))
    bw = rng.chance(.6)            # histories with backward passes
    for _ in range(rng.randint(2, 12 if tier == 'quick' else 30)):
        r = rng.random()
        # the switch reaches the layer directly, through its parent container, or through the root of a deeper tree
        if r < 0.2: evs.append(('train', rng.pick(VIA)))
        elif r < 0.4: evs.append(('eval', rng.pick(VIA)))
        else:
            evs.append(gen_fwd(rng, C, rest, bw))
            if bw: evs += gen_bwd(rng, affine)
    return dict(ctor, kind='bn', C=C, mo=mo, eps=rng.pick([1e-5, 1e-5, 1e-3, 0.5]), affine=affine, track=track, evs=evs)


def gen_fwd(rng, C, rest, bw):
    N = rng.pick([1, 2, 2, 3, 4, 5])
    shape = (N, C) + rest
    rg = int(bw and rng.chance(.8))        # the input requires grad
    if rng.chance(.15):    # a channel whose level dwarfs its spread (2^26 + k/8: still exact in binary64): variance by cancellation would lose it
        off = rng.pick([2.0 ** 26, -2.0 ** 26, 2.0 ** 24])
        return ('fwd', shape, [off + rng.dyadic(-4, 4) for _ in range(int(np.prod(shape)))], rg)
    return ('fwd', shape, [rng.dyadic(-4, 4) if rng.chance(.5) else rng.uniform(-3, 3) for _ in range(int(np.prod(shape)))], rg)


def gen_bwd(rng, affine):
    """after a forward: some backward passes through pending outputs (`which` counts back from the newest output that requires grad;
    `keep` leaves the output pending, so that it is back-propagated again later), and now and then the affine parameters frozen / unfrozen"""
    out = []
    if affine and rng.chance(.15): out.append(('freeze', rng.randint(0, 1)))
    for _ in range(rng.pick([0, 1, 1, 1, 2, 3])):
        out.append(('bwd', rng.pick([0, 0, 0, 1, 2, 5]), rng.randrange(2 ** 31), int(rng.chance(.4))))
    return out


def gen_tree(rng, tier, layer, directed):
    """the layer is node 0 of a module tree that grows and is re-wired while the history runs; train()/eval() on any node; forwards
    (and backwards) in between.  `directed`: the history starts with the pattern `switch the layer (or a block around it) -> attach it
    to a parent that is in the other mode -> call it`, the rest is random."""
    c = {'kind': 'tree', 'layer': layer}
    evs = []
    if layer == 'bn':
        C = rng.randint(1, 3)
        c.update(gen_ctor(rng))
        rank = 4 if c['cls'] == '2d' else rng.pick([2, 3, 4])
        rest = {2: (), 3: (rng.randint(1, 3),), 4: (rng.randint(1, 2), rng.randint(1, 3))}[rank]
        c.update(C=C, mo=rng.pick(MOMENTA), eps=rng.pick([1e-5, 1e-3, 0.5]), affine=rng.chance(.5), track=rng.chance(.85))
        if c['track'] and rng.chance(0.7):
            evs.append(('setstats', [rng.dyadic(-2, 2) for _ in range(C)], [rng.randint(1, 32) / 8 for _ in range(C)]))
        if c['affine'] and rng.chance(0.7):
            evs.append(('setaffine', [rng.dyadic(-2, 2) for _ in range(C)], [rng.dyadic(-2, 2) for _ in range(C)]))
        bw = rng.chance(.5)
        def call():
            return [gen_fwd(rng, C, rest, bw)] + (gen_bwd(rng, c['affine']) if bw else [])
    else:
        n = rng.randint(2, 8)
        c.update(p=rng.pick([0.5, 0.25, 0.9, 0.1, 0.0, 1.0, rng.random()]), seed=rng.randrange(2 ** 31), n=n)
        def call():
            return [('dfwd', gen_xs(rng, n), gen_gs(rng, n))]
    sub = [{}]                 # node -> {name: child}: kept to avoid cycles and to aim at names that are in use
    def reaches(a, b):         # b is a or a descendant of a
        return a == b or any(reaches(k, b) for k in sub[a].values())
    def tnew(kids):
        evs.append(('tnew', rng.pick('SM'), list(kids))); sub.append({str(i): k for i, k in enumerate(kids)})
        return len(sub) - 1
    def attach(parent, child, name=None):
        name = name or rng.pick(TNAMES)
        if rng.chance(.75):
            evs.append(('tset', parent, name, f'm{child}'))
            sub[parent].pop(name, None)
        else:
            evs.append(('treg', parent, name, child))
        sub[parent][name] = child
    def holder():              # a node around the layer (the layer itself when nothing holds it)
        hs = [m for m in range(1, len(sub)) if reaches(m, 0)]
        return rng.pick(hs) if hs and rng.chance(.6) else 0
    if directed:
        v = rng.randint(0, 1) if rng.chance(.3) else 0           # mostly: eval() first, then attached to a (training) parent
        inner = 0
        if rng.chance(.4): inner = tnew([0])                      # a block around the layer, switched as a whole
        if rng.chance(.5): evs += call()
        evs.append(('tmode', rng.pick([0, inner]), v))
        if v == 0 and rng.chance(.75):
            outer = tnew([inner] if rng.chance(.6) else [inner, inner])     # a freshly built container is in training mode
        else:
            outer = tnew([])
            if rng.chance(.8): evs.append(('tmode', outer, 1 - v))
            attach(outer, inner)
        if rng.chance(.3): tnew([outer])
        evs.append(('tflags',))
        evs += call()
        if rng.chance(.5): evs += call()
    for _ in range(rng.randint(3, 10 if tier == 'quick' else 24)):
        r = rng.random()
        nn_ = len(sub)
        if r < .16: evs.append(('tmode', 0, rng.randint(0, 1)))
        elif r < .30: evs.append(('tmode', rng.randrange(nn_), rng.randint(0, 1)))
        elif r < .40:
            kids = [k for k in (rng.sample(range(nn_), min(nn_, rng.randint(0, 2))))]
            h = holder()
            if rng.chance(.5) and h not in kids: kids.append(h)
            tnew(kids)
        elif r < .55 and nn_ > 1:
            parent, child = rng.randrange(1, nn_), holder() if rng.chance(.7) else rng.randrange(nn_)
            if not reaches(child, parent): attach(parent, child)
        elif r < .66 and nn_ > 1:
            hs = [m for m in range(1, nn_) if 0 in sub[m].values()]            # detach: mostly the layer itself, from one of its holders
            parent = rng.pick(hs) if hs and rng.chance(.6) else rng.randrange(1, nn_)
            to0 = sorted(n_ for n_, k in sub[parent].items() if k == 0)
            name = rng.pick(to0) if to0 and rng.chance(.7) else rng.pick(sorted(sub[parent])) if sub[parent] and rng.chance(.8) else rng.pick(TNAMES)
            if rng.chance(.25) and nn_ > 2:          # ... or by putting another module under the name
                other = rng.randrange(1, nn_)
                if not reaches(other, parent): attach(parent, other, name)
            else:
                evs.append(('tset', parent, name, rng.pick(['none', 'other'])))
                sub[parent].pop(name, None)
        else:
            evs += call()
        if rng.chance(.35): evs.append(('tflags',))
    evs += [('tflags',)] + call()
    c['evs'] = evs
    return c


XSTYLES = ['any', 'any', 'relu', 'relu', 'onehot', 'sparse']


def gen_xs(rng, n, style=None):
    """input of a Dropout call: any values, or with EXACT zeros as after a ReLU / in one-hot and sparse rows"""
    style = style or rng.pick(XSTYLES)
    if style == 'relu': return [max(0.0, rng.dyadic(-4, 4)) for _ in range(n)]
    if style == 'onehot':
        k = rng.randrange(n)
        return [1.0 if i == k else 0.0 for i in range(n)]
    if style == 'sparse': return [rng.dyadic(-4, 4) if rng.chance(.4) else 0.0 for _ in range(n)]
    return [rng.dyadic(-4, 4) for _ in range(n)]


def gen_gs(rng, n):
    """upstream gradient: seldom 0 (only a non-zero one shows the mask where the input is 0)"""
    return [rng.dyadic(-2, 2) or rng.pick([1.0, -0.5, 0.0, 2.0]) for _ in range(n)]


def drop_forms():
    """the ways to call dropout that exist in the tree under test"""
    common.impl()
    from synapgrad.nn import functional as F
    return ['layer', 'layer', 'functional'] if callable(getattr(F, 'dropout', None)) else ['layer']


def gen_drop(rng, forms=('layer',)):
    n = rng.randint(1, 8)
    return {'kind': 'drop', 'p': rng.pick([0.0, 0.0, 1.0, 0.5, 0.1, 0.25, 0.9, rng.random()]), 'training': rng.chance(0.75),
            'xs': gen_xs(rng, n), 'gs': gen_gs(rng, n), 'seed': rng.randrange(2 ** 31),
            'shape': rng.pick([(n,), (1, n), (n, 1)]), 'via': rng.pick(list(forms))}


def gen_dropstat(rng, p, via, dt):
    return {'kind': 'dropstat', 'p': p, 'via': via, 'dt': dt, 'n': 2048, 'style': rng.pick(['relu', 'relu', 'sparse']),
            'shape': rng.pick([(2048,), (32, 64), (8, 16, 16)]), 'seed': rng.randrange(2 ** 31)}


class Draws:
    """wraps EVERY sampling function of the global NumPy generator (np.random.rand, random_sample, random, uniform, binomial, ...)
    while a layer runs and records what each call returned; nothing is assumed about which one the layer uses"""
    SKIP = ('seed', 'get_state', 'set_state', 'get_bit_generator', 'set_bit_generator')

    def __enter__(self):
        g = np.random.mtrand._rand
        self.calls, self.orig = [], {}
        for name in dir(np.random):
            f = getattr(np.random, name)
            if getattr(f, '__self__', None) is g and name not in self.SKIP:
                self.orig[name] = f
                setattr(np.random, name, self._wrap(name, f))
        return self

    def _wrap(self, name, f):
        def sampler(*a, **k):
            r = f(*a, **k)
            self.calls.append((name, np.array(r, copy=True)))
            return r
        return sampler

    def __exit__(self, *exc):
        for name, f in self.orig.items(): setattr(np.random, name, f)

    def take(self):
        calls, self.calls = self.calls, []
        return calls


def uniforms(calls, n):
    """the draws of one Dropout call, if they can be attributed: ONE sampler call that returned n floats in [0, 1)"""
    if len(calls) != 1: return None
    r = calls[0][1]
    if r.dtype.kind != 'f' or r.size != n or not bool(((r >= 0) & (r < 1)).all()): return None
    return [float(v) for v in r.ravel()]


def ndrawn(calls):
    return sum(int(r.size) for _, r in calls)


def stand_ins(p, xs, gs, y, g):
    """stand-ins for draws that could not be attributed: p = 0 keeps and p = 1 drops every element whatever was drawn; otherwise an
    element counts as dropped when its output is 0 (x != 0), or - where x = 0 hides the mask - when its gradient is 0 (g != 0). The
    model then checks the values (0 or exactly v/(1-p)) and that output and gradient follow ONE mask."""
    n = len(xs)
    if not 0 < p < 1 or y is None or len(y) != n: return [0.5] * n
    keep, drop = (1 + p) / 2, p / 2
    out = []
    for i in range(n):
        if xs[i] != 0: out.append(drop if y[i] == 0 else keep)
        elif g is not None and len(g) == n and gs[i] != 0: out.append(drop if g[i] == 0 else keep)
        else: out.append(keep)
    return out


def dropper(c, nn, training=True):
    """(callable, layer or None) for the form of the case"""
    from synapgrad.nn import functional as F
    if c.get('via', 'layer') == 'functional' and callable(getattr(F, 'dropout', None)):      # (a tree without the function: the layer)
        def f(x):
            try:
                return F.dropout(x, p=c['p'], training=training)
            except TypeError:
                return F.dropout(x, c['p'], training)
        return f, None
    d = nn.Dropout(c['p'])
    if not training: d.eval()
    return d, d


def relations(p, x, gu, y, gr, rtol=1e-12, stat=False):
    """what the property says about ONE training-mode call without reference to the draws (arrays of one shape): None or (class, text)"""
    x, gu, y, gr = [np.asarray(a, dtype=np.float64).ravel() for a in (x, gu, y, gr)]
    s = 1 / (1 - p) if p < 1 else 0.0
    near = lambda a, b: np.abs(a - b) <= rtol * (1 + np.abs(b))
    if not bool(((y == 0) | near(y, x * s)).all()):
        return 'forward', f'an output element is neither 0 nor x/(1-p): x={x[:12].tolist()} y={y[:12].tolist()} p={p}'
    if not bool(((gr == 0) | near(gr, gu * s)).all()):
        return 'backward', f'a gradient element is neither 0 nor g/(1-p): g={gu[:12].tolist()} grad={gr[:12].tolist()} p={p}'
    if p == 0 and not bool((near(y, x) & near(gr, gu)).all()):
        bad = np.flatnonzero(~(near(y, x) & near(gr, gu)))[:6].tolist()
        return 'backward-mask' if bool(near(y, x).all()) else 'forward', (f'p=0 drops nothing, yet elements {bad} (inputs {x[bad].tolist()}) give output '
                f'{y[bad].tolist()} and gradient {gr[bad].tolist()} for upstream {gu[bad].tolist()}')
    if p >= 1 and (y.any() or gr.any()):
        return 'forward', 'p=1 drops everything, yet output / gradient are not all 0'
    vis = (x != 0) & (gu != 0)
    if not bool(((y != 0) == (gr != 0))[vis].all()):
        bad = np.flatnonzero(vis & ((y != 0) != (gr != 0)))[:6].tolist()
        return 'backward-mask', f'elements {bad}: output {y[bad].tolist()} but gradient {gr[bad].tolist()} (upstream {gu[bad].tolist()}): forward and backward use different masks'
    if stat and 0 < p < 1:
        for where, sel, kept in (('whose input is exactly 0', (x == 0) & (gu != 0), gr != 0), ('with a non-zero input', x != 0, y != 0)):
            m = int(sel.sum())
            if m < 200: continue
            frac = float(kept[sel].mean())
            if abs(frac - (1 - p)) > 6 * (p * (1 - p) / m) ** .5:
                return ('backward-mask-zero-input' if 'exactly' in where else 'rate'), (f'{m} elements {where}: a fraction {1 - p:.3f} of them survives the mask and must '
                        f'{"receive gradient g/(1-p)" if "exactly" in where else "be passed on"}, observed {frac:.4f}')
    return None


def gen_dropseq(rng, forms=('layer',)):
    """ONE Dropout layer called several times in training mode on inputs of the same shape; the outputs are back-propagated
    later and in another order: each must go through the mask of its own forward call"""
    n = rng.randint(2, 6)
    k = rng.randint(2, 4)
    order = rng.sample(list(range(k)), k)
    if order == sorted(order): order.reverse()
    style = rng.pick([None, None, 'relu', 'sparse'])      # one kind of input for all calls of the layer, or any mixture
    return {'kind': 'dropseq', 'p': rng.pick([0.5, 0.25, 0.7, 0.4, 0.9, 0.0]), 'n': n, 'k': k, 'order': order, 'seed': rng.randrange(2 ** 31),
            'xs': [gen_xs(rng, n, style) for _ in range(k)], 'gs': [gen_gs(rng, n) for _ in range(k)], 'via': rng.pick(list(forms))}


def _dropseq_impl(c):
    sg = common.impl()
    from synapgrad import nn
    np.random.seed(c['seed'])
    c['_us_list'], c['_attr'] = [[0.5] * c['n']] * c['k'], [False] * c['k']
    with Draws() as dr:
        d, _ = dropper(c, nn)
        xs = [sg.Tensor(np.array(v, dtype=np.float64), requires_grad=True) for v in c['xs']]
        ys, caps = [], []
        for x in xs:                                             # all forwards first
            dr.take(); ys.append(d(x)); caps.append(uniforms(dr.take(), c['n']))
        for j in c['order']:                                     # backward later, in another order
            ys[j].backward(sg.Tensor(np.array(c['gs'][j], dtype=np.float64)))
    c['_attr'] = [u is not None for u in caps]
    c['_us_list'] = [u if u is not None else stand_ins(c['p'], c['xs'][j], c['gs'][j], ys[j].data.ravel().tolist(), xs[j].grad.data.ravel().tolist())
                     for j, u in enumerate(caps)]
    out = []
    for j in range(c['k']):
        out += [show_floats(ys[j].data.ravel()), show_floats(xs[j].grad.data.ravel())]
    return out


def lines_of(c):
    if c['kind'] == 'dropseq':
        out = []
        for j in range(c['k']):
            us = show_floats(c['_us_list'][j])
            out += [f"bn drop {fbits(c['p'])} 1 {show_floats(c['xs'][j])} {us}", f"bn dropbw {fbits(c['p'])} {show_floats(c['gs'][j])} {us}"]
        return out
    if c['kind'] == 'dropstat':
        return []
    if c['kind'] == 'drop':
        return [f"bn drop {fbits(c['p'])} {int(c['training'])} {show_floats(c['xs'])} {{us}}", f"bn dropbw {fbits(c['p'])} {show_floats(c['gs'])} {{us}}"]
    out = []
    if c.get('layer') != 'drop':
        out.append(f"bn new {c['C']} {show_opt(lambda v: str(fbits(v)), c['mo'])} {fbits(c['eps'])} {int(c['affine'])} {int(c['track'])}")
        out.append('bn attrs')
    if c['kind'] == 'tree': out.append('bn tree')
    nd = 0
    for e in c['evs']:
        if e[0] in ('setstats', 'setaffine'):
            out.append(f"bn {e[0]} {show_floats(e[1])} {show_floats(e[2])}")
        elif e[0] == 'fwd':
            sh = e[1]
            out.append(f"bn fwd {sh[0]} {sh[1]} {int(np.prod(sh[2:]))} {show_floats(e[2])}")
        elif e[0] == 'dfwd':
            us = show_floats(c['_us_list'][nd]); nd += 1
            out += [f"bn tdrop {fbits(c['p'])} {show_floats(e[1])} {us}", f"bn tdropbw {fbits(c['p'])} {show_floats(e[2])} {us}"]
        elif e[0] == 'freeze': pass                   # requires_grad of the affine parameters: nothing the model of the layer state knows about
        elif e[0] == 'bwd': out.append('bn bwd')
        elif e[0] == 'tnew': out.append(f'bn tnew {common.show_ints(e[2])}')
        elif e[0] in ('tset', 'treg', 'tmode'): out.append(f'bn {e[0]} {e[1]} {e[2]}' + (f' {e[3]}' if len(e) > 3 else ''))
        else:
            out.append(f"bn {e[0]}")
    return out



def extract():
    """the decision logic of BatchNorm.forward is re-read from layers.py (Generated/LayerLogic.lean); src_bn_forward_logic_is_model is re-checked by the build"""
    import layer_logic
    return layer_logic.write()[0]

def cases(rng, tier):
    out = []
    # the option grid, each point constructed all-keyword and all-positional, as BatchNorm1d and as BatchNorm2d
    for cls, mo, affine, track, npos in itertools.product(['1d', '2d'], [None, 0.1, 0.5, 1.0, 0.0], [False, True], [False, True], [1, 6]):
        for _ in range(1 if tier == 'quick' else 20):
            out.append(gen_bn(rng, tier, mo, affine, track, rng.pick([2, 3, 4]), gen_ctor(rng, cls, npos)))
    for _ in range(40 if tier == 'quick' else 1500):
        out.append(gen_bn(rng, tier, rng.pick(MOMENTA), rng.chance(.5), rng.chance(.7), rng.pick([2, 3, 4])))
    forms = drop_forms()
    for _ in range(80 if tier == 'quick' else 1500):
        out.append(gen_drop(rng, forms))
    for _ in range(30 if tier == 'quick' else 800):
        out.append(gen_dropseq(rng, forms))
    for via in sorted(set(forms)):
        for p in (0.0, 0.25, 0.5, 0.9):
            for dt in ('f64', 'f32') if tier != 'quick' else (rng.pick(['f64', 'f64', 'f32']),):
                for _ in range(1 if tier == 'quick' else 10):
                    out.append(gen_dropstat(rng, p, via, dt))
    for layer, n in (('bn', 50 if tier == 'quick' else 1500), ('drop', 40 if tier == 'quick' else 1000)):
        for i in range(n):
            out.append(gen_tree(rng, tier, layer, directed=i % 2 == 0))
    for c in out:
        try:       # (a call that raises leaves the stand-in draws in place; impl() / oracle() report the rejection)
            if c['kind'] == 'tree' and c['layer'] == 'drop':
                _tree_drop_impl(c)       # captures the draws of every call
            if c['kind'] == 'dropseq':
                _dropseq_impl(c)
            if c['kind'] == 'drop':
                _drop_impl(c)            # needs the captured draws to build the model's request
        except Exception:
            pass
        c['lines'] = [l.format(us=show_floats(c.get('_us', []))) for l in lines_of(c)]
        if c['kind'] == 'bn' or c.get('layer') == 'bn': c['ctor'] = show_call(c)
        c['desc'] = c['ctor'] + ' : ' + ' ; '.join(c['lines'])[:560] if 'ctor' in c else ' ; '.join(c['lines'])[:600] if c['kind'] != 'dropstat' else f"dropstat p={c['p']} via={c['via']} {c['dt']} shape={c['shape']} zeros={c['style']}"
        if 'via' in c: c['desc'] = f"[{c['via']}] " + c['desc']
    return out


def _state(bn, C):
    rm = bn.running_mean.data if bn.running_mean is not None else np.zeros(C)
    rv = bn.running_var.data if bn.running_var is not None else np.ones(C)
    return f"rm={show_floats(rm)} rv={show_floats(rv)} nbt={bn.num_batches_tracked} training={int(bn.training)}"


def _snap(bn):
    """buffers (bytes and dtype), counter and mode of the layer"""
    b = lambda t: None if t is None else (t.data.dtype.str, t.data.shape, t.data.tobytes())
    return (b(bn.running_mean), b(bn.running_var), bn.num_batches_tracked, bool(bn.training))


class Tree:
    """the module tree around a layer: node 0 is the layer; containers are built around existing nodes, nodes are attached / detached by
    assignment and register_module, train()/eval() are called on any node"""
    def __init__(self, layer):
        from synapgrad import nn
        self.nn = nn
        self.nodes = [layer]
        class Block(nn.Module):
            def forward(self, x): return x
        self.Block = Block

    def do(self, e):
        nodes, nn = self.nodes, self.nn
        if e[0] == 'tnew':
            kids = [nodes[k] for k in e[2]]
            if e[1] == 'S':
                node = nn.Sequential(*kids)
            else:
                node = self.Block()
                for i, k in enumerate(kids): setattr(node, str(i), k)
            nodes.append(node); return f'm{len(nodes) - 1}'
        if e[0] == 'tset':
            setattr(nodes[e[1]], e[2], nodes[int(e[3][1:])] if e[3][0] == 'm' else None if e[3] == 'none' else 3.14); return 'ok'
        if e[0] == 'treg':
            nodes[e[1]].register_module(e[2], nodes[e[3]]); return 'ok'
        if e[0] == 'tmode':
            (nodes[e[1]].train if e[2] else nodes[e[1]].eval)(); return 'ok'
        if e[0] == 'tflags':
            return ','.join(str(int(x.training)) for x in nodes)
        raise KeyError(e[0])


class ModeSpec:
    """the mode of every node as the property states it, kept from the program text alone: train()/eval() on a node set the mode of that
    node and of everything registered below it AT THAT MOMENT; attaching, detaching and constructing containers never change a mode"""
    def __init__(self):
        self.sub, self.mode = [{}], [True]

    def run(self, e):
        if e[0] == 'tnew':
            self.sub.append({str(i): k for i, k in enumerate(e[2])}); self.mode.append(True)
        elif e[0] == 'tset':
            self.sub[e[1]].pop(e[2], None)
            if e[3][0] == 'm': self.sub[e[1]][e[2]] = int(e[3][1:])
        elif e[0] == 'treg':
            self.sub[e[1]][e[2]] = e[3]
        elif e[0] == 'tmode':
            todo, seen = [e[1]], set()
            while todo:
                k = todo.pop()
                if k in seen: continue
                seen.add(k); self.mode[k] = bool(e[2]); todo += list(self.sub[k].values())


class BNWorld:
    """one BatchNorm layer and what the history does to it (used by the correspondence run and by the oracle alike)"""
    def __init__(self, c):
        self.sg = common.impl()
        from synapgrad import nn
        self.c = c
        name, pos, kw = bn_call(c)
        self.bn = bn = getattr(nn, name)(*pos, **kw)
        if c['kind'] == 'tree':
            self.tree = Tree(bn)
        else:
            parent = nn.Sequential(bn)
            self.who = {'self': bn, 'parent': parent, 'root': nn.Sequential(nn.ReLU(), parent)}
        self.pending = []          # outputs that require grad and can be back-propagated (again)

    def do(self, e):
        """every event but the forward and backward calls"""
        bn = self.bn
        if e[0] == 'setstats':
            if getattr(bn, 'running_mean', None) is not None:
                bn.running_mean.data = np.array(e[1], dtype=np.float64); bn.running_var.data = np.array(e[2], dtype=np.float64)
            return 'ok'
        if e[0] == 'setaffine':
            bn.weight.data = np.array(e[1], dtype=np.float64); bn.bias.data = np.array(e[2], dtype=np.float64); return 'ok'
        if e[0] in ('train', 'eval'):
            getattr(self.who[e[1] if len(e) > 1 else 'self'], e[0])(); return 'ok'
        if e[0] == 'freeze':
            (bn.unfreeze if e[1] else bn.freeze)(); return None
        return self.tree.do(e)

    def forward(self, e):
        x = self.sg.Tensor(np.array(e[2], dtype=np.float64).reshape(e[1]), requires_grad=bool(e[3]) if len(e) > 3 else False)
        before = x.data.copy()
        r = outcome(lambda: self.bn(x))
        if not isinstance(r, str):
            assert np.array_equal(before, x.data)
            if r.requires_grad: self.pending.append(r)
        return r

    def backward(self, e):
        """back-propagate a random upstream gradient through one of the pending outputs; False when there is none"""
        if not self.pending: return False
        j = len(self.pending) - 1 - e[1] % len(self.pending)
        y = self.pending[j] if e[3] else self.pending.pop(j)
        g = np.random.RandomState(e[2]).uniform(-2, 2, y.data.shape)
        with common.quiet():
            y.backward(self.sg.Tensor(g))
        return True


def _attrs(bn):
    """what the layer owns after construction"""
    has = lambda n: int(getattr(bn, n, None) is not None)
    return (f"weight={has('weight')} bias={has('bias')} running_mean={has('running_mean')} running_var={has('running_var')} "
            f"nbt={getattr(bn, 'num_batches_tracked', None)} params={len(bn.parameters())}")


def _bn_impl(c):
    out = []
    w = BNWorld(c)
    out += ['ok', _attrs(w.bn)]
    if c['kind'] == 'tree': out.append('m0')
    for e in c['evs']:
        s0 = _snap(w.bn)
        if e[0] == 'fwd':
            r = w.forward(e)
            kept = int(_snap(w.bn) == s0)
            out.append(f"{r} kept={kept} {_state(w.bn, c['C'])}" if isinstance(r, str) else f"out={show_floats(r.data.ravel())} kept={kept} {_state(w.bn, c['C'])}")
        elif e[0] == 'bwd':
            r = outcome(lambda: w.backward(e))
            out.append(f"{r} {_state(w.bn, c['C'])}" if isinstance(r, str) else f"kept={int(_snap(w.bn) == s0)} {_state(w.bn, c['C'])}")
        else:
            r = outcome(lambda: w.do(e))
            if r is not None: out.append(r)
    return out


def _tree_drop_impl(c):
    """Dropout as node 0 of a tree; every call: forward on an input that requires grad, backward straight away; the uniform draws of each
    call are captured (none are made in eval mode)"""
    sg = common.impl()
    from synapgrad import nn
    np.random.seed(c['seed'])
    out, us_list, calls = ['m0'], [], []
    c['_us_list'], c['_calls'] = [[0.5] * c['n']] * sum(e[0] == 'dfwd' for e in c['evs']), []
    with Draws() as dr:
        d = nn.Dropout(c['p'])
        tree = Tree(d)
        for e in c['evs']:
            if e[0] != 'dfwd':
                out.append(outcome(lambda: tree.do(e))); continue
            dr.take()
            x = sg.Tensor(np.array(e[1], dtype=np.float64), requires_grad=True)
            mode = bool(d.training)
            def go():
                y = d(x)
                with common.quiet():
                    y.backward(sg.Tensor(np.array(e[2], dtype=np.float64)))
                return y
            y = outcome(go)
            drawn = dr.take()
            us = uniforms(drawn, c['n'])
            if isinstance(y, str):
                out += [y, y]; calls.append({'rejected': True}); us_list.append(us or [0.5] * c['n'])
            else:
                yl, gl = [float(v) for v in y.data.ravel()], [float(v) for v in x.grad.data.ravel()]
                us_list.append(us if us is not None else stand_ins(c['p'], e[1], e[2], yl, gl) if mode else [0.5] * c['n'])
                out += [f"training={int(mode)} y={show_floats(y.data.ravel())}", f"g={show_floats(x.grad.data.ravel())}"]
                calls.append({'mode': mode, 'same': y is x, 'draws': ndrawn(drawn), 'attributed': us is not None, 'y': yl, 'g': gl})
    c['_us_list'], c['_calls'] = us_list, calls
    return out


def _drop_impl(c):
    sg = common.impl()
    from synapgrad import nn
    np.random.seed(c['seed'])
    c['_us'], c['_same'], c['_attr'], c['_draws'] = [0.5] * len(c['xs']), None, False, 0
    with Draws() as dr:
        d, layer = dropper(c, nn, c['training'])
        x = sg.Tensor(np.array(c['xs'], dtype=np.float64).reshape(c['shape']), requires_grad=True)
        dr.take()
        y = d(x)
        drawn = dr.take()
        same = y is x if layer is not None else None          # the layer in eval mode hands its input on; the function need only return its values
        res = [float(v) for v in y.data.ravel()]
        if c['training']:
            y.backward(sg.Tensor(np.array(c['gs'], dtype=np.float64).reshape(c['shape'])))
            gr = [float(v) for v in x.grad.data.ravel()]
        else:
            gr = None
    us = uniforms(drawn, len(c['xs']))
    c['_attr'], c['_draws'] = us is not None, ndrawn(drawn)
    c['_us'] = us if us is not None else stand_ins(c['p'], c['xs'], c['gs'], res, gr) if c['training'] else [0.5] * len(c['xs'])
    c['_same'] = same
    return res, gr


def _dropstat_impl(c):
    """one training-mode call on 2048 elements, about half of them exact zeros; judged by `relations` (no draws needed)"""
    sg = common.impl()
    from synapgrad import nn
    r = np.random.RandomState(c['seed'])
    dt = np.float32 if c['dt'] == 'f32' else np.float64
    x = r.randn(c['n'])
    if c['style'] == 'relu': x[x < 0] = 0.0
    else: x[r.rand(c['n']) < .5] = 0.0
    x = x.astype(dt).reshape(c['shape'])
    g = (r.rand(c['n']) + 0.5).astype(dt).reshape(c['shape'])
    np.random.seed(c['seed'])
    d, _ = dropper(c, nn)
    xt = sg.Tensor(x.copy(), requires_grad=True)
    y = d(xt)
    with common.quiet():
        y.backward(sg.Tensor(g.copy()))
    return relations(c['p'], x, g, y.data, xt.grad.data, rtol=1e-6 if c['dt'] == 'f32' else 1e-12, stat=True)


def impl(c):
    if c['kind'] == 'tree' and c['layer'] == 'drop':
        return _tree_drop_impl(c)
    if c['kind'] in ('bn', 'tree'):
        return _bn_impl(c)
    if c['kind'] == 'dropseq':
        r = outcome(lambda: _dropseq_impl(c))
        return [r] * (2 * c['k']) if isinstance(r, str) else r
    if c['kind'] == 'dropstat':
        c['_verdict'] = outcome(lambda: _dropstat_impl(c))
        return []
    r = outcome(lambda: _drop_impl(c))
    if isinstance(r, str):
        return [r, r]
    res, gr = r
    # eval mode: the model's backward line is still evaluated with the (dummy) draws; the implementation has no mask then
    return [show_floats(res), show_floats(gr) if gr is not None else None]


FLOAT_KEYS = ('out', 'rm', 'rv', 'dx', 'y', 'g')


def _close_tok(a, b):
    if a == b: return True
    try:
        x, y = common.bitsf(a), common.bitsf(b)
    except Exception:
        return False
    return abs(x - y) <= 1e-9 * (1 + abs(x) + abs(y))


def _close_line(m, i):
    if m == i: return True
    if i is None: return True
    mt, it = m.split(' '), i.split(' ')
    if len(mt) != len(it): return False
    for a, b in zip(mt, it):
        if a == b: continue
        if '=' in a and '=' in b:
            ka, va = a.split('=', 1); kb, vb = b.split('=', 1)
            if ka != kb: return False
            if ka not in FLOAT_KEYS: return False          # counters and flags are exact (never read as float bit patterns)
        else:
            va, vb = a, b
        la, lb = va.split(','), vb.split(',')
        if len(la) != len(lb) or not all(_close_tok(p, q) for p, q in zip(la, lb)): return False
    return True


def compare(c, mo, io):
    diffs = [(c['lines'][k][:80], m[:200], str(i)[:200]) for k, (m, i) in enumerate(zip(mo, io)) if not _close_line(m, i)]
    if c['kind'] == 'drop' and not c['training'] and (c.get('_same') is False or c.get('_draws')):
        diffs.append(('eval', 'identity (same tensor, no draw)', f"same={c.get('_same')} draws={c.get('_draws')}"))
    if c['kind'] == 'dropstat' and c.get('_verdict') is not None:
        diffs.append((c['desc'], 'the relations between input, output and gradient of a training-mode call', str(c['_verdict'])[:300]))
    if c['kind'] == 'tree' and c['layer'] == 'drop':
        for k, cl in enumerate(c.get('_calls', [])):
            if not cl.get('rejected') and not cl['mode'] and (not cl['same'] or cl['draws']):
                diffs.append((f'call {k} (eval)', 'identity (same tensor, no draw)', f"same={cl['same']} draws={cl['draws']}"))
    return diffs[:3]


def nontrivial(c):
    if c['kind'] in ('dropseq', 'dropstat'):
        return True
    if c['kind'] == 'tree':
        return sum(e[0] in ('fwd', 'dfwd') for e in c['evs']) >= 2 and any(e[0] == 'tmode' for e in c['evs'])
    if c['kind'] == 'drop':
        return c['training'] and 0 < c['p'] < 1
    f = [e for e in c['evs'] if e[0] == 'fwd']
    return len(f) >= 2 and any(e[0] in ('train', 'eval') for e in c['evs'])


def distribution(cases):
    d = {}
    def inc(k, n=1): d[k] = d.get(k, 0) + n
    for c in cases:
        if c['kind'] == 'tree':
            inc(f"tree/{c['layer']}")
            spec = ModeSpec()
            attached_since_switch = False
            for e in c['evs']:
                if e[0] in ('tnew', 'tset', 'treg', 'tmode'):
                    before = list(spec.sub)
                    holders0 = {m for m in range(len(spec.sub)) if 0 in spec.sub[m].values()}
                    spec.run(e)
                    holders1 = {m for m in range(len(spec.sub)) if 0 in spec.sub[m].values()}
                    if e[0] == 'tmode':
                        inc('tree: train()/eval() on ' + ('the layer' if e[1] == 0 else 'another node')); attached_since_switch = False
                    elif holders1 - holders0:
                        ms = {spec.mode[m] for m in holders1 - holders0}
                        inc('tree: layer attached to a parent in ' + ('the same mode' if ms == {spec.mode[0]} else 'ANOTHER mode')); attached_since_switch = True
                    elif holders0 - holders1: inc('tree: layer detached from a parent')
                    elif e[0] == 'tnew': inc('tree: container built around other nodes')
                    else: inc('tree: other node attached / detached')
                elif e[0] in ('fwd', 'dfwd'):
                    inc(f"tree: call with the layer in {'train' if spec.mode[0] else 'eval'} mode" + (', attached since its last mode switch' if attached_since_switch else ''))
        else:
            k = c['kind'] + (f"/mo={c['mo']}/track={int(c['track'])}" if c['kind'] == 'bn' else '' if c['kind'] == 'dropseq' else
                             f"/p={c['p']}/{c['dt']}" if c['kind'] == 'dropstat' else f"/train={int(c['training'])}")
            inc(k)
        _drop_dist(c, inc)
        if c['kind'] in ('bn', 'tree') and c.get('layer') != 'drop':
            name, pos, kw = bn_call(c)
            inc(f"ctor: {name}, {len(pos)} positional / {len(kw)} keyword arguments")
            inc(f"ctor: {name} affine={int(c['affine'])} track_running_stats={int(c['track'])} " + ('all positional' if c.get('npos') == 6 else 'all keyword' if c.get('npos', 1) == 1 else 'mixed'))
            if len(pos) + len(kw) < 6: inc('ctor: options equal to their default left out')
            training, pend = True, 0
            spec = ModeSpec()
            for e in c['evs']:
                if e[0] in ('train', 'eval'): training = e[0] == 'train'
                elif e[0][0] == 't': spec.run(e); training = spec.mode[0]
                elif e[0] == 'fwd':
                    rg = len(e) > 3 and e[3]
                    inc(f"bn forward: {'train' if training else 'eval'} mode, track={int(c['track'])}, input requires grad={int(bool(rg))}")
                elif e[0] == 'bwd':
                    inc(f"bn backward event with the layer in {'train' if training else 'eval'} mode, track={int(c['track'])}" + (' (output kept for another backward)' if e[3] else ''))
    return d


def _drop_dist(c, inc):
    """Dropout calls: form, exact zeros in the input, whether the draws could be attributed"""
    if c['kind'] == 'drop' and c['training']: calls = [(c['xs'], c['gs'], c.get('_attr'))]
    elif c['kind'] == 'dropseq': calls = [(x, g, a) for x, g, a in zip(c['xs'], c['gs'], c.get('_attr', [None] * c['k']))]
    elif c['kind'] == 'tree' and c['layer'] == 'drop':
        cl = [k for k in c.get('_calls', [])]
        ev = [e for e in c['evs'] if e[0] == 'dfwd']
        calls = [(e[1], e[2], k.get('attributed')) for e, k in zip(ev, cl) if k.get('mode')]
    elif c['kind'] == 'dropstat':
        inc(f"dropout via {c['via']}: frequency test on {c['n']} elements with exact zeros"); return
    else: return
    for xs, gs, a in calls:
        inc(f"dropout training call via {c.get('via', 'layer')}")
        nz = sum(1 for x, g in zip(xs, gs) if x == 0 and g != 0)
        inc('dropout training call: input holds exact zeros (with a non-zero upstream gradient there)' if nz else 'dropout training call: no zero in the input')
        if nz and c['p'] == 0: inc('dropout training call: p = 0 on an input with exact zeros')
        inc('dropout training call: draws ' + ('captured (one array of uniforms)' if a else 'NOT attributed (relations only)'))


# ---- property predicate on the implementation alone (independent NumPy recomputation) ---------
def oracle(c):
    sg = common.impl()
    from synapgrad import nn
    if c['kind'] == 'dropseq':
        r = outcome(lambda: _dropseq_impl(c))
        if isinstance(r, str):
            return {'key': {'kind': 'dropseq', 'cls': 'rejected'}, 'case': _strip(c), 'what': 'Dropout sequence raised'}
        p = c['p']; scale = 1 / (1 - p) if p < 1 else 1.0
        for j in range(c['k']):
            us = c['_us_list'][j]
            gy, gg = common.parse_floats(r[2 * j]), common.parse_floats(r[2 * j + 1])
            if not c['_attr'][j]:
                v = relations(p, c['xs'][j], c['gs'][j], gy, gg)
                if v: return {'key': {'kind': 'dropseq', 'cls': v[0]}, 'case': _strip(c), 'what': f'call {j} of {c["k"]} on one Dropout ({c.get("via", "layer")}), back-propagated after the later calls: {v[1]}'}
                continue
            wy = [0.0 if u <= p else x * scale for x, u in zip(c['xs'][j], us)]
            wg = [0.0 if u <= p else g * scale for g, u in zip(c['gs'][j], us)]
            if any(abs(a - b) > 1e-12 * (1 + abs(b)) for a, b in zip(gy, wy)):
                return {'key': {'kind': 'dropseq', 'cls': 'forward'}, 'case': _strip(c), 'what': f'call {j}: output {gy}, expected {wy}'}
            if any(abs(a - b) > 1e-12 * (1 + abs(b)) for a, b in zip(gg, wg)):
                return {'key': {'kind': 'dropseq', 'cls': 'backward-mask'}, 'case': _strip(c), 'what': f'call {j} of {c["k"]} on one Dropout layer, back-propagated after the later calls: gradient {gg}, its own mask gives {wg}'}
        return None
    if c['kind'] == 'drop':
        r = outcome(lambda: _drop_impl(c))
        if isinstance(r, str):
            return {'key': {'kind': 'drop', 'cls': 'rejected'}, 'case': _strip(c), 'what': 'Dropout raised'}
        res, gr = r
        xs, us, p = c['xs'], c['_us'], c['p']
        if not c['training']:
            if res != xs or c['_same'] is False:
                return {'key': {'kind': 'drop', 'cls': 'eval'}, 'case': _strip(c), 'what': 'eval-mode dropout is not the identity'}
            return None
        if not c['_attr']:
            v = relations(p, xs, c['gs'], res, gr)
            return {'key': {'kind': 'drop', 'cls': v[0]}, 'case': _strip(c), 'what': f'Dropout ({c.get("via", "layer")}), training mode: {v[1]}'} if v else None
        scale = 1 / (1 - p) if p < 1 else 1.0
        want = [0.0 if u <= p else x * scale for x, u in zip(xs, us)]
        wg = [0.0 if u <= p else g * scale for g, u in zip(c['gs'], us)]
        if any(abs(a - b) > 1e-12 * (1 + abs(b)) for a, b in zip(res, want)):
            return {'key': {'kind': 'drop', 'cls': 'forward'}, 'case': _strip(c), 'what': f'training output {res}, expected {want} for draws {us}'}
        if any(abs(a - b) > 1e-12 * (1 + abs(b)) for a, b in zip(gr, wg)):
            return {'key': {'kind': 'drop', 'cls': 'backward'}, 'case': _strip(c), 'what': f'gradient {gr}, expected {wg} (same mask)'}
        return None
    if c['kind'] == 'dropstat':
        v = outcome(lambda: _dropstat_impl(c))
        if isinstance(v, str):
            return {'key': {'kind': 'dropstat', 'cls': 'rejected'}, 'case': _strip(c), 'what': 'Dropout raised'}
        return {'key': {'kind': 'dropstat', 'cls': v[0]}, 'case': _strip(c), 'what': f'Dropout ({c["via"]}, p={c["p"]}, {c["dt"]}) on {c["n"]} elements, input with exact zeros ({c["style"]}): {v[1]}'} if v else None
    if c['kind'] == 'tree' and c['layer'] == 'drop':
        return _tree_drop_oracle(c)
    # batch norm: recompute with plain numpy from the documented rule
    C = c['C']
    rm, rv, nbt, training = np.zeros(C), np.ones(C), 0, True
    g, b = (np.ones(C), np.zeros(C)) if c['affine'] else (None, None)
    w = outcome(lambda: BNWorld(c))
    if isinstance(w, str):
        return {'key': {'kind': 'bn', 'cls': 'ctor-rejected'}, 'case': _strip(c, 1), 'what': f'{show_call(c)} raised'}
    bn = w.bn
    want = f"weight={int(c['affine'])} bias={int(c['affine'])} running_mean={int(c['track'])} running_var={int(c['track'])} nbt=0 params={2 * int(c['affine'])}"
    if _attrs(bn) != want:
        return {'key': {'kind': 'bn', 'cls': 'options'}, 'case': _strip(c, 1), 'what': f'{show_call(c)} owns {_attrs(bn)}; its options say {want}'}
    spec = ModeSpec()
    for k, e in enumerate(c['evs']):
        def fail(cls, what):
            return {'key': {'kind': 'bn', 'cls': cls}, 'case': _strip(c, k + 1), 'what': what}
        s0 = _snap(bn)
        if e[0] == 'bwd':
            r = outcome(lambda: w.backward(e))
            if isinstance(r, str):
                return fail('backward-rejected', 'backward through an output of the layer raised')
            if _snap(bn) != s0:
                return fail('backward-state', f'a backward pass through an output of the layer (layer in {"training" if s0[3] else "eval"} mode now) changed its state: '
                            f'{_state(bn, C)} (before: nbt={s0[2]}, rv={None if s0[1] is None else np.frombuffer(s0[1][2]).tolist()})')
            continue
        if e[0] != 'fwd':
            if e[0] == 'setstats':
                if c['track']: rm, rv = np.array(e[1]), np.array(e[2])
            elif e[0] == 'setaffine': g, b = np.array(e[1]), np.array(e[2])
            elif e[0] == 'train': training = True
            elif e[0] == 'eval': training = False
            r = outcome(lambda: w.do(e))
            if r == 'rejected':
                return fail('rejected', f'{e[0]} raised')
            if e[0][0] == 't' and e[0] not in ('train', 'eval'):       # events of the module tree
                spec.run(e)
                training = spec.mode[0]
                flags = [bool(x.training) for x in w.tree.nodes]
                if flags != spec.mode:
                    return fail('mode', f'after {e}: the modes of the nodes are {[int(v) for v in flags]}; the last switches that reached them give {[int(v) for v in spec.mode]} '
                                '(node 0 is the layer; attaching / detaching / building a container is not a mode switch)')
            continue
        x = np.array(e[2]).reshape(e[1])
        r = w.forward(e)
        axes = tuple(i for i in range(x.ndim) if i != 1)
        n = x.size / C
        use_batch = training or not c['track']
        if not (training and c['track']) and _snap(bn) != s0:
            return fail('eval-state', f'forward {k} in {"training" if training else "eval"} mode (track_running_stats={c["track"]}) changed the state of the layer: {_state(bn, C)}')
        if use_batch and n <= 1:
            if not isinstance(r, str):
                return fail('accept-n1', 'a batch with one value per channel was normalised with its own statistics')
            if training and c['track']: nbt += 1   # as in PyTorch the counter advances before the call is rejected
            continue
        if isinstance(r, str):
            return fail('rejected', 'forward raised on a legal batch')
        sh = tuple(C if i == 1 else 1 for i in range(x.ndim))
        m = x.mean(axes) if use_batch else rm
        v = x.var(axes) if use_batch else rv
        y = (x - m.reshape(sh)) / np.sqrt(v.reshape(sh) + c['eps'])
        if g is not None: y = y * g.reshape(sh) + b.reshape(sh)
        if training and c['track']:
            nbt += 1
            f = 1.0 / nbt if c['mo'] is None else c['mo']
            rm = m * f + rm * (1 - f); rv = v * (n / (n - 1)) * f + rv * (1 - f)
        if np.abs(r.data - y).max() > 1e-9 * (1 + np.abs(y).max()):
            return fail('output', f'forward {k} (the last mode switch that reached the layer: {"train" if training else "eval"}): output differs from the documented normalisation by {np.abs(r.data - y).max()}')
        if c['track']:
            if np.abs(bn.running_mean.data - rm).max() > 1e-9 * (1 + np.abs(rm).max()) or np.abs(bn.running_var.data - rv).max() > 1e-9 * (1 + np.abs(rv).max()) \
                    or bn.num_batches_tracked != nbt:
                return fail('running', f'forward {k} (training={training}): running statistics {bn.running_mean.data},{bn.running_var.data},{bn.num_batches_tracked} expected {rm},{rv},{nbt}')
    return None


def _tree_drop_oracle(c):
    r = outcome(lambda: _tree_drop_impl(c))
    if isinstance(r, str):
        return {'key': {'kind': 'tree-drop', 'cls': 'rejected'}, 'case': _strip(c), 'what': 'the history raised'}
    spec = ModeSpec()
    p = c['p']; scale = 1 / (1 - p) if p < 1 else 1.0
    nd, li = 0, 1
    for k, e in enumerate(c['evs']):
        def fail(cls, what):
            return {'key': {'kind': 'tree-drop', 'cls': cls}, 'case': _strip(c, k + 1), 'what': what}
        if e[0] != 'dfwd':
            if r[li] == 'rejected': return fail('rejected', f'{e[0]} raised')
            spec.run(e)
            if e[0] == 'tflags' and r[li] != ','.join(str(int(v)) for v in spec.mode):
                return fail('mode', f'modes of the nodes {r[li]}; the last switches that reached them give {[int(v) for v in spec.mode]} (node 0 is the Dropout layer)')
            li += 1
            continue
        cl, us = c['_calls'][nd], c['_us_list'][nd]
        nd += 1; li += 2
        if cl.get('rejected'): return fail('rejected', 'Dropout forward / backward raised')
        xs, gs = e[1], e[2]
        if not spec.mode[0]:
            if not cl['same'] or cl['y'] != xs or cl['g'] != gs:
                return fail('eval', f'the last mode switch that reached the Dropout layer was eval(), but the call is not the identity: y={cl["y"]} for x={xs} ({cl["draws"]} draws)')
            continue
        if not cl['attributed']:
            if cl['same'] and 0 < p:
                return fail('train', 'the last mode switch that reached the Dropout layer was train(), but the call handed its input on (as in eval mode)')
            v = relations(p, xs, gs, cl['y'], cl['g'])
            if v: return fail(v[0], v[1])
            continue
        wy = [0.0 if u <= p else x * scale for x, u in zip(xs, us)]
        wg = [0.0 if u <= p else g_ * scale for g_, u in zip(gs, us)]
        if any(abs(a - b) > 1e-12 * (1 + abs(b)) for a, b in zip(cl['y'], wy)):
            return fail('forward', f'training output {cl["y"]}, expected {wy} for draws {us}')
        if any(abs(a - b) > 1e-12 * (1 + abs(b)) for a, b in zip(cl['g'], wg)):
            return fail('backward', f'gradient {cl["g"]}, expected {wg} (same mask)')
    return None


def _strip(c, nev=None):
    d = {k: v for k, v in c.items() if not k.startswith('_') and k not in ('lines', 'desc')}
    if nev and 'evs' in d: d['evs'] = d['evs'][:nev]
    return d


def search(rng, tier):
    for c in cases(rng, 'quick'):
        f = oracle(c)
        if f: yield f


def matches_known(k, fail): return k.get('key') == fail.get('key')
def rerun_known(k): return oracle(_fix(k['witness'])) is not None
def _fix(c):
    if 'evs' in c: c['evs'] = [tuple(tuple(x) if i == 1 and e[0] == 'fwd' else x for i, x in enumerate(e)) for e in c['evs']]
    if 'shape' in c: c['shape'] = tuple(c['shape'])
    return c
def replay(fail):
    f = oracle(_fix(fail['case']))
    return {'fails': f is not None, 'now': f}
