"""C16 — im2col / col2im variants agree; col2im is the adjoint of im2col (synapgrad/conv_tools.py)"""
import numpy as np
import common
from common import show_floats, show_ints, fbits, outcome
import tprog, gen_ops

PROP = 'C16'
LEAN_TARGETS = ['Props.C16']
REQUIRED_THEOREMS = ['Props.C16.im2col_variants_agree', 'Props.C16.col2im_variants_agree', 'Props.C16.col2im_adjoint_of_im2col',
                     'Props.C16.fold_unfold_coverage']
RULE = ('large inputs (more than 2^20 column entries, batch 3..11) on the implementation side: the three variants against the window definition (torch unfold) and the adjoint identity; a few geometries with one axis of extent 253..300 (where narrow index types would wrap); geometry grid: N, C in 1..2, H, W in 1..6, kernel 1..3, stride 1..3, dilation 1..2, padding 0..d(k-1)/2+1 per axis independently '
        '(non-square, stride > kernel, windows that do not tile), int and tuple kernel sizes, both layouts (N x CkHkW x L and the 2-D '
        'column matrix), pad_value of every numeric type and spelling (Python int / float / bool, NumPy int8..int64 / uint8 / float16..float64, signed zero, fractions, +-inf) also with padding 0, data with fractional parts (multiples of 1/8, so equality stays exact) or integer-valued, float64 and float32 arrays, the dtype of every result = the dtype of its input; half of the calls of the index-based variants use an index triple obtained with return_indices=True that has already been through col2im and im2col (col_indices=); four in ten calls are the second call on the same array object after it was overwritten in place (a re-used buffer); every input array is handed over in one of the memory layouts C, Fortran, strided view, negative-stride view, window into a larger buffer; '
        'SIZE-1 AXES: geometries with W = 1, H = 1, N = 1, C = 1 (any combination) and kernel extents 1, padding 0 (70 %) and > 0, whose input arrays '
        '(images, column matrices, window arrays) got their size-1 axes by newaxis / expand_dims / broadcast_to / a transpose / a stepped slice of a wider buffer / reshape of a strided view / '
        'as_strided with an odd, negative or wide stride on those axes (NumPy never advances them and still flags the array C-contiguous), each rebuilt inside a much larger buffer; each of the three im2col and three col2im '
        'implementations and extract/place_windows is compared with its own model definition, ~8 % geometries without a window '
        '(must raise). Extra implementation-side checks: the three variants agree bit for bit, <im2col x, y> = <x, col2im y>, '
        'fold(unfold(ones)) = coverage counts. Non-trivial: at least 2 windows and an overlapping or dilated geometry.')
EXHAUSTIVE = {'quick': False, 'thorough': False}
ASSUMPTIONS = ['float64 / float32 data that are multiples of 1/8 (all sums exact); pad values finite or +-inf (no NaN)']
TRUSTED_BASE = ['harness/props/c16.py']


def geom(rng, malformed=False):
    N, C = rng.randint(1, 2), rng.randint(1, 2)
    H, kh, sh, ph, dh = gen_ops.geom1(rng, malformed)
    W, kw, sw, pw, dw = gen_ops.geom1(rng)
    H, W = min(H, 6), min(W, 6)
    if not malformed:
        if H + 2 * ph < dh * (kh - 1) + 1: ph += (dh * (kh - 1) + 1 - H - 2 * ph + 1) // 2 + 1
        if W + 2 * pw < dw * (kw - 1) + 1: pw += (dw * (kw - 1) + 1 - W - 2 * pw + 1) // 2 + 1
    return {'N': N, 'C': C, 'H': H, 'W': W, 'k': (kh, kw), 's': (sh, sw), 'p': (ph, pw), 'd': (dh, dw)}


def unit_geom(rng):
    """geometries with SIZE-1 axes: single-column / single-row images (W = 1, H = 1, both), batch 1, one channel, kernel extents 1 - with
    padding 0 (most of the time: nothing is padded, the variants read the caller's memory as it is) and > 0"""
    g = geom(rng)
    k, s_, p, d = list(g['k']), list(g['s']), list(g['p']), list(g['d'])
    which = rng.pick(['W', 'W', 'W', 'H', 'HW', 'N', 'C', 'NC', 'all', 'k1', 'NCW'])
    for ax, name in enumerate(('H', 'W')):
        if name in which or which == 'all':
            g[name] = 1
            if rng.chance(.7): p[ax], k[ax], d[ax] = 0, 1, rng.randint(1, 2)
            else:
                p[ax] = rng.randint(1, 2); d[ax] = 1; k[ax] = rng.randint(1, min(3, 1 + 2 * p[ax]))
        elif which == 'k1' or rng.chance(.5):
            k[ax] = 1 if which == 'k1' or rng.chance(.5) else k[ax]
            if rng.chance(.75):
                p[ax] = 0
                if g[name] < d[ax] * (k[ax] - 1) + 1: k[ax] = 1
    if 'N' in which or which == 'all': g['N'] = 1
    if 'C' in which or which == 'all': g['C'] = 1
    g.update(k=tuple(k), s=tuple(s_), p=tuple(p), d=tuple(d))
    return g


def big_geom(rng):
    """one long axis (extent around 255 / 256 / 65535 is where narrow index types wrap), tiny everything else"""
    k, s, d, p = rng.randint(1, 3), rng.randint(1, 3), rng.randint(1, 2), rng.randint(0, 3)
    # extent and extent + padding straddle 255 / 256 / 257 (uint8) in every combination
    L = rng.pick([255, 255, 254, 256 - p, 257 - p, 258 - p, 256, 257, 300])
    small = rng.randint(1, 3)
    ks, ss, ds, ps = rng.randint(1, min(2, small)), 1, 1, rng.randint(0, 1)
    if rng.chance(.5):
        return {'N': 1, 'C': rng.randint(1, 2), 'H': L, 'W': small, 'k': (k, ks), 's': (s, ss), 'p': (p, ps), 'd': (d, ds)}
    return {'N': rng.randint(1, 2), 'C': 1, 'H': small, 'W': L, 'k': (ks, k), 's': (ss, s), 'p': (ps, p), 'd': (ds, d)}


BIG = [  # (N, C, H, W, k, s, p, d): more than 2**20 column entries, batch sizes that are not multiples of anything convenient
    (10, 4, 64, 64, (3, 3), (1, 1), (1, 1), (1, 1)), (7, 3, 50, 50, (3, 3), (1, 1), (0, 0), (1, 1)), (3, 8, 48, 48, (5, 5), (1, 1), (2, 2), (1, 1)),
    (5, 2, 96, 64, (3, 2), (1, 1), (1, 0), (2, 1)), (11, 1, 128, 128, (2, 2), (1, 1), (0, 0), (1, 1)), (6, 6, 40, 40, (3, 3), (1, 1), (1, 1), (1, 1)),
]


def _big_relations(c):
    """implementation side only (the model would need minutes for a million entries; the theorems cover every size): on a LARGE
    input the three im2col / col2im implementations agree with each other and with torch, and the adjoint identity holds"""
    import torch, torch.nn.functional as F
    ct = _ct()
    N, C, H, W, k, s_, p, d = BIG[c['big']]
    rs = np.random.RandomState(c['seed'])
    x = lay(rs.randint(-4, 5, (N, C, H, W)).astype(np.float64), c.get('layout', 'C'))
    ref = F.unfold(torch.tensor(np.ascontiguousarray(x)), k, d, p, s_).numpy()
    for unf in (True, False):
        a = [f(x, k, d, s_, p, 0.0, as_unfold=unf) for f in (ct.im2col, ct.im2col_v2, ct.im2col_fast)]
        want = ref if unf else ref.transpose(1, 2, 0).reshape(ref.shape[1], -1)
        for name, v in zip(('im2col', 'im2col_v2', 'im2col_fast'), a):
            if v.shape != want.shape or not np.array_equal(v, want):
                bad = int((v != want).sum()) if v.shape == want.shape else -1
                return f'{name}(as_unfold={unf}) on input {(N, C, H, W)} kernel {k} padding {p} dilation {d}: {bad} entries differ from the window definition (torch unfold)'
    y = rs.randint(-3, 4, ref.shape).astype(np.float64)
    b = [f(y, (N, C, H, W), k, d, s_, p) for f in (ct.col2im, ct.col2im_v2, ct.col2im_fast)]
    if not (np.array_equal(b[0], b[1]) and np.array_equal(b[0], b[2])):
        return f'the three col2im implementations differ on a large input {(N, C, H, W)}'
    if float((ref * y).sum()) != float((np.ascontiguousarray(x) * b[0]).sum()):
        return '<im2col x, y> != <x, col2im y> on a large input'
    return None


def out_size(g):
    o = []
    for L, k, s, p, d in zip((g['H'], g['W']), g['k'], g['s'], g['p'], g['d']):
        n = L + 2 * p - d * (k - 1) - 1
        o.append(n // s + 1 if n >= 0 else 0)
    return o


def gl(g):
    return f"{g['N']},{g['C']},{g['H']},{g['W']} {show_ints(g['k'])} {show_ints(g['s'])} {show_ints(g['p'])} {show_ints(g['d'])}"


# pad_value in every numeric TYPE and spelling a caller may pass (the model reads the value): Python int / float / bool, NumPy integers
# and floats of several widths, signed zero, fractions, +-inf
PADS = [('float', 0.0), ('float', 0.0), ('int', 0), ('int', 7), ('int', -3), ('int', 1), ('int', -1), ('float', 7.0), ('float', -3.0), ('float', 1.5),
        ('float', -0.25), ('float', -0.0), ('bool', True), ('bool', False), ('np.int8', -3), ('np.int16', 7), ('np.int32', 1), ('np.int64', 7),
        ('np.uint8', 200), ('np.float16', 1.5), ('np.float32', -2.5), ('np.float64', 0.5), ('float', float('inf')), ('float', float('-inf')),
        ('np.float32', float('-inf')), ('np.float64', float('inf'))]
DT = {'f64': np.float64, 'f32': np.float32}


def typed_pad(c):
    t, v = c.get('padspec') or ('float', c['pad'])
    if t == 'float': return float(v)
    if t == 'int': return int(v)
    if t == 'bool': return bool(v)
    return getattr(np, t[3:])(v)


def cases(rng, tier):
    out = []
    n = 60 if tier == 'quick' else 2500
    nbig = 12 if tier == 'quick' else 120
    nunit = 45 if tier == 'quick' else 1500
    for it_ in range(n + nbig + nunit):
        malformed = rng.chance(.08) if it_ < n else False
        g = geom(rng, malformed) if it_ < n else big_geom(rng) if it_ < n + nbig else unit_geom(rng)
        # data with fractional parts (multiples of 1/8, exact in float32 and under the sums of col2im) seven times out of ten
        frac = rng.chance(.7)
        q = (lambda: rng.randint(-72, 72) / 8) if frac else (lambda: float(rng.randint(-9, 9)))
        x = [q() for _ in range(g['N'] * g['C'] * g['H'] * g['W'])]
        padspec = rng.pick(PADS)
        pad = float(padspec[1])
        dt = rng.pick(['f64', 'f64', 'f32'])
        first = len(out)
        lh, lw = out_size(g)
        R, L = g['C'] * g['k'][0] * g['k'][1], max(lh * lw, 0)
        y = [q() for _ in range(g['N'] * R * L)]
        for variant in ('idx', 'loop', 'view'):
            unf = rng.chance(.5)
            out.append({'fn': 'im2col', 'variant': variant, 'g': g, 'x': x, 'pad': pad, 'unf': unf, 'malformed': malformed,
                        'lines': [f"conv im2col {variant} {gl(g)} {fbits(pad)} {int(unf)} {show_floats(x)}"]})
            fold = rng.chance(.5)
            csh = (g['N'], R, L) if fold else (R, L * g['N'])
            if malformed:
                continue      # col2im on a geometry without windows is outside the property (the variants answer zeros or raise depending on the sign of L)
            out.append({'fn': 'col2im', 'variant': variant, 'g': g, 'y': y, 'fold': fold, 'csh': csh, 'malformed': malformed,
                        'lines': [f"conv col2im {variant} {gl(g)} {int(fold)} {show_ints(csh)} {show_floats(y)}"]})
        out.append({'fn': 'extract', 'g': g, 'x': x, 'pad': pad, 'malformed': malformed, 'lines': [f"conv extract {gl(g)} {fbits(pad)} {show_floats(x)}"]})
        wsh = (lh, lw, g['N'], g['C'], g['k'][0], g['k'][1])
        wv = [q() for _ in range(max(int(np.prod(wsh)), 0))]
        if not malformed:     # place_windows without windows is outside the property (it answers zeros)
          out.append({'fn': 'place', 'g': g, 'w': wv, 'wsh': wsh, 'malformed': malformed, 'lines': [f"conv place {gl(g)} {show_ints(wsh)} {show_floats(wv)}"]})
        out.append({'fn': 'relations', 'g': g, 'x': x, 'y': y, 'pad': pad, 'malformed': malformed, 'lines': [f"conv im2col spec {gl(g)} {fbits(0.0)} 1 {show_floats(x)}"]})
        for c in out[first:]:
            c['padspec'], c['dt'], c['frac'] = list(padspec), dt, frac
            if it_ >= n + nbig: c['ulayout'] = rng.pick(UNIT_LAYOUTS)
    for k_ in (rng.sample(range(len(BIG)), 2) if tier == 'quick' else range(len(BIG))):
        out.append({'fn': 'bigrel', 'big': k_, 'seed': rng.randrange(2 ** 31), 'malformed': False, 'g': {'N': 1, 'C': 1, 'H': 1, 'W': 1, 'k': (1, 1), 's': (1, 1), 'p': (0, 0), 'd': (1, 1)},
                    'x': [1.0], 'lines': [f"conv im2col spec 1,1,1,1 1,1 1,1 0,0 1,1 {fbits(0.0)} 1 {show_floats([1.0])}"]})
    for c in out:
        c['layout'] = rng.pick(LAYOUTS)
        if c.get('ulayout'): c['layout'] = c.pop('ulayout')
        c['reuse'] = rng.chance(.4)
        c['share_idx'] = rng.chance(.5) and not c.get('malformed')
        c['desc'] = f"layout={c['layout']} reuse={int(c['reuse'])} share_idx={int(c['share_idx'])} pad_value={c.get('padspec')} dtype={c.get('dt')} " + c['lines'][0][:400]
    return out


def _ct():
    common.impl()
    import synapgrad.conv_tools as ct
    return ct


def _args(g, int_k=False):
    k = g['k'][0] if int_k and g['k'][0] == g['k'][1] else g['k']
    return k, g['d'], g['s'], g['p']


LAYOUTS = ['C', 'C', 'F', 'strided', 'reversed', 'offset']


# how SIZE-1 axes of the input came about: NumPy leaves the stride of a size-1 axis arbitrary (it is never advanced) and still flags the
# array C-contiguous, so `a.strides[k]` of such an axis says nothing about the item size
UNIT_LAYOUTS = ['newaxis', 'expand_dims', 'broadcast', 'swap1', 'stride-odd', 'stride-neg', 'stride-wide', 'slice-step', 'reshape-view']


def lay_unit(a, layout):
    """the view named by `layout`, rebuilt (same shape, same strides, same flags) in the middle of a much larger buffer: a changed
    implementation that advances along the stride of a size-1 axis then reads wrong values, not unmapped memory"""
    v = _lay_unit(a, layout)
    if v.size == 0 or not any(n == 1 for n in v.shape):
        return v
    it = v.itemsize
    smax = max([abs(st) for st, n in zip(v.strides, v.shape) if n == 1] + [it])
    M = min((smax // it + 2) * (v.size + 8) * 2, 2 ** 22) * it
    lo = sum(min(0, st * (n - 1)) for st, n in zip(v.strides, v.shape))
    hi = sum(max(0, st * (n - 1)) for st, n in zip(v.strides, v.shape)) + it
    buf = np.full((hi - lo + 2 * M) // it + 2, 55.0, dtype=v.dtype)
    w = np.lib.stride_tricks.as_strided(buf[(M - lo) // it:], v.shape, v.strides)
    w[...] = v
    if not v.flags.writeable: w.flags.writeable = False
    assert w.strides == v.strides and w.flags['C_CONTIGUOUS'] == v.flags['C_CONTIGUOUS'] and np.array_equal(w, v)
    return w


def _lay_unit(a, layout):
    a = np.ascontiguousarray(a)
    ones = [i for i, n in enumerate(a.shape) if n == 1]
    if not ones or a.size == 0:
        return a
    sq = a.reshape([n for n in a.shape if n != 1])          # the array without its size-1 axes (contiguous)
    if layout == 'newaxis':                                  # sig[..., None], sig[None], sig[:, None, :, None]: stride 0
        return sq[tuple(None if n == 1 else slice(None) for n in a.shape)]
    if layout == 'expand_dims':
        return np.expand_dims(sq, tuple(ones))
    if layout == 'broadcast':                                # read-only, stride 0
        return np.broadcast_to(np.expand_dims(sq, tuple(ones)), a.shape)
    if layout == 'swap1':                                    # the size-1 axis sat elsewhere: (.., 1, H) transposed to (.., H, 1)
        last = ones[-1]
        other = last - 1 if last > 0 else min(1, a.ndim - 1)
        return np.swapaxes(np.ascontiguousarray(np.swapaxes(a, last, other)), last, other)
    if layout in ('stride-odd', 'stride-neg', 'stride-wide'):
        st = list(a.strides)
        for i in ones: st[i] = {'stride-odd': 3, 'stride-neg': -7 * a.itemsize, 'stride-wide': 11 * a.itemsize + 1}[layout]
        return np.lib.stride_tricks.as_strided(a, a.shape, st)
    if layout == 'slice-step':                               # one column of a wider buffer taken with a step: x[..., 2::5]
        big = np.full([5 if n == 1 else n for n in a.shape], 55.0, dtype=a.dtype)
        big[tuple(slice(2, 3) if n == 1 else slice(None) for n in a.shape)] = a
        return big[tuple(slice(2, None, 5) if n == 1 else slice(None) for n in a.shape)]
    if layout == 'reshape-view' and sq.ndim:                 # a strided view reshaped to the full shape (NumPy invents the strides of the new axes)
        big = np.full(sq.shape[:-1] + (2 * sq.shape[-1],), 55.0, dtype=a.dtype)
        big[..., ::2] = sq
        return big[..., ::2].reshape(a.shape)
    return np.expand_dims(sq, tuple(ones))


def lay(a, layout):
    """an array with the same values as `a` in another memory layout (the model is value-level; the implementation reads
    memory through strides, so the layout is part of its input space)"""
    if layout in UNIT_LAYOUTS:
        return lay_unit(a, layout)
    a = np.ascontiguousarray(a)
    if layout == 'F':
        return np.asfortranarray(a)
    if layout == 'strided' and a.ndim:                       # every second element of a twice-as-long last axis
        big = np.full(a.shape[:-1] + (2 * a.shape[-1],), 55.0, dtype=a.dtype)
        big[..., ::2] = a
        return big[..., ::2]
    if layout == 'reversed' and a.ndim:                      # negative stride on the last axis
        return np.ascontiguousarray(a[..., ::-1])[..., ::-1]
    if layout == 'offset' and a.ndim:                        # a window into a larger buffer
        big = np.full(tuple(n + 2 for n in a.shape), -77.0, dtype=a.dtype)
        sl = tuple(slice(1, n + 1) for n in a.shape)
        big[sl] = a
        return big[sl]
    return a


def _run(c):
    ct = _ct()
    L = c.get('layout', 'C')
    g = c['g']
    shape = (g['N'], g['C'], g['H'], g['W'])
    int_k = (sum(g['k']) + g['H']) % 2 == 0          # exercise the documented int kernel_size
    k, d, s, p = _args(g, int_k)
    dtp = DT[c.get('dt', 'f64')]
    pad = typed_pad(c) if 'pad' in c else None
    def twice(call, a):
        """a re-used buffer: the SAME array object first holds other values and goes through the same call, is then overwritten in
        place with the case's values and goes through the call again; the second answer is the one that counts"""
        if not c.get('reuse') or not a.flags.writeable:
            return call(a)
        real = a.copy()
        a[...] = 2 * real + 1
        first = call(a)
        first = None if first is None else np.array(first)      # the first answer, as it was returned
        a[...] = real
        second = call(a)
        if first is not None and not np.array_equal(first, np.array(call(lay(np.ascontiguousarray(2 * real + 1), L)))):
            raise AssertionError('the answer for the first contents changed')      # cannot happen unless results alias a cache
        return second
    def shared_indices():
        """the documented way to amortise the index computation of the index-based variants: ask the first call for its index
        triple (`return_indices=True`) and hand the same triple to every later im2col / col2im call (`col_indices=`). The triple
        is the caller's: after going through both directions it must still hold the same numbers"""
        probe = np.arange(int(np.prod(shape)), dtype=np.float64).reshape(shape)
        cols, idx = ct.im2col(probe, k, d, s, p, 0.0, return_indices=True, as_unfold=True)
        snap = [np.array(a) for a in idx]
        ct.col2im(cols, shape, k, d, s, p, col_indices=idx)
        ct.im2col(probe, k, d, s, p, 0.0, col_indices=idx, as_unfold=False)
        if not all(np.array_equal(a, b) for a, b in zip(idx, snap)):
            raise AssertionError('the index triple handed to col2im / im2col was modified')
        return idx
    if c['fn'] == 'im2col':
        x = lay(np.array(c['x'], dtype=dtp).reshape(shape), L)
        f = {'idx': ct.im2col, 'loop': ct.im2col_v2, 'view': ct.im2col_fast}[c['variant']]
        if c['variant'] == 'idx' and c.get('share_idx'):
            idx = shared_indices()
            return twice(lambda a: f(a, k, d, s, p, pad, col_indices=idx, as_unfold=c['unf']), x)
        return twice(lambda a: f(a, k, d, s, p, pad, as_unfold=c['unf']), x)
    if c['fn'] == 'col2im':
        y = lay(np.array(c['y'], dtype=dtp).reshape(c['csh']), L)
        f = {'idx': ct.col2im, 'loop': ct.col2im_v2, 'view': ct.col2im_fast}[c['variant']]
        if c['variant'] == 'idx' and c.get('share_idx'):
            idx = shared_indices()
            return twice(lambda a: f(a, shape, k, d, s, p, col_indices=idx), y)
        return twice(lambda a: f(a, shape, k, d, s, p), y)
    if c['fn'] == 'extract':
        return twice(lambda a: ct.extract_windows(a, g['k'], g['s'], g['p'], g['d'], pad), lay(np.array(c['x'], dtype=dtp).reshape(shape), L))
    if c['fn'] == 'place':
        return twice(lambda a: ct.place_windows(a, shape, g['k'], g['s'], g['p'], g['d']), lay(np.array(c['w'], dtype=dtp).reshape(c['wsh']), L))
    # relations: spec line answered by im2col_fast with zero padding; extra checks in compare
    return ct.im2col_fast(lay(np.array(c['x'], dtype=dtp).reshape(shape), L), g['k'], g['d'], g['s'], g['p'], 0.0, as_unfold=True)


def impl(c):
    r = outcome(lambda: _run(c))
    if isinstance(r, str):
        return [r]
    r = np.asarray(r)
    if c['fn'] != 'bigrel' and r.dtype != np.dtype(DT[c.get('dt', 'f64')]):      # every variant answers in the dtype of its input array
        return [f"dtype={r.dtype} " + tprog.show_arr(r)]
    return [tprog.show_arr(r)]


def _relations(c):
    """the three variants agree; col2im is the transpose of im2col; fold(unfold(1)) counts coverage"""
    ct = _ct()
    g = c['g']
    shape = (g['N'], g['C'], g['H'], g['W'])
    dtp = DT[c.get('dt', 'f64')]
    x = lay(np.array(c['x'], dtype=dtp).reshape(shape), c.get('layout', 'C'))
    k, d, s, p = g['k'], g['d'], g['s'], g['p']
    pad = typed_pad(c)
    for unf in (True, False):
        a = [f(x, k, d, s, p, pad, as_unfold=unf) for f in (ct.im2col, ct.im2col_v2, ct.im2col_fast)]
        if not (np.array_equal(a[0], a[1]) and np.array_equal(a[0], a[2])):
            return f'the three im2col implementations differ (as_unfold={unf}, pad_value={pad!r} of type {type(pad).__name__}, data dtype {x.dtype})'
        if len({v.dtype for v in a} | {x.dtype}) != 1:
            return f'im2col result dtypes {[str(v.dtype) for v in a]} for input dtype {x.dtype} (pad_value={pad!r} of type {type(pad).__name__})'
    w = ct.extract_windows(x, k, s, p, d, pad)
    lh_, lw_ = out_size(g)
    if w.dtype != x.dtype or not np.array_equal(w.transpose(2, 3, 4, 5, 0, 1).reshape(g['N'], g['C'] * k[0] * k[1], lh_ * lw_), ct.im2col_fast(x, k, d, s, p, pad, as_unfold=True)):
        return f'extract_windows disagrees with im2col_fast (pad_value={pad!r} of type {type(pad).__name__}, data dtype {x.dtype})'
    u = ct.im2col_fast(x, k, d, s, p, 0.0, as_unfold=True)
    y = lay(np.array(c['y'], dtype=dtp).reshape(u.shape), c.get('layout', 'C'))
    b = [f(y, shape, k, d, s, p) for f in (ct.col2im, ct.col2im_v2, ct.col2im_fast)]
    if not (np.array_equal(b[0], b[1]) and np.array_equal(b[0], b[2])):
        return 'the three col2im implementations differ'
    if len({v.dtype for v in b} | {y.dtype}) != 1:
        return f'col2im result dtypes {[str(v.dtype) for v in b]} for input dtype {y.dtype}'
    ip = lambda p_, q_: float((np.asarray(p_, dtype=np.float64) * np.asarray(q_, dtype=np.float64)).sum())       # (the inner products in binary64: exact on these data)
    if ip(u, y) != ip(x, b[0]):
        return f'<im2col x, y> = {ip(u, y)} but <x, col2im y> = {ip(x, b[0])}'
    ones = np.ones(shape)
    cover = ct.col2im_fast(ct.im2col_fast(ones, k, d, s, p, 0.0, as_unfold=True), shape, k, d, s, p)
    lh, lw = out_size(g)
    cnt = np.zeros((g['H'] + 2 * p[0], g['W'] + 2 * p[1]))
    for i in range(lh):
        for j in range(lw):
            for a_ in range(k[0]):
                for b_ in range(k[1]):
                    cnt[i * s[0] + a_ * d[0], j * s[1] + b_ * d[1]] += 1
    cnt = cnt[p[0]:p[0] + g['H'], p[1]:p[1] + g['W']]
    if not np.array_equal(cover, np.broadcast_to(cnt, shape)):
        return 'fold(unfold(ones)) is not the number of windows covering each pixel'
    return None


def compare(c, mo, io):
    diffs = [(c['lines'][0][:200], m[:200], i[:200]) for m, i in zip(mo, io) if not tprog.close_line(m, i)]
    if not diffs and c['fn'] == 'bigrel':
        r = outcome(lambda: _big_relations(c))
        if r:
            diffs.append(('large input', 'variants agree with the window definition / adjoint', str(r)))
    if not diffs and c['fn'] == 'relations' and io[0] != 'rejected':
        r = outcome(lambda: _relations(c))
        if r:
            diffs.append(('relations', 'variants agree / adjoint / coverage', str(r)))
    return diffs


def nontrivial(c):
    lh, lw = out_size(c['g'])
    g = c['g']
    return not c['malformed'] and lh * lw >= 2 and (g['s'][0] < g['k'][0] or g['s'][1] < g['k'][1] or max(g['d']) > 1)


def distribution(cases):
    d = {}
    for c in cases:
        k = c['fn'] + ':' + c.get('variant', '')
        d[k] = d.get(k, 0) + 1
    d['malformed'] = sum(1 for c in cases if c['malformed'])
    for c in cases:
        if c.get('padspec') and 'pad' in c:
            t, v = c['padspec']
            k = f"pad_value type {t}" + (' (non-zero)' if v else ' (zero)')
            d[k] = d.get(k, 0) + 1
            if c.get('frac') and v and t not in ('float', 'np.float16', 'np.float32', 'np.float64'): d['integer-typed non-zero pad_value over data with fractional parts'] = d.get('integer-typed non-zero pad_value over data with fractional parts', 0) + 1
        if 'dt' in c: d['data dtype ' + c['dt'] + (', fractional' if c.get('frac') else ', integer-valued')] = d.get('data dtype ' + c['dt'] + (', fractional' if c.get('frac') else ', integer-valued'), 0) + 1
    for c in cases:
        d['layout:' + c.get('layout', 'C')] = d.get('layout:' + c.get('layout', 'C'), 0) + 1
        if c.get('layout') in UNIT_LAYOUTS:
            g = c['g']
            sh = {'im2col': (g['N'], g['C'], g['H'], g['W']), 'extract': (g['N'], g['C'], g['H'], g['W']), 'relations': (g['N'], g['C'], g['H'], g['W']),
                  'col2im': tuple(c.get('csh', ())), 'place': tuple(c.get('wsh', ()))}[c['fn']]
            if 0 in sh or not sh: continue
            v, ref = lay(np.zeros(sh), c['layout']), np.zeros(sh)
            odd = [i for i in range(len(sh)) if v.strides[i] != ref.strides[i]]
            k = (f"{c['fn']} input with size-1 axes whose stride is not the contiguous one" + (' (LAST axis among them)' if len(sh) - 1 in odd else '') if odd else f"{c['fn']} unit-layout input without a size-1 axis (plain)") \
                + (', padding 0' if tuple(g['p']) == (0, 0) else ', padding > 0')
            d[k] = d.get(k, 0) + 1
            if odd and v.flags['C_CONTIGUOUS']: d['... still flagged C-contiguous'] = d.get('... still flagged C-contiguous', 0) + 1
            if g['k'][0] == 1 or g['k'][1] == 1: d['unit-axes family: a kernel extent of 1'] = d.get('unit-axes family: a kernel extent of 1', 0) + 1
    return d


def oracle(c):
    """independent reference: torch.nn.functional.unfold / fold, plus the relations"""
    import torch, torch.nn.functional as F
    g = c['g']
    shape = (g['N'], g['C'], g['H'], g['W'])
    r = outcome(lambda: _run(c))
    lh, lw = out_size(g)
    legal = lh >= 1 and lw >= 1
    cc = {k: v for k, v in c.items() if k not in ('lines', 'desc')}
    key = {'fn': c['fn'], 'variant': c.get('variant', '')}
    if isinstance(r, str):
        return {'key': dict(key, cls='rejected'), 'case': cc, 'what': f"{c['fn']} {c.get('variant', '')} raised on a geometry with {lh}x{lw} windows"} if legal else None
    if not legal:
        return {'key': dict(key, cls='accepted'), 'case': cc, 'what': 'a geometry without any window was answered'}
    want_dt = np.dtype(DT[c.get('dt', 'f64')])
    if c['fn'] in ('im2col', 'col2im', 'extract', 'place') and np.asarray(r).dtype != want_dt:
        return {'key': dict(key, cls='dtype'), 'case': cc, 'what': f"{c['fn']}[{c.get('variant', '')}] answers dtype {np.asarray(r).dtype} for an input of dtype {want_dt} (pad_value {c.get('padspec')})"}
    if c['fn'] == 'extract':
        xp = F.pad(torch.tensor(np.array(c['x']).reshape(shape)), (g['p'][1], g['p'][1], g['p'][0], g['p'][0]), value=c['pad'])
        ref = F.unfold(xp, g['k'], g['d'], 0, g['s']).numpy().reshape(g['N'], g['C'], g['k'][0], g['k'][1], lh, lw).transpose(4, 5, 0, 1, 2, 3)
        if r.shape != ref.shape or not np.array_equal(r, ref):
            return {'key': dict(key, cls='value'), 'case': cc, 'what': f"extract_windows differs from the window definition (torch unfold) with pad_value {c.get('padspec')} on {want_dt} data"}
    if c['fn'] == 'im2col':
        xp = F.pad(torch.tensor(np.array(c['x']).reshape(shape)), (g['p'][1], g['p'][1], g['p'][0], g['p'][0]), value=c['pad'])
        ref = F.unfold(xp, g['k'], g['d'], 0, g['s']).numpy()
        if not c['unf']: ref = ref.transpose(1, 2, 0).reshape(ref.shape[1], -1)
        if r.shape != ref.shape or not np.array_equal(r, ref):
            return {'key': dict(key, cls='value'), 'case': cc, 'what': f"im2col[{c['variant']}] with pad_value {c.get('padspec')} on {want_dt} data differs from torch.nn.functional.unfold" + (' (second call on the same array object after it was overwritten in place)' if c.get('reuse') else '')}
    if c['fn'] == 'col2im':
        y = np.array(c['y']).reshape(c['csh'])
        y3 = y if c['fold'] else y.reshape(y.shape[0], -1, g['N']).transpose(2, 0, 1)
        ref = F.fold(torch.tensor(y3), (g['H'], g['W']), g['k'], g['d'], g['p'], g['s']).numpy()
        if r.shape != ref.shape or not np.array_equal(r, ref):
            return {'key': dict(key, cls='value'), 'case': cc, 'what': f"col2im[{c['variant']}] differs from torch.nn.functional.fold"}
    if c['fn'] == 'bigrel':
        m = outcome(lambda: _big_relations(c))
        return {'key': dict(key, cls='large-input'), 'case': cc, 'what': str(m)} if m else None
    if c['fn'] == 'relations':
        m = outcome(lambda: _relations(c))
        if m:
            return {'key': dict(key, cls='relation'), 'case': cc, 'what': str(m)}
    return None


def search(rng, tier):
    for c in cases(rng, 'quick'):
        f = oracle(c)
        if f: yield f


def _fix(c):
    g = c['g']
    for k in ('k', 's', 'p', 'd'): g[k] = tuple(g[k])
    for k in ('csh', 'wsh'):
        if k in c: c[k] = tuple(c[k])
    return c
def matches_known(k, fail): return k.get('key') == fail.get('key')
def rerun_known(k): return oracle(_fix(k['witness'])) is not None
def replay(fail):
    f = oracle(_fix(fail['case']))
    return {'fails': f is not None, 'now': f}
