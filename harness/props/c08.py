"""C08 — SGD / Adam / AdamW over histories (synapgrad/optim/optimizers.py) against Synap.Optim"""
import itertools
import numpy as np
import common
from common import fbits, show_floats, parse_floats, outcome
import optim_formulas, optim_cases

PROP = 'C08'
LEAN_TARGETS = ['Props.C08', 'gensteps']      # gensteps: the definitions generated from the source on this run, executable
REQUIRED_THEOREMS = ['Props.C08.sgd_refines', 'Props.C08.sgd_plain_refines', 'Props.C08.adam_refines',
                     'Props.C08.frozen_fixed_sgd', 'Props.C08.frozen_fixed_adam', 'Props.C08.params_independent_sgd',
                     # the store model (buffers with identities, Synap.OptimStore)
                     'Props.C08.store_separation', 'Props.C08.store_separation_pairwise', 'Props.C08.store_separation_initial',
                     'Props.C08.state_not_corrupted_by_accumulation', 'Props.C08.state_not_corrupted_reachable',
                     'Props.C08.step_keeps_gradients', 'Props.C08.zero_grad_overwrites_nothing',
                     'Props.C08.updates_in_place', 'Props.C08.step_keeps_frozen',
                     'Props.C08.store_event_refines_sgd', 'Props.C08.store_refines_value_model',
                     'Props.C08.store_sgd_refines', 'Props.C08.store_sgd_plain_refines', 'Props.C08.data_element_kept',
                     'Props.C08.arrays_never_grow', 'Props.C08.data_shape_kept', 'Props.C08.data_shape_kept_adam',
                     'Props.C08.store_event_refines_adam', 'Props.C08.store_refines_value_model_adam', 'Props.C08.store_adam_refines',
                     'Props.C08.aliased_first_buffer_counterexample',
                     # the step bodies read from the source on this run (Generated/OptimSteps.lean)
                     'Props.C08.src_sgd_step_is_model', 'Props.C08.src_adam_step_is_model', 'Props.C08.src_adamw_step_is_model',
                     'Props.C08.src_sgd_step_is_published_rule', 'Props.C08.src_adam_step_is_published_rule', 'Props.C08.src_adamw_step_is_published_rule']
RULE = ('histories over {backward(any subset of parameters, random gradient arrays), zero_grad, step, freeze/unfreeze} of '
        'length <= 10 (quick) / 60 (thorough), incl. several backward per step and step without zero_grad, over hyper-parameter '
        'combinations (momentum 0/>0, dampening, nesterov, weight_decay 0/>0, maximize, betas, eps), 1-3 parameters of 1-3 '
        'elements, mixed frozen/trainable; every array element is one scalar parameter of the model. Compared after every '
        'event: values (rel 1e-10), presence and value of .grad, identity / dtype / shape of p.data. Non-trivial: >= 2 steps '
        'and a non-default hyper-parameter. '
        'FALSY family: for SGD / Adam / AdamW every constructor argument in turn (then all at once, and lr = 0 with all others falsy) at its falsy-but-legal values — lr / momentum / '
        'dampening / weight_decay / eps as int 0, 0.0, -0.0, betas containing 0 (ints, floats, a list), nesterov / maximize given explicitly as False / 0 — and as ints where floats are usual '
        '(1, 2), the other arguments non-default, passed to the constructor exactly as written, each followed by a fixed-shape history (3 parameters, one frozen, two backwards per step, '
        'step without zero_grad) observed through the value model (float64, lr = 0 also float32) and through the store model (momentum buffer / moments keep evolving under lr = 0); '
        'enumerated identically in every run. '
        'NON-FINITE GRADIENTS: histories with one to three overflow episodes — a backward whose gradient holds inf / -inf / NaN in some entries of some parameters (float64 also +-1.5e308, '
        'overflowing on accumulation), the step skipped (3 of 4) or taken, zero_grad through Optimizer.zero_grad / Module.zero_grad (parameters held by a module and a submodule) / '
        'Tensor.zero_ on every parameter, then finite gradients and steps — for every optimizer x every way of resetting; model and implementation run at Float, so inf / NaN flow through both; '
        'after a reset the trajectory must be the recursion on the finite gradients only. '
        'Family `store` (Synap.OptimStore, arrays as buffers with identities): histories over {backward (one loss.backward() over any subset), '
        'p.backward(g) on a parameter itself, zero_grad, step, freeze/unfreeze} biased towards backward-step-backward-step without zero_grad '
        'and several backwards per step, 1-3 float64 C-contiguous parameters of 1-4 elements, length <= 10 (quick) / 40 (thorough), plus three '
        'fixed histories (SGD momentum 0.9 without / with weight decay, Adam with weight decay). After the constructor and after every event: '
        'contents of every p.data, p._grad, momentum buffer / first and second moment (rel 1e-10), and the sharing pattern projected to what '
        'the property states: no momentum / moment array shares memory (`is` / np.shares_memory) with a p.data, a p._grad or another momentum / '
        'moment array, and every p.data is the array object the parameter started with. Non-trivial there: >= 2 steps and (a backward between '
        'two steps with no zero_grad in between, or a non-default hyper-parameter).')
EXHAUSTIVE = {'quick': False, 'thorough': False}     # thorough contains an exhaustive sub-family (all event words up to length 5), counted in the distribution
ASSUMPTIONS = ['float64 parameters; NumPy array arithmetic is the pointwise map of IEEE binary64 scalar arithmetic',
               'Python float ** int is libm pow (as Lean Float.pow)']
TRUSTED_BASE = ['harness/props/c08.py (generator, canonicalisation)',
                'harness/optim_formulas.py (translation of the step bodies of optimizers.py into Generated/OptimSteps.lean; validated on every run by the `gstep` family)']


def extract():
    """the bodies of SGD.step / Adam.step / AdamW.step are re-read from optimizers.py and re-emitted as Lean functions; the src_* theorems are
    re-checked against them by the build that follows"""
    return optim_formulas.write()[0]


def hyper(rng, kind):
    if kind == 'sgd':
        mom = rng.pick([0.0, 0.0, 0.9, 0.5])
        nes = rng.chance(0.3)
        damp = rng.pick([0.0, 0.0, 0.25])
        return {'lr': rng.pick([0.1, 0.01, 0.5]), 'momentum': mom, 'dampening': damp, 'weight_decay': rng.pick([0.0, 0.0, 0.1, 0.5]),
                'nesterov': nes, 'maximize': rng.chance(0.3)}
    return {'lr': rng.pick([0.1, 0.001, 0.05]), 'betas': rng.pick([(0.9, 0.999), (0.5, 0.75), (0.0, 0.9)]), 'eps': rng.pick([1e-8, 1e-8, 1e-3, 0.0]),
            'weight_decay': rng.pick([0.0, 0.0, 0.1, 0.7]), 'maximize': rng.chance(0.3)}


def gen(rng, tier, kind=None, hp=None, nev=None):
    kind = kind or rng.pick(['sgd', 'adam', 'adamw'])
    hp = hp or hyper(rng, kind)
    npar = rng.randint(1, 3)
    sizes = [rng.pick([1, 2, 3, 4, 6]) for _ in range(npar)]
    thetas = [[rng.dyadic(-3, 3) for _ in range(s)] for s in sizes]
    rgs = [rng.chance(0.8) for _ in range(npar)]
    evs = []
    n = nev or rng.randint(2, 10 if tier == 'quick' else 60)
    for _ in range(n):
        r = rng.random()
        if r < 0.40:
            sub = [i for i in range(npar) if rng.chance(0.7)] or [rng.randrange(npar)]
            evs.append(('bw', {i: [rng.dyadic(-2, 2) if rng.chance(.7) else rng.uniform(-2, 2) for _ in range(sizes[i])] for i in sub}))
        elif r < 0.58:
            evs.append(('zero',))
        elif r < 0.92:
            evs.append(('step',))
        else:
            evs.append(('rg', rng.randrange(npar), rng.chance(0.5)))
    # parameter dtype (float32 is the library default) and the magnitude regime of the gradients (Adam's eps only matters for tiny ones)
    scale = rng.pick([1.0, 1.0, 1e-3, 1e-6, 1e-6, 1e4])
    if scale != 1.0:
        evs = [('bw', {i: [v * scale for v in g] for i, g in e[1].items()}) if e[0] == 'bw' else e for e in evs]
    return {'opt': kind, 'hp': hp, 'thetas': thetas, 'rgs': rgs, 'evs': evs, 'seed_lay': rng.randrange(4), 'dt': rng.pick(['f64', 'f64', 'f32'])}


NONFINITE = [float('inf'), float('-inf'), float('nan')]


def gen_nonfinite(rng, tier, kind=None):
    """histories with NON-FINITE gradient events, as a training loop under loss scaling / with an occasional overflow produces them:
    a backward whose gradient holds inf / -inf / NaN in some entries of some parameters (or, float64, entries so large that two
    accumulations overflow); the step skipped (three times out of four) or taken; zero_grad — through Optimizer.zero_grad, Module.zero_grad
    or Tensor.zero_ on every parameter —; then finite gradients and steps.  One to three such episodes per history, ordinary events
    around them.  After a reset the trajectory is the published recursion on the finite gradients only."""
    c = gen(rng, tier, kind, nev=2)
    npar = len(c['thetas']); sizes = [len(t) for t in c['thetas']]
    if not any(c['rgs']): c['rgs'][rng.randrange(npar)] = True
    fin = lambda i: [rng.dyadic(-2, 2) if rng.chance(.7) else rng.uniform(-2, 2) for _ in range(sizes[i])]
    def bw(bad=False):
        sub = [i for i in range(npar) if rng.chance(0.7)] or [rng.randrange(npar)]
        gs = {i: fin(i) for i in sub}
        if bad:
            live = [i for i in sub if c['rgs'][i]] or sub
            for i in rng.sample(live, rng.randint(1, len(live))):
                for k in rng.sample(range(sizes[i]), rng.randint(1, sizes[i])):
                    gs[i][k] = rng.pick(NONFINITE + ([1.5e308, -1.5e308] if c['dt'] == 'f64' else []))
        return ('bw', gs)
    evs = []
    for _ in range(rng.randint(0, 2)): evs.append(rng.pick([bw(), ('step',), ('zero',), bw()]))
    for ep in range(rng.randint(1, 2 if tier == 'quick' else 3)):
        evs += [bw(True)] if rng.chance(.7) else rng.pick([[bw(), bw(True)], [bw(True), bw()], [bw(True), bw(True)]])
        if rng.chance(.25): evs.append(('step',))           # the overflowed step is usually skipped
        evs.append(('zero',))
        if rng.chance(.2): evs.append(('zero',))
        for _ in range(rng.randint(1, 2)):
            evs += [bw()] * 1 + ([bw()] if rng.chance(.3) else []) + [('step',)] + ([('zero',)] if rng.chance(.6) else [])
    c['evs'] = evs
    c['zero_via'] = rng.pick(['optimizer', 'optimizer', 'module', 'tensor'])
    c['nonfinite'] = True
    return c


# ---- family `falsy`: every constructor argument at its FALSY-but-legal values -----------------
_FALSY_BASE = {
    'sgd':   [{'lr': 0.1, 'momentum': 0.9, 'dampening': 0.25, 'weight_decay': 0.3, 'nesterov': False, 'maximize': True},
              {'lr': 0.5, 'momentum': 0.5, 'dampening': 0.0, 'weight_decay': 0.1, 'nesterov': True, 'maximize': False}],
    'adam':  [{'lr': 0.05, 'betas': (0.5, 0.75), 'eps': 1e-3, 'weight_decay': 0.3, 'maximize': True}],
    'adamw': [{'lr': 0.05, 'betas': (0.9, 0.999), 'eps': 1e-3, 'weight_decay': 0.3, 'maximize': True}],
}
# value lists per argument: the falsy spellings (int 0, 0.0, -0.0, False given explicitly) first, then ints where floats are usual
_FALSY_VALUES = {
    'lr': [0, 0.0, -0.0, 1, 2],
    'momentum': [0, 0.0, -0.0, 1],
    'dampening': [0, 0.0, -0.0, 1],
    'weight_decay': [0, 0.0, -0.0, 1],
    'nesterov': [False, 0],
    'maximize': [False, 0],
    'betas': [(0, 0.999), (0.0, 0.999), (0.9, 0), (0.9, 0.0), (0, 0), (0.0, 0.0), (-0.0, -0.0), [0.5, 0.75]],
    'eps': [0, 0.0, -0.0, 1],
}


def _is_falsy(v):
    return any(not x for x in v) if isinstance(v, (tuple, list)) else not v


def gen_falsy(rng):
    """the constructors of SGD / Adam / AdamW with ONE argument (then all of them) at a falsy-but-legal value — lr 0 / 0.0 / -0.0 (first
    value of a warm-up schedule, a dry run), momentum / dampening / weight_decay 0, betas containing 0, eps 0, nesterov / maximize given
    explicitly as False / 0 — and with ints where floats are usual, every other argument non-default so that a replaced value shows;
    enumerated the same way in every run, the numbers of the short history that follows (two backwards per step once, a step without
    zero_grad, a frozen parameter) drawn.  The values reach the constructor exactly as written here (ints stay ints).  With lr = 0 the
    parameters stay where they are while momentum buffer / moments still evolve (observed by the `store` twin of every case)."""
    out = []
    def history(kind, hp, arg, val, dt):
        sizes = [2, 1, 3]
        thetas = [[rng.dyadic(-3, 3) or 1.5 for _ in range(s)] for s in sizes]
        g = lambda i: [rng.dyadic(-2, 2) or 0.75 for _ in range(sizes[i])]
        evs = [('bw', {0: g(0), 1: g(1), 2: g(2)}), ('step',), ('bw', {0: g(0), 2: g(2)}), ('step',), ('zero',),
               ('bw', {0: g(0), 1: g(1)}), ('bw', {1: g(1), 2: g(2)}), ('step',), ('step',)]
        tag = {'arg': arg, 'val': repr(val), 'falsy': _is_falsy(val)}
        c = {'opt': kind, 'hp': hp, 'thetas': thetas, 'rgs': [True, False, True], 'evs': evs, 'seed_lay': 0, 'dt': dt, 'falsy': tag}
        out.append(c)
        # the same constructor over array buffers with identities: contents of momentum buffer / moments after every event
        out.append({'kind': 'store', 'opt': kind, 'hp': hp, 'thetas': [list(t) for t in thetas], 'rgs': [True, False, True], 'evs': list(evs), 'falsy': tag})
    for kind in ('sgd', 'adam', 'adamw'):
        for b, base in enumerate(_FALSY_BASE[kind]):
            for arg in base:
                for val in _FALSY_VALUES[arg]:
                    hp = dict(base); hp[arg] = val
                    if kind == 'sgd' and hp['nesterov'] and (not hp['momentum'] or hp['dampening']): continue   # rejected by the constructor: covered by the grid
                    history(kind, hp, arg, val, 'f32' if (arg == 'lr' and b == 0 and val == 0 and isinstance(val, int)) else 'f64')
        # everything falsy at once; lr falsy with everything else falsy; lr falsy in float32
        if kind == 'sgd':
            zero = {'lr': 0.1, 'momentum': 0, 'dampening': 0, 'weight_decay': 0, 'nesterov': False, 'maximize': False}
        else:
            zero = {'lr': 0.1, 'betas': (0, 0), 'eps': 0, 'weight_decay': 0, 'maximize': False}
        history(kind, dict(zero), '*', 0, 'f64')
        history(kind, dict(zero, lr=0), 'lr+*', 0, 'f64')
        history(kind, dict(_FALSY_BASE[kind][0], lr=0.0), 'lr', 0.0, 'f32')
    return out


def _ctor_line(c):
    hp, kind = c['hp'], c['opt']
    th = show_floats([v for t in c['thetas'] for v in t])
    rg = ','.join(str(int(r)) for r, t in zip(c['rgs'], c['thetas']) for _ in t)
    if kind == 'sgd':
        return f"opt sgd {fbits(hp['lr'])} {fbits(hp['momentum'])} {fbits(hp['dampening'])} {fbits(hp['weight_decay'])} {int(hp['nesterov'])} {int(hp['maximize'])} {th} {rg}"
    return f"opt {kind} {fbits(hp['lr'])} {fbits(hp['betas'][0])} {fbits(hp['betas'][1])} {fbits(hp['eps'])} {fbits(hp['weight_decay'])} {int(hp['maximize'])} {th} {rg}"


def lines_of(c):
    if c.get('kind') == 'store': return _store_lines(c)
    if c.get('kind') == 'gstep': return optim_cases.lines_of(c)
    offs = list(itertools.accumulate([0] + [len(t) for t in c['thetas']]))
    out = [_ctor_line(c), 'opt get']
    for e in c['evs']:
        if e[0] == 'bw':
            for i, g in sorted(e[1].items()):
                for k, v in enumerate(g):
                    out.append(f'opt bw {offs[i] + k} {fbits(v)}')
        elif e[0] == 'rg':
            for k in range(len(c['thetas'][e[1]])):
                out.append(f'opt rg {offs[e[1]] + k} {int(e[2])}')
        else:
            out.append(f'opt {e[0]}')
        out += ['opt get', 'opt grads']
    return out


def cases(rng, tier):
    out = []
    # hyper-parameter grid first (short fixed history shapes), then random
    grid = []
    for mom, damp, nes, wd, mx in itertools.product([0.0, 0.9], [0.0, 0.25], [False, True], [0.0, 0.3], [False, True]):
        grid.append(('sgd', {'lr': 0.1, 'momentum': mom, 'dampening': damp, 'weight_decay': wd, 'nesterov': nes, 'maximize': mx}))
    for kind in ('adam', 'adamw'):
        for betas, wd, mx in itertools.product([(0.9, 0.999), (0.5, 0.75)], [0.0, 0.3], [False, True]):
            grid.append((kind, {'lr': 0.05, 'betas': betas, 'eps': 1e-8, 'weight_decay': wd, 'maximize': mx}))
    for kind, hp in grid:
        out.append(gen(rng, tier, kind, hp, nev=8))
    for _ in range(120 if tier == 'quick' else 3000):
        out.append(gen(rng, tier))
    # non-finite gradient events followed by zero_grad: every optimizer x every way of resetting, then random
    for j in range(36 if tier == 'quick' else 900):
        c = gen_nonfinite(rng, tier, ['sgd', 'adam', 'adamw'][j % 3])
        if j < 9: c['zero_via'] = ['optimizer', 'module', 'tensor'][j // 3]
        if j % 3 == 0 and j % 2 == 0 and c['hp']['momentum'] == 0: c['hp']['momentum'] = 0.9
        out.append(c)
    if tier == 'thorough':
        # EXHAUSTIVE part: every word of length <= 6 over {backward on p0, backward on p1, backward on both, zero_grad, step,
        # freeze p1, unfreeze p1} for two one-element parameters, under one representative setting of each optimizer
        alphabet = [('bw', {0: [1.5]}), ('bw', {1: [-0.75]}), ('bw', {0: [0.5], 1: [2.0]}), ('zero',), ('step',), ('rg', 1, False), ('rg', 1, True)]
        reps = [('sgd', {'lr': 0.1, 'momentum': 0.9, 'dampening': 0.25, 'weight_decay': 0.3, 'nesterov': False, 'maximize': False}),
                ('adam', {'lr': 0.05, 'betas': (0.5, 0.75), 'eps': 1e-8, 'weight_decay': 0.3, 'maximize': False}),
                ('adamw', {'lr': 0.05, 'betas': (0.9, 0.999), 'eps': 1e-8, 'weight_decay': 0.3, 'maximize': True})]
        for kind, hp in reps:
            for n in range(1, 6 if kind == 'sgd' else 5):
                for word in itertools.product(range(len(alphabet)), repeat=n):
                    if not any(alphabet[k][0] == 'step' for k in word): continue       # nothing to observe without a step
                    out.append({'opt': kind, 'hp': hp, 'thetas': [[1.0], [-2.0]], 'rgs': [True, True], 'evs': [alphabet[k] for k in word], 'exhaustive': True})
    # corpus of past defects: frozen parameter under weight decay; momentum buffer aliasing (no zero_grad between steps)
    out.append({'opt': 'sgd', 'hp': {'lr': .1, 'momentum': 0.0, 'dampening': 0.0, 'weight_decay': .1, 'nesterov': False, 'maximize': False},
                'thetas': [[3.0, 4.0], [1.0]], 'rgs': [False, True], 'evs': [('bw', {1: [2.0]}), ('step',), ('zero',), ('step',)]})
    out.append({'opt': 'sgd', 'hp': {'lr': .1, 'momentum': 0.9, 'dampening': 0.0, 'weight_decay': 0.0, 'nesterov': False, 'maximize': False},
                'thetas': [[1.0, 1.0]], 'rgs': [True], 'evs': [('bw', {0: [2.0, 2.0]}), ('step',), ('bw', {0: [2.0, 1.0]}), ('step',), ('step',)]})
    out.append({'opt': 'adam', 'hp': {'lr': .1, 'betas': (0.9, 0.999), 'eps': 1e-8, 'weight_decay': 0.1, 'maximize': False},
                'thetas': [[1.0], [2.0]], 'rgs': [True, True], 'evs': [('bw', {0: [1.0]}), ('step',), ('bw', {0: [1.0], 1: [.5]}), ('step',), ('step',)]})
    # family `store`: the same optimizers over array buffers with identities (which array object holds what); generated after every
    # case above, so those are drawn exactly as before
    for _ in range(40 if tier == 'quick' else 600):
        out.append(gen_store(rng, tier))
    out.extend(_store_corpus())
    # family `gstep`: the generated step bodies at Float against one step() of the real objects (validation of the translation)
    try:
        out.extend(optim_cases.cases(rng, tier))
    except Exception:
        pass                                  # nothing translated: the build of Props.C08 reports it
    # family `falsy` (generated last: everything above is drawn exactly as before)
    out.extend(gen_falsy(rng))
    for c in out:
        c['lines'] = lines_of(c)
        c['desc'] = {'opt': c['opt'], 'hp': c['hp'], 'thetas': c['thetas'], 'rgs': c['rgs'], 'evs': c['evs'][:12]}
        if c.get('kind'): c['desc'] = dict(kind=c['kind'], **c['desc'])
    return out


def _run(c, observe):
    sg = common.impl()
    from synapgrad import optim
    # parameters arrive in different memory layouts (a weight imported as `kernel.T`, a Fortran-ordered array, a column slice):
    # an even-sized parameter is a (2, n/2) matrix stored column-major / as a transposed view / as a slice of a wider buffer.
    # The model sees the values in row-major order of the logical matrix.
    def param(t, k):
        a = np.array(t, dtype=np.float32 if c.get('dt') == 'f32' else np.float64)
        lay = (c.get('seed_lay', 0) + k) % 4
        if len(t) % 2 == 0 and len(t) >= 2 and lay:
            a = a.reshape(2, len(t) // 2)
            if lay == 1: a = np.asfortranarray(a)
            elif lay == 2: a = np.ascontiguousarray(a.T).T
            else:
                big = np.full((2, a.shape[1] + 2), 9.0, dtype=a.dtype); big[:, 1:-1] = a; a = big[:, 1:-1]
        return a
    via = c.get('zero_via', 'optimizer')
    holder = None
    if via == 'module':          # the parameters belong to a module (one of them to a submodule); gradients are reset through Module.zero_grad
        from synapgrad import nn
        class Holder(nn.Module):
            def forward(self, x): return x
        ps = [nn.Parameter(param(t, k), requires_grad=rg) for k, (t, rg) in enumerate(zip(c['thetas'], c['rgs']))]
        holder, sub = Holder(), Holder()
        for k, p in enumerate(ps): setattr(sub if (k == 1) else holder, f'p{k}', p)
        holder.sub = sub
        got = holder.parameters()
        if len(got) != len(ps) or any(not any(q is p for q in got) for p in ps): raise AssertionError('harness: the module does not report the parameters it was given')
    else:
        ps = [sg.Tensor(param(t, k), requires_grad=rg) for k, (t, rg) in enumerate(zip(c['thetas'], c['rgs']))]
    hp = dict(c['hp'])
    cls = {'sgd': optim.SGD, 'adam': optim.Adam, 'adamw': optim.AdamW}[c['opt']]
    opt = cls(ps, **hp)
    ids = [id(p.data) for p in ps]
    observe('ctor', ps, ids)
    for e in c['evs']:
        if e[0] == 'bw':
            terms = [(ps[i] * sg.Tensor(np.array(g, dtype=ps[i].data.dtype).reshape(ps[i].shape))).sum() for i, g in sorted(e[1].items()) if ps[i].requires_grad]
            if terms:
                loss = terms[0]
                for t in terms[1:]:
                    loss = loss + t
                loss.backward()
        elif e[0] == 'zero':
            if via == 'module': holder.zero_grad()
            elif via == 'tensor':
                for p in ps:
                    if p.requires_grad: p.zero_()
            else: opt.zero_grad()
        elif e[0] == 'step':
            opt.step()
        else:
            ps[e[1]].requires_grad = e[2]
        observe(e, ps, ids)


def impl(c):
    if c.get('kind') == 'store': return _store_impl(c)
    if c.get('kind') == 'gstep': return optim_cases.impl(c)
    out = []
    flags = {'inplace': True, 'dtype': True}
    def observe(e, ps, ids):
        if e == 'ctor':
            out.append('ok')
            out.append(show_floats(np.concatenate([p.data.ravel() for p in ps])))
            return
        n = 1
        if e[0] == 'bw':
            n = sum(len(g) for g in e[1].values())
        elif e[0] == 'rg':
            n = len(c['thetas'][e[1]])
        out.extend(['ok'] * n)
        out.append(show_floats(np.concatenate([p.data.ravel() for p in ps])))
        out.append(','.join('-' if p._grad is None else str(fbits(v)) for p in ps for v in (p._grad.ravel() if p._grad is not None else [None] * p.data.size)) if True else '')
        if [id(p.data) for p in ps] != ids: flags['inplace'] = False
        if any(p.data.dtype != (np.float32 if c.get('dt') == 'f32' else np.float64) or p.data.size != len(t) for p, t in zip(ps, c['thetas'])): flags['dtype'] = False
    r = outcome(lambda: _run(c, observe))
    c['_flags'] = flags
    if r == 'rejected':
        if not out:
            return ['rejected'] + ['?'] * (len(c['lines']) - 1)
        return out + ['rejected'] * (len(c['lines']) - len(out))
    return out


def _close(a, b, tol=1e-10):
    if a == b: return True
    if a in ('-', '?', 'rejected') or b in ('-', '?', 'rejected'): return False
    x, y = common.bitsf(a), common.bitsf(b)
    if x != x or y != y: return x != x and y != y          # eps = 0 with an all-zero gradient history: 0/0 on both sides
    if abs(x) == float('inf') or abs(y) == float('inf'): return x == y
    return abs(x - y) <= tol * (1 + abs(x) + abs(y)) or abs(x - y) <= 1e-4 * max(abs(x), abs(y)) * (tol > 1e-9)


def compare(c, mo, io):
    if c.get('kind') == 'store': return _store_compare(c, mo, io)
    if c.get('kind') == 'gstep': return optim_cases.compare(c, mo, io)
    diffs = []
    if mo[0] == 'rejected' and io[0] == 'rejected':
        return []
    # float32 parameters: an element that has been large and came back near zero carries the rounding of its excursion (values
    # ~1e3 leave absolute errors ~1e-4 in binary32), so the tolerance of an element follows the largest magnitude IT has had so far
    hist = {}
    f32 = c.get('dt') == 'f32'
    for k, (m, i) in enumerate(zip(mo, io)):
        ms, is_ = m.split(','), i.split(',')
        tol = 2e-6 if f32 else 1e-10
        ok = len(ms) == len(is_)
        if ok and m != i:
            for j, (a, b) in enumerate(zip(ms, is_)):
                if _close(a, b, tol): continue
                if f32 and c['lines'][k] == 'opt get' and a not in ('-', '?', 'rejected') and b not in ('-', '?', 'rejected'):
                    x, y = common.bitsf(a), common.bitsf(b)
                    if x == x and y == y and abs(x - y) <= 4e-6 * hist.get(j, 0.0): continue
                ok = False; break
        if f32 and c['lines'][k] == 'opt get' and len(ms) == len(is_):
            for j, (a, b) in enumerate(zip(ms, is_)):
                for t in (a, b):
                    if t not in ('-', '?', 'rejected'):
                        v = abs(common.bitsf(t))
                        if v == v and v != float('inf'): hist[j] = max(hist.get(j, 0.0), v)
        if not ok:
            diffs.append((c['lines'][k], m, i))
            break
    fl = c.get('_flags', {})
    if fl.get('inplace') is False: diffs.append(('inplace', 'p.data identity kept', 'replaced'))
    if fl.get('dtype') is False: diffs.append(('dtype', 'dtype/shape kept', 'changed'))
    return diffs


def nontrivial(c):
    if c.get('kind') == 'gstep': return True
    if c.get('falsy'): return sum(1 for e in c['evs'] if e[0] == 'step') >= 2
    hp = c['hp']
    nd = any(hp.get(k) for k in ('momentum', 'dampening', 'weight_decay', 'nesterov', 'maximize')) or c['opt'] != 'sgd'
    if c.get('kind') == 'store':
        # a backward between two steps with no zero_grad in between (the gradient array of the first step is accumulated into again)
        armed, hit, steps = False, False, 0
        for e in c['evs']:
            if e[0] == 'step':
                steps += 1
                if armed == 'bw': hit = True
                armed = True
            elif e[0] == 'zero': armed = False
            elif e[0] in ('bw', 'bwroot') and armed: armed = 'bw'
        return steps >= 2 and (hit or bool(nd))
    return sum(1 for e in c['evs'] if e[0] == 'step') >= 2 and bool(nd)


def distribution(cases):
    d = {}
    for c in cases:
        if c.get('falsy'):
            f = c['falsy']
            fam = 'falsy family (constructor argument at a falsy-but-legal value / an int where a float is usual, short history after it)'
            for k in (fam, f"falsy: {c['opt']}({f['arg']}={f['val']})" + (' [falsy / contains a falsy value]' if f['falsy'] else ' [int / list where float / tuple is usual]'),
                      'falsy: observed through ' + ('store (buffers / moments)' if c.get('kind') == 'store' else 'values (' + c.get('dt', 'f64') + ')')):
                d[k] = d.get(k, 0) + 1
        if c.get('kind') == 'gstep':
            d['gstep:' + c['opt']] = d.get('gstep:' + c['opt'], 0) + 1
            continue
        if c.get('kind') == 'store':
            for k in ['store', 'store:' + c['opt']] + ['store-ev:' + e[0] for e in c['evs']]:
                d[k] = d.get(k, 0) + 1
            continue
        d[c['opt']] = d.get(c['opt'], 0) + 1
        if c.get('nonfinite'):
            taken = any(a[0] == 'bw' and any(v != v or abs(v) == float('inf') for g in a[1].values() for v in g) and b[0] == 'step' for a, b in zip(c['evs'], c['evs'][1:]))
            for k in ('non-finite gradient events (inf / -inf / NaN entries, overflowing accumulation) followed by zero_grad and finite gradients',
                      f"non-finite: {c['opt']}, gradients reset through {c['zero_via']}", 'non-finite: overflowed step ' + ('taken' if taken else 'skipped')):
                d[k] = d.get(k, 0) + 1
        if c.get('exhaustive'): d['exhaustive: all event words up to length 5 (sgd) / 4 (adam, adamw) containing a step'] = d.get('exhaustive: all event words up to length 5 (sgd) / 4 (adam, adamw) containing a step', 0) + 1
        for e in c['evs']:
            d['ev:' + e[0]] = d.get('ev:' + e[0], 0) + 1
    return d


# ---- family `store`: arrays as buffers with identities (Synap.OptimStore) ------------------------
def gen_store(rng, tier, kind=None, hp=None):
    """history biased towards the shapes where *which array object* holds a value matters: backward, step, backward again
    without zero_grad, step; several backwards per step; p.backward(g) on a parameter itself; freeze / unfreeze"""
    kind = kind or rng.pick(['sgd', 'sgd', 'adam', 'adamw'])
    hp = dict(hp or hyper(rng, kind))
    if kind == 'sgd':
        if hp['momentum'] == 0 and rng.chance(0.6): hp['momentum'] = rng.pick([0.9, 0.5])        # without momentum SGD keeps no array
        if hp['nesterov'] and (hp['momentum'] <= 0 or hp['dampening'] != 0) and not rng.chance(0.1): hp['nesterov'] = False
    npar = rng.randint(1, 3)
    sizes = [rng.randint(1, 4) for _ in range(npar)]
    thetas = [[rng.dyadic(-3, 3) for _ in range(s)] for s in sizes]
    rgs = [rng.chance(0.85) for _ in range(npar)]
    if not any(rgs) and rng.chance(0.8): rgs[rng.randrange(npar)] = True
    rg = list(rgs)                                   # bookkeeping of the current requires_grad flags
    scale = rng.pick([1.0, 1.0, 1.0, 1e-3, 1e-6, 1e4])
    arr = lambda i: [(rng.dyadic(-2, 2) if rng.chance(.7) else rng.uniform(-2, 2)) * scale for _ in range(sizes[i])]
    def bw():
        sub = [i for i in range(npar) if rng.chance(0.7)] or [rng.randrange(npar)]
        return ('bw', {i: arr(i) for i in sub})
    def bwroot():
        live = [i for i in range(npar) if rg[i]]     # p.backward raises on a tensor that does not require grad: never generated
        if not live: return bw()
        i = rng.pick(live)
        return ('bwroot', i, arr(i))
    def toggle():
        i = rng.randrange(npar)
        rg[i] = not rg[i] if rng.chance(0.8) else rg[i]
        return ('rg', i, rg[i])
    n = rng.randint(3, 10 if tier == 'quick' else 40)
    evs = []
    while len(evs) < n:
        r = rng.random()
        if r < 0.30: evs += [bw(), ('step',), bw(), ('step',)]
        elif r < 0.45: evs += [bw() for _ in range(rng.randint(2, 3))] + [('step',)]
        elif r < 0.55: evs += [('zero',), bw(), ('step',)]
        elif r < 0.63: evs += [bwroot(), ('step',)]
        elif r < 0.70: evs += rng.pick([[bwroot(), bw()], [bw(), bwroot()], [bwroot(), bwroot()]]) + [('step',)]
        elif r < 0.78: evs.append(('step',))
        elif r < 0.86: evs.append(('zero',))
        elif r < 0.95: evs.append(toggle())
        else: evs.append(bw())
    if len(evs) > n:
        # cut to the length drawn; the flags the generator tracked are those of the full word, a prefix never meets a frozen bwroot either
        evs = evs[:n]
    return {'kind': 'store', 'opt': kind, 'hp': hp, 'thetas': thetas, 'rgs': rgs, 'evs': evs}


def _store_corpus():
    sgd = lambda wd: {'lr': .1, 'momentum': 0.9, 'dampening': 0.0, 'weight_decay': wd, 'nesterov': False, 'maximize': False}
    word = [('bw', {0: [2.0, 2.0], 1: [-1.0]}), ('step',), ('bw', {0: [2.0, 1.0], 1: [0.5]}), ('step',), ('step',)]
    return [{'kind': 'store', 'opt': 'sgd', 'hp': sgd(0.0), 'thetas': [[1.0, 1.0], [3.0]], 'rgs': [True, True], 'evs': list(word)},
            {'kind': 'store', 'opt': 'sgd', 'hp': sgd(0.1), 'thetas': [[1.0, 1.0], [3.0]], 'rgs': [True, True], 'evs': list(word)},
            {'kind': 'store', 'opt': 'adam', 'hp': {'lr': .1, 'betas': (0.9, 0.999), 'eps': 1e-8, 'weight_decay': 0.1, 'maximize': False},
             'thetas': [[1.0, 1.0], [3.0]], 'rgs': [True, True], 'evs': list(word[:4])}]


_STORE_Q = ['optstore alias', 'optstore get', 'optstore grads', 'optstore bufs']


def _store_lines(c):
    hp, kind = c['hp'], c['opt']
    arrs = ';'.join(show_floats(t) for t in c['thetas']) or '_'
    rg = ','.join(str(int(r)) for r in c['rgs']) or '_'
    if kind == 'sgd':
        out = [f"optstore new sgd {fbits(hp['lr'])} {fbits(hp['momentum'])} {fbits(hp['dampening'])} {fbits(hp['weight_decay'])} {int(hp['nesterov'])} {int(hp['maximize'])} {arrs} {rg}"]
    else:
        out = [f"optstore new {kind} {fbits(hp['lr'])} {fbits(hp['betas'][0])} {fbits(hp['betas'][1])} {fbits(hp['eps'])} {fbits(hp['weight_decay'])} {int(hp['maximize'])} {arrs} {rg}"]
    out += _STORE_Q
    for e in c['evs']:
        if e[0] == 'bw':
            out += [f'optstore ev bw {i} {show_floats(g)}' for i, g in sorted(e[1].items())]
        elif e[0] == 'bwroot':
            out.append(f'optstore ev bwroot {e[1]} {show_floats(e[2])}')
        elif e[0] == 'rg':
            out.append(f'optstore ev rg {e[1]} {int(e[2])}')
        else:
            out.append(f'optstore ev {e[0]}')
        out += _STORE_Q
    return out


def _store_norm(c):
    """a store case after a json round trip (dict keys became strings, tuples lists)"""
    c = dict(c)
    evs = []
    for e in c['evs']:
        if e[0] == 'bw': evs.append(('bw', {int(k): list(v) for k, v in e[1].items()}))
        elif e[0] == 'bwroot': evs.append(('bwroot', int(e[1]), list(e[2])))
        elif e[0] == 'rg': evs.append(('rg', int(e[1]), bool(e[2])))
        else: evs.append((e[0],))
    c['evs'] = evs
    c['hp'] = {k: (tuple(v) if isinstance(v, list) else v) for k, v in c['hp'].items()}
    return c


def _arr(x):
    return x if isinstance(x, np.ndarray) else None


def _store_state(opt, n):
    """the arrays the optimizer keeps per parameter: (momentum_buffer | m1, m2); a place holding None or the integer 0 is empty"""
    if hasattr(opt, 'momentum_buffer'):
        return [_arr(x) for x in opt.momentum_buffer], [None] * n
    return [_arr(x) for x in getattr(opt, 'm1', [None] * n)], [_arr(x) for x in getattr(opt, 'm2', [None] * n)]


def _run_store(c, before, after):
    """the history on the real objects; float64 C-contiguous 1-d parameters; `init` = the array objects the parameters start with"""
    sg = common.impl()
    from synapgrad import optim
    ps = [sg.Tensor(np.array(t, dtype=np.float64), requires_grad=rg) for t, rg in zip(c['thetas'], c['rgs'])]
    init = [p.data for p in ps]                      # recorded after construction (whether or not the constructor copies)
    opt = {'sgd': optim.SGD, 'adam': optim.Adam, 'adamw': optim.AdamW}[c['opt']](ps, **dict(c['hp']))
    after(-1, ('ctor',), ps, opt, init)
    for k, e in enumerate(c['evs']):
        before(k, e, ps, opt, init)
        if e[0] == 'bw':
            terms = [(ps[i] * sg.Tensor(np.array(g, dtype=np.float64))).sum() for i, g in sorted(e[1].items()) if ps[i].requires_grad]
            if terms:
                loss = terms[0]
                for t in terms[1:]:
                    loss = loss + t
                loss.backward()                      # ONE backward call for the whole event
        elif e[0] == 'bwroot':
            ps[e[1]].backward(sg.Tensor(np.array(e[2], dtype=np.float64)))
        elif e[0] == 'zero':
            opt.zero_grad()
        elif e[0] == 'step':
            opt.step()
        else:
            ps[e[1]].requires_grad = e[2]
        after(k, e, ps, opt, init)


def _store_observe(ps, opt, init):
    """the four answer lines: sharing pattern, parameter contents, gradient contents, optimizer array contents"""
    n = len(ps)
    b1, b2 = _store_state(opt, n)
    places = [_arr(p.data) for p in ps] + [_arr(p._grad) for p in ps] + b1 + b2
    labels = []
    for k, a in enumerate(places):
        if a is None:
            labels.append('-'); continue
        labels.append(str(next(j for j in range(k + 1) if places[j] is not None and (places[j] is a or np.shares_memory(places[j], a)))))
    kept = ','.join(str(int(p.data is o)) for p, o in zip(ps, init))
    show = lambda xs: ';'.join('-' if x is None else show_floats(np.asarray(x, dtype=np.float64).ravel()) for x in xs)
    return [','.join(labels) + '|' + kept, show([p.data for p in ps]), show([p._grad for p in ps]), show(b1) + '|' + show(b2)]


def _store_impl(c):
    out = []
    def after(k, e, ps, opt, init):
        out.extend(['ok'] * (len(e[1]) if e[0] == 'bw' else 1))
        out.extend(_store_observe(ps, opt, init))
    r = outcome(lambda: _run_store(c, lambda *a: None, after))
    if r == 'rejected':
        if not out:
            return ['rejected'] + ['?'] * (len(c['lines']) - 1)
        return out + ['rejected'] * (len(c['lines']) - len(out))
    return out


def _store_proj(s):
    """what the property states about a sharing pattern: every momentum / moment place is empty or shares with NO other place, and the
    parameter data objects are the initial ones.  Sharing among gradients / between a gradient and nothing else is not observed."""
    if '|' not in s: return s
    labs, kept = s.split('|')
    labs = labs.split(',')
    n = len(labs) // 4
    names = [f'{r}[{i}]' for r in ('data', 'grad', 'b1', 'b2') for i in range(n)]
    out = []
    for k in range(2 * n, 4 * n):
        out.append(f'{names[k]}:-' if labs[k] == '-' else f'{names[k]}:[' + ' '.join(names[j] for j in range(4 * n) if j != k and labs[j] == labs[k]) + ']')
    return ' '.join(out) + ' | data kept: ' + kept


def _store_compare(c, mo, io):
    if mo[0] == 'rejected' and io[0] == 'rejected':
        return []
    blk = -2                                          # -1 = after the constructor, j = after event j
    for k, (m, i) in enumerate(zip(mo, io)):
        line = c['lines'][k]
        if line == 'optstore alias': blk += 1
        where = f'{line}  [after ' + ('the constructor' if blk < 0 else f'event {blk} ({c["evs"][blk][0]})') + ']'
        if line == 'optstore alias':
            pm, pi = _store_proj(m), _store_proj(i)
            if pm != pi:
                return [(where + ' projected to: optimizer arrays share with / data objects kept', pm, pi)]
            continue
        if m == i: continue
        ms, is_ = [x.split(';') for x in m.split('|')], [x.split(';') for x in i.split('|')]
        ok = len(ms) == len(is_) and all(len(a) == len(b) for a, b in zip(ms, is_))
        if ok:
            for a, b in zip([x for g in ms for x in g], [x for g in is_ for x in g]):
                av, bv = a.split(','), b.split(',')
                if len(av) != len(bv) or not all(_close(x, y, 1e-10) for x, y in zip(av, bv)):
                    ok = False; break
        if not ok:
            return [(where, m, i)]
    return []


def _store_oracle(c):
    """the property on the real code alone: the arrays the optimizer keeps are its own (nothing a backward / zero_grad does reaches
    them, they share memory with no p.data / p._grad / each other), parameters are updated in place in their initial array, a step
    leaves the gradients alone, and the values follow the published recursion"""
    kind, hp = c['opt'], c['hp']
    legal = not (kind == 'sgd' and hp['nesterov'] and (hp['momentum'] <= 0 or hp['dampening'] != 0))
    key = {'opt': kind}
    n = len(c['thetas'])
    fails, seen, snap = [], [], {}
    same = lambda a, b: a.shape == b.shape and a.dtype == b.dtype and bool(np.array_equal(a, b, equal_nan=True))
    pname = lambda r, i: {'b1': 'momentum_buffer' if kind == 'sgd' else 'm1', 'b2': 'm2'}[r] + f'[{i}]'
    def fail(k, cls, what):
        if not fails:
            fails.append((k, {'key': dict(key, cls=cls), 'case': _strip(c, k + 1), 'what': f'after event {k} ({c["evs"][k][0]}): {what}' if k >= 0 else f'after the constructor: {what}'}))
    def before(k, e, ps, opt, init):
        snap.clear()
        if fails: return
        b1, b2 = _store_state(opt, n)
        snap['state'] = [(r, i, a, a.copy()) for r, l in (('b1', b1), ('b2', b2)) for i, a in enumerate(l) if a is not None]
        snap['data'] = [p.data.copy() for p in ps]
        snap['grad'] = [(i, p._grad, p._grad.copy()) for i, p in enumerate(ps) if _arr(p._grad) is not None]
    def after(k, e, ps, opt, init):
        if k >= 0: seen.append([float(v) for p in ps for v in np.asarray(p.data).ravel()])
        if fails: return
        b1, b2 = _store_state(opt, n)
        state = [(r, i, a) for r, l in (('b1', b1), ('b2', b2)) for i, a in enumerate(l) if a is not None]
        if k >= 0 and e[0] != 'step':
            # (a) nothing outside step() may reach the optimizer's arrays or the parameter values
            for r, i, a, old in snap['state']:
                if any(x is a for _, _, x in state) and not same(a, old):
                    return fail(k, 'state-corrupted', f'optimizer state corrupted by gradient accumulation: {pname(r, i)} was {old.tolist()} before the {e[0]} event and is {a.tolist()} after it (same array object, no step in between)')
            for i, (p, old) in enumerate(zip(ps, snap['data'])):
                if not same(np.asarray(p.data), old):
                    return fail(k, 'data-corrupted', f'p{i}.data was {old.tolist()} before the {e[0]} event and is {np.asarray(p.data).tolist()} after it (no step in between)')
        # (b) the optimizer's arrays are its own
        for x, (r, i, a) in enumerate(state):
            for j, p in enumerate(ps):
                for nm, o in ((f'p{j}._grad', _arr(p._grad)), (f'p{j}.data', _arr(p.data))):
                    if o is not None and (o is a or np.shares_memory(o, a)):
                        return fail(k, 'state-aliased', f'{pname(r, i)} shares memory with {nm}')
            for r2, i2, a2 in state[x + 1:]:
                if a2 is a or np.shares_memory(a2, a):
                    return fail(k, 'state-aliased', f'{pname(r, i)} shares memory with {pname(r2, i2)}')
        # (c) parameters are updated in place, in the array they started with
        for i, (p, o) in enumerate(zip(ps, init)):
            if p.data is not o:
                return fail(k, 'inplace', f'p.data was replaced, not updated in place (parameter {i})')
            if p.data.dtype != np.float64 or p.data.shape != (len(c['thetas'][i]),):
                return fail(k, 'dtype', f'dtype / shape of p{i}.data changed to {p.data.dtype} {p.data.shape}')
        # (d) a step reads the gradients, it does not write them
        if k >= 0 and e[0] == 'step':
            for i, g, old in snap['grad']:
                if ps[i]._grad is g and not same(g, old):
                    return fail(k, 'grad-corrupted', f'p{i}._grad was {old.tolist()} before step() and is {g.tolist()} after it (same array object)')
    r = outcome(lambda: _run_store(c, before, after))
    if fails and legal:
        first = fails[0]
    else:
        first = None
    if r == 'rejected':
        if first: return first[1]
        if legal:
            return {'key': dict(key, cls='rejected'), 'case': _strip(c), 'what': 'optimizer / engine raised on a legal history'}
        return None
    if not legal:
        return {'key': dict(key, cls='accepted-illegal'), 'case': _strip(c), 'what': 'nesterov without momentum / with dampening was accepted'}
    # (e) the values against the published recursion (`_spec` reads the old event format: p.backward(g) contributes g to that parameter)
    want = _spec(dict(c, evs=[('bw', {e[1]: e[2]}) if e[0] == 'bwroot' else e for e in c['evs']]))
    for k, (a, b) in enumerate(zip(seen, want)):
        if first and first[0] <= k: break
        for x, y in zip(a, b):
            if (x != x) != (y != y) or (x == x and abs(x - y) > 1e-9 * (1 + abs(x) + abs(y))):
                return {'key': dict(key, cls='trajectory'), 'case': _strip(c, k + 1), 'what': f'after event {k} ({c["evs"][k][0]}) parameters are {a}, the published recursion gives {b}'}
    return first[1] if first else None


# ---- the published recursions, evaluated independently in Python floats -------------------------
def _div(a, b):
    """IEEE division (Python raises on a zero divisor)"""
    if b != 0: return a / b
    return float('nan') if a == 0 or a != a else float('inf') * (1 if a > 0 else -1)


def _spec(c):
    """trajectory of every scalar parameter from the documented recursions; returns list of value lists per event"""
    hp, kind = c['hp'], c['opt']
    th = [list(t) for t in c['thetas']]
    gr = [None] * len(th)
    rg = list(c['rgs'])
    st = [[{'b': None, 'm': 0.0, 'v': 0.0, 't': 0} for _ in t] for t in th]
    traj = []
    for e in c['evs']:
        if e[0] == 'bw':
            for i, g in e[1].items():
                if rg[i]:
                    gr[i] = [a + b for a, b in zip(gr[i] or [0.0] * len(g), g)]
        elif e[0] == 'zero':
            for i in range(len(th)):
                if rg[i]: gr[i] = [0.0] * len(th[i])
        elif e[0] == 'rg':
            rg[e[1]] = e[2]
        else:
            for i in range(len(th)):
                if not rg[i] or gr[i] is None: continue
                for k in range(len(th[i])):
                    x, g, s = th[i][k], gr[i][k], st[i][k]
                    if kind == 'sgd':
                        if hp['weight_decay'] != 0: g = g + hp['weight_decay'] * x
                        if hp['momentum'] != 0:
                            s['b'] = g if s['b'] is None else hp['momentum'] * s['b'] + (1 - hp['dampening']) * g
                            g = g + hp['momentum'] * s['b'] if hp['nesterov'] else s['b']
                        x = x + hp['lr'] * g if hp['maximize'] else x - hp['lr'] * g
                    else:
                        b1, b2 = hp['betas']
                        s['t'] += 1
                        if hp['maximize']: g = -g
                        if kind == 'adamw':
                            x = x - hp['lr'] * hp['weight_decay'] * x
                        elif hp['weight_decay'] != 0:
                            g = g + hp['weight_decay'] * x
                        s['m'] = b1 * s['m'] + (1 - b1) * g
                        s['v'] = b2 * s['v'] + (1 - b2) * g * g
                        mh = s['m'] / (1 - b1 ** s['t']); vh = s['v'] / (1 - b2 ** s['t'])
                        x = x - hp['lr'] * _div(mh, vh ** 0.5 + hp['eps'])
                    th[i][k] = x
        traj.append([v for t in th for v in t])
    return traj


def oracle(c):
    if c.get('kind') == 'store': return _store_oracle(c)
    if c.get('kind') == 'gstep': return None          # the translation is compared there; `search` replays histories against the published recursion
    legal = not (c['opt'] == 'sgd' and c['hp']['nesterov'] and (c['hp']['momentum'] <= 0 or c['hp']['dampening'] != 0))
    seen = []
    flags = {'inplace': True, 'dtype': True}
    def observe(e, ps, ids):
        if e == 'ctor': return
        seen.append([float(v) for p in ps for v in p.data.ravel()])
        if [id(p.data) for p in ps] != ids: flags['inplace'] = False
        if any(p.data.dtype != (np.float32 if c.get('dt') == 'f32' else np.float64) for p in ps): flags['dtype'] = False
    r = outcome(lambda: _run(c, observe))
    key = {'opt': c['opt']}
    if r == 'rejected':
        if legal:
            return {'key': dict(key, cls='rejected'), 'case': _strip(c), 'what': 'optimizer raised on a legal history'}
        return None
    if not legal:
        return {'key': dict(key, cls='accepted-illegal'), 'case': _strip(c), 'what': 'nesterov without momentum / with dampening was accepted'}
    want = _spec(c)
    f32 = c.get('dt') == 'f32'
    hist = {}
    for k, (a, b) in enumerate(zip(seen, want)):
        for j, (x, y) in enumerate(zip(a, b)):
            if f32:         # tolerance of an element follows the largest magnitude it has had so far (see compare)
                for v in (abs(x), abs(y)):
                    if v == v and v != float('inf'): hist[j] = max(hist.get(j, 0.0), v)
            if (x != x) != (y != y) or (x == x and y == y and float('inf') in (abs(x), abs(y)) and x != y) or (x == x and abs(x - y) > (2e-6 if f32 else 1e-9) * (1 + abs(x) + abs(y)) and not (f32 and abs(x - y) <= 4e-6 * hist.get(j, 0.0))):
                return {'key': dict(key, cls='trajectory'), 'case': _strip(c, k + 1), 'what': f'after event {k} ({c["evs"][k][0]}) parameters are {a}, the published recursion gives {b}'}
    if not flags['inplace']:
        return {'key': dict(key, cls='inplace'), 'case': _strip(c), 'what': 'p.data was replaced, not updated in place'}
    if not flags['dtype']:
        return {'key': dict(key, cls='dtype'), 'case': _strip(c), 'what': 'dtype changed'}
    return None


def _strip(c, nev=None):
    if c.get('kind') == 'store':
        return {'kind': 'store', 'opt': c['opt'], 'hp': c['hp'], 'thetas': c['thetas'], 'rgs': c['rgs'], 'evs': c['evs'][:nev] if nev else c['evs']}
    return {'opt': c['opt'], 'hp': c['hp'], 'thetas': c['thetas'], 'rgs': c['rgs'], 'evs': c['evs'][:nev] if nev else c['evs'], 'seed_lay': c.get('seed_lay', 0), 'dt': c.get('dt', 'f64'),
            'zero_via': c.get('zero_via', 'optimizer')}


def search(rng, tier):
    for c in cases(rng, 'quick'):
        if c.get('kind') == 'gstep': continue
        f = oracle(c)
        if f:
            yield f


def matches_known(k, fail):
    return k.get('key') == fail.get('key')


def rerun_known(k):
    w = k['witness']
    if w.get('kind') == 'store': return oracle(_store_norm(w)) is not None
    w['evs'] = [tuple(e) if not isinstance(e, tuple) else e for e in w['evs']]
    return oracle(w) is not None


def replay(fail):
    c = fail['case']
    if c.get('kind') == 'store':
        f = oracle(_store_norm(c))
        return {'fails': f is not None, 'now': f}
    c['evs'] = [(e[0], {int(k): v for k, v in e[1].items()}) if e[0] == 'bw' else tuple(e) for e in c['evs']]
    c['hp'] = {k: (tuple(v) if isinstance(v, list) else v) for k, v in c['hp'].items()}
    f = oracle(c)
    return {'fails': f is not None, 'now': f}
