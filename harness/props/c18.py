"""C18 — split_dataset / DataLoader / one_hot_encode (synapgrad/nn/utils/data.py)"""
import math
import numpy as np
import common
from common import fbits, show_ints, show_opt, outcome

PROP = 'C18'
LEAN_TARGETS = ['Props.C18']
REQUIRED_THEOREMS = ['Props.C18.split_concat', 'Props.C18.split_sizes', 'Props.C18.split_perm',
                     'Props.C18.loader_len_floor', 'Props.C18.loader_batch_exact', 'Props.C18.loader_covers_prefix',
                     'Props.C18.oneHot_row', 'Props.C18.loader_reiterable', 'Props.C18.loops_all_from_start']
RULE = ('split: every n in a range x test fraction x val fraction (or none) x shuffle off / on with a drawn seed; '
        'loader: (nx, ny, batch) incl. batch 0, batch > n, with and without transform (callable object, DataLoaderCallback subclass, falsy callable, plain function), iterated twice; programs of 2-5 successive for-loops over one loader object, each abandoned after k batches (break, or explicit iter/next) or exhausted; '
        'one-hot: random integer label lists. A case is non-trivial when n > 0 (and, for split, at least two parts are '
        'non-empty or a shuffle happened); distinct = distinct protocol line')
EXHAUSTIVE = {'quick': False, 'thorough': False}
ASSUMPTIONS = ['np.random.shuffle is deterministic given the global seed (the permutation is captured from it)',
               'np.floor / float multiply are IEEE binary64 as in Lean Float']
TRUSTED_BASE = ['harness/props/c18.py (generator, canonicalisation)']

FRACS = [0.0, 0.1, 0.2, 0.25, 0.29, 0.3, 1 / 3, 0.5, 0.57, 0.7, 0.9, 0.99, 1.0, 0.15, 0.35, 0.44, 0.6, 0.72, 0.8, 0.85, 0.95]
NS_EXACT = [10, 20, 25, 40, 50, 100]      # lengths for which many fractions give an exact integer (where floor and ceil roundings differ)


def _data(n):
    X = [[10 * i, 10 * i + 1] for i in range(n)]
    y = [1000 + i for i in range(n)]
    return X, y


def cases(rng, tier):
    out = []
    nmax = 40 if tier == 'quick' else 120
    ns = list(range(0, 13)) + NS_EXACT + [rng.randint(13, nmax) for _ in range(6 if tier == 'quick' else 60)]
    for n in ns:
        combos = [(tf, vf) for tf in FRACS for vf in [None] + FRACS]
        if tier == 'quick':
            combos = [(tf, None) for tf in FRACS] + rng.sample(combos, 10)      # every fraction for every n, plus random (test, val) pairs
        for tf, vf in combos:
            shuffle = rng.chance(0.4)
            seed = rng.randrange(2 ** 31) if shuffle else None
            out.append({'kind': 'split', 'n': n, 'tf': tf, 'vf': vf, 'seed': seed})
    for n in (range(0, 14) if tier == 'quick' else range(0, 41)):
        for b in range(0, n + 4):
            out.append({'kind': 'loader', 'nx': n, 'ny': n, 'b': b, 'transform': (n + b) % 2 == 0})
    for _ in range(20 if tier == 'quick' else 200):
        ny = rng.randint(0, 20)
        out.append({'kind': 'loader', 'nx': rng.randint(0, 20), 'ny': ny, 'b': rng.randint(1, 8), 'transform': rng.chance(.5)})
    # successive for-loops over ONE loader object, some abandoned after k items (break), some run to exhaustion
    for _ in range(60 if tier == 'quick' else 1500):
        n = rng.randint(0, 14); b = rng.randint(0, 5) if rng.chance(.1) else rng.randint(1, 5)
        L = n // b if b else 0
        ks = [rng.pick([0, 1, 1, 2, L, L + 1, L + 3, rng.randint(0, L + 2)]) for _ in range(rng.randint(2, 5))]
        out.append({'kind': 'loops', 'nx': n, 'ny': n, 'b': b, 'ks': ks, 'transform': rng.chance(.3), 'how': rng.pick(['break', 'next'])})
    for _ in range(40 if tier == 'quick' else 400):
        k = rng.randint(0, 12)
        lo = rng.randint(-5, 3)
        out.append({'kind': 'onehot', 'ys': [rng.randint(lo, lo + rng.randint(0, 6)) for _ in range(k)]})
    for c in out:
        c['lines'] = [_line(c)]
        c['desc'] = c['lines'][0]
    return out


def _perm(c):
    idx = list(range(c['n']))
    if c['seed'] is not None:
        np.random.seed(c['seed'])
        np.random.shuffle(idx)
    return idx


def _line(c):
    if c['kind'] == 'split':
        return f"data split {show_ints(_perm(c))} {fbits(c['tf'])} {show_opt(lambda v: str(fbits(v)), c['vf'])}"
    if c['kind'] == 'loader':
        return f"data loader {c['nx']} {c['ny']} {c['b']}"
    if c['kind'] == 'loops':
        return f"data loops {c['nx']} {c['ny']} {c['b']} {show_ints(c['ks'])}"
    return f"data onehot {show_ints(c['ys'])}"


def _positions(Xp, yp):
    """recover sample positions from the values; flags mis-paired features/labels"""
    pos = []
    for xr, yv in zip(Xp, yp):
        p = int(round(float(xr[0]) / 10))
        if int(round(float(yv))) != 1000 + p or int(round(float(xr[1]))) != 10 * p + 1:
            return None
        pos.append(p)
    if len(Xp) != len(yp):
        return None
    return pos


def _run_split(c):
    from synapgrad.nn.utils.data import split_dataset
    X, y = _data(c['n'])
    if c['seed'] is not None:
        np.random.seed(c['seed'])
    train, test, val = split_dataset(X, y, test_split=c['tf'], val_split=c['vf'], shuffle=c['seed'] is not None)
    parts = []
    for part in (train, test, val):
        if part is None:
            parts.append(None)
            continue
        p = _positions(part[0], part[1])
        if p is None:
            return 'mispaired'
        parts.append(p)
    return parts


class _TF:
    def __call__(self, dl, X, y):
        return ('tf', X, y)


class _Pipeline(_TF):
    """a composed transform with a list of optional stages: a real callable whose truth value is False when the list is empty"""
    stages = ()
    def __len__(self): return len(self.stages)


def _mk_tf(c):
    """the transform of a case in one of the shapes a caller may give it: plain callable object, subclass of the library's
    DataLoaderCallback, object with `__len__() == 0` (falsy), plain function"""
    if not c['transform']: return None
    k = (c['nx'] + c['ny'] + c['b']) % 4
    if k == 0: return _TF()
    if k == 1:
        from synapgrad.nn.utils.data import DataLoaderCallback
        class CB(DataLoaderCallback):
            def __call__(self, dl, X, y): return ('tf', X, y)
        return CB()
    if k == 2: return _Pipeline()
    return lambda dl, X, y: ('tf', X, y)


def _run_loader(c):
    from synapgrad.nn.utils.data import DataLoader
    X = np.arange(c['nx']) * 10
    y = np.arange(c['ny']) + 1000
    dl = DataLoader(X, y, c['b'], _mk_tf(c))
    n = len(dl)
    passes = []
    for _ in range(2):
        bs = []
        for item in dl:
            if c['transform']:
                assert item[0] == 'tf'
                item = item[1:]
            bs.append(([int(v) // 10 for v in item[0]], [int(v) - 1000 for v in item[1]]))
        passes.append(bs)
    if passes[0] != passes[1]:
        return 'reiteration-differs'
    return n, passes[0]


def _run_loops(c):
    from synapgrad.nn.utils.data import DataLoader
    X = np.arange(c['nx']) * 10
    y = np.arange(c['ny']) + 1000
    dl = DataLoader(X, y, c['b'], _mk_tf(c))
    loops = []
    def conv(item):
        if c['transform']:
            assert item[0] == 'tf'; item = item[1:]
        return ([int(v) // 10 for v in item[0]], [int(v) - 1000 for v in item[1]])
    for k in c['ks']:
        seen = []
        if c['how'] == 'break':                 # the model's `consume k`: at most k calls of __next__
            if k > 0:
                for item in dl:
                    seen.append(conv(item))
                    if len(seen) == k: break
            else:
                iter(dl)
        else:                                   # explicit iter()/next() calls, abandoned without exhausting
            it = iter(dl)
            for _ in range(k):
                try: seen.append(conv(next(it)))
                except StopIteration: break
        loops.append(seen)
    return loops


def impl(c):
    common.impl()
    if c['kind'] == 'loops':
        r = outcome(lambda: _run_loops(c))
        if isinstance(r, str):
            return [r]
        sb = lambda bs: '|'.join(show_ints(x) + ';' + show_ints(y) for x, y in bs) if bs else '_'
        return [' / '.join(sb(bs) for bs in r) if r else '_']
    if c['kind'] == 'split':
        r = outcome(lambda: _run_split(c))
        if isinstance(r, str):
            return [r]
        tr, te, va = r
        return [f"train={show_ints(tr)} test={show_ints(te)} val={show_opt(show_ints, va)}"]
    if c['kind'] == 'loader':
        r = outcome(lambda: _run_loader(c))
        if isinstance(r, str):
            return [r]
        n, bs = r
        s = '|'.join(show_ints(x) + ';' + show_ints(y) for x, y in bs) if bs else '_'
        return [f"len={n} batches={s}"]
    from synapgrad.nn.utils.data import one_hot_encode
    r = outcome(lambda: one_hot_encode(np.array(c['ys'], dtype=np.int64)))
    if isinstance(r, str):
        return [r]
    rows = [list(map(int, row)) for row in r]
    return ['|'.join(show_ints(row) for row in rows) if rows else '_']


def nontrivial(c):
    if c['kind'] == 'split':
        return c['n'] > 1 and (c['seed'] is not None or 0 < c['tf'] < 1)
    if c['kind'] == 'loader':
        return c['ny'] > 0 and c['b'] > 0
    if c['kind'] == 'loops':
        L = c['ny'] // c['b'] if c['b'] else 0
        return L >= 2 and any(0 < k < L for k in c['ks'][:-1])      # an abandoned loop followed by another loop
    return len(set(c['ys'])) > 1


def distribution(cases):
    d = {}
    for c in cases:
        k = c['kind'] + ('/shuffle' if c.get('seed') is not None else '') + ('/val' if c.get('vf') is not None else '')
        d[k] = d.get(k, 0) + 1
    return d


# ---- the property's own predicate, evaluated on the implementation alone --------------------
def oracle(c):
    common.impl()
    if c['kind'] == 'split':
        r = outcome(lambda: _run_split(c))
        n = c['n']
        if r == 'rejected':
            return {'key': {'kind': 'split', 'class': 'rejected'}, 'case': c, 'what': 'split_dataset raised for fractions in [0,1]'}
        if r == 'mispaired':
            return {'key': {'kind': 'split', 'class': 'mispaired'}, 'case': c, 'what': 'features and labels are no longer paired'}
        tr, te, va = r
        allp = tr + te + (va or [])
        if sorted(allp) != list(range(n)):
            return {'key': {'kind': 'split', 'class': 'not-a-partition'}, 'case': c, 'what': f'parts {r} do not partition 0..{n - 1}'}
        kt = int(math.floor(c['tf'] * n))
        if len(te) != min(kt, n):
            return {'key': {'kind': 'split', 'class': 'size'}, 'case': c, 'what': f'test size {len(te)} != floor rule {min(kt, n)}'}
        if c['vf'] is not None:
            kv = int(math.floor(c['vf'] * (n - len(te))))
            if len(va) != min(kv, n - len(te)):
                return {'key': {'kind': 'split', 'class': 'size'}, 'case': c, 'what': f'val size {len(va)} != floor rule {kv}'}
        elif va is not None:
            return {'key': {'kind': 'split', 'class': 'size'}, 'case': c, 'what': 'validation part returned without val_split'}
        if c['seed'] is None and (tr != sorted(tr) or te != sorted(te) or (va or []) != sorted(va or [])):
            return {'key': {'kind': 'split', 'class': 'order'}, 'case': c, 'what': 'order not preserved without shuffle'}
        return None
    if c['kind'] == 'loader':
        r = outcome(lambda: _run_loader(c))
        if c['b'] == 0:
            return None
        if isinstance(r, str):
            return {'key': {'kind': 'loader', 'class': r, 'transform': c['transform']}, 'case': c, 'what': f'loader {r}'}
        n, bs = r
        want = c['ny'] // c['b']
        if n != want or len(bs) != want:
            return {'key': {'kind': 'loader', 'class': 'count'}, 'case': c, 'what': f'{len(bs)} batches, len()={n}, floor rule {want}'}
        if c['nx'] == c['ny']:
            for i, (x, y) in enumerate(bs):
                exp = list(range(i * c['b'], i * c['b'] + c['b']))
                if x != exp or y != exp:
                    return {'key': {'kind': 'loader', 'class': 'batch'}, 'case': c, 'what': f'batch {i} is {x};{y}, expected {exp}'}
        return None
    if c['kind'] == 'loops':
        if c['b'] == 0:
            return None
        r = outcome(lambda: _run_loops(c))
        if isinstance(r, str):
            return {'key': {'kind': 'loops', 'class': 'rejected'}, 'case': c, 'what': 'iterating the loader raised'}
        L = c['ny'] // c['b']
        for j, (k, seen) in enumerate(zip(c['ks'], r)):
            exp = [(list(range(i * c['b'], (i + 1) * c['b'])),) * 2 for i in range(min(k, L))]
            if [tuple(b_) for b_ in seen] != exp:
                return {'key': {'kind': 'loops', 'class': 'not-from-start'}, 'case': c,
                        'what': f'loop {j} (taking at most {k} batches after loops taking {c["ks"][:j]}) saw {seen}, expected the first {min(k, L)} batches {exp}'}
        return None
    from synapgrad.nn.utils.data import one_hot_encode
    r = outcome(lambda: one_hot_encode(np.array(c['ys'], dtype=np.int64)))
    if isinstance(r, str):
        return None if not c['ys'] else {'key': {'kind': 'onehot', 'class': 'rejected'}, 'case': c, 'what': 'one_hot_encode raised'}
    u = sorted(set(c['ys']))
    for row, yv in zip(r, c['ys']):
        exp = [1 if u[k] == yv else 0 for k in range(len(u))]
        if list(map(int, row)) != exp:
            return {'key': {'kind': 'onehot', 'class': 'row'}, 'case': c, 'what': f'label {yv} encoded as {list(row)}, expected {exp}'}
    return None


def search(rng, tier):
    for c in cases(rng, 'quick'):
        f = oracle(c)
        if f:
            yield f


def matches_known(k, fail):
    return k.get('key') == fail.get('key')


def rerun_known(k):
    return oracle(k['witness']) is not None


def replay(fail):
    f = oracle(fail['case'])
    return {'fails': f is not None, 'now': f}
