"""C18 — split_dataset / DataLoader / one_hot_encode (synapgrad/nn/utils/data.py)"""
import math
import numpy as np
import common
from common import fbits, show_ints, show_opt, outcome

PROP = 'C18'
LEAN_TARGETS = ['Props.C18']
REQUIRED_THEOREMS = ['Props.C18.split_concat', 'Props.C18.split_sizes', 'Props.C18.split_perm',
                     'Props.C18.loader_len_floor', 'Props.C18.loader_batch_exact', 'Props.C18.loader_covers_prefix',
                     'Props.C18.oneHot_row', 'Props.C18.loader_reiterable', 'Props.C18.loops_all_from_start', 'Props.C18.oneHot_map_strictMono', 'Props.C18.oneHot_distinct_columns']
REQUIRED_THEOREMS += ['Props.C18.' + t for t in ['src_loader_len', 'src_loader_item', 'src_loader_iter', 'src_loader_next']]   # ties to data.py as read on this run
RULE = ('split: every n in a range x test fraction x val fraction (or none) x shuffle off / on with a drawn seed; '
        'loader: (nx, ny, batch) incl. batch 0, batch > n, with and without transform (callable object, DataLoaderCallback subclass, falsy callable, plain function), iterated twice; programs of 2-5 successive for-loops over one loader object, each abandoned after k batches (break, or explicit iter/next) or exhausted; '
        'DATA LAYOUT of split / loader / loops: labels of every rank ((n,), (n,1), (n,k) one-hot / multi-output, (n,k,m)) and features of every rank ((n,), (n,d), (n,d,e), (n,c,h,w)), each handed over as ndarray (int64 / float64 / float32), '
        'list (of scalars / of lists), tuple, list of row arrays - every label layout x container occurs in the (n, batch) grid of every run; every ELEMENT of every returned row is decoded and must name the same sample; '
        'one-hot: label sets of every kind (integers of every width incl. negative and beyond 2^53, booleans, strings incl. prefixes / the empty string / non-ASCII, '
        'float64 and float32 labels: ordinary ones, consecutive large class ids, 1 + k*1e-6, tiny and denormal magnitudes, chains of ADJACENT floats (np.nextafter), both zeros, infinities, Python int/float mixtures), '
        'unsorted with repeats, handed over as ndarray / list / tuple / the float32 array split_dataset returns; the labels reach the model through an order-preserving injection into the integers '
        '(floats: sign-magnitude bit pattern, strings: code points in a fixed-width positional system), so the model compares labels EXACTLY. A case is non-trivial when n > 0 (and, for split, at least two parts are '
        'non-empty or a shuffle happened); distinct = distinct (protocol line, data layout)')
EXHAUSTIVE = {'quick': False, 'thorough': False}
ASSUMPTIONS = ['np.random.shuffle is deterministic given the global seed (the permutation is captured from it)',
               'np.floor / float multiply are IEEE binary64 as in Lean Float']
TRUSTED_BASE = ['harness/props/c18.py (generator, canonicalisation, order-preserving injection of labels into the integers)']
TRUSTED_BASE = TRUSTED_BASE + ['harness/data_formulas.py (reading of the index arithmetic of DataLoader as Lean terms over Nat, Generated/LoaderLogic.lean)']

FRACS = [0.0, 0.1, 0.2, 0.25, 0.29, 0.3, 1 / 3, 0.5, 0.57, 0.7, 0.9, 0.99, 1.0, 0.15, 0.35, 0.44, 0.6, 0.72, 0.8, 0.85, 0.95]
NS_EXACT = [10, 20, 25, 40, 50, 100]      # lengths for which many fractions give an exact integer (where floor and ceil roundings differ)


def _data(n):
    X = [[10 * i, 10 * i + 1] for i in range(n)]
    y = [1000 + i for i in range(n)]
    return X, y


# ---- data layouts: rank and container of features and labels ----------------------------------------
# Sample i carries, at flat position j of its row, the value base + scale*i + 100000*j (exact in float32), so every element of a
# returned row names its sample and its place.  The model sees only the NUMBER of samples (len of the outer container): the
# property speaks about samples, whatever a sample is made of.
Y_SHAPES = [(), (1,), (2,), (3,), (5,), (2, 2), (1, 1), (3, 1)]
X_SHAPES = [(), (1,), (2,), (4,), (2, 3), (1, 2, 2)]
CONTAINERS = ['array', 'array-f64', 'array-f32', 'list', 'tuple', 'list-of-arrays']
LAYOUTS_Y = [(s, k) for s in Y_SHAPES for k in CONTAINERS]


def _gen_layout(rng, j=None):
    """layout j of the label grid (all label shapes x containers) when j is given, else a random one; features random"""
    ys, yc = LAYOUTS_Y[j % len(LAYOUTS_Y)] if j is not None else (rng.pick(Y_SHAPES), rng.pick(CONTAINERS))
    return {'xs': list(rng.pick(X_SHAPES)), 'xc': rng.pick(CONTAINERS), 'ys': list(ys), 'yc': yc}


def _mk(n, shape, cont, base, scale):
    shape = tuple(shape)
    m = int(np.prod(shape, dtype=int))
    arr = np.zeros((n,) + shape, dtype=np.int64)
    for i in range(n):
        arr[i] = base + scale * i + 100000 * np.arange(m).reshape(shape)
    if cont == 'array': return arr
    if cont == 'array-f64': return arr.astype(np.float64)
    if cont == 'array-f32': return arr.astype(np.float32)
    if cont == 'list': return arr.tolist()
    if cont == 'tuple': return tuple(arr.tolist())
    return [arr[i] for i in range(n)]          # list of row arrays (NumPy scalars for rank-0 rows)


def _decode(rows, shape, base, scale):
    """sample position named by each returned row (every element must agree, and the row must have the sample's shape); -1 otherwise"""
    out = []
    for row in rows:
        r = np.asarray(row, dtype=np.float64)
        if r.shape != tuple(shape) or r.size == 0:
            out.append(-1); continue
        r = r.ravel()
        p = int(round((float(r[0]) - base) / scale))
        ok = all(float(r[j]) == base + scale * p + 100000 * j for j in range(r.size))
        out.append(p if ok else -1)
    return out


def _lay_data(c):
    lay = c.get('lay') or {'xs': [], 'xc': 'array', 'ys': [], 'yc': 'array'}
    X = _mk(c['nx'] if 'nx' in c else c['n'], lay['xs'], lay['xc'], 0, 10)
    y = _mk(c['ny'] if 'ny' in c else c['n'], lay['ys'], lay['yc'], 1000, 1)
    return X, y, lay



def extract():
    """the index arithmetic of DataLoader is re-read from data.py (Generated/LoaderLogic.lean); the src_loader_* theorems are re-checked by the build"""
    import data_formulas
    return data_formulas.write()[0]

def cases(rng, tier):
    out = []
    nmax = 40 if tier == 'quick' else 120
    ns = list(range(0, 13)) + NS_EXACT + [rng.randint(13, nmax) for _ in range(6 if tier == 'quick' else 60)]
    for n in ns:
        combos = [(tf, vf) for tf in FRACS for vf in [None] + FRACS]
        if tier == 'quick':
            combos = [(tf, None) for tf in FRACS] + rng.sample(combos, 10)      # every fraction for every n, plus random (test, val) pairs
        for tf, vf in combos:
            shuffle = rng.chance(0.4)
            seed = rng.randrange(2 ** 31) if shuffle else None
            out.append({'kind': 'split', 'n': n, 'tf': tf, 'vf': vf, 'seed': seed})
            if rng.chance(.5):
                out[-1]['lay'] = _gen_layout(rng)
    for n in (range(0, 14) if tier == 'quick' else range(0, 41)):
        for b in range(0, n + 4):
            out.append({'kind': 'loader', 'nx': n, 'ny': n, 'b': b, 'transform': (n + b) % 2 == 0})
            # the same (n, batch) point under a data layout: the grid walks through every label shape x container
            out.append({'kind': 'loader', 'nx': n, 'ny': n, 'b': b, 'transform': (n + b) % 2 == 1, 'lay': _gen_layout(rng, len(out) // 2)})
    for _ in range(20 if tier == 'quick' else 200):
        ny = rng.randint(0, 20)
        out.append({'kind': 'loader', 'nx': rng.randint(0, 20), 'ny': ny, 'b': rng.randint(1, 8), 'transform': rng.chance(.5)})
        if rng.chance(.6):
            out[-1]['lay'] = _gen_layout(rng)
    # successive for-loops over ONE loader object, some abandoned after k items (break), some run to exhaustion
    for _ in range(60 if tier == 'quick' else 1500):
        n = rng.randint(0, 14); b = rng.randint(0, 5) if rng.chance(.1) else rng.randint(1, 5)
        L = n // b if b else 0
        ks = [rng.pick([0, 1, 1, 2, L, L + 1, L + 3, rng.randint(0, L + 2)]) for _ in range(rng.randint(2, 5))]
        out.append({'kind': 'loops', 'nx': n, 'ny': n, 'b': b, 'ks': ks, 'transform': rng.chance(.3), 'how': rng.pick(['break', 'next'])})
        if rng.chance(.6):
            out[-1]['lay'] = _gen_layout(rng)
    for j in range(80 if tier == 'quick' else 1500):
        out.append(_gen_keep(rng, j))
    for _ in range(40 if tier == 'quick' else 400):
        k = rng.randint(0, 12)
        lo = rng.randint(-5, 3)
        out.append({'kind': 'onehot', 'ys': [rng.randint(lo, lo + rng.randint(0, 6)) for _ in range(k)]})
    # every run: signed label sets whose largest value equals (number of distinct labels - 1) — a dense-looking maximum over labels that are
    # not 0..k-1 (binary targets -1 / +1 in particular), in several orders and with repeats
    for ys in ([-1, 1], [1, -1, -1, 1], [-1, 0, 2], [2, -1, 0, 0, 2], [-3, -2, 1, 3], [3, 1, -2, -3, 1], [-2, 1], [-5, 0, 2, 3], [0, -1]):
        out.append({'kind': 'onehot', 'ys': list(ys)})
    # label sets of every type: each family at least twice per run (quick), then random ones
    fams = list(LABEL_FAMILIES)
    for j in range(3 * len(fams) if tier == 'quick' else 60 * len(fams)):
        out.append(_gen_labels(rng, fams[j % len(fams)]))
    for c in out:
        c['lines'] = [_line(c)] if c['kind'] != 'keep' else [f"data loader {c['n']} {c['n']} {b}" for b in c['bs']]
        if c.get('lay'):
            c['key'] = [c['lines'][0], repr(sorted(c['lay'].items()))]
        if c['kind'] == 'keep':
            c['key'] = c['lines'] + [repr(c['ops']), repr(sorted((c.get('lay') or {}).items())), c['transform']]
        c['desc'] = (c['lines'][0] + (f" [features: rows of shape {tuple(c['lay']['xs'])} in a {c['lay']['xc']}; labels: rows of shape {tuple(c['lay']['ys'])} in a {c['lay']['yc']}]" if c.get('lay') else '')) if 'fam' not in c else f"one_hot_encode of the {c['fam']} labels {c['ys']!r} ({c['dtype'] or 'python values'} in a {c['cont']}) : {c['lines'][0]}"[:700]
    for c in out:
        if c['kind'] == 'keep':
            c['desc'] = f"batches kept: loaders of batch size {c['bs']} over one dataset of {c['n']} samples, ops {c['ops']}, transform={c['transform']}, layout={c.get('lay')}"
    return out


# ---- one-hot: labels of any type -------------------------------------------------------------------
# The model (lean/SynapModel/Data.lean `oneHot`) works over integers and compares them exactly.  A label set of another type is
# sent through an ORDER-PRESERVING INJECTION into the integers (so "index among the sorted distinct labels" is the same number on
# both sides): booleans 0/1; floats by their sign-magnitude bit pattern (-0.0 and 0.0, which are equal, both map to 0); strings
# (NumPy orders them by code point) as numbers in base 0x110001 with digit = code point + 1, padded to the longest label.
LABEL_FAMILIES = ['int', 'int-narrow', 'int-big', 'bool', 'str', 'f-ordinary', 'f-ids', 'f-fine', 'f-tiny', 'f-adjacent', 'f-zero', 'f-inf', 'py-mixed']


def _fkey(x):
    b = fbits(float(x))
    return -(b & 0x7FFFFFFFFFFFFFFF) if b >> 63 else b


def _label_keys(c):
    if 'lt' not in c:
        return c['ys']
    ys = c['ys']
    if c['lt'] == 'str':
        L = max([len(v) for v in ys] + [0])
        return [sum((ord(ch) + 1) * 0x110001 ** (L - 1 - i) for i, ch in enumerate(v)) for v in ys]
    if c['lt'] == 'bool':
        return [int(v) for v in ys]
    if c['lt'].startswith('int'):
        return [int(v) for v in ys]
    return [_fkey(v) for v in ys]


def _f32(v):
    with np.errstate(all='ignore'):
        return float(np.float32(v))


def _gen_labels(rng, fam):
    """a label list drawn (unsorted, with repeats) from a pool of distinct labels of one family"""
    dtype, m = None, rng.randint(1, 6)
    if fam == 'int':
        lo = rng.pick([-1000, -7, -1, 0, 0, 1, 5, 100, 32760, 10 ** 5, 10 ** 9])
        pool = [lo + k * rng.pick([1, 1, 1, 2, 10]) for k in range(m)]
        dtype = rng.pick(['int64', 'int64', 'int32', None])
    elif fam == 'int-narrow':
        dtype = rng.pick(['int8', 'uint8', 'int16', 'uint16'])
        info = np.iinfo(dtype)
        pool = sorted(set([info.min, info.max] + [rng.randint(info.min, info.max) for _ in range(m)]))
    elif fam == 'int-big':
        base = rng.pick([2 ** 53, 2 ** 53 - 2, 2 ** 62, -2 ** 62, -2 ** 53, 2 ** 31 - 3, -2 ** 31 - 2, 2 ** 24 - 1])
        pool = [base + k for k in range(m + 1)]
        dtype = 'int64'
    elif fam == 'bool':
        pool = [False, True] if rng.chance(.8) else [rng.chance(.5)]
        dtype = rng.pick(['bool', None])
    elif fam == 'str':
        al = rng.pick(['ab', 'abc', 'aAbB01', 'xyz_ -', 'a\u00e9\u00dfz\u4e2d'])
        pool = sorted(set(''.join(rng.pick(al) for _ in range(rng.randint(0, 3))) for _ in range(m + 2)))
        if rng.chance(.5):      # a label, its prefixes and extensions
            w = pool[-1] or 'a'
            pool = sorted(set(pool + [w[:1], w, w + w[0], w + al[0]]))
    elif fam == 'f-ordinary':
        pool = rng.pick([[k / 2 for k in range(-2, m)], [k / 3 for k in range(m + 1)], [float(k) for k in range(m + 1)],
                         [rng.dyadic() for _ in range(m + 1)], [0.1 * k for k in range(m + 1)]])
        dtype = rng.pick(['float64', 'float32', None])
    elif fam == 'f-ids':          # consecutive large class ids
        base = rng.pick([1e5, 123456.0, 1e6, 2.0 ** 24 - 8, 99999.0, -1e5, 1e7, 1e9, 2.0 ** 52, 1e15])
        pool = [base + k for k in range(m + 1)]
        dtype = rng.pick(['float64', 'float32', None]) if abs(base) < 2 ** 24 else rng.pick(['float64', None])
    elif fam == 'f-fine':         # finely spaced levels
        base, step = rng.pick([(1.0, 1e-6), (1.0, 1e-7), (1.0, 1e-9), (100.0, 1e-4), (-3.0, 1e-6), (0.5, 1e-12), (1e3, 1e-3)])
        pool = [base + k * step for k in range(m + 1)]
        dtype = rng.pick(['float64', 'float64', None, 'float32'])
    elif fam == 'f-tiny':         # tiny magnitudes, denormals
        unit = rng.pick([1e-9, 1e-12, 2.5e-9, 1e-30, 1e-300, 5e-324, 1e-8]) * rng.pick([1, 1, -1])
        pool = [k * unit for k in range(0 if rng.chance(.5) else 1, m + 2)]
        dtype = rng.pick(['float64', None, 'float32'])
    elif fam == 'f-adjacent':     # neighbours in the floating-point grid
        f32 = rng.chance(.35)
        ty = np.float32 if f32 else np.float64
        x = ty(rng.pick([1.0, -1.0, 0.1, 1e5, 3.0, 1e-9, -2.5e6, 1e300 if not f32 else 1e30, 7e-310 if not f32 else 1e-40, rng.uniform(-10, 10), 2.0 ** rng.randint(-30, 30)]))
        pool = [float(x)]
        for _ in range(m):
            x = np.nextafter(x, ty(np.inf)); pool.append(float(x))
        dtype = 'float32' if f32 else rng.pick(['float64', None])
    elif fam == 'f-zero':
        t = rng.pick([5e-324, 1e-300, 1e-12])
        pool = [-t, -0.0, 0.0, t] if rng.chance(.7) else [-0.0, 0.0, 1.0]
        dtype = rng.pick(['float64', None])
    elif fam == 'f-inf':
        pool = [float('-inf'), -1.7e308, -1.0, 0.0, 1.7e308, 1.797e308, float('inf')]
        pool = sorted(rng.sample(pool, rng.randint(2, len(pool))))
        dtype = rng.pick(['float64', None])
    else:                         # a Python list mixing ints and floats
        pool = [1, 2.5, 2, -1, 0.5, 3.0, 10 ** 6, 10 ** 6 + 0.5][:m + 2]
    if dtype == 'float32':
        pool = sorted(set(_f32(v) for v in pool))
    n = rng.pick([0, 1, 2]) if rng.chance(.08) else rng.randint(2, 14)
    ys = [rng.pick(pool) for _ in range(n)]
    if n > len(pool) and rng.chance(.7):          # every label of the pool occurs
        ys[:len(pool)] = pool
        rng.shuffle(ys)
    exact32 = fam != 'str' and fam != 'bool' and all(_f32(v) == v for v in ys if not (isinstance(v, float) and math.isinf(v))) and fam != 'f-inf'
    cont = rng.pick(['array', 'array', 'list', 'tuple'] + (['split'] if exact32 and n else []))
    lt = fam if fam in ('str', 'bool') else ('int' if fam.startswith('int') else 'float')
    return {'kind': 'onehot', 'fam': fam, 'lt': lt, 'dtype': dtype, 'cont': cont, 'ys': ys}


def _labels_arg(c):
    """the labels as the caller hands them over: ndarray of the dtype, list / tuple of Python values or of NumPy scalars of the
    dtype, or the float32 array `split_dataset` returns for them"""
    if 'lt' not in c:
        return np.array(c['ys'], dtype=np.int64)
    ys = c['ys']
    arr = np.array(ys, dtype=c['dtype']) if c['dtype'] else None
    if arr is not None and c['lt'] != 'str':      # nothing was lost on the way into the array
        assert [(_fkey(v) if c['lt'] == 'float' else int(v)) for v in arr.tolist()] == _label_keys(c), (c, arr)
    if c['cont'] == 'split':
        from synapgrad.nn.utils.data import split_dataset
        (_, ty), _, _ = split_dataset(np.zeros((len(ys), 1)), ys if arr is None else arr, test_split=0.0)
        assert ty.dtype == np.float32 and [float(v) for v in ty] == [float(v) for v in ys]
        return ty
    if c['cont'] == 'array':
        return arr if arr is not None else np.array(ys)
    items = list(ys) if arr is None else list(arr)       # Python values, or NumPy scalars of the dtype
    return items if c['cont'] == 'list' else tuple(items)


def _run_onehot(c):
    from synapgrad.nn.utils.data import one_hot_encode
    return one_hot_encode(_labels_arg(c))


def _perm(c):
    idx = list(range(c['n']))
    if c['seed'] is not None:
        np.random.seed(c['seed'])
        np.random.shuffle(idx)
    return idx


def _line(c):
    if c['kind'] == 'split':
        return f"data split {show_ints(_perm(c))} {fbits(c['tf'])} {show_opt(lambda v: str(fbits(v)), c['vf'])}"
    if c['kind'] == 'loader':
        return f"data loader {c['nx']} {c['ny']} {c['b']}"
    if c['kind'] == 'loops':
        return f"data loops {c['nx']} {c['ny']} {c['b']} {show_ints(c['ks'])}"
    return f"data onehot {show_ints(_label_keys(c))}"


def _positions(Xp, yp):
    """recover sample positions from the values; flags mis-paired features/labels"""
    pos = []
    for xr, yv in zip(Xp, yp):
        p = int(round(float(xr[0]) / 10))
        if int(round(float(yv))) != 1000 + p or int(round(float(xr[1]))) != 10 * p + 1:
            return None
        pos.append(p)
    if len(Xp) != len(yp):
        return None
    return pos


def _run_split(c):
    from synapgrad.nn.utils.data import split_dataset
    X, y = _data(c['n'])
    lay = None
    if c.get('lay'):
        X, y, lay = _lay_data(c)
    if c['seed'] is not None:
        np.random.seed(c['seed'])
    train, test, val = split_dataset(X, y, test_split=c['tf'], val_split=c['vf'], shuffle=c['seed'] is not None)
    parts = []
    for part in (train, test, val):
        if part is None:
            parts.append(None)
            continue
        if lay:
            px, py = _decode(part[0], lay['xs'], 0, 10), _decode(part[1], lay['ys'], 1000, 1)
            p = px if px == py and -1 not in px else None
        else:
            p = _positions(part[0], part[1])
        if p is None:
            return 'mispaired'
        parts.append(p)
    return parts


class _TF:
    def __call__(self, dl, X, y):
        return ('tf', X, y)


class _Pipeline(_TF):
    """a composed transform with a list of optional stages: a real callable whose truth value is False when the list is empty"""
    stages = ()
    def __len__(self): return len(self.stages)


def _mk_tf(c):
    """the transform of a case in one of the shapes a caller may give it: plain callable object, subclass of the library's
    DataLoaderCallback, object with `__len__() == 0` (falsy), plain function"""
    if not c['transform']: return None
    k = (c['nx'] + c['ny'] + c['b']) % 4
    if k == 0: return _TF()
    if k == 1:
        from synapgrad.nn.utils.data import DataLoaderCallback
        class CB(DataLoaderCallback):
            def __call__(self, dl, X, y): return ('tf', X, y)
        return CB()
    if k == 2: return _Pipeline()
    return lambda dl, X, y: ('tf', X, y)


def _run_loader(c):
    from synapgrad.nn.utils.data import DataLoader
    X, y, lay = _lay_data(c)
    dl = DataLoader(X, y, c['b'], _mk_tf(c))
    n = len(dl)
    passes, kept = [], []
    for _ in range(2):
        bs = []
        for item in dl:
            if c['transform']:
                assert item[0] == 'tf'
                item = item[1:]
            bs.append((_decode(item[0], lay['xs'], 0, 10), _decode(item[1], lay['ys'], 1000, 1)))
            kept.append(item)                   # the caller keeps every batch (batches = list(loader)) ...
        passes.append(bs)
    # ... and reads them again after both epochs: a batch handed out stays what it was when later ones are drawn
    later = [(_decode(item[0], lay['xs'], 0, 10), _decode(item[1], lay['ys'], 1000, 1)) for item in kept]
    if later != passes[0] + passes[1]:
        return 'kept-batch-changed'
    if passes[0] != passes[1]:
        return 'reiteration-differs'
    return n, passes[0]


# ---- batches kept by the caller ------------------------------------------------------------------------
# A program over one or two loaders built on the SAME dataset objects (a train loader and an evaluation loader with another batch
# size): whole epochs, abandoned epochs, direct `loader[i]`, every batch handed out is KEPT and read twice - when it is handed out
# and after the whole program.  `mutate` writes into a kept batch in place (ndarray batches only; what that does to the dataset is
# not the property's business - the unchanged loader hands out views -, so the samples of that batch are left out of every later
# reading; every OTHER sample must still be found in every batch that carries it).
KEEP_OPS = ['epoch', 'part', 'get', 'get-twice', 'mutate']


def _gen_keep(rng, j):
    n = rng.randint(2, 14) if j % 4 else rng.randint(4, 14)
    bs = [rng.randint(1, max(1, n // 2))]
    if rng.chance(.4):
        bs.append(rng.randint(1, max(1, n // 2)))
    ops = [['epoch', L] for L in range(len(bs))]
    for _ in range(rng.randint(0, 5)):
        L = rng.randrange(len(bs)); nb = n // bs[L]
        kind = rng.pick(KEEP_OPS)
        if kind == 'epoch': ops.append(['epoch', L])
        elif kind == 'part': ops.append(['part', L, rng.randint(1, nb)])
        elif kind == 'get': ops.append(['get', L, rng.randrange(nb)])
        elif kind == 'get-twice':
            i = rng.randrange(nb); ops += [['get', L, i], ['get', L, rng.pick([i, rng.randrange(nb)])]]
        else: ops.append(['mutate', rng.randrange(64), rng.pick(['x', 'y', 'xy'])])
    c = {'kind': 'keep', 'n': n, 'nx': n, 'ny': n, 'b': bs[0], 'bs': bs, 'ops': ops, 'transform': rng.chance(.3)}
    if j % 2:
        c['lay'] = _gen_layout(rng)
        if j % 4 == 1: c['lay']['xc'] = c['lay']['yc'] = rng.pick(['array', 'array-f64', 'array-f32'])
    return c


def _run_keep(c):
    """-> (len() of every loader, {(loader, batch index): [(op number, 'when handed out' | 'after the program', decoded batch)]})"""
    from synapgrad.nn.utils.data import DataLoader
    X, y, lay = _lay_data(c)
    tf = _mk_tf(c)
    dls = [DataLoader(X, y, b, tf) for b in c['bs']]
    dec = lambda e: (_decode(e['X'], lay['xs'], 0, 10), _decode(e['y'], lay['ys'], 1000, 1))
    kept, tainted = [], set()
    def take(oi, L, i, item):
        if c['transform']:
            assert item[0] == 'tf'; item = item[1:]
        e = {'op': oi, 'L': L, 'i': i, 'X': item[0], 'y': item[1], 'samples': set(range(i * c['bs'][L], (i + 1) * c['bs'][L]))}
        e['now'] = dec(e) if not (e['samples'] & tainted) else None
        kept.append(e)
    for oi, op in enumerate(c['ops']):
        if op[0] in ('epoch', 'part'):
            for j, item in enumerate(dls[op[1]]):
                take(oi, op[1], j, item)
                if op[0] == 'part' and j + 1 == op[2]: break
        elif op[0] == 'get':
            take(oi, op[1], op[2], dls[op[1]][op[2]])
        else:
            e = kept[op[1] % len(kept)]
            for w in op[2]:
                a = e['X' if w == 'x' else 'y']
                if isinstance(a, np.ndarray) and a.flags.writeable and a.size:
                    a[...] = -7
                    tainted |= e['samples']
    obs = {}
    for e in kept:
        o = obs.setdefault((e['L'], e['i']), [])
        if e['now'] is not None: o.append((e['op'], 'when handed out', e['now']))
        if not (e['samples'] & tainted): o.append((e['op'], 'after the program', dec(e)))
    return [len(dl) for dl in dls], obs


def _run_loops(c):
    from synapgrad.nn.utils.data import DataLoader
    X, y, lay = _lay_data(c)
    dl = DataLoader(X, y, c['b'], _mk_tf(c))
    loops, kept = [], []
    def conv(item, keep=True):
        if c['transform']:
            assert item[0] == 'tf'; item = item[1:]
        if keep: kept.append(item)
        return (_decode(item[0], lay['xs'], 0, 10), _decode(item[1], lay['ys'], 1000, 1))
    for k in c['ks']:
        seen = []
        if c['how'] == 'break':                 # the model's `consume k`: at most k calls of __next__
            if k > 0:
                for item in dl:
                    seen.append(conv(item))
                    if len(seen) == k: break
            else:
                iter(dl)
        else:                                   # explicit iter()/next() calls, abandoned without exhausting
            it = iter(dl)
            for _ in range(k):
                try: seen.append(conv(next(it)))
                except StopIteration: break
        loops.append(seen)
    if [conv(('tf',) + tuple(item) if c['transform'] else item, False) for item in kept] != [b_ for seen in loops for b_ in seen]:
        return 'kept-batch-changed'          # read again after all loops: every batch handed out is still what it was
    return loops


def impl(c):
    common.impl()
    if c['kind'] == 'keep':
        r = outcome(lambda: _run_keep(c))
        if isinstance(r, str):
            return [r] * len(c['bs'])
        lens, obs = r
        res = []
        for L, n in enumerate(lens):
            bs = []
            for i in sorted(i for (l_, i) in obs if l_ == L):
                seen = []
                for _, _, d in obs[(L, i)]:
                    if d not in seen: seen.append(d)
                bs.append('!'.join(show_ints(x) + ';' + show_ints(y) for x, y in seen))
            res.append(f"len={n} batches={'|'.join(bs) if bs else '_'}")
        return res
    if c['kind'] == 'loops':
        r = outcome(lambda: _run_loops(c))
        if isinstance(r, str):
            return [r]
        sb = lambda bs: '|'.join(show_ints(x) + ';' + show_ints(y) for x, y in bs) if bs else '_'
        return [' / '.join(sb(bs) for bs in r) if r else '_']
    if c['kind'] == 'split':
        r = outcome(lambda: _run_split(c))
        if isinstance(r, str):
            return [r]
        tr, te, va = r
        return [f"train={show_ints(tr)} test={show_ints(te)} val={show_opt(show_ints, va)}"]
    if c['kind'] == 'loader':
        r = outcome(lambda: _run_loader(c))
        if isinstance(r, str):
            return [r]
        n, bs = r
        s = '|'.join(show_ints(x) + ';' + show_ints(y) for x, y in bs) if bs else '_'
        return [f"len={n} batches={s}"]
    r = outcome(lambda: _run_onehot(c))
    if isinstance(r, str):
        return [r]
    rows = [list(map(int, row)) for row in r]
    return ['|'.join(show_ints(row) for row in rows) if rows else '_']


def nontrivial(c):
    if c['kind'] == 'split':
        return c['n'] > 1 and (c['seed'] is not None or 0 < c['tf'] < 1)
    if c['kind'] == 'loader':
        return c['ny'] > 0 and c['b'] > 0
    if c['kind'] == 'keep':
        return c['n'] // c['b'] >= 2
    if c['kind'] == 'loops':
        L = c['ny'] // c['b'] if c['b'] else 0
        return L >= 2 and any(0 < k < L for k in c['ks'][:-1])      # an abandoned loop followed by another loop
    return len(set(c['ys'])) > 1


def distribution(cases):
    d = {}
    for c in cases:
        k = c['kind'] + ('/shuffle' if c.get('seed') is not None else '') + ('/val' if c.get('vf') is not None else '')
        if c['kind'] == 'onehot' and 'fam' in c:
            k += f"/{c['fam']}"
            d[f"onehot labels as {c['dtype'] or 'python values'} in a {c['cont']}"] = d.get(f"onehot labels as {c['dtype'] or 'python values'} in a {c['cont']}", 0) + 1
        d[k] = d.get(k, 0) + 1
        if c['kind'] == 'keep':
            for k2 in sorted(set(f"keep (batches kept and read again after the program) op/{o[0]}" for o in c['ops'][len(c['bs']):])) + [f"keep: loaders over one dataset/{len(c['bs'])}", f"keep: batches per epoch/{min(c['n'] // c['b'], 4)}{'+' if c['n'] // c['b'] >= 4 else ''}"]:
                d[k2] = d.get(k2, 0) + 1
        if c['kind'] != 'onehot':
            lay = c.get('lay')
            for k2 in ([f"{c['kind']}: plain 1-d arrays"] if not lay else
                       [f"{c['kind']}: labels with rows of shape {tuple(lay['ys'])}", f"{c['kind']}: labels in a {lay['yc']}",
                        f"{c['kind']}: features with rows of shape {tuple(lay['xs'])}", f"{c['kind']}: features in a {lay['xc']}"]):
                d[k2] = d.get(k2, 0) + 1
    return d


# ---- the property's own predicate, evaluated on the implementation alone --------------------
def oracle(c):
    common.impl()
    if c['kind'] == 'split':
        r = outcome(lambda: _run_split(c))
        n = c['n']
        if r == 'rejected':
            return {'key': {'kind': 'split', 'class': 'rejected'}, 'case': c, 'what': 'split_dataset raised for fractions in [0,1]'}
        if r == 'mispaired':
            return {'key': {'kind': 'split', 'class': 'mispaired'}, 'case': c, 'what': 'features and labels are no longer paired'}
        tr, te, va = r
        allp = tr + te + (va or [])
        if sorted(allp) != list(range(n)):
            return {'key': {'kind': 'split', 'class': 'not-a-partition'}, 'case': c, 'what': f'parts {r} do not partition 0..{n - 1}'}
        kt = int(math.floor(c['tf'] * n))
        if len(te) != min(kt, n):
            return {'key': {'kind': 'split', 'class': 'size'}, 'case': c, 'what': f'test size {len(te)} != floor rule {min(kt, n)}'}
        if c['vf'] is not None:
            kv = int(math.floor(c['vf'] * (n - len(te))))
            if len(va) != min(kv, n - len(te)):
                return {'key': {'kind': 'split', 'class': 'size'}, 'case': c, 'what': f'val size {len(va)} != floor rule {kv}'}
        elif va is not None:
            return {'key': {'kind': 'split', 'class': 'size'}, 'case': c, 'what': 'validation part returned without val_split'}
        if c['seed'] is None and (tr != sorted(tr) or te != sorted(te) or (va or []) != sorted(va or [])):
            return {'key': {'kind': 'split', 'class': 'order'}, 'case': c, 'what': 'order not preserved without shuffle'}
        return None
    if c['kind'] == 'loader':
        r = outcome(lambda: _run_loader(c))
        if c['b'] == 0:
            return None
        if isinstance(r, str):
            return {'key': {'kind': 'loader', 'class': r, 'transform': c['transform']}, 'case': c, 'what': f'loader {r}' + (' (the batches of two epochs, kept in a list and read after the second epoch, no longer hold their samples)' if r == 'kept-batch-changed' else '')}
        n, bs = r
        want = c['ny'] // c['b']
        if n != want or len(bs) != want:
            return {'key': {'kind': 'loader', 'class': 'count'}, 'case': c, 'what': f'{len(bs)} batches, len()={n}, floor rule {want}'}
        if c['nx'] == c['ny']:
            for i, (x, y) in enumerate(bs):
                exp = list(range(i * c['b'], i * c['b'] + c['b']))
                if x != exp or y != exp:
                    return {'key': {'kind': 'loader', 'class': 'batch'}, 'case': c, 'what': f'batch {i} is {x};{y}, expected {exp}'}
        return None
    if c['kind'] == 'keep':
        r = outcome(lambda: _run_keep(c))
        cc = {k: v for k, v in c.items() if k not in ('lines', 'desc', 'key')}
        if isinstance(r, str):
            return {'key': {'kind': 'keep', 'class': 'rejected'}, 'case': cc, 'what': 'iterating / indexing the loader raised'}
        lens, obs = r
        for L, b in enumerate(c['bs']):
            if lens[L] != c['n'] // b or sorted(i for (l_, i) in obs if l_ == L) != list(range(c['n'] // b)):
                return {'key': {'kind': 'keep', 'class': 'count'}, 'case': cc, 'what': f"loader {L} (batch size {b} over {c['n']} samples): len()={lens[L]}, batches seen {sorted(i for (l_, i) in obs if l_ == L)}"}
        for (L, i), o in sorted(obs.items()):
            exp = list(range(i * c['bs'][L], (i + 1) * c['bs'][L]))
            for oi, when, d in o:
                if d != (exp, exp):
                    return {'key': {'kind': 'keep', 'class': 'batch ' + when}, 'case': cc,
                            'what': f"batch {i} of loader {L} (batch size {c['bs'][L]}), handed out by op {oi} {c['ops'][oi]} and read {when} {c['ops']}, holds samples {d[0]};{d[1]} (features;labels, -1 = not a sample), expected {exp}"}
        return None
    if c['kind'] == 'loops':
        if c['b'] == 0:
            return None
        r = outcome(lambda: _run_loops(c))
        if isinstance(r, str):
            return {'key': {'kind': 'loops', 'class': r}, 'case': c, 'what': 'iterating the loader raised' if r == 'rejected' else 'a batch kept by the caller no longer holds its samples after later batches were drawn'}
        L = c['ny'] // c['b']
        for j, (k, seen) in enumerate(zip(c['ks'], r)):
            exp = [(list(range(i * c['b'], (i + 1) * c['b'])),) * 2 for i in range(min(k, L))]
            if [tuple(b_) for b_ in seen] != exp:
                return {'key': {'kind': 'loops', 'class': 'not-from-start'}, 'case': c,
                        'what': f'loop {j} (taking at most {k} batches after loops taking {c["ks"][:j]}) saw {seen}, expected the first {min(k, L)} batches {exp}'}
        return None
    r = outcome(lambda: _run_onehot(c))
    cc = {k: v for k, v in c.items() if k not in ('lines', 'desc')}
    key = {'kind': 'onehot', 'labels': c.get('lt', 'int')}
    if isinstance(r, str):
        return None if not c['ys'] else {'key': dict(key, **{'class': 'rejected'}), 'case': cc, 'what': f'one_hot_encode raised on the {c.get("fam", "int")} labels {c["ys"]}'}
    ys = [float(v) for v in c['ys']] if c.get('fam') == 'py-mixed' else c['ys']
    u = sorted(set(ys))                      # Python's exact comparison of the label values (-0.0 == 0.0)
    if len(r) != len(ys):
        return {'key': dict(key, **{'class': 'rows'}), 'case': cc, 'what': f'{len(r)} rows for {len(ys)} labels'}
    for row, yv in zip(r, ys):
        exp = [1 if u[k] == yv else 0 for k in range(len(u))]
        if list(map(int, row)) != exp:
            return {'key': dict(key, **{'class': 'row'}), 'case': cc,
                    'what': f'label {yv!r} encoded as {list(map(int, row))}, expected {exp}: the unit vector at index {u.index(yv)} of the sorted distinct labels {u}'}
    return None


def search(rng, tier):
    for c in cases(rng, 'quick'):
        f = oracle(c)
        if f:
            yield f


def matches_known(k, fail):
    return k.get('key') == fail.get('key')


def rerun_known(k):
    return oracle(k['witness']) is not None


def replay(fail):
    f = oracle(fail['case'])
    return {'fails': f is not None, 'now': f}
