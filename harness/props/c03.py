"""C03 — chain rule on any DAG (Tensor.backward over op compositions) against Synap.Engine / Ops"""
import numpy as np
import common
from common import show_floats, show_ints, outcome
import tprog, gen_dag
tprog.ENTRIES = True        # function / Tensor method / operator / augmented operator statement, varying from call to call

PROP = 'C03'
LEAN_TARGETS = ['Props.C03']
REQUIRED_THEOREMS = ['Props.C03.postorder_topological', 'Props.C03.each_fn_once', 'Props.C03.backward_completes',
                     'Props.C03.chain_rule_any_dag', 'Props.C03.optable_wellformed', 'Props.C03.code_loop_is_recursive_traversal']
REQUIRED_THEOREMS += ['Props.C03.' + t for t in ['src_traversal_skeleton_is_modelled', 'src_sweep_skeleton_is_modelled', 'src_stack_step_is_model', 'src_visit_is_model', 'src_sweep_step_is_model', 'src_calls_grad_fn_is_model', 'src_backward_guard_is_model']]   # ties to the source read on this run
RULE = ('every op of the catalogue (tensor and nn ops) inside a fan-out graph: its first operand is an interior tensor with a second consumer created before or after it; '
        'random DAG programs over the basic op catalogue (add, mul, neg, clone, pow, sum, mean, reshape, transpose, movedim, '
        'flatten, slice, unbind, stack, concat, matmul, squeeze, unsqueeze): 2-4 leaves of mixed requires_grad, up to 14 ops '
        '(quick) / 40 (thorough), results reused by later ops (fan-out), x op x, multi-output unbind, non-uniform upstream '
        'gradient; compared: every tensor value, flags, the engine trace (zero-inits and grad_fn calls in order), every '
        'gradient after backward, and the leaf gradients of the same DAG built in a shuffled topological order. '
        'Non-trivial: >= 4 ops, a tensor consumed at least twice and a leaf that requires grad reachable from the root. '
        'Backward HISTORIES over one graph (every op of the catalogue): the op consumes a leaf or an interior tensor that has other consumers '
        '(neg, a constant product, x op x, the SAME op applied again with other arguments), created before or after it; 1-3 roots, each the '
        'weighted total of a subset of the sinks summed in a shuffled order; 2-4 backward calls in any order of the roots (two roots sharing '
        'the sub-graph one after another, the same root twice), leaves zeroed in between or left to accumulate; every leaf gradient '
        'is compared after every call. Layer OBJECTS with state (BatchNorm1d / BatchNorm2d with running statistics through the layer or through '
        'persistent tensors handed to the function, momentum incl. None; Dropout with dictated draws) called 2-5 times inside one graph in '
        'train and eval mode, on leaves and on each other\'s outputs, before backward: the model is told the statistics / mask in force at '
        'each call (documented rule), so what a call saved at forward time must be what its backward uses. '
        'GATHERS (embedding style): a table of rank 1-3 (leaf or interior, other consumers) indexed 1-3 times by integer lists along any axis whose '
        'repeats are written through MIXED spellings (a row once as q and once as q - n: no written value repeats), by plain repeats, or without '
        'repeats, between slices / ellipsis / newaxis, the list arriving as a Python list, a list of NumPy integers or an int64 / int32 / intp '
        'ndarray; the gathered rows feed products with weights, tanh, reductions, a projection matmul, a second-level gather, and a weighted total. '
        'OBJECT REUSE: one object of every layer / activation / pooling / loss class (and BatchNorm / Dropout objects with dictated statistics / draws) '
        'called 2-4 times before any backward — same shape again, another batch size, its own earlier result, train() / eval() switched —, then backward '
        'through the single results (the earliest first or alone) and / or their total. '
        'UPSTREAM REUSE: the caller hands ONE upstream-gradient tensor object to 2-4 backward calls (a result and then a result built on top of it, '
        'a leaf, the same root twice; g a constant tensor of the program — also an operand of the graph —, a Tensor over a view of another array or '
        'over a row of a larger one; float64 or float32), leaves zeroed in between or not: after every call every leaf gradient is compared and the '
        'caller\'s array must be bit-identical.')
EXHAUSTIVE = {'quick': False, 'thorough': False}
ASSUMPTIONS = ['float64 programs; summation order of NumPy reductions differs from the model by rounding only (rel 1e-9)']
TRUSTED_BASE = ['harness/tprog.py, harness/gen_dag.py (generator, executor, canonicalisation)', 'harness/extract.py (op table extractor)']
TRUSTED_BASE = TRUSTED_BASE + ['harness/engine_logic.py (reading of the conditions, context transitions, loop skeletons and class method surfaces of tensor.py / nn/modules.py, Generated/EngineLogic.lean; the Boolean translation is validated on every run by the `logic` family of C07)']


def extract():
    import extract as ex, engine_logic
    return (ex.write_optable() or []) + engine_logic.write()[0]


def fanout_case(rng, op):
    """ANY op of the catalogue (tensor ops and nn ops, arguments from the per-op generators) inside a graph in which its first
    operand is an INTERIOR tensor with a second consumer, created before or after the op, so that the two backward functions
    accumulate into the same non-leaf buffer in either order; the root is the weighted total of all sinks"""
    import gen_ops
    gen = gen_ops.gen_basic if op in gen_ops.OPS_BASIC else gen_ops.gen_nn
    leaves, args = gen(rng, op, False)
    P = gen_dag.Prog()
    for lf in leaves:
        P.add_leaf(lf[0], lf[1], lf[2] if len(lf) > 2 else True, lf[3] if len(lf) > 3 else 'f64')
    nl = len(leaves)
    h = P.add_op('clone', [0], [], [leaves[0][0]])[0]
    first = rng.chance(.5)
    if first:
        P.add_op(rng.pick(['neg', 'self2']) if False else 'neg', [h], [], [leaves[0][0]])
    # output shapes of the op: ask the implementation
    lines, _ = P.lines()
    opline = ' '.join(['t op', op, show_ints([h] + list(range(1, nl)))] + [str(a) for a in args])
    io = tprog.run_program(lines + [opline])
    if io[-1] in ('rejected', 'hidden') or not io[-1].startswith('t'):
        return None
    nout = len(io[-1].split(','))
    base = len(P.tshape)
    shp = tprog.run_program(lines + [opline] + [f't val {base + k}' for k in range(nout)])[-nout:]
    shapes = [tuple(common.parse_ints(s_.split('|')[0])) if '|' in s_ else () for s_ in shp]
    P.add_op(op, [h] + list(range(1, nl)), args, shapes)
    if not first:
        P.add_op('neg', [h], [], [leaves[0][0]])
    weighted_total(rng, P)
    c = finish_case(rng, P)
    c['fanout_op'] = op
    return c


def listop_case(rng, op):
    """the list-valued ops (stack, concat) over operands of MIXED requires_grad in every position (constants before, between and
    after the tensors that require grad; an operand repeated), some operands interior tensors; root = weighted total, so every
    slot sees its own upstream gradient and each slice has to reach the operand of ITS slot"""
    P = gen_dag.Prog()
    k = rng.randint(2, 4)
    sh = rng.pick([(2,), (3,), (2, 2), (1, 3)] + ([()] if op == 'stack' else []))
    flags = [rng.chance(.5) for _ in range(k)]
    if not any(flags): flags[rng.randrange(k)] = True
    if all(flags) or rng.chance(.5):
        flags[rng.randrange(max(1, flags.index(True) + 1) if rng.chance(.3) else max(1, k - 1))] = False      # a constant, mostly BEFORE a tensor that requires grad
        if not any(flags): flags[-1] = True
    ids = [P.add_leaf(sh, gen_dag.rand_data(rng, sh), f) for f in flags]
    xs = [P.add_op('clone' if rng.chance(.5) else 'neg', [t], [], [sh])[0] if rng.chance(.4) else t for t in ids]
    if rng.chance(.3): xs.insert(rng.randrange(len(xs) + 1), rng.pick(xs))          # the same operand in two slots
    nd = len(sh)
    if op == 'stack':
        ax = rng.randrange(-(nd + 1), nd + 1)
        out = tuple(int(v) for v in np.stack([np.zeros(sh)] * len(xs), ax).shape)
    else:
        ax = rng.randrange(-nd, nd)
        out = tuple(int(v) for v in np.concatenate([np.zeros(sh)] * len(xs), ax).shape)
    P.add_op(op, xs, [ax], [out])
    weighted_total(rng, P)
    c = finish_case(rng, P)
    c['listop'] = op + ' ' + ''.join('g' if f else 'c' for f in flags)
    return c


def build_case(rng, tier):
    P = gen_dag.gen_program(rng, rng.randint(2, 4), rng.randint(3, 14 if tier == 'quick' else 40))
    if rng.chance(0.6):
        weighted_total(rng, P)
    return finish_case(rng, P)


def weighted_total(rng, P):
    """make the whole DAG participate: root = sum over (up to 4) unconsumed tensors of sum(t * w), with
    non-uniform constant weights w (so every element sees its own upstream gradient)"""
    used = {i for nd in P.nodes for i in nd['ins']}
    sinks = [t for t in range(len(P.tshape)) if t not in used and P.nodes[P.owner[t]]['kind'] == 'op'][-4:]
    total = None
    for t in sinks:
        w = P.add_leaf(P.tshape[t], gen_dag.rand_data(rng, P.tshape[t]), False)
        m = P.add_op('mul', [t, w], [], [P.tshape[t]])[0]
        r = P.add_op('sum', [m], ['all', 0], [()])[0]
        total = r if total is None else P.add_op('add', [total, r], [], [()])[0]


def finish_case(rng, P, root=None):
    lines, ren = P.lines()
    nt = len(P.tshape)
    root = nt - 1 if root is None else root
    g = gen_dag.rand_data(rng, P.tshape[root], -2, 2)
    q = [f't val {k}' for k in range(nt)] + [f't flags {k}' for k in range(nt)]
    bw = f"t bw {root} {show_ints(P.tshape[root])} {show_floats(g)}"
    # half of the programs are differentiated from an INTERIOR tensor first (sometimes inside retain_grads), the leaves are then
    # zeroed: what that call left on non-leaf tensors must not reach the leaves again through the main call
    req = {}
    for nd in P.nodes:
        for t in nd['outs']:
            req[t] = (nd['rg'] and nd.get('dt', 'f64') != 'i64') if nd['kind'] == 'leaf' else any(req.get(i, False) for i in nd['ins'])
    interior = [t for t in range(nt) if t != root and req.get(t) and P.nodes[P.owner[t]]['kind'] == 'op']
    pre = []
    if rng.chance(.5):
        t0 = rng.pick(interior + [root, root] if interior else [root])      # ... or from the ROOT itself, with another upstream gradient
        ctx = rng.chance(.3)
        pre = (['t ctx new rg', 't ctx enter 0'] if ctx else []) + \
              [f"t bw {t0} {show_ints(P.tshape[t0])} {show_floats(gen_dag.rand_data(rng, P.tshape[t0], -2, 2))}"] + (['t ctx exit 0'] if ctx else []) + \
              [f't zero {nd["outs"][0]}' for nd in P.nodes if nd['kind'] == 'leaf' and req.get(nd['outs'][0])]
    if rng.chance(.2):
        # a call that is REJECTED after its traversal (upstream gradient of the wrong shape) from the root or an interior tensor
        # comes first: whatever bookkeeping it left behind must not change what the accepted call computes
        tb = rng.pick(interior + [root])
        bad = tuple(P.tshape[tb]) + (2,)
        pre = [f"t bw {tb} {show_ints(bad)} {show_floats(gen_dag.rand_data(rng, bad, -2, 2))}"] + pre
    bw_lines = pre + [bw]
    after = [f't grad {k}' for k in range(nt)] + [f't flags {k}' for k in range(nt)]
    uses = {}
    for nd in P.nodes:
        for i in nd['ins']:
            uses[i] = uses.get(i, 0) + 1
    return {'P': P, 'root': root, 'g': g, 'pre': pre, 'lines': lines + q + bw_lines + after,
            'fanout': max(uses.values()) if uses else 0,
            'desc': ' ; '.join(lines + [bw])[:900]}


# ---- backward HISTORIES over one graph --------------------------------------------------------------------------------------
def tag_lines(P, order=None):
    """protocol lines of the program; a node may carry a `tag` (tokens starting with `@`): which layer OBJECT the implementation side
    has to route the call through. The model never sees the tags (`to_model`), the plain executor ignores them."""
    lines, ren = P.lines(order)
    order = order if order is not None else list(range(len(P.nodes)))
    return [l + (' ' + P.nodes[k]['tag'] if P.nodes[k].get('tag') else '') for l, k in zip(lines, order)], ren


def to_model(line):
    return ' '.join(tok for tok in line.split(' ') if not tok.startswith('@')) if '@' in line else line


def ev_lines(events, P, ren=None):
    out = []
    for e in events:
        t = e[1] if ren is None else ren[e[1]]
        out.append(f"t bw {t} {show_ints(P.tshape[e[1]])} {show_floats(e[2])}" if e[0] == 'bw' else f't zero {t}')
        if e[0] == 'bw' and len(e) > 3 and e[3]:        # the upstream gradient is an object of the caller's: (kind, tensor id, dtype)
            assert ren is None
            out[-1] += (' f32' if e[3][2] == 'f32' else '') + f' @g{e[3][0]}{e[3][1]}'
    return out


def upstream_holders(events):
    """tensor ids whose arrays back a caller-owned upstream gradient"""
    return sorted({e[3][1] for e in events if e[0] == 'bw' and len(e) > 3 and e[3]})


def float_leaves(P):
    return [nd['outs'][0] for nd in P.nodes if nd['kind'] == 'leaf' and nd.get('dt', 'f64') in ('f64', 'f32')]


def finish_hist(rng, P, events, exec_=None):
    """events: ('bw', tensor, upstream gradient) | ('zero', leaf) in order; every float leaf's gradient is queried after every backward call"""
    lines, _ = tag_lines(P)
    nt = len(P.tshape)
    q = [f't val {k}' for k in range(nt)] + [f't flags {k}' for k in range(nt)]
    lf = float_leaves(P)
    evl = []
    hold = upstream_holders(events)
    for e in events:
        evl += ev_lines([e], P)
        if e[0] == 'bw':
            evl += [f't grad {k}' for k in lf] + [f't val {k}' for k in hold]        # the caller's upstream tensors are inputs of the call: unchanged
    after = [f't grad {k}' for k in range(nt)] + [f't flags {k}' for k in range(nt)]
    uses = {}
    for nd in P.nodes:
        for i in nd['ins']:
            uses[i] = uses.get(i, 0) + 1
    bws = [e for e in events if e[0] == 'bw']
    return {'P': P, 'kind': 'hist', 'exec': exec_, 'events': events, 'root': bws[-1][1], 'g': bws[-1][2], 'pre': [], 'lines': lines + q + evl + after,
            'fanout': max(uses.values()) if uses else 0,
            'desc': ' ; '.join(lines + ev_lines(events, P))[:1200]}


def add_op_asking(P, op, ins, args, tag=None):
    """append the op; its output shapes are the implementation's (None when the forward is rejected)"""
    lines, _ = P.lines()
    opline = ' '.join(['t op', op, show_ints(ins)] + [str(a) for a in args])
    base = len(P.tshape)
    io = tprog.run_program(lines + [opline] + [f't val {base + k}' for k in range(4)])
    r = io[len(lines)]
    if r in ('rejected', 'hidden') or not r.startswith('t'):
        return None
    nout = len(r.split(','))
    if nout > 4:
        io = tprog.run_program(lines + [opline] + [f't val {base + k}' for k in range(nout)])
    shp = io[len(lines) + 1:len(lines) + 1 + nout]
    outs = P.add_op(op, list(ins), list(args), [tuple(common.parse_ints(s_.split('|')[0])) if '|' in s_ else () for s_ in shp])
    if tag: P.nodes[-1]['tag'] = tag
    return outs


def total_of(rng, P, sinks):
    """sum over the given tensors of sum(t * w) with constant non-uniform weights, the summands in the given order"""
    total = None
    for t in sinks:
        w = P.add_leaf(P.tshape[t], gen_dag.rand_data(rng, P.tshape[t]), False)
        m = P.add_op('mul', [t, w], [], [P.tshape[t]])[0]
        r = P.add_op('sum', [m], ['all', 0], [()])[0]
        total = r if total is None else (P.add_op('add', [total, r], [], [()])[0] if rng.chance(.5) else P.add_op('add', [r, total], [], [()])[0])
    return total


TIE_OPS = ('max', 'min', 'max_pool1d', 'max_pool2d')


def shared_case(rng, op):
    """ANY op of the catalogue as a node that SEVERAL backward calls traverse, inside a graph in which the tensor it consumes (a leaf
    or an interior tensor) has other consumers, created before or after it — among them the same op applied AGAIN with other arguments
    (unbind along dim 0 and along dim -1 of one tensor). 1-3 roots, each the weighted total of a subset of the sinks summed in a
    shuffled order (which backward function reaches the shared buffer first depends on it); the history back-propagates the roots one
    after another, in any order, a root possibly twice, the leaves zeroed in between or left to accumulate. Among the roots: a COMPOSITE
    one (an earlier root + another total: l1.backward() then (l1 + l2).backward(), in either order) and INTERIOR ones (an output of the
    op itself, or another consumer of its operand, with a non-uniform upstream gradient, before / between / after the final roots)."""
    import gen_ops
    gen = gen_ops.gen_basic if op in gen_ops.OPS_BASIC else gen_ops.gen_nn
    for _ in range(30):
        leaves, args = gen(rng, op, False)
        if op in TIE_OPS and len(set(leaves[0][1])) != len(leaves[0][1]): continue      # ties: not differentiable, the subject of C01 / C02
        break
    else:
        return None
    P = gen_dag.Prog()
    for k, lf in enumerate(leaves):
        dt = lf[3] if len(lf) > 3 else 'f64'
        P.add_leaf(lf[0], lf[1], (True if k == 0 else (lf[2] if len(lf) > 2 else True)) and dt == 'f64', dt)
    nl = len(leaves)
    s0 = leaves[0][0]
    x = P.add_op('clone', [0], [], [s0])[0] if rng.chance(.5) else 0
    plan = ['op'] + (['op2'] if rng.chance(.4) else []) + [rng.pick(['neg', 'mulw', 'self2']) for _ in range(rng.randint(0, 2))]
    if len(plan) < 2: plan.append(rng.pick(['neg', 'mulw', 'self2', 'op2']))
    rng.shuffle(plan)
    opouts, sinks = [], []
    for item in plan:
        if item == 'op':
            o = add_op_asking(P, op, [x] + list(range(1, nl)), args)
            if o is None: return None
            opouts += o; sinks += o
        elif item == 'op2':
            # the same op once more on the same tensor: other arguments (and other further operands) when the per-op generator
            # yields some for an operand of this shape, else the very same call again
            ins2, args2 = [x] + list(range(1, nl)), args
            for _ in range(40):
                l2, a2 = gen(rng, op, False)
                if op == 'pow':        # the new exponent has to keep the data of the shared operand inside the domain of pow and of its derivative
                    e2 = common.bitsf(a2[0])
                    if (e2 < 1 and any(v == 0 for v in leaves[0][1])) or (e2 != int(e2) and any(v < 0 for v in leaves[0][1])): continue
                if tuple(l2[0][0]) == tuple(s0) and len(l2) == nl:
                    ins2 = [x] + [P.add_leaf(lf[0], lf[1], (lf[2] if len(lf) > 2 else True) and (lf[3] if len(lf) > 3 else 'f64') == 'f64', lf[3] if len(lf) > 3 else 'f64') for lf in l2[1:]]
                    args2 = a2
                    break
            o = add_op_asking(P, op, ins2, args2)
            if o is None: continue
            opouts += o; sinks += o
        elif item == 'neg':
            sinks += P.add_op('neg', [x], [], [s0])
        elif item == 'mulw':
            w = P.add_leaf(s0, gen_dag.rand_data(rng, s0), False)
            sinks += P.add_op('mul', [x, w] if rng.chance(.5) else [w, x], [], [s0])
        else:
            sinks += P.add_op(rng.pick(['add', 'mul']), [x, x], [], [s0])
    if not opouts: return None
    nroots = rng.pick([1, 2, 2, 3])
    roots, through = [], []
    for r in range(nroots):
        sub = [t for t in sinks if rng.chance(.6)]
        if r == 0 and not any(t in opouts for t in sub): sub.append(rng.pick(opouts))
        if not sub: sub = [rng.pick(sinks)]
        rng.shuffle(sub)
        roots.append(total_of(rng, P, sub))
        through.append(any(t in opouts for t in sub))
    # a COMPOSITE root: an earlier root plus something else (l1.backward() ... (l1 + l2).backward()): the sub-graph of l1 — the op's node
    # with it — is traversed again, through one more node
    composite = rng.chance(.4)
    if composite:
        i = rng.randrange(nroots)
        if nroots > 1 and rng.chance(.5):
            j = rng.pick([k for k in range(nroots) if k != i]); other, thr = roots[j], through[j]
        else:
            sub = [t for t in sinks if rng.chance(.5)] or [rng.pick(sinks)]
            other, thr = total_of(rng, P, sub), any(t in opouts for t in sub)
        roots.append(P.add_op('add', [roots[i], other] if rng.chance(.5) else [other, roots[i]], [], [()])[0])
        through.append(through[i] or thr)
    nr = len(roots)
    seq = list(range(nr)) + [rng.randrange(nr) for _ in range(rng.randint(0, 1))]
    rng.shuffle(seq)
    if composite and rng.chance(.5):       # the part first, then the whole
        seq = [r for r in seq if r != i or r == nr - 1]; seq.insert(seq.index(nr - 1), i)
    calls = [(roots[r], gen_dag.rand_data(rng, (), -2, 2), through[r]) for r in seq]
    # INTERIOR roots: backward from an output of the op itself (or from another consumer of its operand) with a non-uniform upstream
    # gradient, before / between / after the calls from the final roots
    interior = rng.chance(.45)
    if interior:
        for _ in range(rng.randint(1, 2)):
            t = rng.pick(opouts) if rng.chance(.7) else rng.pick(sinks)
            calls.insert(rng.randint(0, max(0, len(calls) - 1)), (t, gen_dag.rand_data(rng, P.tshape[t], -2, 2), t in opouts))
    if sum(1 for c_ in calls if c_[2]) < 2:        # the op's node is traversed by at least two calls
        calls.insert(rng.randint(0, len(calls)), (roots[0], gen_dag.rand_data(rng, (), -2, 2), True))
    events = []
    lf = [nd['outs'][0] for nd in P.nodes if nd['kind'] == 'leaf' and nd['rg']]
    for k, (t, g, _) in enumerate(calls):
        if k and rng.chance(.25):
            events += [('zero', t_) for t_ in lf]
        events.append(('bw', t, g))
    seq = [t for t, _, _ in calls]
    c = finish_hist(rng, P, events)
    c['hist_op'] = op
    c['shape'] = {'roots': nroots, 'calls': len(seq), 'same_root_twice': len(set(seq)) < len(seq), 'op_twice': len([p for p in plan if p in ('op', 'op2')]) > 1,
                  'operand': 'leaf' if x == 0 else 'interior', 'zeroed_between': any(e[0] == 'zero' for e in events),
                  'composite_root (an earlier root + another one)': composite, 'interior_root (an output of the op as root)': interior}
    return c


# ---- gathers: integer-array indices inside graphs --------------------------------------------------------------------------------
class GatherExec(tprog.Impl):
    """an integer-list index reaches the library in the containers user code holds ids in: a Python list, a list of NumPy integers, an
    int64 / int32 / intp ndarray, a tuple nested in the index tuple (NumPy reads all of them as one integer-array index)"""
    def _index(self, sel):
        self.nidx = getattr(self, 'nidx', 0) + 1
        def spell(t):
            if not isinstance(t, list): return t
            k = (sum(t) + len(t) + self.nidx) % 5
            return t if k == 0 else [np.int64(v) for v in t] if k == 1 else np.array(t, dtype=[np.int64, np.int32, np.intp][k - 2])
        sel = tuple(spell(t) for t in sel)
        return sel[0] if len(sel) == 1 else sel


EXECS_GATHER = 'gather'


def gather_case(rng, tier='quick'):
    """EMBEDDING-style graphs: a table (rank 1-3, a leaf or an interior tensor, possibly with other consumers) is gathered 1-3 times with
    integer lists along ANY axis whose repeats are written through mixed spellings — the same row once as q and once as q - n, so that
    no written value repeats —, plain repeats, or no repeats, surrounded by slices / ellipsis / newaxis; the gathered tensors feed further
    ops (a product with per-position weights that may require grad, tanh, a reduction, a matmul with a projection, a second gather of
    the gathered rows) and are joined by a weighted total. The gradient of the table is the sum over ALL paths through every selected row."""
    import gen_ops
    P = gen_dag.Prog()
    rank = rng.pick([1, 2, 2, 2, 3])
    sh = tuple(rng.randint(1, 4) for _ in range(rank))
    E = P.add_leaf(sh, gen_dag.rand_data(rng, sh), True)
    x = E
    if rng.chance(.4):
        x = P.add_op(rng.pick(['clone', 'neg']), [E], [], [sh])[0]
    kinds = []
    outs = []
    for j in range(rng.randint(1, 3)):
        mode = rng.pick(['alias', 'alias', 'alias', 'repeat', 'plain'])
        if mode == 'plain':
            ax = rng.randrange(rank)
            lst = rng.sample(range(sh[ax]), rng.randint(1, sh[ax])); lst = [q if rng.chance(.5) else q - sh[ax] for q in lst]
            sel = tuple([slice(None, None, 1)] * ax + [lst])
        else:
            sel = gen_ops.index_expr_list(rng, sh, alias=(mode == 'alias'))
        o = add_op_asking(P, 'slice', [x], [tprog.show_sel(sel)])
        if o is None: continue
        if not any(isinstance(t, list) for t in sel): continue
        kinds.append(mode + '/axis=' + str(next(k for k, t in enumerate(s_ for s_ in sel if s_ is not None) if isinstance(t, list))) +
                     ('/newaxis' if any(t is None for t in sel) else '') + ('/ellipsis' if any(t is Ellipsis for t in sel) else ''))
        g = o[0]
        gs = P.tshape[g]
        for _ in range(rng.randint(0, 2)):      # what the gathered rows feed
            r = rng.random()
            if r < .3:
                w = P.add_leaf(gs, gen_dag.rand_data(rng, gs), rng.chance(.5))
                g = P.add_op('mul', [g, w] if rng.chance(.5) else [w, g], [], [gs])[0]
            elif r < .45:
                g = P.add_op('tanh', [g], [], [gs])[0]
            elif r < .6 and len(gs) >= 1:
                o2 = add_op_asking(P, 'sum', [g], [f'i:{rng.randrange(-len(gs), len(gs))}', int(rng.chance(.5))])
                if o2: g = o2[0]
            elif r < .8 and len(gs) == 2:
                m = rng.randint(1, 3)
                W = P.add_leaf((gs[1], m), gen_dag.rand_data(rng, (gs[1], m)), True)
                g = P.add_op('matmul', [g, W], [], [(gs[0], m)])[0]
            elif len(gs) >= 1 and 0 not in gs:     # the gathered rows gathered again (ids of ids)
                sel2 = gen_ops.index_expr_list(rng, gs, alias=rng.chance(.7))
                o2 = add_op_asking(P, 'slice', [g], [tprog.show_sel(sel2)])
                if o2: g = o2[0]; kinds.append('second-level')
            gs = P.tshape[g]
        outs.append(g)
    if not outs: return None
    if rng.chance(.3):
        outs.append(P.add_op('mul', [x, x], [], [sh])[0])        # the table has a consumer that is no gather
    rng.shuffle(outs)
    total_of(rng, P, outs)
    c = finish_case(rng, P)
    c['exec'] = EXECS_GATHER
    c['gather'] = kinds
    return c


# ---- layer objects with state ---------------------------------------------------------------------------------------------
class StatefulExec(tprog.Impl):
    """routes the tagged calls through layer OBJECTS that live as long as the program: `@bn<k>:L|F:<momentum bits or ->` — batch norm
    through one nn.BatchNorm1d / BatchNorm2d object (L; train() / eval() switched per call, its parameters ARE the program's operand
    tensors) or through the function with one persistent pair of running-statistics tensors (F); `@do<k>:<p bits>` on `mul x,m` — one
    nn.Dropout object in train mode whose uniform draws are dictated so that its mask is the leaf m; `@via<i>=do<k>:<p bits>` —
    operand i first passes through that Dropout object in EVAL mode (the identity)."""
    def __init__(self):
        super().__init__()
        self.layers = {}
        self.gobj = {}

    def run(self, line):
        """`t bw <root> <shape> <data> [dtype] @gt<i> | @gv<i> | @gr<i>`: the upstream gradient is NOT a fresh tensor but an object the
        caller keeps and hands to several backward calls: the program's tensor i itself (gt), one Tensor object over a view of
        tensor i's array (gv), one Tensor object over row 0 of tensor i's array (gr). The values on the line are what that object
        held when the program was written; the model gets exactly those."""
        if line.startswith('t bw ') and ' @g' in line:
            t = line.split(' ')
            tag = [a for a in t if a.startswith('@g')][0]
            if tag not in self.gobj:
                src = self.ts[int(tag[3:])]
                self.gobj[tag] = src if tag[2] == 't' else self.sg.Tensor(src.data[...] if tag[2] == "v" else src.data[0, ...])
            g = self.gobj[tag]
            tr = self.traced(lambda: self.ts[int(t[2])].backward(g))
            return 'ok trace=' + (','.join(tr) if tr else '_')
        return super().run(line)

    def _obj(self, tg, name, x, args):
        """`@obj<k>:<0|1>`: the call goes through ONE layer / activation / loss object per key, built at its first call from the
        arguments of that call and kept for the life of the program; 1: train(), 0: eval() before the call. The parameters of a
        Linear / Conv object ARE the program's operand tensors."""
        key, mode = tg.split(':')
        nn = self.nn
        pair = lambda a: tuple(common.parse_ints(a))
        if key not in self.layers:
            if name in ('relu', 'selu', 'tanh', 'sigmoid'): m = {'relu': nn.ReLU, 'selu': nn.SELU, 'tanh': nn.Tanh, 'sigmoid': nn.Sigmoid}[name]()
            elif name == 'leaky_relu': m = nn.LeakyReLU(common.bitsf(args[0]))
            elif name in ('softmax', 'log_softmax'): m = (nn.Softmax if name == 'softmax' else nn.LogSoftmax)(int(args[0]))
            elif name in ('max_pool1d', 'avg_pool1d'): m = (nn.MaxPool1d if name[0] == 'm' else nn.AvgPool1d)(int(args[0]), int(args[1]), int(args[2]), int(args[3]))
            elif name in ('max_pool2d', 'avg_pool2d'): m = (nn.MaxPool2d if name[0] == 'm' else nn.AvgPool2d)(pair(args[0]), pair(args[1]), pair(args[2]), pair(args[3]))
            elif name == 'unfold': m = nn.Unfold(pair(args[0]), stride=pair(args[2]), padding=pair(args[3]), dilation=pair(args[1]), pad_value=common.bitsf(args[4]))
            elif name == 'fold': m = nn.Fold(pair(args[0]), pair(args[1]), stride=pair(args[3]), padding=pair(args[4]), dilation=pair(args[2]))
            elif name == 'flatten': m = nn.Flatten(int(args[0]), int(args[1]))
            elif name in ('linear', 'conv1d', 'conv2d'):
                w = x[1]; b = x[2] if len(x) > 2 else None
                if name == 'linear': m = nn.Linear(w.shape[1], w.shape[0], bias=b is not None)
                elif name == 'conv1d': m = nn.Conv1d(w.shape[1], w.shape[0], w.shape[2], int(args[1]), int(args[2]), int(args[3]), bias=b is not None)
                else: m = nn.Conv2d(w.shape[1], w.shape[0], (w.shape[2], w.shape[3]), pair(args[1]), pair(args[2]), pair(args[3]), bias=b is not None)
                object.__setattr__(m, 'weight', w)
                object.__setattr__(m, 'bias', b)
            elif name in LOSS_CLS: m = getattr(nn, LOSS_CLS[name])(reduction='none')
            else: raise KeyError(name)
            self.layers[key] = m
        m = self.layers[key]
        m.train() if int(mode) else m.eval()
        if name in ('linear', 'conv1d', 'conv2d'):
            assert m.weight is x[1] and (m.bias is None or m.bias is x[2])
            return m(x[0])
        return m(x[0], x[1]) if name in LOSS_CLS else m(x[0])

    def _dropout(self, key, p):
        if key not in self.layers:
            self.layers[key] = self.nn.Dropout(p)
        return self.layers[key]

    def call_op(self, name, ins, args):
        tags = [a[1:] for a in args if a.startswith('@')]
        args = [a for a in args if not a.startswith('@')]
        saved = {}
        try:
            for tg in tags:
                if tg.startswith('via'):
                    pos, spec = tg[3:].split('=')
                    key, pb = spec.split(':')
                    m = self._dropout(key, common.bitsf(pb)); m.eval()
                    i = ins[int(pos)]
                    saved[i] = self.ts[i]
                    self.ts[i] = m(saved[i])
            for tg in tags:
                if tg.startswith('bn'):
                    return self._bn(tg, [self.ts[i] for i in ins], args)
                if tg.startswith('do'):
                    return self._do(tg, [self.ts[i] for i in ins])
                if tg.startswith('obj'):
                    return self._obj(tg, name, [self.ts[i] for i in ins], args)
            return super().call_op(name, ins, args)
        finally:
            for i, v in saved.items():
                self.ts[i] = v

    def _do(self, tg, x):
        key, pb = tg.split(':')
        p = common.bitsf(pb)
        m = self._dropout(key, p); m.train()
        mask = x[1].data
        draws = np.where(mask == 0, p / 2, (1 + p) / 2).astype(np.float64)
        orig = np.random.rand
        def rand(*shape):
            assert tuple(shape) == tuple(draws.shape), (shape, draws.shape)
            return draws.copy()
        np.random.rand = rand
        try:
            return m(x[0])
        finally:
            np.random.rand = orig

    def _bn(self, tg, x, args):
        key, entry, mb = tg.split(':')
        mom = None if mb == '-' else common.bitsf(mb)
        hw, hb, tr = bool(int(args[0])), bool(int(args[1])), bool(int(args[2]))
        eps = common.bitsf(args[3])
        w = x[1] if hw else None
        b = (x[2] if hw else x[1]) if hb else None
        sg, nn = self.sg, self.nn
        if key not in self.layers:
            rm = np.array(common.parse_floats(args[4]), dtype=np.float64)
            rv = np.array(common.parse_floats(args[5]), dtype=np.float64)
            if entry == 'L':
                m = (nn.BatchNorm2d if x[0].data.ndim == 4 else nn.BatchNorm1d)(len(rm), eps=eps, momentum=mom, affine=hw, track_running_stats=True, dtype=np.float64)
                m.running_mean.data = rm; m.running_var.data = rv
                self.layers[key] = m
            else:
                self.layers[key] = (sg.Tensor(rm), sg.Tensor(rv))
        L = self.layers[key]
        if entry == 'L':
            object.__setattr__(L, 'weight', w)
            object.__setattr__(L, 'bias', b)
            L.train() if tr else L.eval()
            return L(x[0])
        return sg.batch_norm(x[0], w, b, L[0], L[1], tr, mom, eps)


LOSS_CLS = {'mse_loss': 'MSELoss', 'nll_loss': 'NLLLoss', 'binary_cross_entropy': 'BCELoss', 'binary_cross_entropy_with_logits': 'BCEWithLogitsLoss',
            'cross_entropy': 'CrossEntropyLoss'}
EXECS = {None: tprog.Impl, 'stateful': StatefulExec, 'gather': GatherExec}


def _bn_np(X, gam, bet, m, v, eps):
    ks = [1] * X.ndim; ks[1] = X.shape[1]
    Y = (X - m.reshape(ks)) / np.sqrt(v.reshape(ks) + eps)
    if gam is not None: Y = Y * gam.reshape(ks)
    if bet is not None: Y = Y + bet.reshape(ks)
    return Y


def result_events(rng, P, outs, first=None):
    """backward through the results of the single calls — each ALONE, with a non-uniform upstream gradient, in any order, the EARLIEST result
    (of the layer in focus) mostly first or the only one — and / or through the weighted total of all of them; all after every call was made"""
    first = outs[0] if first is None else first
    used = {i for nd in P.nodes for i in nd['ins']}
    sinks = [t for t in range(len(P.tshape)) if t not in used and P.nodes[P.owner[t]]['kind'] == 'op']
    r = rng.random()
    if r < .3: seq = [first]
    elif r < .55: seq = [first] + rng.sample([t for t in outs if t != first], rng.randint(0, len(outs) - 1))
    else:
        seq = rng.sample(outs, rng.randint(1, len(outs)))
    events = [('bw', t, gen_dag.rand_data(rng, P.tshape[t], -2, 2)) for t in seq]
    if rng.chance(.5):
        rng.shuffle(sinks)
        events.insert(rng.randint(0, len(events)) if rng.chance(.3) else len(events), ('bw', total_of(rng, P, sinks), gen_dag.rand_data(rng, (), -2, 2)))
    if rng.chance(.25) and len(events) > 1:
        lf = [nd['outs'][0] for nd in P.nodes if nd['kind'] == 'leaf' and nd['rg']]
        k = rng.randint(1, len(events) - 1)
        events[k:k] = [('zero', t) for t in lf]
    return events, {'only the earliest result': len(seq) == 1 and len(events) == 1, 'earliest result first': seq[0] == first,
                    'results differentiated alone': len(seq), 'total as a root': len(events) - len([e for e in events if e[0] == 'zero']) > len(seq)}


def stateful_case(rng, each=False):
    """each: the roots are the results of the single calls (see result_events) instead of the total; each == 'do': a Dropout object is
    among the layers and is called (at least) twice in training mode.
    layer OBJECTS with state called several times inside ONE graph, in different modes, before backward: BatchNorm with running
    statistics (a training call moves the statistics an earlier or later eval call normalises with), Dropout (every training call
    draws another mask, an eval call is the identity). Inputs are fresh leaves, earlier results (chains through the same layer) or
    their negation; all sinks are joined by a weighted total. The model — and the finite-difference oracle — are told on every line the
    statistics / mask IN FORCE at that call (running statistics by the documented update rule), i.e. the function the forward pass
    computed; the implementation side goes through the live objects."""
    import gen_ops
    C, N = rng.randint(1, 3), rng.randint(2, 4)
    sh = (N, C) + rng.pick([(), (), (2,), (2, 2), (1, 2)])
    cnt = int(np.prod(sh)) // C
    P = gen_dag.Prog()
    V = {}
    def leaf(shape, data, rg):
        t = P.add_leaf(shape, data, rg); V[t] = np.array(data, dtype=np.float64).reshape(shape); return t
    pool = [leaf(sh, gen_ops.vals(rng, sh), True)]
    layers = []
    for j in range(rng.randint(1, 2)):
        entry = rng.pick(['L', 'F'])
        hw = rng.chance(.7); hb = hw if entry == 'L' else rng.chance(.6)
        L = {'kind': 'bn', 'key': f'bn{j}', 'entry': entry, 'hw': hw, 'hb': hb, 'eps': rng.pick([1e-5, 1e-3]),
             'mom': rng.pick([0.1, 0.5, 0.5, None] if entry == 'L' else [0.1, 0.5]),
             'rm': np.array([rng.dyadic(-1, 1) for _ in range(C)]), 'rv': np.array([rng.randint(2, 24) / 8 for _ in range(C)]), 'n': 0, 'modes': []}
        L['w'] = leaf((C,), gen_ops.vals(rng, (C,), 'pos'), rng.chance(.85)) if hw else None
        L['b'] = leaf((C,), gen_ops.vals(rng, (C,)), rng.chance(.85)) if hb else None
        layers.append(L)
    for j in range(rng.randint(0, 1) if not each else 1 if each == 'do' else rng.pick([0, 1, 1, 1])):
        layers.append({'kind': 'do', 'key': f'do{j}', 'p': rng.pick([0.25, 0.5, 0.75, 0.1]), 'modes': []})
    ncalls = rng.randint(2, 5)
    # most cases hold the pattern "a layer normalises in eval mode, the SAME layer is trained later, then backward"
    # ... or "one Dropout object draws a mask, then another one (with an eval-mode call in between), then backward"
    focus = rng.pick(layers)
    if each and (each == 'do' or rng.chance(.6)) and any(L['kind'] == 'do' for L in layers):
        focus = [L for L in layers if L['kind'] == 'do'][0]
    script = []
    if each == 'do':        # two training calls of ONE Dropout object on same-shape inputs (then: backward through the first result)
        script = [(focus, True), (focus, True)]
    elif rng.chance(.9 if each else .75):
        script = [(focus, False), (focus, True)] if focus['kind'] == 'bn' else [(focus, True), (focus, False), (focus, True)] if rng.chance(.4) else [(focus, True), (focus, True)]
    while len(script) < ncalls:
        script.insert(rng.randint(0, len(script)) if rng.chance(.4) else len(script), (rng.pick(layers), rng.chance(.5)))
    for L, tr in script:
        x = leaf(sh, gen_ops.vals(rng, sh), rng.chance(.7)) if rng.chance(.3) else (pool[-1] if rng.chance(.5) else rng.pick(pool))
        if rng.chance(.15):
            x0 = x; x = P.add_op('neg', [x0], [], [sh])[0]; V[x] = -V[x0]
        L['modes'].append('train' if tr else 'eval')
        if L['kind'] == 'bn':
            ins = [x] + ([L['w']] if L['hw'] else []) + ([L['b']] if L['hb'] else [])
            args = [int(L['hw']), int(L['hb']), int(tr), common.fbits(L['eps']), show_floats(L['rm']), show_floats(L['rv'])]
            out = P.add_op('batch_norm', ins, args, [sh])[0]
            P.nodes[-1]['tag'] = f"@{L['key']}:{L['entry']}:{'-' if L['mom'] is None else common.fbits(L['mom'])}"
            X = V[x]
            axes = tuple(i for i in range(X.ndim) if i != 1)
            gam = V[L['w']] if L['hw'] else None; bet = V[L['b']] if L['hb'] else None
            if tr:
                m, v = X.mean(axes), X.var(axes)
                V[out] = _bn_np(X, gam, bet, m, v, L['eps'])
                L['n'] += 1
                f = L['mom'] if L['mom'] is not None else 1.0 / L['n']
                L['rm'] = m * f + L['rm'] * (1 - f)
                L['rv'] = v * (cnt / (cnt - 1)) * f + L['rv'] * (1 - f)
            else:
                V[out] = _bn_np(X, gam, bet, L['rm'], L['rv'], L['eps'])
        elif tr:
            p = L['p']
            mask = [(0.0 if rng.random() <= p else 1.0 / (1 - p)) for _ in range(int(np.prod(sh)))]
            mk = leaf(sh, mask, False)
            out = P.add_op('mul', [x, mk], [], [sh])[0]
            P.nodes[-1]['tag'] = f"@{L['key']}:{common.fbits(p)}"
            V[out] = V[x] * V[mk]
        else:
            out = P.add_op(rng.pick(['neg', 'clone']), [x], [], [sh])[0]
            P.nodes[-1]['tag'] = f"@via0={L['key']}:{common.fbits(L['p'])}"
            V[out] = -V[x] if P.nodes[-1]['name'] == 'neg' else V[x]
        pool.append(out)
        L.setdefault('outs', []).append(out)
    if each:
        events, st = result_events(rng, P, pool[1:], focus['outs'][0] if (focus.get('outs') and rng.chance(.7)) else None)
        c = finish_hist(rng, P, events, 'stateful')
        c['order'] = None
        c['stateful'] = {f"{L['key']}:{L.get('entry', '')}:{'mom=None' if L.get('mom', 0) is None else ''}": '>'.join(L['modes']) for L in layers}
        c['reuse'] = dict(st, kind='stateful layer (BatchNorm / Dropout)')
        return c
    used = {i for nd in P.nodes for i in nd['ins']}
    sinks = [t for t in range(len(P.tshape)) if t not in used and P.nodes[P.owner[t]]['kind'] == 'op']
    rng.shuffle(sinks)
    roots = [total_of(rng, P, sinks)]
    if rng.chance(.3):
        roots.append(total_of(rng, P, [t for t in sinks if rng.chance(.6)] or sinks[:1]))
    seq = list(range(len(roots))) + ([rng.randrange(len(roots))] if rng.chance(.2) else [])
    rng.shuffle(seq)
    events = [('bw', roots[r], gen_dag.rand_data(rng, (), -2, 2)) for r in seq]
    c = finish_hist(rng, P, events, 'stateful')
    c['order'] = None
    c['stateful'] = {f"{L['key']}:{L.get('entry', '')}:{'mom=None' if L.get('mom', 0) is None else ''}": '>'.join(L['modes']) for L in layers}
    return c


OBJ_OPS = ['relu', 'leaky_relu', 'selu', 'tanh', 'sigmoid', 'softmax', 'log_softmax', 'mse_loss', 'nll_loss', 'binary_cross_entropy',
           'binary_cross_entropy_with_logits', 'cross_entropy', 'linear', 'conv1d', 'conv2d', 'max_pool1d', 'avg_pool1d', 'max_pool2d', 'avg_pool2d',
           'unfold', 'fold']


def object_case(rng, op):
    """ONE layer / activation / pooling / loss OBJECT (every class of synapgrad.nn that has a functional counterpart in the catalogue) called
    2-4 times inside one graph BEFORE any backward: on inputs of the same shape (most of the time: whatever the object caches per shape is
    then reused) or of another batch size, on fresh leaves or on its own earlier result, switched between train() and eval(); a Linear /
    Conv object keeps its parameters over the calls. Then backward through the results (result_events). The model and the oracle see
    each call as the function it computed."""
    import gen_ops
    for _ in range(40):
        leaves, args = gen_ops.gen_nn(rng, op, False)
        if op in TIE_OPS and len(set(leaves[0][1])) != len(leaves[0][1]): continue
        if len(leaves[0][1]) > 80 or any(abs(v) > 50 for v in leaves[0][1]): continue
        break
    else:
        return None
    P = gen_dag.Prog()
    dtof = lambda lf: lf[3] if len(lf) > 3 else 'f64'
    shared = op in ('linear', 'conv1d', 'conv2d')          # operands 1.. are the object's parameters
    nper = 1 if shared else len(leaves)                    # operands that are data of ONE call
    par = [P.add_leaf(lf[0], lf[1], lf[2] if len(lf) > 2 else True, dtof(lf)) for lf in leaves[nper:]]
    ncalls = rng.randint(2, 4)
    outs, shapes, modes = [], [], []
    smooth = op in ('tanh', 'sigmoid', 'softmax', 'log_softmax', 'linear', 'avg_pool1d', 'avg_pool2d', 'conv1d', 'conv2d')
    for k in range(ncalls):
        data = [list(lf[1]) for lf in leaves[:nper]]
        shs = [tuple(lf[0]) for lf in leaves[:nper]]
        if k:
            perm = None
            for j in range(nper):       # other values of the same kind: a permutation of the first call's
                rng.shuffle(data[j])
            if len(shs[0]) >= 1 and rng.chance(.35):       # another batch size
                n0 = shs[0][0]
                n1 = n0 + 1 if (n0 == 1 or rng.chance(.5)) else n0 - 1
                for j in range(nper):
                    per = len(data[j]) // n0
                    data[j] = (data[j] + data[j][:per])[:n1 * per]
                    shs[j] = (n1,) + shs[j][1:]
        a = list(args)
        if op in ('nll_loss', 'cross_entropy'):
            a = [show_ints([int(v) for v in data[1]])]
        ins = []
        for j in range(nper):
            lf = leaves[j]
            prev = [t for t in outs if tuple(P.tshape[t]) == shs[j]]
            if j == 0 and k and smooth and prev and rng.chance(.25):
                ins.append(rng.pick(prev))
            else:
                ins.append(P.add_leaf(shs[j], data[j], (True if (j == 0 and k == 0) else (lf[2] if len(lf) > 2 else True)) and dtof(lf) == 'f64', dtof(lf)))
        mode = int(rng.chance(.6))
        o = add_op_asking(P, op, ins + par, a, tag=f'@obj0:{mode}')
        if o is None: return None
        outs += o; shapes.append(shs[0]); modes.append(mode)
    events, st = result_events(rng, P, outs)
    c = finish_hist(rng, P, events, 'stateful')
    c['order'] = None
    c['reuse'] = dict(st, kind=op, calls=ncalls, same_shape_again=len(set(shapes)) < len(shapes), other_shape=len(set(shapes)) > 1,
                      train_and_eval=len(set(modes)) > 1, own_result_as_input=any(P.nodes[P.owner[t]]['kind'] == 'op' for nd in P.nodes if nd.get('tag') for t in nd['ins'][:1]))
    return c


def upstream_case(rng):
    """backward calls that REUSE the caller's upstream-gradient tensor object: one tensor g handed to 2-4 calls from different roots of the
    same shape (a result and then a result built on top of it, a leaf, the same root twice), g being a constant tensor of the program itself
    (possibly also an OPERAND of some op), a Tensor over a view of another array, or over row 0 of a larger array; float64 (the roots' dtype)
    or float32; the leaves zeroed in between or left to accumulate. After every call: every leaf gradient, and the caller's array — an input
    of the call — unchanged."""
    P = gen_dag.Prog()
    sh = rng.pick([(), (2,), (3,), (2, 3), (2, 2), (1, 3), (2, 1, 2)])
    n = int(np.prod(sh)) if sh else 1
    xs = [P.add_leaf(sh, gen_dag.rand_data(rng, sh, -1, 1), True) for _ in range(rng.randint(1, 2))]
    holders = []
    for _ in range(rng.pick([1, 1, 2])):
        kind = rng.pick(['t', 't', 'v', 'r'])
        dt = 'f32' if rng.chance(.2) else 'f64'
        hsh = ((2,) + sh) if kind == 'r' else sh
        data = [rng.dyadic(-2, 2) or 0.5 for _ in range(n * (2 if kind == 'r' else 1))]       # (exact in binary32 as well)
        holders.append((kind, P.add_leaf(hsh, data, False, dt), dt, data[:n]))
    res, as_operand = [], False
    for j in range(rng.randint(2, 4)):
        a = rng.pick(res + xs) if (rng.chance(.3) or not res) else res[-1]
        r = rng.random()
        opnd = [h for h in holders if h[0] == 't' and h[2] == 'f64']
        if r < .25:
            w = P.add_leaf(sh, gen_dag.rand_data(rng, sh), False)
            t = P.add_op('mul', [a, w] if rng.chance(.5) else [w, a], [], [sh])[0]
        elif r < .45: t = P.add_op(rng.pick(['add', 'mul']), [a, a], [], [sh])[0]
        elif r < .6: t = P.add_op(rng.pick(['add', 'mul']), [a, rng.pick(res + xs)], [], [sh])[0]
        elif r < .72 and opnd:
            t = P.add_op(rng.pick(['add', 'mul']), [a, rng.pick(opnd)[1]], [], [sh])[0]; as_operand = True       # g is also an operand of the graph
        else: t = P.add_op(rng.pick(['tanh', 'sigmoid', 'neg', 'clone']), [a], [], [sh])[0]
        res.append(t)
    def ev(t, h):
        return ('bw', t, list(h[3]), (h[0], h[1], h[2]))
    h0 = holders[0]
    i = rng.randrange(len(res) - 1); j = rng.randint(i + 1, len(res) - 1)
    calls = [ev(res[i], h0), ev(res[j], h0)] if rng.chance(.8) else [ev(rng.pick(xs), h0), ev(rng.pick(res), h0)]
    for _ in range(rng.randint(0, 2)):
        t = rng.pick(res + res + xs)
        e = ev(t, rng.pick(holders)) if rng.chance(.7) else ('bw', t, gen_dag.rand_data(rng, sh, -2, 2))
        calls.insert(rng.randint(0, len(calls)), e)
    events = []
    for k, e in enumerate(calls):
        if k and rng.chance(.3): events += [('zero', x) for x in xs if rng.chance(.7)]
        events.append(e)
    c = finish_hist(rng, P, events, 'stateful')
    c['order'] = None
    tagged = [e for e in events if e[0] == 'bw' and len(e) > 3]
    c['upstream'] = {'calls sharing one upstream tensor': max(sum(1 for e in tagged if e[3][1] == h[1]) for h in holders),
                     'kinds': sorted({{'t': 'tensor of the program', 'v': 'view of another array', 'r': 'row of a larger array'}[h[0]] + '/' + h[2] for h in holders}),
                     'also an operand': as_operand, 'leaf as root': any(e[1] in xs for e in tagged), 'zeroed in between': any(e[0] == 'zero' for e in events),
                     'same root twice': len({e[1] for e in tagged}) < len(tagged)}
    return c


def cases(rng, tier):
    out = []
    # layer / activation / pooling / loss OBJECTS called several times before any backward, then differentiated result by result
    for op in OBJ_OPS:
        for _ in range(2 if tier == 'quick' else 40):
            c = object_case(rng, op)
            if c: out.append(c)
    for _ in range(30 if tier == 'quick' else 1000):
        out.append(stateful_case(rng, each=True))
    # the caller's upstream-gradient tensor object handed to several backward calls
    for _ in range(40 if tier == 'quick' else 1200):
        out.append(upstream_case(rng))
    for _ in range(120 if tier == 'quick' else 4000):
        c = build_case(rng, tier)
        c['order'] = c['P'].topo_shuffle(rng)
        out.append(c)
    import gen_ops
    for op in gen_ops.OPS_BASIC + gen_ops.OPS_NN:
        if op in ('max', 'min', 'max_pool1d', 'max_pool2d'): continue        # ties after clone are the subject of C01 / C02
        for _ in range(2 if tier == 'quick' else 40):
            try:
                c = fanout_case(rng, op)
            except Exception:
                c = None
            if c:
                c['order'] = c['P'].topo_shuffle(rng)
                out.append(c)
    # backward HISTORIES: every op of the catalogue as a node that several backward calls traverse, with operands that have
    # other consumers (so the buffers it accumulates into are never fresh)
    for op in gen_ops.OPS_BASIC + gen_ops.OPS_NN:
        for _ in range(3 if tier == 'quick' else 40):
            c = shared_case(rng, op)
            if c:
                c['order'] = c['P'].topo_shuffle(rng)
                out.append(c)
    # layer objects with state, called several times in one graph in different modes before backward
    for _ in range(40 if tier == 'quick' else 1200):
        out.append(stateful_case(rng))
    for op in ('stack', 'concat'):
        for _ in range(8 if tier == 'quick' else 200):
            c = listop_case(rng, op)
            c['order'] = c['P'].topo_shuffle(rng)
            out.append(c)
    # embedding-style gathers: integer lists whose repeats are written through mixed spellings, along any axis, feeding further ops
    for _ in range(40 if tier == 'quick' else 1500):
        c = gather_case(rng, tier)
        if c:
            c['order'] = c['P'].topo_shuffle(rng)
            out.append(c)
    # corpus: diamond, repeated operand, unbind outputs consumed separately, non-differentiable branch
    for spec in CORPUS:
        P = gen_dag.Prog()
        for sh, data, rg in spec['leaves']:
            P.add_leaf(sh, data, rg)
        for name, ins, args, outs in spec['ops']:
            P.add_op(name, ins, args, outs)
        c = finish_case(rng, P)
        c['order'] = P.topo_shuffle(rng)
        out.append(c)
    return out


CORPUS = [
    {'leaves': [((3,), [1., 2., 3.], True)],
     'ops': [('mul', [0, 0], [], [(3,)]), ('add', [1, 0], [], [(3,)]), ('mul', [2, 1], [], [(3,)]), ('sum', [3], ['all', 0], [()])]},
    {'leaves': [((2, 3), [1., 2., 3., 4., 5., 6.], True), ((3,), [1., -1., .5], False)],
     'ops': [('unbind', [0], [0], [(3,), (3,)]), ('mul', [2, 1], [], [(3,)]), ('add', [3, 4], [], [(3,)]), ('stack', [5, 2], [0], [(2, 3)])]},
    {'leaves': [((2,), [1., 2.], True), ((2,), [3., 4.], True)],
     'ops': [('add', [0, 1], [], [(2,)]), ('neg', [2], [], [(2,)]), ('mul', [2, 3], [], [(2,)]), ('add', [4, 2], [], [(2,)]), ('concat', [5, 0, 5], [0], [(6,)])]},
]


def impl(c):
    return tprog.run_program(c['lines'], EXECS[c.get('exec')])


def compare(c, mo, io):
    diffs = tprog.diff_program(c['lines'], mo, io)
    if diffs:
        return diffs
    # order independence (implementation only): same DAG, another construction order
    if c.get('order') is None:
        return []        # calls on objects with state: the order of the calls is part of the program
    P = c['P']
    lines2, ren = P.lines(c['order'])
    nt = len(P.tshape)
    if c.get('kind') == 'hist':
        evs = ev_lines(c['events'], P, ren)
    else:
        evs = [f"t bw {ren[c['root']]} {show_ints(P.tshape[c['root']])} {show_floats(c['g'])}"]
    prog2 = lines2 + evs + [f't grad {ren[k]}' for k in range(nt)]
    io2 = tprog.run_program(prog2)
    base = len(c['lines']) - 2 * nt
    for k in range(nt):
        if P.nodes[P.owner[k]]['kind'] == 'leaf':
            a, b = io[base + k], io2[len(lines2) + len(evs) + k]
            if b == '-' and c.get('pre') and a != '-' and not np.any(tprog.parse_arr(a)):
                continue        # a leaf the main call does not reach was zeroed after the preliminary call: zeros, not None
            if not tprog.close_line(a, b):
                return [(f'leaf t{k} grad under another construction order', a[:200], b[:200])]
    return []


def nontrivial(c):
    P = c['P']
    nops = sum(1 for n in P.nodes if n['kind'] == 'op')
    return nops >= 4 and c['fanout'] >= 2 and any(n['kind'] == 'leaf' and n['rg'] for n in P.nodes)


def distribution(cases):
    d = {}
    for c in cases:
        for n in c['P'].nodes:
            k = n.get('name', 'leaf')
            d[k] = d.get(k, 0) + 1
    for c in cases:
        if c.get('listop'):       # list-valued op, which operand leaves require grad (g) / are constants (c)
            k = 'list-valued op over mixed operands: ' + c['listop']
            d[k] = d.get(k, 0) + 1
    d['max_ops'] = max(sum(1 for n in c['P'].nodes if n['kind'] == 'op') for c in cases)
    hist = [c for c in cases if c.get('kind') == 'hist' and c.get('hist_op')]
    d['histories: op node traversed by several backward calls, operand shared'] = len(hist)
    for c in hist:
        sh = c['shape']
        for k in (f"history/calls={sh['calls']}", f"history/roots={sh['roots']}", f"history/operand={sh['operand']}") + \
                 tuple(f'history/{f}' for f in sh if sh[f] is True):
            d[k] = d.get(k, 0) + 1
    d['history/ops covered'] = len({c['hist_op'] for c in hist})
    ga = [c for c in cases if c.get('gather')]
    d['gathers: integer-list indices inside graphs (embedding style)'] = len(ga)
    for c in ga:
        for k in c['gather']:
            k = 'gather/' + k
            d[k] = d.get(k, 0) + 1
    ru = [c for c in cases if c.get('reuse')]
    d['object reuse: one layer / activation / pooling / loss object called several times before any backward, results differentiated one by one'] = len(ru)
    for c in ru:
        for k, v in c['reuse'].items():
            if v is True or k == 'kind':
                kk = f'object reuse/{k}' + (f'={v}' if k == 'kind' else '')
                d[kk] = d.get(kk, 0) + 1
    up = [c for c in cases if c.get('upstream')]
    d["upstream reuse: the caller's upstream-gradient tensor object handed to several backward calls"] = len(up)
    for c in up:
        for k, v in c['upstream'].items():
            for kk in ([f'upstream reuse/{k}'] if v is True else [f'upstream reuse/{k}={v}'] if isinstance(v, int) and not isinstance(v, bool) else [f'upstream reuse/g is a {q}' for q in v] if isinstance(v, list) else []):
                d[kk] = d.get(kk, 0) + 1
    st = [c for c in cases if c.get('exec') == 'stateful' and c.get('stateful')]
    d['stateful: layer objects called several times in one graph'] = len(st)
    for c in st:
        for key, modes in c['stateful'].items():
            kind = key[:2] + ('/layer' if ':L:' in key else '/function' if ':F:' in key else '') + ('/momentum=None' if 'mom=None' in key else '')
            d[f'stateful/{kind} calls'] = d.get(f'stateful/{kind} calls', 0) + len(modes.split('>')) * bool(modes)
            if 'eval>train' in modes or ('eval' in modes and modes.rfind('train') > modes.find('eval')):
                d[f'stateful/{key[:2]} eval-then-train on one object'] = d.get(f'stateful/{key[:2]} eval-then-train on one object', 0) + 1
            if 'train' in modes and modes.rfind('eval') > modes.find('train'):
                d[f'stateful/{key[:2]} train-then-eval on one object'] = d.get(f'stateful/{key[:2]} train-then-eval on one object', 0) + 1
    return d


# ---- failing-input oracle: central finite differences of the implementation's own forward -------
def _forward(P, leaf_vals, root):
    """evaluate the program on the implementation with the given leaf values (no grad)"""
    sg = common.impl()
    im = tprog.Impl()
    try:
        k = 0
        for nd in P.nodes:
            if nd['kind'] == 'leaf':
                im.ts.append(sg.Tensor(np.array(leaf_vals[k], dtype=np.float64).reshape(nd['shape']).astype(tprog.DT[nd.get('dt', 'f64')])))
                k += 1
            else:
                out = im.call_op(nd['name'], nd['ins'], [str(a) for a in nd['args']])
                for o in (list(out) if isinstance(out, (tuple, list)) else [out]):
                    im.ts.append(o)
        return im.ts[root].data.astype(np.float64).copy()
    finally:
        im.close()


def fd_grads(P, root, g):
    """central finite differences of the implementation's own forward: leaf tensor id -> d <root, g> / d leaf, for every leaf that requires grad"""
    leaves = [n for n in P.nodes if n['kind'] == 'leaf']
    vals = [list(n['data']) for n in leaves]
    G = np.array(g, dtype=np.float64).reshape(P.tshape[root])
    out = {}
    for li, nd in enumerate(leaves):
        if not nd['rg']:
            continue
        num = np.zeros(len(nd['data']))
        for e in range(len(nd['data'])):
            h = 1e-6
            v1 = [list(v) for v in vals]; v1[li][e] += h
            v2 = [list(v) for v in vals]; v2[li][e] -= h
            num[e] = float(((_forward(P, v1, root) - _forward(P, v2, root)) * G).sum()) / (2 * h)
        out[nd['outs'][0]] = num
    return out


def far_apart(got, num, tol):
    """True when `got` differs from the reference `num` by more than tol relative to their scale; a non-finite entry of `got` where
    the reference is finite is a difference; where the reference itself is not finite (the forward value is NaN / inf around that
    point) nothing can be said"""
    got, num = np.asarray(got, dtype=np.float64).ravel(), np.asarray(num, dtype=np.float64).ravel()
    if got.shape != num.shape:
        return True
    fin = np.concatenate([np.abs(got[np.isfinite(got)]), np.abs(num[np.isfinite(num)]), [1.0]])
    scale = float(fin.max())
    with np.errstate(all='ignore'):
        ok = (np.abs(got - num) <= tol * scale) | (got == num) | ~np.isfinite(num)
    return not bool(np.all(ok))


def fd_check(P, root, g, grads, tol=2e-5):
    """grads: dict leaf tensor id -> array or None.  Returns a failure dict or None."""
    for tid, num in fd_grads(P, root, g).items():
        got = grads.get(tid)
        got = np.zeros(len(num)) if got is None else np.asarray(got, dtype=np.float64).ravel()
        if far_apart(got, num, tol):
            return {'leaf': tid, 'got': got.tolist(), 'finite_difference': num.tolist()}
    return None


def hist_oracle(c):
    """every backward call of the history must ADD d <root, g> / d leaf (finite differences of the implementation's own forward, with
    whatever state a layer used given as a constant) to what the leaf held"""
    P = c['P']
    lines, _ = tag_lines(P)
    lf = float_leaves(P)
    rg = {nd['outs'][0] for nd in P.nodes if nd['kind'] == 'leaf' and nd['rg']}
    prog, pos = list(lines), []
    hold = upstream_holders(c['events'])
    held = {k: np.array(P.nodes[P.owner[k]]['data'], dtype=np.float64).reshape(P.tshape[k]) for k in hold}
    for e in c['events']:
        prog += ev_lines([e], P)
        pos.append(len(prog) - 1)
        if e[0] == 'bw':
            prog += [f't grad {k}' for k in lf] + [f't val {k}' for k in hold]
    io = tprog.run_program(prog, EXECS[c.get('exec')])
    key = {'ops': sorted({n['name'] for n in P.nodes if n['kind'] == 'op'}), 'history': True}
    if 'rejected' in io[:len(lines)]:
        return None
    want = {k: None for k in lf}
    cache = {}
    for n, (e, at) in enumerate(zip(c['events'], pos)):
        if e[0] == 'zero':
            if io[at] == 'ok': want[e[1]] = np.zeros(int(np.prod(P.tshape[e[1]])) if P.tshape[e[1]] else 1)
            continue
        if io[at] == 'rejected':
            fl = tprog.run_program(prog[:at] + [f"t flags {e[1]}"], EXECS[c.get('exec')])
            if 'rg=1' in fl[-1]:
                return {'key': dict(key, cls='backward-raises'), 'case': _strip(c), 'what': f'backward call #{n} raised on a root that requires grad'}
            continue
        for j, k in enumerate(hold):        # the caller's upstream-gradient arrays: bit-identical after every call
            s_ = io[at + 1 + len(lf) + j]
            now = None if '|' not in s_ else tprog.parse_arr(s_)
            if now is None or now.shape != held[k].shape or not np.array_equal(now, held[k], equal_nan=True):
                return {'key': dict(key, cls='upstream-gradient-modified'), 'case': _strip(c),
                        'what': f"backward call #{n} (root t{e[1]}) changed an array of the caller's: the upstream-gradient tensor kept in t{k} held {held[k].ravel().tolist()} "
                                f"before the call and holds {None if now is None else now.ravel().tolist()} after it"}
        ck = (e[1], tuple(e[2]))
        if ck not in cache: cache[ck] = fd_grads(P, e[1], e[2])
        for j, k in enumerate(lf):
            if k in rg:
                want[k] = cache[ck][k] + (0 if want[k] is None else want[k])
            s_ = io[at + 1 + j]
            got = None if s_ in ('-', 'rejected', 'hidden') else tprog.parse_arr(s_).ravel()
            w = want[k]
            if got is None and w is None: continue
            n_el = len(w) if w is not None else len(got)
            if far_apart(np.zeros(n_el) if got is None else got, np.zeros(n_el) if w is None else w, 2e-5):
                return {'key': dict(key, cls='gradient'), 'case': _strip(c),
                        'what': f"after backward call #{n} (of {sum(1 for q in c['events'] if q[0] == 'bw')}, root t{e[1]}) leaf t{k} holds {None if got is None else got.tolist()}; "
                                f"the sum of the chain-rule values of the calls so far (finite differences of the composed function) is {None if w is None else w.tolist()}"}
    return None


def fd_blind(P):
    """operands riding on a level of 2^20 and more (the wide-level batch-norm data of C02 / C06): a step of 1e-6 is below their
    resolution, finite differences say nothing"""
    return any(abs(v) >= 2.0 ** 20 for nd in P.nodes if nd['kind'] == 'leaf' and nd.get('dt', 'f64') == 'f64' for v in nd['data'])


def outside_domain(c):
    """some tensor of the program is not finite (a pole of pow / log inside the data): the composed function has no derivative there and
    finite differences across the pole say nothing"""
    P = c['P']
    lines, _ = tag_lines(P)
    io = tprog.run_program(lines + [f't val {k}' for k in range(len(P.tshape))], EXECS[c.get('exec')])
    for s_ in io[len(lines):]:
        if '|' in s_ and not np.all(np.isfinite(tprog.parse_arr(s_))):
            return True
    return False


def oracle(c):
    if fd_blind(c['P']) or outside_domain(c):
        return None
    if c.get('kind') == 'hist':
        return hist_oracle(c)
    P = c['P']
    lines, _ = P.lines()
    nt = len(P.tshape)
    pre = list(c.get('pre') or [])        # the preliminary backward from an interior tensor (+ zeroing of the leaves), if the case has one
    lines = lines + pre
    prog = lines + [f"t bw {c['root']} {show_ints(P.tshape[c['root']])} {show_floats(c['g'])}"] + [f't grad {k}' for k in range(nt)]
    io = tprog.run_program(prog, EXECS[c.get('exec')])
    key = {'ops': sorted({n['name'] for n in P.nodes if n['kind'] == 'op'})}
    rootnode = P.nodes[P.owner[c['root']]]
    if 'rejected' in io[:len(lines)]:
        return None
    if io[len(lines)] == 'rejected':
        # legitimate only when the root does not require grad
        im = tprog.run_program(lines + [f"t flags {c['root']}"])
        if 'rg=1' in im[-1]:
            return {'key': dict(key, cls='backward-raises'), 'case': _strip(c), 'what': 'backward raised on a root that requires grad'}
        return None
    grads = {}
    for k in range(nt):
        s = io[len(lines) + 1 + k]
        grads[k] = None if s == '-' else tprog.parse_arr(s)
    bad = fd_check(P, c['root'], c['g'], grads)
    if bad:
        return {'key': dict(key, cls='gradient'), 'case': _strip(c), 'what': f"leaf t{bad['leaf']} received {bad['got']}, finite differences of the composed function give {bad['finite_difference']}"}
    return None


def _strip(c):
    P = c['P']
    d = {'nodes': P.nodes, 'root': c['root'], 'g': c['g'], 'pre': c.get('pre') or []}
    if c.get('exec'): d['exec'] = c['exec']
    if c.get('kind') == 'hist':
        d.update({'kind': 'hist', 'events': [list(e) for e in c['events']], 'exec': c.get('exec')})
    return d


def _unstrip(d):
    P = gen_dag.Prog()
    P.nodes = list(d['nodes'])        # (the stored nodes carry their tensor ids; leaves may be interleaved with ops)
    # recompute shapes by running the implementation
    lines, _ = P.lines()
    P2 = gen_dag.Prog()
    io = tprog.run_program(lines + [f't val {k}' for k in range(sum(len(n['outs']) for n in d['nodes']))])
    shapes = [tuple(common.parse_ints(s.split('|')[0])) if '|' in s else () for s in io[len(lines):]]
    for nd in d['nodes']:
        if nd['kind'] == 'leaf':
            P2.add_leaf(tuple(nd['shape']), nd['data'], nd['rg'], nd.get('dt', 'f64'))
        else:
            P2.add_op(nd['name'], nd['ins'], nd['args'], [shapes[o] for o in nd['outs']])
            if nd.get('tag'): P2.nodes[-1]['tag'] = nd['tag']
    c = {'P': P2, 'root': d['root'], 'g': d['g'], 'pre': d.get('pre') or [], 'exec': d.get('exec')}
    if d.get('kind') == 'hist':
        c.update({'kind': 'hist', 'events': [tuple(e) for e in d['events']], 'exec': d.get('exec')})
    return c


def search(rng, tier):
    for k in range(60):
        c = listop_case(rng, rng.pick(['stack', 'concat'])) if k % 3 == 0 else build_case(rng, 'quick')
        f = oracle(c)
        if f:
            yield f
    import gen_ops
    for op in gen_ops.OPS_BASIC + gen_ops.OPS_NN:
        c = shared_case(rng, op)
        f = c and oracle(c)
        if f:
            yield f
    for k in range(60):
        f = oracle(stateful_case(rng, each=k % 2 == 0))
        if f:
            yield f
    for _ in range(40):
        f = oracle(upstream_case(rng))
        if f:
            yield f
    for op in OBJ_OPS:
        c = object_case(rng, op)
        f = c and oracle(c)
        if f:
            yield f
    for _ in range(40):
        c = gather_case(rng)
        f = c and oracle(c)
        if f:
            yield f


def matches_known(k, fail): return k.get('key') == fail.get('key')
def rerun_known(k): return oracle(_unstrip(k['witness'])) is not None
def replay(fail):
    f = oracle(_unstrip(fail['case']))
    return {'fails': f is not None, 'now': f}
