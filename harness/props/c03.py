"""C03 — chain rule on any DAG (Tensor.backward over op compositions) against Synap.Engine / Ops"""
import numpy as np
import common
from common import show_floats, show_ints, outcome
import tprog, gen_dag
tprog.ENTRIES = True        # function / Tensor method / operator / augmented operator statement, varying from call to call

PROP = 'C03'
LEAN_TARGETS = ['Props.C03']
REQUIRED_THEOREMS = ['Props.C03.postorder_topological', 'Props.C03.each_fn_once', 'Props.C03.backward_completes',
                     'Props.C03.chain_rule_any_dag', 'Props.C03.optable_wellformed', 'Props.C03.code_loop_is_recursive_traversal']
RULE = ('every op of the catalogue (tensor and nn ops) inside a fan-out graph: its first operand is an interior tensor with a second consumer created before or after it; '
        'random DAG programs over the basic op catalogue (add, mul, neg, clone, pow, sum, mean, reshape, transpose, movedim, '
        'flatten, slice, unbind, stack, concat, matmul, squeeze, unsqueeze): 2-4 leaves of mixed requires_grad, up to 14 ops '
        '(quick) / 40 (thorough), results reused by later ops (fan-out), x op x, multi-output unbind, non-uniform upstream '
        'gradient; compared: every tensor value, flags, the engine trace (zero-inits and grad_fn calls in order), every '
        'gradient after backward, and the leaf gradients of the same DAG built in a shuffled topological order. '
        'Non-trivial: >= 4 ops, a tensor consumed at least twice and a leaf that requires grad reachable from the root.')
EXHAUSTIVE = {'quick': False, 'thorough': False}
ASSUMPTIONS = ['float64 programs; summation order of NumPy reductions differs from the model by rounding only (rel 1e-9)']
TRUSTED_BASE = ['harness/tprog.py, harness/gen_dag.py (generator, executor, canonicalisation)', 'harness/extract.py (op table extractor)']


def extract():
    import extract as ex
    return ex.write_optable()


def fanout_case(rng, op):
    """ANY op of the catalogue (tensor ops and nn ops, arguments from the per-op generators) inside a graph in which its first
    operand is an INTERIOR tensor with a second consumer, created before or after the op, so that the two backward functions
    accumulate into the same non-leaf buffer in either order; the root is the weighted total of all sinks"""
    import gen_ops
    gen = gen_ops.gen_basic if op in gen_ops.OPS_BASIC else gen_ops.gen_nn
    leaves, args = gen(rng, op, False)
    P = gen_dag.Prog()
    for lf in leaves:
        P.add_leaf(lf[0], lf[1], lf[2] if len(lf) > 2 else True, lf[3] if len(lf) > 3 else 'f64')
    nl = len(leaves)
    h = P.add_op('clone', [0], [], [leaves[0][0]])[0]
    first = rng.chance(.5)
    if first:
        P.add_op(rng.pick(['neg', 'self2']) if False else 'neg', [h], [], [leaves[0][0]])
    # output shapes of the op: ask the implementation
    lines, _ = P.lines()
    opline = ' '.join(['t op', op, show_ints([h] + list(range(1, nl)))] + [str(a) for a in args])
    io = tprog.run_program(lines + [opline])
    if io[-1] in ('rejected', 'hidden') or not io[-1].startswith('t'):
        return None
    nout = len(io[-1].split(','))
    base = len(P.tshape)
    shp = tprog.run_program(lines + [opline] + [f't val {base + k}' for k in range(nout)])[-nout:]
    shapes = [tuple(common.parse_ints(s_.split('|')[0])) if '|' in s_ else () for s_ in shp]
    P.add_op(op, [h] + list(range(1, nl)), args, shapes)
    if not first:
        P.add_op('neg', [h], [], [leaves[0][0]])
    weighted_total(rng, P)
    c = finish_case(rng, P)
    c['fanout_op'] = op
    return c


def build_case(rng, tier):
    P = gen_dag.gen_program(rng, rng.randint(2, 4), rng.randint(3, 14 if tier == 'quick' else 40))
    if rng.chance(0.6):
        weighted_total(rng, P)
    return finish_case(rng, P)


def weighted_total(rng, P):
    """make the whole DAG participate: root = sum over (up to 4) unconsumed tensors of sum(t * w), with
    non-uniform constant weights w (so every element sees its own upstream gradient)"""
    used = {i for nd in P.nodes for i in nd['ins']}
    sinks = [t for t in range(len(P.tshape)) if t not in used and P.nodes[P.owner[t]]['kind'] == 'op'][-4:]
    total = None
    for t in sinks:
        w = P.add_leaf(P.tshape[t], gen_dag.rand_data(rng, P.tshape[t]), False)
        m = P.add_op('mul', [t, w], [], [P.tshape[t]])[0]
        r = P.add_op('sum', [m], ['all', 0], [()])[0]
        total = r if total is None else P.add_op('add', [total, r], [], [()])[0]


def finish_case(rng, P, root=None):
    lines, ren = P.lines()
    nt = len(P.tshape)
    root = nt - 1 if root is None else root
    g = gen_dag.rand_data(rng, P.tshape[root], -2, 2)
    q = [f't val {k}' for k in range(nt)] + [f't flags {k}' for k in range(nt)]
    bw = f"t bw {root} {show_ints(P.tshape[root])} {show_floats(g)}"
    # half of the programs are differentiated from an INTERIOR tensor first (sometimes inside retain_grads), the leaves are then
    # zeroed: what that call left on non-leaf tensors must not reach the leaves again through the main call
    req = {}
    for nd in P.nodes:
        for t in nd['outs']:
            req[t] = (nd['rg'] and nd.get('dt', 'f64') != 'i64') if nd['kind'] == 'leaf' else any(req.get(i, False) for i in nd['ins'])
    interior = [t for t in range(nt) if t != root and req.get(t) and P.nodes[P.owner[t]]['kind'] == 'op']
    pre = []
    if rng.chance(.5):
        t0 = rng.pick(interior + [root, root] if interior else [root])      # ... or from the ROOT itself, with another upstream gradient
        ctx = rng.chance(.3)
        pre = (['t ctx new rg', 't ctx enter 0'] if ctx else []) + \
              [f"t bw {t0} {show_ints(P.tshape[t0])} {show_floats(gen_dag.rand_data(rng, P.tshape[t0], -2, 2))}"] + (['t ctx exit 0'] if ctx else []) + \
              [f't zero {nd["outs"][0]}' for nd in P.nodes if nd['kind'] == 'leaf' and req.get(nd['outs'][0])]
    if rng.chance(.2):
        # a call that is REJECTED after its traversal (upstream gradient of the wrong shape) from the root or an interior tensor
        # comes first: whatever bookkeeping it left behind must not change what the accepted call computes
        tb = rng.pick(interior + [root])
        bad = tuple(P.tshape[tb]) + (2,)
        pre = [f"t bw {tb} {show_ints(bad)} {show_floats(gen_dag.rand_data(rng, bad, -2, 2))}"] + pre
    bw_lines = pre + [bw]
    after = [f't grad {k}' for k in range(nt)] + [f't flags {k}' for k in range(nt)]
    uses = {}
    for nd in P.nodes:
        for i in nd['ins']:
            uses[i] = uses.get(i, 0) + 1
    return {'P': P, 'root': root, 'g': g, 'pre': pre, 'lines': lines + q + bw_lines + after,
            'fanout': max(uses.values()) if uses else 0,
            'desc': ' ; '.join(lines + [bw])[:900]}


def cases(rng, tier):
    out = []
    for _ in range(120 if tier == 'quick' else 4000):
        c = build_case(rng, tier)
        c['order'] = c['P'].topo_shuffle(rng)
        out.append(c)
    import gen_ops
    for op in gen_ops.OPS_BASIC + gen_ops.OPS_NN:
        if op in ('max', 'min', 'max_pool1d', 'max_pool2d'): continue        # ties after clone are the subject of C01 / C02
        for _ in range(2 if tier == 'quick' else 40):
            try:
                c = fanout_case(rng, op)
            except Exception:
                c = None
            if c:
                c['order'] = c['P'].topo_shuffle(rng)
                out.append(c)
    # corpus: diamond, repeated operand, unbind outputs consumed separately, non-differentiable branch
    for spec in CORPUS:
        P = gen_dag.Prog()
        for sh, data, rg in spec['leaves']:
            P.add_leaf(sh, data, rg)
        for name, ins, args, outs in spec['ops']:
            P.add_op(name, ins, args, outs)
        c = finish_case(rng, P)
        c['order'] = P.topo_shuffle(rng)
        out.append(c)
    return out


CORPUS = [
    {'leaves': [((3,), [1., 2., 3.], True)],
     'ops': [('mul', [0, 0], [], [(3,)]), ('add', [1, 0], [], [(3,)]), ('mul', [2, 1], [], [(3,)]), ('sum', [3], ['all', 0], [()])]},
    {'leaves': [((2, 3), [1., 2., 3., 4., 5., 6.], True), ((3,), [1., -1., .5], False)],
     'ops': [('unbind', [0], [0], [(3,), (3,)]), ('mul', [2, 1], [], [(3,)]), ('add', [3, 4], [], [(3,)]), ('stack', [5, 2], [0], [(2, 3)])]},
    {'leaves': [((2,), [1., 2.], True), ((2,), [3., 4.], True)],
     'ops': [('add', [0, 1], [], [(2,)]), ('neg', [2], [], [(2,)]), ('mul', [2, 3], [], [(2,)]), ('add', [4, 2], [], [(2,)]), ('concat', [5, 0, 5], [0], [(6,)])]},
]


def impl(c):
    return tprog.run_program(c['lines'])


def compare(c, mo, io):
    diffs = tprog.diff_program(c['lines'], mo, io)
    if diffs:
        return diffs
    # order independence (implementation only): same DAG, another construction order
    P = c['P']
    lines2, ren = P.lines(c['order'])
    nt = len(P.tshape)
    root2 = ren[c['root']]
    prog2 = lines2 + [f"t bw {root2} {show_ints(P.tshape[c['root']])} {show_floats(c['g'])}"] + [f't grad {ren[k]}' for k in range(nt)]
    io2 = tprog.run_program(prog2)
    base = len(c['lines']) - 2 * nt
    for k in range(nt):
        if P.nodes[P.owner[k]]['kind'] == 'leaf':
            a, b = io[base + k], io2[len(lines2) + 1 + k]
            if b == '-' and c.get('pre') and a != '-' and not np.any(tprog.parse_arr(a)):
                continue        # a leaf the main call does not reach was zeroed after the preliminary call: zeros, not None
            if not tprog.close_line(a, b):
                return [(f'leaf t{k} grad under another construction order', a[:200], b[:200])]
    return []


def nontrivial(c):
    P = c['P']
    nops = sum(1 for n in P.nodes if n['kind'] == 'op')
    return nops >= 4 and c['fanout'] >= 2 and any(n['kind'] == 'leaf' and n['rg'] for n in P.nodes)


def distribution(cases):
    d = {}
    for c in cases:
        for n in c['P'].nodes:
            k = n.get('name', 'leaf')
            d[k] = d.get(k, 0) + 1
    d['max_ops'] = max(sum(1 for n in c['P'].nodes if n['kind'] == 'op') for c in cases)
    return d


# ---- failing-input oracle: central finite differences of the implementation's own forward -------
def _forward(P, leaf_vals, root):
    """evaluate the program on the implementation with the given leaf values (no grad)"""
    sg = common.impl()
    im = tprog.Impl()
    try:
        k = 0
        for nd in P.nodes:
            if nd['kind'] == 'leaf':
                im.ts.append(sg.Tensor(np.array(leaf_vals[k], dtype=np.float64).reshape(nd['shape']).astype(tprog.DT[nd.get('dt', 'f64')])))
                k += 1
            else:
                out = im.call_op(nd['name'], nd['ins'], [str(a) for a in nd['args']])
                for o in (list(out) if isinstance(out, (tuple, list)) else [out]):
                    im.ts.append(o)
        return im.ts[root].data.astype(np.float64).copy()
    finally:
        im.close()


def fd_check(P, root, g, grads, tol=2e-5):
    """grads: dict leaf tensor id -> array or None.  Returns a failure dict or None."""
    leaves = [n for n in P.nodes if n['kind'] == 'leaf']
    vals = [list(n['data']) for n in leaves]
    G = np.array(g, dtype=np.float64).reshape(P.tshape[root])
    for li, nd in enumerate(leaves):
        tid = nd['outs'][0]
        if not nd['rg']:
            continue
        num = np.zeros(len(nd['data']))
        for e in range(len(nd['data'])):
            h = 1e-6
            v1 = [list(v) for v in vals]; v1[li][e] += h
            v2 = [list(v) for v in vals]; v2[li][e] -= h
            num[e] = float(((_forward(P, v1, root) - _forward(P, v2, root)) * G).sum()) / (2 * h)
        got = grads.get(tid)
        got = np.zeros(len(nd['data'])) if got is None else np.asarray(got, dtype=np.float64).ravel()
        scale = max(1.0, float(np.abs(num).max()), float(np.abs(got).max()))
        if got.shape != num.shape or np.abs(got - num).max() > tol * scale:
            return {'leaf': tid, 'got': got.tolist(), 'finite_difference': num.tolist()}
    return None


def oracle(c):
    P = c['P']
    lines, _ = P.lines()
    nt = len(P.tshape)
    pre = list(c.get('pre') or [])        # the preliminary backward from an interior tensor (+ zeroing of the leaves), if the case has one
    lines = lines + pre
    prog = lines + [f"t bw {c['root']} {show_ints(P.tshape[c['root']])} {show_floats(c['g'])}"] + [f't grad {k}' for k in range(nt)]
    io = tprog.run_program(prog)
    key = {'ops': sorted({n['name'] for n in P.nodes if n['kind'] == 'op'})}
    rootnode = P.nodes[P.owner[c['root']]]
    if 'rejected' in io[:len(lines)]:
        return None
    if io[len(lines)] == 'rejected':
        # legitimate only when the root does not require grad
        im = tprog.run_program(lines + [f"t flags {c['root']}"])
        if 'rg=1' in im[-1]:
            return {'key': dict(key, cls='backward-raises'), 'case': _strip(c), 'what': 'backward raised on a root that requires grad'}
        return None
    grads = {}
    for k in range(nt):
        s = io[len(lines) + 1 + k]
        grads[k] = None if s == '-' else tprog.parse_arr(s)
    bad = fd_check(P, c['root'], c['g'], grads)
    if bad:
        return {'key': dict(key, cls='gradient'), 'case': _strip(c), 'what': f"leaf t{bad['leaf']} received {bad['got']}, finite differences of the composed function give {bad['finite_difference']}"}
    return None


def _strip(c):
    P = c['P']
    return {'nodes': P.nodes, 'root': c['root'], 'g': c['g'], 'pre': c.get('pre') or []}


def _unstrip(d):
    P = gen_dag.Prog()
    for nd in d['nodes']:
        if nd['kind'] == 'leaf':
            P.add_leaf(tuple(nd['shape']), nd['data'], nd['rg'], nd.get('dt', 'f64'))
        else:
            P.nodes.append(nd)
    # recompute shapes by running the implementation
    lines, _ = P.lines()
    P2 = gen_dag.Prog()
    io = tprog.run_program(lines + [f't val {k}' for k in range(sum(len(n['outs']) for n in d['nodes']))])
    shapes = [tuple(common.parse_ints(s.split('|')[0])) if '|' in s else () for s in io[len(lines):]]
    for nd in d['nodes']:
        if nd['kind'] == 'leaf':
            P2.add_leaf(tuple(nd['shape']), nd['data'], nd['rg'], nd.get('dt', 'f64'))
        else:
            P2.add_op(nd['name'], nd['ins'], nd['args'], [shapes[o] for o in nd['outs']])
    return {'P': P2, 'root': d['root'], 'g': d['g'], 'pre': d.get('pre') or []}


def search(rng, tier):
    for _ in range(60):
        c = build_case(rng, 'quick')
        f = oracle(c)
        if f:
            yield f


def matches_known(k, fail): return k.get('key') == fail.get('key')
def rerun_known(k): return oracle(_unstrip(k['witness'])) is not None
def replay(fail):
    f = oracle(_unstrip(fail['case']))
    return {'fails': f is not None, 'now': f}
