"""C01 — backward of every tensor op is the vector-Jacobian product (functional.py / cpu_ops.py)"""
import numpy as np
import common
from common import show_floats, show_ints
import tprog, gen_dag, gen_ops

tprog.ENTRIES = True        # function / Tensor method / operator / nn layer class
tprog.SPELLINGS = True
tprog.LAYOUTS = True      # leaves are handed over in C / Fortran / strided / negative-stride / offset / transposed layouts
import formulas, formula_cases, array_formulas

PROP = 'C01'
LEAN_TARGETS = ['Props.C01', 'genformulas']      # genformulas: the definitions generated from the source on this run, executable
REQUIRED_THEOREMS = ['Props.C01.transpose_vjp', 'Props.C01.movedim_vjp', 'Props.C01.reshape_vjp', 'Props.C01.slice_vjp',
                     'Props.C01.add_vjp', 'Props.C01.mul_vjp', 'Props.C01.exp_vjp', 'Props.C01.log_vjp', 'Props.C01.pow_vjp', 'Props.C01.vjp_unique', 'Props.C01.sum_vjp', 'Props.C01.mean_vjp', 'Props.C01.matmul_vjp']
RULE = ('per op of the tensor API: operand shapes of rank 0-4 with sizes 1-3 (every broadcasting pattern, 0-d, size-1 axes), the '
        'whole legal argument space (dims in [-ndim, ndim), tuples with negative entries, keepdims, index expressions with '
        'negative steps / ellipsis / newaxis / repeated integer lists, every source-destination pair, flatten ranges, unfold '
        '(dimension,size,step), integer and fractional exponents on their domains), non-uniform upstream gradients, mixed '
        'requires_grad; ~8 % malformed arguments for the accept/reject boundary. Compared: accept/reject, value, every operand '
        'gradient (shape and data), gradient dtype flags. Non-trivial: accepted, differentiable operand, result with > 1 element '
        'or a broadcast / reduction. ACCUMULATION: the second sweep through every graph finds each differentiable operand zeroed, frozen, or '
        'still HOLDING the first sweep\'s gradient (the op has to add to it); every op also as a node of a backward history (builder and '
        'oracle of C03: the operand — a leaf or an interior tensor — has other consumers created before or after the op, among them the same op '
        'applied again with other arguments; 1-3 roots summed in shuffled orders, 2-4 backward calls, leaves zeroed in between or left to '
        'accumulate), every leaf gradient compared after every call.')
EXHAUSTIVE = {'quick': False, 'thorough': False}
ASSUMPTIONS = ['float64 operands; NumPy reduction order differs from the model fold by rounding only (rel 1e-9)',
               'ties of max/min: the first arg-max (NumPy) is the subgradient both sides select; any other valid subgradient of '
               'the implementation is accepted by the comparison']
TRUSTED_BASE = ['harness/tprog.py, harness/gen_ops.py']
TRUSTED_BASE = TRUSTED_BASE + ['harness/formulas.py (reading of the elementwise kernels of cpu_ops.py as Lean terms, Generated/KernelFormulas.lean; validated at Float on every run by the `formula` family)', 'harness/array_formulas.py + lean/SynapModel/NpCalls.lean (reading of the array kernels as compositions of NumPy calls, Generated/KernelCalls.lean; what each NumPy function does is the hand-written array model)']
# ops whose VJP theorem is not (yet) part of Props/C01.lean: modelled and corresponded only
UNPROVED = []


def build(rng, op, malformed, gen=None):
    leaves, args = (gen or gen_ops.gen_basic)(rng, op, malformed)
    c = {'op': op, 'leaves': leaves, 'args': args, 'malformed': malformed}
    c['prog'] = gen_ops.program(c, rng)
    return c


def finish(c, rng):
    """needs the implementation's output shapes to draw the upstream gradients"""
    io = tprog.run_program(c['prog'] + [])
    nl = len(c['leaves'])
    if io[-1] == 'rejected':
        c['lines'] = c['prog']
        c['nout'] = 0
    else:
        outs = io[-1].split(',')
        shp = tprog.run_program(c['prog'] + [f't val {nl + k}' for k in range(len(outs))])[-len(outs):]
        c['gs'] = []
        for k, s in enumerate(shp):
            sh = tuple(common.parse_ints(s.split('|')[0])) if '|' in s else ()
            g = gen_dag.rand_data(rng, sh, -2, 2)
            c['gs'].append((sh, g))
        # a second sweep through the same graph must reproduce the gradients: whatever the op saved for its backward (operands,
        # outputs, masks, statistics) has to survive the first sweep. Before it every differentiable leaf is either zeroed, or FROZEN
        # (requires_grad switched off, its gradient kept: a frozen operand is outside the graph being differentiated and its stale
        # gradient must not move), or left as it is: the second sweep then has to ADD to what the buffer holds
        c['sweep2'] = {}
        for k in range(nl):
            if len(c['leaves'][k]) < 3 or c['leaves'][k][2]:
                r = rng.random()
                c['sweep2'][k] = 'zero' if r < .5 else 'freeze' if r < .72 else 'keep'
        c['lines'] = sweep_lines(c)
        c['nout'] = len(outs)
    c['desc'] = ' ; '.join(c['lines'])[:700]
    return c


def sweep_lines(c):
    nl = len(c['leaves'])
    lines = list(c['prog']) + [f't val {nl + k}' for k in range(len(c['gs']))]
    bw = [f"t bw {nl + k} {show_ints(sh)} {show_floats(g)}" for k, (sh, g) in enumerate(c['gs'])]
    lines += bw + [f't grad {k}' for k in range(nl)]
    if c.get('sweep2') is not None:
        for k in range(nl):
            how = c['sweep2'].get(k, c['sweep2'].get(str(k)))
            if how in ('zero', 'freeze'):
                lines.append(f't zero {k}' if how == 'zero' else f't setrg {k} 0')
        lines += bw + [f't grad {k}' for k in range(nl)]
    return lines


def kept(c, k):
    """1 + the number of earlier sweeps whose gradient operand k still holds when the last sweep adds its own"""
    s2 = c.get('sweep2') or {}
    return 2 if s2.get(k, s2.get(str(k))) == 'keep' else 1


FORMULA_THEOREMS = ['src_add_left_vjp', 'src_add_right_vjp', 'src_mul_left_vjp', 'src_mul_right_vjp', 'src_neg_vjp', 'src_clone_vjp', 'src_pow_vjp',
                    'src_rpow_vjp', 'src_exp_vjp', 'src_log_vjp', 'src_sqrt_vjp', 'model_applies_src_neg', 'model_applies_src_exp', 'model_applies_src_log',
                    'model_applies_src_sqrt', 'model_applies_src_pow', 'model_applies_src_rpow', 'model_applies_src_add', 'model_applies_src_mul',
                    'src_calls_transpose', 'src_calls_movedim', 'src_calls_reshape', 'src_calls_squeeze_backward', 'src_calls_unsqueeze', 'src_calls_matmul',
                    'src_calls_stack', 'src_calls_slice']
REQUIRED_THEOREMS += ['Props.C01.' + t for t in FORMULA_THEOREMS]


def extract():
    """the arithmetic of the elementwise kernels (Generated/KernelFormulas.lean) and the NumPy calls of the array kernels (Generated/KernelCalls.lean)
    are re-read from cpu_ops.py; the src_* / model_applies_src_* theorems are re-checked against them by the build that follows"""
    return formulas.write()[0] + array_formulas.write()[0]


def cases(rng, tier):
    out = []
    per = 14 if tier == 'quick' else 400
    out += formula_cases.cases(rng, tier, PROP)
    for op in gen_ops.OPS_BASIC:
        for k in range(per * (3 if op in ('slice', 'max', 'min', 'unfold_dim') else 1)):      # the index-expression space is the largest; max / min have tie and dim=None branches
            malformed = rng.chance(0.08)
            try:
                out.append(finish(build(rng, op, malformed), rng))
            except Exception as e:   # generator bug: never silently drop
                raise
    # EXHAUSTIVE sub-family: the complete discrete argument space of the reducing / shape ops on small operands
    for op, leaves, args in gen_ops.enumerate_basic(rng, tier):
        fixed = lambda r, o, m, leaves=leaves, args=args: (leaves, args)
        c = finish(build(rng, op, False, gen=fixed), rng)
        c['enumerated'] = True
        out.append(c)
    # corner arguments every run: the empty tuple of dims (nothing is reduced) on operands with several elements, both keepdims
    for op in ('sum', 'mean'):
        for keep in (0, 1):
            sh = rng.pick([(2, 3), (3,), (2, 1, 2)])
            corner = lambda r, o, m, sh=sh, keep=keep: ([(sh, gen_ops.vals(r, sh), True)], ['t:_', keep])
            out.append(finish(build(rng, op, False, gen=corner), rng))
    # every op as a node of a backward HISTORY: its operand has other consumers (the same op again, with other arguments, among them),
    # several roots are back-propagated one after another, gradients accumulate in the leaves (builder and oracle shared with C03)
    from props import c03
    for op in gen_ops.OPS_BASIC:
        for _ in range((4 if op in ('unbind', 'slice', 'unfold_dim', 'concat', 'stack') else 2) if tier == 'quick' else 60):
            c = c03.shared_case(rng, op)
            if c:
                c['order'] = c['P'].topo_shuffle(rng)
                c.update({'op': op + '/history', 'nout': 1, 'malformed': False, 'leaves': [((), [0.0], True)], 'args': []})
                out.append(c)
    return out


def impl(c):
    if c.get('kind') == 'formula':
        return formula_cases.impl(c)
    if c.get('kind') == 'hist':
        from props import c03
        return c03.impl(c)
    return tprog.run_program(c['lines'])


def _tie_ok(c, mo, io):
    """max/min at ties: accept any valid subgradient (mass of each fibre on arg-max positions, summing to g)"""
    return False


def compare(c, mo, io):
    if c.get('kind') == 'hist':
        from props import c03
        return c03.compare(c, mo, io)
    return tprog.diff_program(c['lines'], mo, io)


def nontrivial(c):
    return c['nout'] > 0 and any(lf[2] for lf in c['leaves']) and not c['malformed']


def distribution(cases):
    d = {}
    for c in cases:
        k = c['op'] + ('/rejected' if c['nout'] == 0 else '')
        d[k] = d.get(k, 0) + 1
    d['malformed'] = sum(1 for c in cases if c['malformed'])
    d['enumerated: complete argument space of the reducing / shape ops on small operands'] = sum(1 for c in cases if c.get('enumerated'))
    s2 = [h for c in cases for h in (c.get('sweep2') or {}).values()]
    for h in ('zero', 'freeze', 'keep'):
        d[f'second sweep: operand {h}'] = s2.count(h)
    hist = [c for c in cases if c.get('kind') == 'hist']
    if hist:
        from props import c03
        d.update({k: v for k, v in c03.distribution(hist).items() if k.startswith('histor')})
    return d


# ---- oracle: finite differences of the implementation's own forward -------------------------------
def oracle(c, run=None, tol=5e-5):
    """run: how the lines are executed to obtain the gradients under judgement (default: as they are)"""
    if c.get('kind') == 'formula':
        return None                     # the translation is what is compared there; `search` looks for a failing input of the property
    if c.get('kind') == 'hist':
        from props import c03
        f = c03.oracle(c)
        if f: f['case'] = dict(f['case'], kind='hist')
        return f
    if c['nout'] == 0:
        return None
    P = gen_dag.Prog()
    for lf in c['leaves']:
        P.add_leaf(lf[0], lf[1], lf[2], lf[3] if len(lf) > 3 else 'f64')
    nl = len(c['leaves'])
    P.add_op(c['op'], list(range(nl)), c['args'], [g[0] for g in c['gs']])
    io = (run or tprog.run_program)(c['lines'])
    key = {'op': c['op']}
    cc = {k: v for k, v in c.items() if k in ('op', 'leaves', 'args', 'gs', 'malformed', 'sweep2', 'kind', 'level')}
    bw = [o for l, o in zip(c['lines'], io) if l.startswith('t bw')]
    if any(o == 'rejected' for o in bw):
        if any(lf[2] for lf in c['leaves']):
            return {'key': dict(key, cls='backward-raises'), 'case': cc, 'what': f"forward of {c['op']}{c['args']} was accepted but backward raised"}
        return None
    grads = {}
    for k in range(nl):
        s = io[len(io) - nl + k]
        grads[k] = None if s == '-' else tprog.parse_arr(s)
        sh = c['leaves'][k][0]
        if grads[k] is not None and tuple(grads[k].shape) != tuple(sh):
            return {'key': dict(key, cls='grad-shape'), 'case': cc, 'what': f'operand {k} of shape {sh} got a gradient of shape {grads[k].shape}'}
    # total derivative = sum over outputs of <out_k, g_k>
    import props.c03 as c03
    if c['op'] in ('max', 'min') and len(set(c['leaves'][0][1])) != len(c['leaves'][0][1]):
        # ties: not differentiable there. What every valid subgradient satisfies: nothing off the arg-extremum set of each
        # reduced fibre, and the entries of a fibre sum to its upstream gradient
        if grads[0] is None or not c['leaves'][0][2]:
            return None
        x = np.array(c['leaves'][0][1], dtype=np.float64).reshape(c['leaves'][0][0])
        dim = None if c['args'][0] == '~' else int(c['args'][0])
        ext = (x.max if c['op'] == 'max' else x.min)(axis=dim, keepdims=True)
        on = (x == ext)
        G = np.array(c['gs'][0][1], dtype=np.float64).reshape(ext.shape) * kept(c, 0)
        gr = grads[0]
        if np.any(np.abs(gr[~on]) > 1e-12):
            return {'key': dict(key, cls='tie-off-support'), 'case': cc, 'what': f"{c['op']} at a tie: gradient {gr.ravel().tolist()} is non-zero off the arg-extremum positions"}
        tot = (gr * on).sum(axis=dim, keepdims=True)
        if not np.allclose(tot, G, rtol=1e-9, atol=1e-12):
            return {'key': dict(key, cls='tie-mass'), 'case': cc, 'what': f"{c['op']}(dim={dim}) at a tie: the gradient entries of a reduced fibre sum to {tot.ravel().tolist()}, the upstream gradient is {G.ravel().tolist()}"}
        return None
    # finite differences against the summed upstream gradients
    num = {}
    leaves = [list(lf[1]) for lf in c['leaves']]
    for li in range(nl):
        if not c['leaves'][li][2]:
            continue
        acc = np.zeros(len(leaves[li]))
        for e in range(len(leaves[li])):
            h = 1e-6
            v1 = [list(v) for v in leaves]; v1[li][e] += h
            v2 = [list(v) for v in leaves]; v2[li][e] -= h
            tot = 0.0
            for k, (sh, g) in enumerate(c['gs']):
                G = np.array(g, dtype=np.float64).reshape(sh)
                tot += float(((c03._forward(P, v1, nl + k) - c03._forward(P, v2, nl + k)) * G).sum())
            acc[e] = tot / (2 * h)
        acc *= kept(c, li)
        got = np.zeros(len(leaves[li])) if grads[li] is None else grads[li].ravel()
        if c03.far_apart(got, acc, tol):
            return {'key': dict(key, cls='gradient'), 'case': cc,
                    'what': f"{c['op']}{c['args']}: operand {li} holds {got.tolist()} after {'two sweeps (the second one adding to the first)' if kept(c, li) == 2 else 'the sweep'}, "
                            f"finite differences give {acc.tolist()}"}
    return None


def search(rng, tier):
    yield from formula_cases.pair_search(rng, tier, PROP)
    for op in gen_ops.OPS_BASIC:
        for _ in range(12):
            c = finish(build(rng, op, False), rng)
            f = oracle(c)
            if f: yield f


def _fix(c):
    if c.get('kind') == 'hist':
        from props import c03
        d = c03._unstrip(c); d['kind'] = 'hist'
        return d
    c['leaves'] = [tuple([tuple(lf[0])] + list(lf[1:])) for lf in c['leaves']]
    c['gs'] = [(tuple(s), g) for s, g in c.get('gs', [])]
    c['prog'] = gen_ops.program(c, None)
    c['lines'] = sweep_lines(c)
    c['nout'] = len(c['gs'])
    return c


def matches_known(k, fail): return k.get('key') == fail.get('key')
def rerun_known(k):
    if k['witness'].get('kind') == 'formula-pair': return formula_cases.replay_pair(k['witness'])['fails']
    return oracle(_fix(k['witness'])) is not None
def replay(fail):
    if fail['case'].get('kind') == 'formula-pair':
        return formula_cases.replay_pair(fail['case'])
    f = oracle(_fix(fail['case']))
    return {'fails': f is not None, 'now': f}
