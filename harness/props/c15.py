"""C15 — weight initialisers (synapgrad/nn/init.py, layer reset_parameters) against Synap.Init"""
import math
import numpy as np
import common
from common import fbits, bitsf, show_ints, outcome

PROP = 'C15'
LEAN_TARGETS = ['Props.C15']
REQUIRED_THEOREMS = ['Props.C15.fans_spec', 'Props.C15.xavier_uniform_bound', 'Props.C15.xavier_normal_std',
                     'Props.C15.kaiming_uniform_bound', 'Props.C15.kaiming_normal_std', 'Props.C15.layer_default_bound',
                     'Props.C15.gain_table']
RULE = ('every initialiser x shapes of rank 1-5 (rank >= 2 for the fan-based ones, lower ranks must be rejected) x gains x modes x '
        'nonlinearities x negative slopes x both dtypes x seeds; the (low, high | mean, std, size) handed to the global NumPy '
        'generator is captured by wrapping np.random.uniform/normal and must equal the model request; the tensor must hold what '
        'the unwrapped generator yields from the same state with the MODEL parameters, with identity, shape, dtype and '
        'requires_grad unchanged. Linear / Conv1d / Conv2d constructors likewise. MEMORY LAYOUT of the tensor handed in: C-contiguous, '
        'Fortran order, full transpose, two axes swapped, an axis moved, every-second-element slices (with offset), reversed axes, a window '
        'into a larger buffer, read-only broadcast-expanded views, results of Tensor.transpose / Tensor.movedim - every initialiser x '
        'every layout in every run (the previous contents must be gone afterwards). GRAD-MODE CONTEXT around the call: plain, no_grad, '
        'retain_grads, both nested either way, nested twice, after a block was left normally or by an exception (also inside an '
        'enclosing block) - for the fillers and for the layer constructors; explicit reset_parameters() on a layer whose weight / bias / '
        'both were frozen before (freeze() or the flag), in any context: one draw per parameter with the documented bounds, flags kept. '
        'CONTENT of the tensor handed in: every initialiser x {7s, zeros, -0.0, ones, NaN, +-inf, subnormal, max float, a previous draw, one non-zero, zeros with a NaN, '
        'np.empty, fresh zeros} and after 1-3 earlier initialiser calls on the same tensor (zeros_ / constant_(0) / draws); zero-element shapes for the plain fillers. '
        'SPELLING of every numeric argument: Python float / int / bool, np.float64/32/16, np.int8/32/64, np.uint8, np.bool_, the object calculate_gain returns for '
        'every nonlinearity (passed as it is): accepted / rejected (a leaky_relu slope must be an int that is not a bool, or a float) and the request compared with '
        'the model (tolerance: the width of a narrow NumPy float argument). '
        'Non-trivial: fan_in != fan_out and gain != 1.')
EXHAUSTIVE = {'quick': False, 'thorough': False}
ASSUMPTIONS = ['np.random.uniform / normal produce the distributions their arguments name (not modelled)']
TRUSTED_BASE = ['harness/props/c15.py']
NLS = ['linear', 'conv1d', 'conv2d', 'sigmoid', 'tanh', 'relu', 'leaky_relu', 'selu']
# how the array behind the tensor is laid out in memory (the fillers may not assume anything about it)
LAYOUTS = ['c', 'F', 'T', 'swap', 'move', 'step', 'rev', 'sub', 'bcast', 'op-transpose', 'op-movedim']
# grad-mode context around the call: `a>b` = b nested in a; `after-exit:x` / `after-raise:x` = the block x was entered and left (normally / by an
# exception) just before, the call itself happens outside of it (but inside whatever encloses it)
CTXS = ['plain', 'no_grad', 'retain_grads', 'no_grad>retain_grads', 'retain_grads>no_grad', 'no_grad>no_grad', 'after-exit:no_grad',
        'after-raise:no_grad', 'no_grad>after-raise:no_grad', 'no_grad>after-exit:retain_grads', 'retain_grads>after-raise:no_grad>no_grad',
        'after-raise:no_grad>retain_grads']
FREEZES = ['none', 'all', 'weight', 'bias', 'flags']        # what is frozen before an explicit reset_parameters()
# what the tensor handed in HOLDS when the initialiser is called (the fill must not depend on it)
CONTENTS = ['seven', 'zeros', 'negzeros', 'ones', 'nan', 'inf', '-inf', 'tiny', 'huge', 'prev-draw', 'one-nonzero', 'zeros+nan', 'np.empty', 'np.zeros-large']
# how a numeric argument is spelled (its type): Python float / int / bool, NumPy scalars of several widths, 0-d-free; `gain:<nl>` = the
# object calculate_gain(<nl>) returns, passed on as it is (the documented idiom xavier_*(w, gain=calculate_gain(...)))
SPELLS = ['float', 'int', 'bool', 'np.float64', 'np.float32', 'np.float16', 'np.int8', 'np.int32', 'np.int64', 'np.uint8', 'np.bool_']
SPELL_T = {'float': float, 'int': int, 'bool': bool, 'np.float64': np.float64, 'np.float32': np.float32, 'np.float16': np.float16, 'np.int8': np.int8,
           'np.int32': np.int32, 'np.int64': np.int64, 'np.uint8': np.uint8, 'np.bool_': np.bool_}
SPELL_EPS = {'np.float32': 2.0 ** -22, 'np.float16': 2.0 ** -9}      # arithmetic on a narrow NumPy float stays in that width (weak Python scalars)
INT_POOL = {('uniform_', 0): [-2, -1, 0], ('uniform_', 1): [0, 1, 2], ('normal_', 0): [-1, 0, 1], ('normal_', 1): [0, 1, 2], ('constant_', 0): [-2, -1, 0, 1, 2],
            ('xavier_uniform_', 0): [0, 1, 2, 3], ('xavier_normal_', 0): [0, 1, 2, 3], ('kaiming_uniform_', 0): [0, 1, 2], ('kaiming_normal_', 0): [0, 1, 2]}
FILLERS = ['uniform_', 'normal_', 'constant_', 'ones_', 'zeros_', 'xavier_uniform_', 'xavier_normal_', 'kaiming_uniform_', 'kaiming_normal_']


def filler_args(rng, fn):
    if fn == 'uniform_': return [rng.dyadic(-2, 0), rng.dyadic(0, 2)]
    if fn == 'normal_': return [rng.dyadic(-1, 1), rng.randint(1, 16) / 8]
    if fn == 'constant_': return [rng.dyadic(-2, 2)]
    if fn in ('ones_', 'zeros_'): return []
    if fn in ('xavier_uniform_', 'xavier_normal_'): return [rng.pick([1.0, 2.0, 0.5, math.sqrt(2.0), 5.0 / 3])]
    return [rng.pick([0, 0.01, 0.2, 1.0, 0.5]), rng.pick(['fan_in', 'fan_out']), rng.pick(NLS)]


def slope_is_number(spell):
    """calculate_gain('leaky_relu', param), as in PyTorch: an int that is not a bool, or a float (np.float64 is one); anything else is rejected"""
    return spell in ('float', 'int', 'np.float64') or spell is None


def spelled_args(rng, fn, args, spells=None):
    """args of a filler with every NUMERIC argument given a spelling; the value is one the type holds exactly (integers for integer types,
    0/1 for booleans, the nearest representable value for narrow floats)"""
    out, sp = [], []
    for k, a in enumerate(args):
        if isinstance(a, str): out.append(a); sp.append(None); continue
        T = spells[k] if spells else rng.pick(SPELLS)
        if fn.startswith('xavier') and not spells and rng.chance(.3): T = 'gain:' + rng.pick(NLS)
        if T.startswith('gain:'):
            v = _doc({'fn': 'gain', 'nl': T[5:], 'p': None})
        elif T in ('bool', 'np.bool_'):
            pool = [x for x in INT_POOL[(fn, k)] if x in (0, 1)]
            v = float(rng.pick(pool))
        elif 'int' in T:
            pool = [x for x in INT_POOL[(fn, k)] if x >= 0 or T != 'np.uint8']
            v = float(rng.pick(pool))
        else:
            v = float(SPELL_T[T](a))
        out.append(v); sp.append(T)
    return out, sp


def layer_case(rng, fn=None):
    fn = fn or rng.pick(['Linear', 'Conv1d', 'Conv2d'])
    sh = {'Linear': [rng.randint(1, 6), rng.randint(1, 6)], 'Conv1d': [rng.randint(1, 4), rng.randint(1, 4), rng.randint(1, 4)],
          'Conv2d': [rng.randint(1, 4), rng.randint(1, 4), rng.randint(1, 3), rng.randint(1, 3)]}[fn]
    return {'fn': fn, 'shape': sh, 'bias': rng.chance(.7), 'seed': rng.randrange(2 ** 31), 'dt': 'f32', 'rg': True, 'args': []}


def rshape(rng, rmin=2):
    return [rng.randint(1, 5) for _ in range(rng.randint(rmin, 5))]


def cases(rng, tier):
    out = []
    n = 25 if tier == 'quick' else 600
    for _ in range(n):
        sh = rshape(rng, 1)
        dt = rng.pick(['f32', 'f64'])
        rg = rng.chance(.5)
        seed = rng.randrange(2 ** 31)
        g = rng.pick([1.0, 2.0, 0.5, math.sqrt(2.0), 5.0 / 3])
        a = rng.pick([0, 0.01, 0.2, 1.0, 0.5])
        base = {'shape': sh, 'dt': dt, 'rg': rg, 'seed': seed}
        if rng.chance(.6): base.update(layout=rng.pick(LAYOUTS), lp=rng.randrange(64))
        if rng.chance(.4): base['ctx'] = rng.pick(CTXS)
        out.append(dict(base, fn='uniform_', args=[rng.dyadic(-2, 0), rng.dyadic(0, 2)]))
        out.append(dict(base, fn='normal_', args=[rng.dyadic(-1, 1), rng.randint(1, 16) / 8]))
        out.append(dict(base, fn='constant_', args=[rng.dyadic(-2, 2)]))
        out.append(dict(base, fn=rng.pick(['ones_', 'zeros_']), args=[]))
        out.append(dict(base, fn='xavier_uniform_', args=[g]))
        out.append(dict(base, fn='xavier_normal_', args=[g]))
        out.append(dict(base, fn='kaiming_uniform_', args=[a, rng.pick(['fan_in', 'fan_out']), rng.pick(NLS)]))
        out.append(dict(base, fn='kaiming_normal_', args=[a, rng.pick(['fan_in', 'fan_out', 'fan_avg']), rng.pick(NLS)]))
        out.append({'fn': 'Linear', 'shape': [rng.randint(1, 6), rng.randint(1, 6)], 'bias': rng.chance(.7), 'seed': seed, 'dt': 'f32', 'rg': True, 'args': []})
        out.append({'fn': 'Conv1d', 'shape': [rng.randint(1, 4), rng.randint(1, 4), rng.randint(1, 4)], 'bias': rng.chance(.7), 'seed': seed, 'dt': 'f32', 'rg': True, 'args': []})
        out.append({'fn': 'Conv2d', 'shape': [rng.randint(1, 4), rng.randint(1, 4), rng.randint(1, 3), rng.randint(1, 3)], 'bias': rng.chance(.7), 'seed': seed, 'dt': 'f32', 'rg': True, 'args': []})
    # arguments that are exactly zero (falsy, but not "missing"): an upper / lower bound of 0, mean 0, gain 0, slope 0
    for _ in range(2 if tier == 'quick' else 20):
        sh = [rng.randint(2, 4), rng.randint(2, 4)]
        base = {'shape': sh, 'dt': rng.pick(['f32', 'f64']), 'rg': rng.chance(.5), 'seed': rng.randrange(2 ** 31)}
        out.append(dict(base, fn='uniform_', args=[rng.dyadic(-2, -1), 0.0]))
        out.append(dict(base, fn='uniform_', args=[0.0, rng.dyadic(1, 2)]))
        out.append(dict(base, fn='uniform_', args=[0.0, 0.0]))
        out.append(dict(base, fn='normal_', args=[0.0, rng.randint(1, 16) / 8]))
        out.append(dict(base, fn='constant_', args=[0.0]))
        out.append(dict(base, fn='xavier_uniform_', args=[0.0]))
        out.append(dict(base, fn='kaiming_uniform_', args=[0, 'fan_out', 'leaky_relu']))
    # sizes given as narrow NumPy integers (read from a config array / an image header), with fans beyond the range of that type
    for _ in range(3 if tier == 'quick' else 40):
        seed = rng.randrange(2 ** 31)
        sp = rng.pick(['u8', 'i8', 'i16'])
        if sp == 'i16' and rng.chance(.5):
            out.append({'fn': 'Conv1d', 'shape': [2, rng.randint(8200, 9000), rng.randint(4, 5)], 'bias': True, 'seed': seed, 'dt': 'f32', 'rg': True, 'args': [], 'spell': sp})
        else:
            out.append({'fn': 'Conv1d', 'shape': [rng.randint(1, 3), rng.randint(30, 100), rng.randint(3, 7)], 'bias': rng.chance(.7), 'seed': seed, 'dt': 'f32', 'rg': True, 'args': [], 'spell': sp})
        out.append({'fn': 'Conv2d', 'shape': [rng.randint(1, 3), rng.randint(20, 70), rng.randint(2, 5), rng.randint(2, 5)], 'bias': rng.chance(.7), 'seed': seed, 'dt': 'f32', 'rg': True, 'args': [], 'spell': sp})
        out.append({'fn': 'Linear', 'shape': [rng.randint(1, 3), rng.randint(100, 127)], 'bias': True, 'seed': seed, 'dt': 'f32', 'rg': True, 'args': [], 'spell': sp})
    # every initialiser on every memory layout (both dtypes, shapes with all sizes > 1 so that the layout is never accidentally contiguous)
    for fn in FILLERS:
        for lay in LAYOUTS:
            for _ in range(1 if tier == 'quick' else 12):
                sh = [rng.randint(2, 4) for _ in range(rng.randint(2, 4) if tier == 'quick' else rng.randint(1 if fn in FILLERS[:5] else 2, 5))]
                out.append({'shape': sh, 'dt': rng.pick(['f32', 'f64']), 'rg': rng.chance(.5), 'seed': rng.randrange(2 ** 31), 'fn': fn, 'args': filler_args(rng, fn),
                            'layout': lay, 'lp': rng.randrange(64), 'ctx': rng.pick(CTXS) if rng.chance(.3) else 'plain'})
    # every layer constructor in every grad-mode context; then an explicit reset_parameters() with parameters frozen before, in any context
    for fn in ['Linear', 'Conv1d', 'Conv2d']:
        for ctx in CTXS:
            for _ in range(1 if tier == 'quick' else 8):
                out.append(dict(layer_case(rng, fn), ctx=ctx))
        for fr in FREEZES:
            for _ in range(2 if tier == 'quick' else 12):
                out.append(dict(layer_case(rng, fn), ctx=rng.pick(CTXS), reset={'freeze': fr, 'ctx': rng.pick(CTXS), 'times': rng.pick([1, 1, 2])}))
    # every initialiser x every CONTENT of the tensor handed in (zeros, NaN, inf, previous draws, ...), on a C-contiguous and on one other layout;
    # and after earlier initialiser calls on the same tensor (zeros_ / constant_(0) / a previous draw, then the initialiser under test)
    for fn in FILLERS:
        for cont in CONTENTS:
            for _ in range(1 if tier == 'quick' else 8):
                sh = [rng.randint(1, 4) for _ in range(rng.randint(2, 4))]
                out.append({'shape': sh, 'dt': rng.pick(['f32', 'f64']), 'rg': rng.chance(.5), 'seed': rng.randrange(2 ** 31), 'fn': fn, 'args': filler_args(rng, fn),
                            'content': cont, 'layout': rng.pick(['c', 'c', 'F', 'step', 'sub', 'T']), 'lp': rng.randrange(64), 'ctx': rng.pick(CTXS) if rng.chance(.3) else 'plain'})
        for _ in range(3 if tier == 'quick' else 30):
            sh = [rng.randint(1, 4) for _ in range(rng.randint(2, 4))]
            before = []
            for _ in range(rng.randint(1, 3)):
                b = rng.pick(['zeros_', 'zeros_', 'constant_', 'ones_', 'uniform_', 'normal_', fn])
                before.append([b, [0.0] if b == 'constant_' and rng.chance(.7) else filler_args(rng, b)])
            out.append({'shape': sh, 'dt': rng.pick(['f32', 'f64']), 'rg': rng.chance(.5), 'seed': rng.randrange(2 ** 31), 'fn': fn, 'args': filler_args(rng, fn),
                        'before': before, 'content': rng.pick(CONTENTS)})
    # zero-element tensors (a size-0 axis): the plain fillers have nothing to fill and must still keep identity / shape / dtype / flag
    for fn in FILLERS[:5]:
        for _ in range(2 if tier == 'quick' else 10):
            sh = [rng.randint(1, 3) for _ in range(rng.randint(1, 4))]
            sh[rng.randrange(len(sh))] = 0
            out.append({'shape': sh, 'dt': rng.pick(['f32', 'f64']), 'rg': rng.chance(.5), 'seed': rng.randrange(2 ** 31), 'fn': fn, 'args': filler_args(rng, fn), 'content': rng.pick(CONTENTS[:4])})
    # every numeric argument of every initialiser x every SPELLING (type) of the number; gains that are results of calculate_gain
    for fn in FILLERS:
        if fn in ('ones_', 'zeros_'): continue
        base_args = filler_args(rng, fn)
        nnum = len([a for a in base_args if not isinstance(a, str)])
        todo = [[T] * nnum for T in SPELLS] + ([['gain:' + nl] for nl in NLS] if fn.startswith('xavier') else []) + [None] * (2 if tier == 'quick' else 40)
        for spells in todo:
            args = filler_args(rng, fn)
            if fn.startswith('kaiming') and rng.chance(.6): args[2] = 'leaky_relu'
            a, sp = spelled_args(rng, fn, args, spells)
            sh = [rng.randint(1, 4) for _ in range(rng.randint(2, 3))]
            out.append({'shape': sh, 'dt': rng.pick(['f32', 'f64']), 'rg': rng.chance(.5), 'seed': rng.randrange(2 ** 31), 'fn': fn, 'args': a, 'aspell': sp,
                        'content': rng.pick(CONTENTS), 'ctx': rng.pick(CTXS) if rng.chance(.3) else 'plain'})
    for nl in NLS:
        for p in [None, 0, 0.01, 0.2, 1.0]:
            out.append({'fn': 'gain', 'nl': nl, 'p': p})
    for c in out:
        c['lines'] = [line_of(c)]
        c['desc'] = c['lines'][0] + f" dtype={c.get('dt')} rg={c.get('rg')}" + ''.join(f' {k}={c[k]}' for k in ('layout', 'lp', 'ctx', 'reset', 'content', 'before', 'aspell') if k in c)
    return out


def line_of(c):
    fn = c['fn']
    if fn == 'gain':
        return f"init gain {c['nl']} {'-' if c['p'] is None else fbits(c['p'])}"
    sh = show_ints(c['shape'])
    a = c['args']
    if fn == 'uniform_': return f'init uniform {fbits(a[0])} {fbits(a[1])}'
    if fn == 'normal_': return f'init normal {fbits(a[0])} {fbits(a[1])}'
    if fn == 'constant_': return f'init const {fbits(a[0])}'
    if fn == 'ones_': return f'init const {fbits(1.0)}'
    if fn == 'zeros_': return f'init const {fbits(0.0)}'
    if fn in ('xavier_uniform_', 'xavier_normal_'): return f'init {fn[:-1]} {sh} {fbits(a[0])}'
    if fn in ('kaiming_uniform_', 'kaiming_normal_'):
        sp = (c.get('aspell') or [None])[0]
        slope = fbits(a[0]) if a[2] != 'leaky_relu' or slope_is_number(sp) else f'not-a-number:{sp}'       # calculate_gain rejects it (as PyTorch does)
        return f'init {fn[:-1]} {sh} {slope} {a[1]} {a[2]}'
    return f'init layer {sh}'


def _capture():
    cap = []
    ou, on = np.random.uniform, np.random.normal
    def uni(low=0.0, high=1.0, size=None):
        cap.append(('uniform', float(low), float(high), tuple(np.atleast_1d(size)) if size is not None else None)); return ou(low, high, size)
    def nor(loc=0.0, scale=1.0, size=None):
        cap.append(('normal', float(loc), float(scale), tuple(np.atleast_1d(size)) if size is not None else None)); return on(loc, scale, size)
    np.random.uniform, np.random.normal = uni, nor
    return cap, (ou, on)


class _Boom(Exception):
    pass


def _boom():
    raise _Boom()


def _in_ctx(sg, ctx, f):
    """run f() in the grad-mode context named by ctx (see CTXS)"""
    if ctx in (None, '', 'plain'):
        return f()
    head, _, rest = ctx.partition('>')
    if head.startswith('after-raise:') or head.startswith('after-exit:'):
        # the whole remainder names the block that is entered and left first: `after-raise:a>b` leaves b (inside a) by an exception that
        # propagates through a as well
        how, inner = ctx.split(':', 1)
        if how == 'after-raise':
            try:
                _in_ctx(sg, inner, _boom)
            except _Boom:
                pass
        else:
            _in_ctx(sg, inner, lambda: None)
        return f()
    with {'no_grad': sg.no_grad, 'retain_grads': sg.retain_grads}[head]():
        return _in_ctx(sg, rest, f)


def _make_tensor(sg, c, dt):
    """the tensor handed to the initialiser: shape c['shape'], previous contents 7.0, memory layout c['layout'] (parameter c['lp'])"""
    sh = list(c['shape']); lay = c.get('layout', 'c'); p = c.get('lp', 0); n = len(sh)
    def full(shape, **kw):
        cont = c.get('content', 'seven')
        fi = np.finfo(dt)
        const = {'seven': 7.0, 'zeros': 0.0, 'negzeros': -0.0, 'ones': 1.0, 'nan': np.nan, 'inf': np.inf, '-inf': -np.inf, 'tiny': float(fi.smallest_subnormal), 'huge': float(fi.max)}
        if cont in const: return np.full(shape, const[cont], dtype=dt, **kw)
        if cont == 'np.empty':
            a = np.empty(shape, dtype=dt, **kw); return a
        if cont == 'np.zeros-large':          # fresh zero pages, as a large np.empty / np.zeros hands out
            return np.zeros(shape, dtype=dt, **kw)
        rs = np.random.RandomState(p + 1)      # (a generator of its own: the global one is what the initialiser draws from)
        if cont == 'prev-draw': return np.asarray(rs.standard_normal(shape), dtype=dt, **kw)
        a = np.zeros(shape, dtype=dt, **kw)
        if a.size: a.flat[rs.randint(a.size)] = np.nan if cont == 'zeros+nan' else 0.5
        return a
    i, j = p % n, (p // n) % n
    if lay in ('op-transpose', 'op-movedim'):
        bs = list(sh)
        if lay == 'op-transpose':
            bs[i], bs[j] = bs[j], bs[i]
            return sg.Tensor(full(bs), requires_grad=c['rg']).transpose(i, j)
        bs = list(np.moveaxis(np.empty(sh, dtype=np.int8), j, i).shape)
        return sg.Tensor(full(bs), requires_grad=c['rg']).movedim(i, j)
    if lay == 'c': a = full(sh)
    elif lay == 'F': a = full(sh, order='F')
    elif lay == 'T': a = full(sh[::-1]).T
    elif lay == 'swap':
        bs = list(sh); bs[i], bs[j] = bs[j], bs[i]
        a = np.swapaxes(full(bs), i, j)
    elif lay == 'move':
        a = np.moveaxis(full(np.moveaxis(np.empty(sh, dtype=np.int8), j, i).shape), i, j)
    elif lay in ('step', 'rev', 'sub'):
        idx = [slice(None)] * n
        bs = list(sh)
        if lay == 'step':
            off = (p // n) % 2
            bs[i] = 2 * sh[i] + off; idx[i] = slice(off, None, 2)
            if n > 1 and p % 3 == 0: idx[j] = slice(None, None, -1) if j != i else idx[j]
        elif lay == 'rev':
            idx[i] = slice(None, None, -1)
        else:
            bs = [v + 2 for v in sh]; idx = [slice(1, 1 + v) for v in sh]
        a = full(bs)[tuple(idx)]
    elif lay == 'bcast':
        bs = list(sh); bs[i] = 1
        a = np.broadcast_to(full(bs), sh)
    else:
        raise KeyError(lay)
    assert list(a.shape) == sh, (lay, a.shape, sh)
    return sg.Tensor(a, requires_grad=c['rg'])


def _run(c):
    sg = common.impl()
    from synapgrad import nn
    fn = c['fn']
    if fn == 'gain':
        return {'gain': nn.init.calculate_gain(c['nl'], c['p'])}
    dt = {'f32': np.float32, 'f64': np.float64}[c['dt']]
    cap, orig = _capture()
    try:
        np.random.seed(c['seed'])
        if fn in ('Linear', 'Conv1d', 'Conv2d'):
            s = c['shape']
            if c.get('spell'):
                I = {'u8': np.uint8, 'i8': np.int8, 'i16': np.int16}[c['spell']]
                s = [I(v) for v in s]
            def build():
                if fn == 'Linear': return nn.Linear(s[1], s[0], bias=c['bias'])
                if fn == 'Conv1d': return nn.Conv1d(s[1], s[0], s[2], bias=c['bias'])
                return nn.Conv2d(s[1], s[0], (s[2], s[3]), bias=c['bias'])
            gm = []
            def build_():
                gm.append(bool(common.tmod().gradient__)); return build()
            layer = _in_ctx(sg, c.get('ctx'), build_)
            tensors = [layer.weight] + ([layer.bias] if c['bias'] else [])
            # (whether parameters created while grad mode is off require grad is not this property's business: only asserted in plain mode)
            ok = list(layer.weight.shape) == c['shape'] and all(t.dtype == np.float32 for t in tensors) and (not gm[0] or all(t.requires_grad for t in tensors))
            res = {'cap': list(cap), 'tensors': [t.data.copy() for t in tensors], 'ok': ok, 'grad_mode': gm[0], 'seed': c['seed']}
            rs = c.get('reset')
            if rs and res['ok'] and len(res['cap']) == len(tensors):
                # explicit reset_parameters() after (some of) the parameters were frozen: fresh seed, the draws of the LAST call are kept
                if rs['freeze'] == 'all': layer.freeze()
                elif rs['freeze'] == 'flags':
                    for t in tensors: t.requires_grad = False
                elif rs['freeze'] == 'weight': layer.weight.requires_grad = False
                elif rs['freeze'] == 'bias' and c['bias']: layer.bias.requires_grad = False
                ids, flags = [id(t) for t in tensors], [t.requires_grad for t in tensors]
                for k in range(rs['times']):
                    del cap[:]
                    np.random.seed(c['seed'] + 1 + k)
                    _in_ctx(sg, rs['ctx'], layer.reset_parameters)
                after = [layer.weight] + ([layer.bias] if c['bias'] else [])
                ok = [id(t) for t in after] == ids and [t.requires_grad for t in after] == flags and list(layer.weight.shape) == c['shape'] \
                    and all(t.dtype == np.float32 for t in after)
                res = {'cap': list(cap), 'tensors': [t.data.copy() for t in after], 'ok': ok, 'grad_mode': gm[0], 'seed': c['seed'] + rs['times'], 'frozen': flags.count(False)}
            return res
        t = _make_tensor(sg, c, dt)
        contiguous = bool(t.data.flags['C_CONTIGUOUS'])
        # numeric arguments also arrive as NumPy float64 scalars (a subclass of float with the same precision), e.g. gain=np.sqrt(2.0)
        args = [np.float64(a) if isinstance(a, float) and c['seed'] % 2 else a for a in c['args']]
        if 'aspell' in c:
            args = [a if T is None else nn.init.calculate_gain(T[5:]) if T.startswith('gain:') else SPELL_T[T](a) for a, T in zip(c['args'], c['aspell'])]
        if c.get('before'):       # earlier initialiser calls on the same tensor; the draw under test starts from the seeded state again
            for b, ba in c['before']: getattr(nn.init, b)(t, *ba)
            del cap[:]
            np.random.seed(c['seed'])
        if 'ctx' in c:
            r = _in_ctx(sg, c['ctx'], lambda: getattr(nn.init, fn)(t, *args))
        elif c['seed'] % 3 == 0:        # the usual idiom: re-initialise inside no_grad (requires_grad must survive)
            with sg.no_grad():
                r = getattr(nn.init, fn)(t, *args)
        else:
            r = getattr(nn.init, fn)(t, *args)
        ok = (r is t) and list(t.shape) == c['shape'] and t.dtype == dt and t.requires_grad == c['rg']
        return {'cap': list(cap), 'tensors': [t.data.copy()], 'ok': ok, 'contiguous': contiguous, 'argtypes': [type(a).__name__ for a in args]}
    finally:
        np.random.uniform, np.random.normal = orig


def impl(c):
    r = outcome(lambda: _run(c))
    c['_r'] = r
    if r == 'rejected':
        return ['rejected']
    if 'gain' in r:
        return [str(fbits(r['gain']))]
    fn = c['fn']
    if fn in ('constant_', 'ones_', 'zeros_'):
        v = r['tensors'][0].ravel()
        if v.size == 0:          # nothing to fill, nothing to read back: only identity / shape / dtype / flag are observable
            return ['not-constant' if r['cap'] else f"const {fbits(float(_doc(c)[1]))}"]
        return [f'const {fbits(float(v[0]))}' if len(set(v.tolist())) <= 1 and not r['cap'] else 'not-constant']
    if not r['cap']:
        return ['no-draw']
    k, p1, p2, size = r['cap'][0]
    return [f'{k} {fbits(p1)} {fbits(p2)}']


def _tol(c):
    """relative tolerance of the request: 1e-12, or the precision of the narrowest NumPy float an argument was spelled in"""
    return max([1e-12] + [SPELL_EPS.get(T, 0) for T in (c.get('aspell') or []) if T])


def _close(m, i, tol=1e-12):
    if m == i: return True
    mt, it = m.split(' '), i.split(' ')
    if len(mt) != len(it) or mt[0] != it[0] and len(mt) > 1: return False
    for a, b in zip(mt, it):
        if a == b: continue
        try:
            x, y = bitsf(a), bitsf(b)
        except Exception:
            return False
        if abs(x - y) > tol * (1 + abs(x) + abs(y)): return False
    return True


def compare(c, mo, io):
    tol = _tol(c)
    diffs = [(c['lines'][0], m, i) for m, i in zip(mo, io) if not _close(m, i, tol)]
    r = c.get('_r')
    if diffs or not isinstance(r, dict) or 'gain' in r:
        return diffs
    if not r['ok']:
        diffs.append((c['lines'][0], 'identity/shape/dtype/requires_grad kept', 'changed'))
    # the data must be what the generator yields from the same state with the MODEL's parameters
    if r['cap'] and mo[0] not in ('rejected',):
        kind, p1, p2 = mo[0].split(' ')
        p1, p2 = bitsf(p1), bitsf(p2)
        np.random.seed(r.get('seed', c['seed']))
        for (k, a, b, size), data in zip(r['cap'], r['tensors']):
            if size != tuple(data.shape):
                diffs.append((c['lines'][0], f'draw of shape {tuple(data.shape)}', f'size={size}')); break
            ref = (np.random.uniform(p1, p2, data.shape) if kind == 'uniform' else np.random.normal(p1, p2, data.shape)).astype(data.dtype)
            if not np.allclose(ref, data, rtol=max(1e-6, 8 * tol), atol=max(1e-9, 8 * tol * (abs(p1) + abs(p2)))):
                diffs.append((c['lines'][0], 'data = generator(model parameters)', 'differs')); break
        if len(r['cap']) != len(r['tensors']):
            diffs.append((c['lines'][0], f'{len(r["tensors"])} draws', f'{len(r["cap"])} draws'))
    return diffs


def nontrivial(c):
    if c['fn'] == 'gain': return c['nl'] in ('tanh', 'relu', 'leaky_relu', 'selu')
    if c['fn'] in ('xavier_uniform_', 'xavier_normal_', 'kaiming_uniform_', 'kaiming_normal_'):
        return len(c['shape']) >= 2 and c['shape'][0] != c['shape'][1]
    return True


def distribution(cases):
    d = {}
    for c in cases:
        k = c['fn'] + (f"/rank{len(c['shape'])}" if 'shape' in c else '')
        d[k] = d.get(k, 0) + 1
        r = c.get('_r') if isinstance(c.get('_r'), dict) else {}
        ks = []
        if 'layout' in c: ks += ['layout:' + c['layout'], 'filler on a tensor whose data is ' + ('C-contiguous' if r.get('contiguous', True) else 'NOT C-contiguous') + '/' + c['dt']]
        if 'content' in c: ks.append('content of the tensor handed in: ' + c['content'] + (' (zero-element shape)' if 0 in c['shape'] else ''))
        if 'before' in c: ks.append('initialiser called after earlier initialiser calls on the same tensor: ' + '+'.join(b for b, _ in c['before']))
        for k_, T in enumerate(c.get('aspell') or []):
            if T: ks.append(f"numeric argument spelled as {T if not T.startswith('gain:') else 'the result of calculate_gain'}"
                            + (f" (arrives as {r['argtypes'][k_]})" if r.get('argtypes') else ''))
        if 'ctx' in c: ks.append(('layer built in ctx:' if c['fn'] in ('Linear', 'Conv1d', 'Conv2d') else 'filler in ctx:') + c['ctx'])
        if 'grad_mode' in r: ks.append('layer constructed with grad mode ' + ('on' if r['grad_mode'] else 'OFF'))
        if 'reset' in c: ks += ['explicit reset_parameters(), frozen before: ' + c['reset']['freeze'], 'explicit reset in ctx:' + c['reset']['ctx']]
        for k in ks: d[k] = d.get(k, 0) + 1
    return d


# ---- oracle: documented formulas recomputed in Python floats -----------------------------------
def _doc(c):
    fn, a = c['fn'], c.get('args', [])
    if fn == 'gain':
        nl, p = c['nl'], c['p']
        if nl in ('linear', 'conv1d', 'conv2d', 'sigmoid'): return 1.0
        if nl == 'tanh': return 5.0 / 3
        if nl == 'relu': return math.sqrt(2.0)
        if nl == 'selu': return 0.75
        s = 0.01 if p is None else p
        return math.sqrt(2.0 / (1 + s ** 2))
    sh = c['shape']
    if fn == 'uniform_': return ('uniform', a[0], a[1])
    if fn == 'normal_': return ('normal', a[0], a[1])
    if fn in ('constant_', 'ones_', 'zeros_'): return ('const', a[0] if a else (1.0 if fn == 'ones_' else 0.0))
    if len(sh) < 2: return 'rejected'
    rf = int(np.prod(sh[2:])) if len(sh) > 2 else 1
    fi, fo = sh[1] * rf, sh[0] * rf
    if fn == 'xavier_uniform_':
        b = a[0] * math.sqrt(6.0 / (fi + fo)); return ('uniform', -b, b)
    if fn == 'xavier_normal_':
        return ('normal', 0.0, a[0] * math.sqrt(2.0 / (fi + fo)))
    if fn in ('kaiming_uniform_', 'kaiming_normal_'):
        if a[1] not in ('fan_in', 'fan_out'): return 'rejected'
        if a[2] == 'leaky_relu' and not slope_is_number((c.get('aspell') or [None])[0]): return 'rejected'
        fan = fi if a[1] == 'fan_in' else fo
        g = _doc({'fn': 'gain', 'nl': a[2], 'p': a[0], 'args': []})
        if fn == 'kaiming_uniform_':
            b = g * math.sqrt(3.0 / fan); return ('uniform', -b, b)
        return ('normal', 0.0, g / math.sqrt(fan))
    b = 1.0 / math.sqrt(fi) if fi > 0 else 0.0
    return ('uniform', -b, b)


def oracle(c):
    r = outcome(lambda: _run(c))
    want = _doc(c)
    key = {'fn': c['fn']}
    cc = {k: v for k, v in c.items() if not k.startswith('_') and k not in ('lines', 'desc')}
    if r == 'rejected':
        return None if want == 'rejected' else {'key': dict(key, cls='rejected'), 'case': cc, 'what': f"{c['fn']} raised"}
    if want == 'rejected':
        return {'key': dict(key, cls='accepted'), 'case': cc, 'what': f"{c['fn']} accepted a tensor of rank < 2 / an invalid mode"}
    if 'gain' in r:
        return None if abs(r['gain'] - want) <= 1e-12 else {'key': dict(key, cls='gain'), 'case': cc, 'what': f"gain {r['gain']} != {want}"}
    if not r['ok']:
        return {'key': dict(key, cls='identity'), 'case': cc, 'what': 'tensor identity / shape / dtype / requires_grad not preserved'}
    if want[0] == 'const':
        v = r['tensors'][0]
        return None if np.all(v == np.array(want[1]).astype(v.dtype)) else {'key': dict(key, cls='const'), 'case': cc, 'what': 'constant fill differs'}
    if not r['cap']:
        return {'key': dict(key, cls='no-draw'), 'case': cc, 'what': 'no draw from the global generator' + (f" (the tensor held: {c['content']}" + (f", after {c['before']}" if c.get('before') else '') + ')' if 'content' in c else '')}
    tol = _tol(c)
    for k, p1, p2, size in r['cap']:
        if k != want[0] or abs(p1 - want[1]) > tol * (1 + abs(want[1])) or abs(p2 - want[2]) > tol * (1 + abs(want[2])):
            return {'key': dict(key, cls='parameters'), 'case': cc, 'what': f'generator called with {k}({p1}, {p2}); documented: {want}'}
    if len(r['cap']) != len(r['tensors']):
        return {'key': dict(key, cls='draw-count'), 'case': cc, 'what': f"{len(r['cap'])} draws from the global generator for {len(r['tensors'])} parameter tensors"
                + (f" (grad mode at construction: {r.get('grad_mode')}, frozen before the reset: {r.get('frozen')})" if 'grad_mode' in r else '')}
    # and the data really are that draw
    np.random.seed(r.get('seed', c['seed']))
    for (k, a, b, size), data in zip(r['cap'], r['tensors']):
        ref = (np.random.uniform(want[1], want[2], data.shape) if k == 'uniform' else np.random.normal(want[1], want[2], data.shape)).astype(data.dtype)
        if tuple(data.shape) != tuple(ref.shape) or not np.allclose(ref, data, rtol=max(1e-6, 8 * tol), atol=max(1e-9, 8 * tol * (abs(want[1]) + abs(want[2])))):
            return {'key': dict(key, cls='data'), 'case': cc, 'what': 'tensor data is not the draw with the documented parameters'
                    + (f" (memory layout {c['layout']}, C-contiguous: {r.get('contiguous')}; first values {data.ravel()[:3].tolist()}, drawn {ref.ravel()[:3].tolist()})" if 'layout' in c else '')}
    return None


def search(rng, tier):
    for c in cases(rng, 'quick'):
        f = oracle(c)
        if f: yield f


def matches_known(k, fail): return k.get('key') == fail.get('key')
def rerun_known(k): return oracle(k['witness']) is not None
def replay(fail):
    f = oracle(fail['case'])
    return {'fails': f is not None, 'now': f}
