"""C02 — backward of every nn op / layer / loss is the vector-Jacobian product (nn/functional.py, cpu_ops.py, conv_tools.py)"""
import common
import gen_ops
from props import c01 as base
from props.c01 import compare, distribution, matches_known, nontrivial   # noqa: F401
import numpy as np
import tprog, gen_dag
from common import fbits, show_floats, show_ints

import formulas, formula_cases

PROP = 'C02'
LEAN_TARGETS = ['Props.C02']
REQUIRED_THEOREMS = ['Props.C02.linear_vjp', 'Props.C02.mse_vjp', 'Props.C02.nll_vjp', 'Props.C02.dropout_vjp', 'Props.C02.conv1d_vjp', 'Props.C02.conv2d_vjp',
                     'Props.C02.avgpool_vjp', 'Props.C02.relu_vjp', 'Props.C02.sigmoid_vjp', 'Props.C02.maxpool_vjp_subgradient', 'Props.C02.unfold_fold_vjp', 'Props.C02.bce_vjp', 'Props.C02.bce_scalar_deriv', 'Props.C02.bce_logits_vjp',
                     'Props.C02.bce_logits_factor_within_eps', 'Props.C02.maxpool2d_vjp_subgradient', 'Props.C02.batch_norm_eval_vjp', 'Props.C02.batch_norm_train_vjp',
                     'Props.C02.batch_norm_gamma_vjp', 'Props.C02.batch_norm_beta_vjp', 'Props.C02.softmax_vjp', 'Props.C02.log_softmax_vjp', 'Props.C02.cross_entropy_vjp']
UNPROVED = []
RULE = ('per nn op: relu / leaky_relu (any slope) / selu / tanh / sigmoid, softmax and log_softmax along every dim of ranks 1-4, '
        'mse (both arguments) / nll / bce / bce-with-logits / cross-entropy, linear with and without bias, conv1d / conv2d and '
        'max / avg pooling 1d / 2d over a geometry grid (non-square kernels, stride > kernel, dilation, padding, windows that do not '
        'tile), unfold / fold, batch_norm in all 8 (training | eval) x (affine or not) x (running statistics or not) modes at '
        'arbitrary running values; non-uniform upstream gradients, mixed requires_grad, ~8 % malformed configurations. Compared: '
        'accept/reject, values, every operand gradient. Non-trivial: accepted with a differentiable operand.')
EXHAUSTIVE = {'quick': False, 'thorough': False}
ASSUMPTIONS = base.ASSUMPTIONS + ['relu-family inputs are kept away from the kink, pooling inputs distinct (ties are exercised by the model comparison only)']
TRUSTED_BASE = base.TRUSTED_BASE


class BNExec(tprog.Impl):
    """batch_norm through PERSISTENT running-statistics tensors (as a layer holds them), so that a later training
    forward can disturb what an earlier eval forward saved for its backward"""
    def __init__(self):
        super().__init__()
        self.rm = self.rv = None

    def call_nn(self, name, x, args):
        if name != 'batch_norm':
            return super().call_nn(name, x, args)
        sg = self.sg
        hw, hb, tr = bool(int(args[0])), bool(int(args[1])), bool(int(args[2]))
        if self.rm is None:
            self.rm = sg.Tensor(np.array(common.parse_floats(args[4]), dtype=np.float64))
            self.rv = sg.Tensor(np.array(common.parse_floats(args[5]), dtype=np.float64))
        w = x[1] if hw else None
        b = (x[2] if hw else x[1]) if hb else None
        return sg.batch_norm(x[0], w, b, self.rm, self.rv, tr, self.momentum, common.bitsf(args[3]))


def bnseq_case(rng):
    """eval forward, then training forwards through the same running statistics, then backward of the FIRST output"""
    c = rng.randint(1, 3)
    n = rng.randint(2, 4)
    rest = rng.pick([(), (2,)])
    sh = (n, c) + rest
    eps, mom = rng.pick([1e-5, 1e-3]), rng.pick([0.1, 0.5])
    rm = [rng.dyadic(-1, 1) for _ in range(c)]
    rv = [rng.randint(2, 24) / 8 for _ in range(c)]
    hw = rng.chance(.6)
    leaves = [gen_dag.leaf_line(sh, gen_ops.vals(rng, sh), True)] + ([gen_dag.leaf_line((c,), gen_ops.vals(rng, (c,), 'pos'), True)] if hw else [])
    nl = len(leaves)
    ins = '0,1' if hw else '0'
    lines = list(leaves)
    lines.append(f"t op batch_norm {ins} {int(hw)} 0 0 {fbits(eps)} {show_floats(rm)} {show_floats(rv)}")      # eval, saves the statistics
    y1 = nl
    cur_rm, cur_rv = list(rm), list(rv)
    ntrain = rng.randint(1, 2)
    for k in range(ntrain):
        xs = gen_ops.vals(rng, sh)
        lines.append(gen_dag.leaf_line(sh, xs, False))
        xi = nl + 1 + 2 * k
        # the model is told the running statistics in force at this call (computed here by the documented rule)
        lines.append(f"t op batch_norm {xi} 0 0 1 {fbits(eps)} {show_floats(cur_rm)} {show_floats(cur_rv)}")
        X = np.array(xs).reshape(sh)
        axes = tuple(i for i in range(X.ndim) if i != 1)
        m, v, cnt = X.mean(axes), X.var(axes), X.size / c
        cur_rm = list(m * mom + np.array(cur_rm) * (1 - mom)); cur_rv = list(v * cnt / (cnt - 1) * mom + np.array(cur_rv) * (1 - mom))
    g = gen_dag.rand_data(rng, sh, -2, 2)
    lines.append(f"t bw {y1} {show_ints(sh)} {show_floats(g)}")
    lines += [f't grad {k}' for k in range(nl)]
    return {'op': 'batch_norm_sequence', 'kind': 'bnseq', 'leaves': [], 'args': [], 'malformed': False, 'nout': 1, 'mom': mom, 'lines': lines,
            'desc': ' ; '.join(lines)[:600]}


FORMULA_THEOREMS = ['src_relu_vjp', 'src_relu_subgradient_at_kink', 'src_leaky_relu_vjp', 'src_selu_vjp', 'src_tanh_vjp', 'src_sigmoid_vjp', 'src_mse_vjp',
                    'src_bce_vjp', 'src_bce_logits_vjp_within_eps', 'model_applies_src_relu', 'model_applies_src_leaky_relu', 'model_applies_src_selu',
                    'model_applies_src_tanh', 'model_applies_src_sigmoid', 'model_applies_src_mse', 'model_scalars_are_src_bce']
REQUIRED_THEOREMS += ['Props.C02.' + t for t in FORMULA_THEOREMS]


def extract():
    """see props/c01.py: the activation / loss formulas are re-read from cpu_ops.py on every run"""
    return formulas.write()[0]


def cases(rng, tier):
    out = []
    out += formula_cases.cases(rng, tier, PROP)
    gen_ops.WIDE_LEVELS = True
    per = 14 if tier == 'quick' else 400
    for op in gen_ops.OPS_NN:
        for _ in range(per * (2 if op in ('fold', 'conv2d', 'max_pool2d') else 1)):
            out.append(base.finish(base.build(rng, op, rng.chance(0.08), gen_ops.gen_nn), rng))
    for _ in range(20 if tier == 'quick' else 600):
        out.append(bnseq_case(rng))
    # every nn op with an INTERIOR first operand that has a second consumer (created before or after the op): both backward
    # functions accumulate into the same non-leaf buffer, in either order (builder and oracle shared with C03)
    from props import c03
    for op in gen_ops.OPS_NN:
        if op in ('max_pool1d', 'max_pool2d'): continue
        for _ in range(3 if tier == 'quick' else 60):
            try:
                c = c03.fanout_case(rng, op)
            except Exception:
                c = None
            if c:
                c.update({'kind': 'fanout', 'op': op + '/fanout', 'nout': 1, 'malformed': False, 'leaves': [((), [0.0], True)], 'args': []})
                out.append(c)
    return out


def impl(c):
    if c.get('kind') == 'formula':
        return formula_cases.impl(c)
    if c.get('kind') == 'fanout':
        return tprog.run_program(c['lines'])
    if c.get('kind') == 'bnseq':
        im = BNExec(); im.momentum = c['mom']
        try:
            return [im.exec(l) for l in c['lines']]
        finally:
            im.close()
    return base.impl(c)


def oracle(c):
    if c.get('kind') == 'formula':
        return None
    if c.get('kind') == 'fanout':
        from props import c03
        f = c03.oracle(c)
        if f: f['case'] = dict(f['case'], kind='fanout')
        return f
    if c.get('kind') == 'bnseq':
        # the gradient of the first (eval-mode) output w.r.t. its input must be g * gamma / sqrt(rv0 + eps): recompute
        io = impl(c)
        l0 = c['lines'][0].split(' ')
        sh = tuple(common.parse_ints(l0[3]))
        hw = c['lines'][1].startswith('t leaf')
        op = [l for l in c['lines'] if l.startswith('t op batch_norm')][0].split(' ')
        eps, rv0 = common.bitsf(op[7]), np.array(common.parse_floats(op[9]))
        gam = np.array(common.parse_floats(c['lines'][1].split(' ')[5])) if hw else np.ones(sh[1])
        bw = [l for l in c['lines'] if l.startswith('t bw')][0].split(' ')
        g = np.array(common.parse_floats(bw[4])).reshape(sh)
        bs = tuple(sh[1] if i == 1 else 1 for i in range(len(sh)))
        want = g * (gam / np.sqrt(rv0 + eps)).reshape(bs)
        got = io[len(c['lines']) - (2 if hw else 1)]
        if got in ('-', 'rejected') or not np.allclose(tprog.parse_arr(got), want, rtol=1e-9, atol=1e-12):
            return {'key': {'op': 'batch_norm', 'cls': 'eval-backward-after-training-forward'}, 'case': {'kind': 'bnseq', 'lines': c['lines'], 'mom': c['mom'], 'op': c['op']},
                    'what': f'the input gradient of an eval-mode batch_norm output, taken after a later training forward through the same running statistics, is {got[:120]}; with the statistics the forward used it is {want.ravel()[:6].tolist()}'}
        return None
    return base.oracle(c)


def rerun_known(k):
    if k['witness'].get('kind') == 'formula-pair': return formula_cases.replay_pair(k['witness'])['fails']
    return oracle(_fix(k['witness'])) is not None
def _fix(c):
    if c.get('kind') == 'fanout':
        from props import c03
        d = c03._unstrip(c); d['kind'] = 'fanout'
        return d
    return c if c.get('kind') == 'bnseq' else base._fix(c)
def replay(fail):
    if fail['case'].get('kind') == 'formula-pair':
        return formula_cases.replay_pair(fail['case'])
    f = oracle(_fix(fail['case']))
    return {'fails': f is not None, 'now': f}


def search(rng, tier):
    yield from formula_cases.pair_search(rng, tier, PROP)
    for op in gen_ops.OPS_NN:
        for _ in range(10):
            c = base.finish(base.build(rng, op, False, gen_ops.gen_nn), rng)
            f = oracle(c)
            if f: yield f
