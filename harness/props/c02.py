"""C02 — backward of every nn op / layer / loss is the vector-Jacobian product (nn/functional.py, cpu_ops.py, conv_tools.py)"""
import common
import gen_ops
from props import c01 as base
from props.c01 import matches_known, nontrivial   # noqa: F401
import numpy as np
import tprog, gen_dag
from common import fbits, show_floats, show_ints

import formulas, formula_cases

PROP = 'C02'
LEAN_TARGETS = ['Props.C02', 'genformulas']      # genformulas: the definitions generated from the source on this run, executable
REQUIRED_THEOREMS = ['Props.C02.linear_vjp', 'Props.C02.mse_vjp', 'Props.C02.nll_vjp', 'Props.C02.dropout_vjp', 'Props.C02.conv1d_vjp', 'Props.C02.conv2d_vjp',
                     'Props.C02.avgpool_vjp', 'Props.C02.relu_vjp', 'Props.C02.sigmoid_vjp', 'Props.C02.maxpool_vjp_subgradient', 'Props.C02.unfold_fold_vjp', 'Props.C02.bce_vjp', 'Props.C02.bce_scalar_deriv', 'Props.C02.bce_logits_vjp',
                     'Props.C02.bce_logits_factor_within_eps', 'Props.C02.maxpool2d_vjp_subgradient', 'Props.C02.batch_norm_eval_vjp', 'Props.C02.batch_norm_train_vjp',
                     'Props.C02.batch_norm_gamma_vjp', 'Props.C02.batch_norm_beta_vjp', 'Props.C02.softmax_vjp', 'Props.C02.log_softmax_vjp', 'Props.C02.cross_entropy_vjp']
UNPROVED = []
RULE = ('per nn op: relu / leaky_relu (any slope) / selu / tanh / sigmoid, softmax and log_softmax along every dim of ranks 1-4, '
        'mse (both arguments) / nll / bce / bce-with-logits / cross-entropy, linear with and without bias, conv1d / conv2d and '
        'max / avg pooling 1d / 2d over a geometry grid (non-square kernels, stride > kernel, dilation, padding, windows that do not '
        'tile), unfold / fold, batch_norm in all 8 (training | eval) x (affine or not) x (running statistics or not) modes at '
        'arbitrary running values; non-uniform upstream gradients, mixed requires_grad, ~8 % malformed configurations. Compared: '
        'accept/reject, values, every operand gradient. Non-trivial: accepted with a differentiable operand. '
        'FAR-OUT magnitudes: every activation and every loss over logits / scores (relu, leaky_relu, selu, tanh, sigmoid, softmax, log_softmax, '
        'bce-with-logits, cross-entropy, nll, mse) with 1-3 entries of its first operand beyond the level at which exp over- / underflows, on '
        'both sides, in binary64 (+-710 ... +-800) and in binary32 (+-90 ... +-255; there the implementation runs on float32 leaves and is '
        'compared with the binary64 model at 1e-4 of the value scale): forward AND every gradient, also after a second sweep. '
        'Every nn op also as a node of a backward history (builder / oracle of C03, see C01). '
        'REQUIRES_GRAD MASKS: for every op with several differentiable operands (linear / conv1d / conv2d with and without bias, batch_norm with '
        'weight and / or bias, mse_loss in both arguments — through the function and through the loss class under every reduction —, and add / '
        'mul / matmul / addmm / concat / stack) EVERY non-empty subset of the differentiable operands requires grad while the others are '
        'constants; the flags arrive at creation, by assignment after creation (freezing or thawing), or — through the layer OBJECT that '
        'holds the operands as nn.Parameter objects — by Module.freeze() / unfreeze() of the layer or of a Sequential around it followed by '
        'assignments to single parameters (weight frozen and bias trainable, and vice versa); the data operand is a leaf or the result of an '
        'earlier op (everything upstream frozen); every operand gradient is compared after one sweep and after a second one. '
        'OBJECT REUSE: every layer / activation / pooling / loss class as ONE object called 2-4 times inside one graph before any backward — inputs of '
        'the same shape again, of another batch size, its own earlier result; train() / eval() switched between the calls; Linear / Conv objects '
        'keep their parameters; BatchNorm / Dropout objects with the statistics / draws dictated per call, a third of them with two training calls '
        'of one Dropout object on same-shape inputs —, then backward through the single results (the earliest first or alone, non-uniform upstream '
        'gradients) and / or their weighted total: each call must back-propagate the function it computed at that call.')
EXHAUSTIVE = {'quick': False, 'thorough': False}
ASSUMPTIONS = base.ASSUMPTIONS + ['relu-family inputs are kept away from the kink, pooling inputs distinct (ties are exercised by the model comparison only)']
TRUSTED_BASE = [t for t in base.TRUSTED_BASE if 'array_formulas' not in t]


class BNExec(tprog.Impl):
    """batch_norm through PERSISTENT running-statistics tensors (as a layer holds them), so that a later training
    forward can disturb what an earlier eval forward saved for its backward"""
    def __init__(self):
        super().__init__()
        self.rm = self.rv = None

    def call_nn(self, name, x, args):
        if name != 'batch_norm':
            return super().call_nn(name, x, args)
        sg = self.sg
        hw, hb, tr = bool(int(args[0])), bool(int(args[1])), bool(int(args[2]))
        if self.rm is None:
            self.rm = sg.Tensor(np.array(common.parse_floats(args[4]), dtype=np.float64))
            self.rv = sg.Tensor(np.array(common.parse_floats(args[5]), dtype=np.float64))
        w = x[1] if hw else None
        b = (x[2] if hw else x[1]) if hb else None
        return sg.batch_norm(x[0], w, b, self.rm, self.rv, tr, self.momentum, common.bitsf(args[3]))


def bnseq_case(rng):
    """eval forward, then training forwards through the same running statistics, then backward of the FIRST output"""
    c = rng.randint(1, 3)
    n = rng.randint(2, 4)
    rest = rng.pick([(), (2,)])
    sh = (n, c) + rest
    eps, mom = rng.pick([1e-5, 1e-3]), rng.pick([0.1, 0.5])
    rm = [rng.dyadic(-1, 1) for _ in range(c)]
    rv = [rng.randint(2, 24) / 8 for _ in range(c)]
    hw = rng.chance(.6)
    leaves = [gen_dag.leaf_line(sh, gen_ops.vals(rng, sh), True)] + ([gen_dag.leaf_line((c,), gen_ops.vals(rng, (c,), 'pos'), True)] if hw else [])
    nl = len(leaves)
    ins = '0,1' if hw else '0'
    lines = list(leaves)
    lines.append(f"t op batch_norm {ins} {int(hw)} 0 0 {fbits(eps)} {show_floats(rm)} {show_floats(rv)}")      # eval, saves the statistics
    y1 = nl
    cur_rm, cur_rv = list(rm), list(rv)
    ntrain = rng.randint(1, 2)
    for k in range(ntrain):
        xs = gen_ops.vals(rng, sh)
        lines.append(gen_dag.leaf_line(sh, xs, False))
        xi = nl + 1 + 2 * k
        # the model is told the running statistics in force at this call (computed here by the documented rule)
        lines.append(f"t op batch_norm {xi} 0 0 1 {fbits(eps)} {show_floats(cur_rm)} {show_floats(cur_rv)}")
        X = np.array(xs).reshape(sh)
        axes = tuple(i for i in range(X.ndim) if i != 1)
        m, v, cnt = X.mean(axes), X.var(axes), X.size / c
        cur_rm = list(m * mom + np.array(cur_rm) * (1 - mom)); cur_rv = list(v * cnt / (cnt - 1) * mom + np.array(cur_rv) * (1 - mom))
    g = gen_dag.rand_data(rng, sh, -2, 2)
    lines.append(f"t bw {y1} {show_ints(sh)} {show_floats(g)}")
    lines += [f't grad {k}' for k in range(nl)]
    return {'op': 'batch_norm_sequence', 'kind': 'bnseq', 'leaves': [], 'args': [], 'malformed': False, 'nout': 1, 'mom': mom, 'lines': lines,
            'desc': ' ; '.join(lines)[:600]}


FAR_OPS = ['relu', 'leaky_relu', 'selu', 'tanh', 'sigmoid', 'softmax', 'log_softmax', 'binary_cross_entropy_with_logits', 'cross_entropy', 'nll_loss', 'mse_loss']
FAR_LEVELS = {'f64': ([800.0, 710.0, 745.5, 1000.0], [-800.0, -745.5, -711.0, -1000.0]),        # exp over- / underflows in binary64 ...
              'f32': ([90.0, 100.0, 255.0, 127.5], [-90.0, -104.0, -150.0, -255.0])}             # ... and in binary32


def far_case(rng, op, level):
    """the op with entries of its first operand far beyond the level at which exp() overflows / underflows in the given precision, on
    both sides: the function is smooth and its value representable there (linear, saturated or shift-invariant), so forward and
    backward have to be right — a backward formula that is only finite for moderate inputs hides here. At the binary32 level the
    implementation runs on float32 leaves (values exactly representable), the model in binary64."""
    hi, lo = FAR_LEVELS[level]
    def gen(r, o, m):
        leaves, args = gen_ops.gen_nn(r, o, False)
        if o in ('softmax', 'log_softmax') and leaves[0][0] == ():
            leaves = [((3,), gen_ops.vals(r, (3,)), True)]; args = [r.pick([0, -1])]
        q = (lambda v: round(v * 64) / 64) if level == 'f32' else (lambda v: v)
        leaves = [tuple([lf[0], [q(v) for v in lf[1]]] + list(lf[2:])) if (lf[3] if len(lf) > 3 else 'f64') == 'f64' else lf for lf in leaves]
        data = list(leaves[0][1])
        pos = r.sample(range(len(data)), min(len(data), r.randint(1, 3)))
        side = r.randrange(2)
        for k, i in enumerate(pos):       # the replaced entries alternate between the two sides
            data[i] = r.pick(hi if (k + side) % 2 == 0 else lo)
        return [tuple([leaves[0][0], data, True] + list(leaves[0][3:]))] + leaves[1:], args
    c = base.finish(base.build(rng, op, False, gen=gen), rng)
    c['kind'] = 'far'; c['level'] = level
    c['op'] = f'{op}/far-{level}'
    return c


def far_run(level):
    def run(lines):
        return tprog.run_program([l.replace('t leaf f64 ', 't leaf f32 ', 1) if level == 'f32' and l.startswith('t leaf f64 ') else l for l in lines])
    return run


# ---- requires_grad masks -------------------------------------------------------------------------------------------------------
# ops with several differentiable operands (SynapModel/OpTableDefs.lean `catalogue`): label / probability targets are not differentiable
MASK_OPS = ['mse_loss', 'linear', 'conv1d', 'conv2d', 'batch_norm', 'add', 'mul', 'matmul', 'addmm', 'concat', 'stack']
LAYER_OPS = ('linear', 'conv1d', 'conv2d', 'batch_norm')
MASK_ROUTES = ['birth', 'assign', 'thaw', 'freeze', 'unfreeze', 'seqfreeze']      # the last three: Module.freeze / unfreeze of a layer object


def mask_variants(op):
    """the operand sets of the op: (label, predicate on the generated arguments)"""
    if op in ('linear', 'conv1d', 'conv2d'):
        return [('bias', lambda a: int(a[0]) == 1), ('nobias', lambda a: int(a[0]) == 0)]
    if op == 'batch_norm':
        return [('gamma+beta', lambda a: int(a[0]) == 1 and int(a[1]) == 1), ('gamma', lambda a: int(a[0]) == 1 and int(a[1]) == 0),
                ('beta', lambda a: int(a[0]) == 0 and int(a[1]) == 1)]
    return [('', lambda a: True)]


def _layer_ok(op, leaves, args):
    """can the call be made through a layer object that owns operands 1.. as its parameters?"""
    if op in ('linear', 'conv1d', 'conv2d'):
        return True
    if op == 'batch_norm':      # an affine layer has both parameters; eval mode needs running statistics
        return int(args[0]) == 1 and int(args[1]) == 1 and (int(args[2]) == 1 or args[4] != '-')
    return False


def mask_case(rng, op, variant, mask, route, xkind, entry='call'):
    """ONE call of the op in which exactly the operands of `mask` (a tuple of booleans over the float operands) require grad.
    route: how the flags get there (see MASK_ROUTES); xkind: the first operand is a 'leaf' or 'interior' (clone / neg of the leaf: with
    its flag off, everything upstream of the call is frozen); entry: 'call' or, for mse_loss, the reduction of the loss class."""
    gen = gen_ops.gen_basic if op in gen_ops.OPS_BASIC else gen_ops.gen_nn
    label, pred = variant
    for _ in range(200):
        leaves, args = gen(rng, op, False)
        if not pred(args): continue
        if op in ('concat', 'stack') and len(leaves) != len(mask): continue
        break
    else:
        return None
    assert all((lf[3] if len(lf) > 3 else 'f64') == 'f64' for lf in leaves) and len(leaves) == len(mask), (op, label, mask)
    nl = len(leaves)
    layer = route in ('freeze', 'unfreeze', 'seqfreeze')
    if layer and not (_layer_ok(op, leaves, args) and nl > 1):
        route, layer = 'assign', False
    params = list(range(1, nl)) if layer else []
    # flags at creation
    if route == 'birth': init = list(mask)
    elif route == 'assign': init = [rng.chance(.7) for _ in mask]
    elif route == 'thaw': init = [False] * nl
    elif route == 'unfreeze': init = [mask[0]] + [False] * (nl - 1)
    else: init = [mask[0]] + [True] * (nl - 1)
    lines = [gen_dag.leaf_line(lf[0], lf[1], init[k]) + (' @param' if k in params else '') for k, lf in enumerate(leaves)]
    if layer:
        lines.append(' '.join(['t layer', op, show_ints(params)] + [str(a) for a in args]))
        for k in params:
            lines.append(f"t setrg {k} {int(route == 'unfreeze')} " + (('@' + route) if k == params[0] else '@same'))
        cur = [init[0]] + [route == 'unfreeze'] * (nl - 1)
    else:
        cur = list(init)
    order = list(range(nl)); rng.shuffle(order)
    for k in order:
        if cur[k] != mask[k] or (route == 'assign' and rng.chance(.2)):       # (now and then an assignment that changes nothing)
            lines.append(f't setrg {k} {int(mask[k])}')
    P = gen_dag.Prog()
    for k, lf in enumerate(leaves):
        P.add_leaf(lf[0], lf[1], bool(mask[k]))
    x = 0
    if xkind == 'interior':
        how = rng.pick(['clone', 'neg'])
        x = P.add_op(how, [0], [], [leaves[0][0]])[0]
        lines.append(f't op {how} 0')
    ins = [x] + list(range(1, nl))
    if entry == 'call':
        opline = ' '.join(['t op', op, show_ints(ins)] + [str(a) for a in args]) + (' @layer' if layer else '')
    else:
        opline = ' '.join(['t loss', op, entry, str(ins[0]), str(ins[1])])
    io = run_masked(lines + [opline] + [f't val {len(P.tshape) + k}' for k in range(2)])
    if io[len(lines)] in ('rejected', 'hidden') or not io[len(lines)].startswith('t'):
        return None
    base_id = len(P.tshape)
    val = io[len(lines) + 1]
    osh = tuple(leaves[0][0]) if entry != 'call' else tuple(common.parse_ints(val.split('|')[0])) if '|' in val else ()
    P.add_op(op, ins, list(args), [osh])
    root = base_id
    if entry in ('mean', 'sum'):
        root = P.add_op(entry, [base_id], ['all', 0], [()])[0]
    rsh = P.tshape[root]
    g = gen_dag.rand_data(rng, rsh, -2, 2)
    keep = rng.chance(.5)
    bw = f"t bw {root} {show_ints(rsh)} {show_floats(g)}"
    q = [f't grad {k}' for k in range(nl)]
    lines = lines + [opline, f't val {root}', f't flags {root}', bw] + q + ([] if keep else [f't zero {k}' for k in range(nl) if mask[k]]) + [bw] + q
    m = ''.join('g' if b else 'c' for b in mask)
    return {'op': f'{op}/rg-mask', 'kind': 'rgmask', 'P': P, 'root': root, 'g': g, 'keep': keep, 'nl': nl, 'lines': lines, 'malformed': False, 'nout': 1,
            'leaves': [(lf[0], lf[1], bool(mask[k])) for k, lf in enumerate(leaves)], 'args': args,
            'mask': {'op': op, 'operands': label, 'mask': m, 'route': route, 'x': xkind, 'entry': entry},
            'desc': ' ; '.join(lines)[:700]}


class MaskExec(tprog.Impl):
    """`@param` leaves are nn.Parameter objects; a `t layer <op> <params> <args>` line builds the layer OBJECT that owns them (registered
    through attribute assignment, as a user would write it); `t setrg k v @freeze | @unfreeze | @seqfreeze` is ONE call of Module.freeze() /
    unfreeze() on the layer (on a Sequential around it), the `@same` lines that follow are its other effects (checked, not executed);
    `t op … @layer` is the call of the layer object."""
    def __init__(self):
        super().__init__()
        self.layer = None

    def run(self, line):
        if '@' not in line and not line.startswith('t layer '):
            return super().run(line)
        t = line.split(' ')
        tags = [a[1:] for a in t if a.startswith('@')]
        clean = ' '.join(a for a in t if not a.startswith('@'))
        nn = self.nn
        if t[1] == 'leaf':
            r = super().run(clean)
            x = self.ts[-1]
            if not isinstance(x, nn.Parameter):
                k = len(self.ts) - 1
                self.ts[k] = x = nn.Parameter(x.data, requires_grad=x.requires_grad)
                if tprog.RESET_ROUTES:      # (set by other property modules: the reset objects built at creation must hold the parameter itself)
                    from synapgrad import optim
                    self.leaf_opt[k] = optim.SGD([x], lr=0.1)
                    mm = nn.Module(); mm.register_parameter('w', x); self.leaf_mod[k] = mm
            return r
        if t[1] == 'layer':
            op, ps, args = t[2], [self.ts[k] for k in common.parse_ints(t[3])], t[4:]
            w = ps[0]; b = ps[1] if len(ps) > 1 else None
            pair = lambda a: tuple(common.parse_ints(a))
            if op == 'linear': m = nn.Linear(w.shape[1], w.shape[0], bias=b is not None)
            elif op == 'conv1d': m = nn.Conv1d(w.shape[1], w.shape[0], w.shape[2], int(args[1]), int(args[2]), int(args[3]), bias=b is not None)
            elif op == 'conv2d': m = nn.Conv2d(w.shape[1], w.shape[0], (w.shape[2], w.shape[3]), pair(args[1]), pair(args[2]), pair(args[3]), bias=b is not None)
            elif op == 'batch_norm':
                track = args[4] != '-'
                m = (nn.BatchNorm2d if self.ts[0].data.ndim == 4 else nn.BatchNorm1d)(w.shape[0], eps=common.bitsf(args[3]), momentum=0.1, affine=True, track_running_stats=track, dtype=np.float64)
                if track:
                    m.running_mean.data = np.array(common.parse_floats(args[4]), dtype=np.float64)
                    m.running_var.data = np.array(common.parse_floats(args[5]), dtype=np.float64)
                m.train() if int(args[2]) else m.eval()
            else: raise KeyError(op)
            m.weight = w
            if b is not None: m.bias = b
            assert [id(p) for p in m.parameters()] == [id(p) for p in ps]
            self.layer = m
            return f'{int(self.tm.gradient__)}{int(self.tm.retain_grads__)}'
        if t[1] == 'setrg':
            v = bool(int(t[3]))
            if tags[0] == 'same':
                assert self.ts[int(t[2])].requires_grad == v
            else:
                obj = nn.Sequential(self.layer) if tags[0] == 'seqfreeze' else self.layer
                (obj.unfreeze if tags[0] == 'unfreeze' else obj.freeze)()
            return 'ok'
        return super().run(clean)

    def call_op(self, name, ins, args):
        if '@layer' in args:
            return self.layer(self.ts[ins[0]])
        return super().call_op(name, ins, args)


def run_masked(lines):
    return tprog.run_program(lines, MaskExec)


def to_model(line):
    """the model sees every flag change as `t setrg`; the construction of a layer object is no event of the engine (`t modes`)"""
    if line.startswith('t layer '): return 't modes'
    return ' '.join(a for a in line.split(' ') if not a.startswith('@')) if ' @' in line else line


def mask_cases(rng, tier, ops=None):
    """every op x operand set x non-empty subset of the operands, each through `reps` (route, first-operand kind) pairs; mse_loss also through
    the loss class under every reduction"""
    import itertools
    out = []
    reps = 2 if tier == 'quick' else 12
    for op in ops or MASK_OPS:
        for variant in mask_variants(op):
            sizes = [2, 3] if op in ('concat', 'stack') else [None]
            for n in sizes:
                if n is None:
                    n = {'mse_loss': 2, 'add': 2, 'mul': 2, 'matmul': 2, 'addmm': 3}.get(op) or \
                        (3 if variant[0] in ('bias', 'gamma+beta') else 2)
                for mask in itertools.product([False, True], repeat=n):
                    if not any(mask): continue
                    for r in range(reps * (2 if op == 'mse_loss' else 1)):
                        layer_first = op in LAYER_OPS and r == 0
                        route = rng.pick(MASK_ROUTES[3:]) if layer_first else rng.pick(MASK_ROUTES[:3] if op not in LAYER_OPS else MASK_ROUTES)
                        entry = ['call', 'none', 'mean', 'sum'][r % 4] if op == 'mse_loss' else 'call'
                        c = mask_case(rng, op, variant, mask, route, rng.pick(['leaf', 'leaf', 'interior']), entry)
                        if c: out.append(c)
    return out


def mask_oracle(c):
    """finite differences of the implementation's own forward against the gradients it leaves in the operands after the first sweep and
    after the second one (which adds to the first unless the operands were zeroed in between)"""
    from props import c03
    if c03.fd_blind(c['P']): return None
    io = run_masked(c['lines'])
    nl = c['nl']
    bws = [k for k, l in enumerate(c['lines']) if l.startswith('t bw')]
    key = {'op': c['mask']['op'], 'rg_mask': True}
    cc = {k: v for k, v in c.items() if k in ('op', 'kind', 'root', 'g', 'keep', 'nl', 'lines', 'mask', 'leaves', 'args')}
    cc['nodes'] = c['P'].nodes; cc['tshape'] = c['P'].tshape
    if any(io[k] == 'rejected' for k in bws):
        return {'key': dict(key, cls='backward-raises'), 'case': cc, 'what': f"{c['mask']}: forward accepted, result requires grad, backward raised"}
    num = c03.fd_grads(c['P'], c['root'], c['g'])
    for sweep, at in enumerate(bws):
        f = 2 if (sweep == 1 and c['keep']) else 1
        for k in range(nl):
            if k not in num: continue
            s = io[at + 1 + k]
            got = np.zeros(len(num[k])) if s in ('-', 'rejected', 'hidden') else tprog.parse_arr(s).ravel()
            if c03.far_apart(got, num[k] * f, 5e-5):
                return {'key': dict(key, cls='gradient'), 'case': cc,
                        'what': f"{c['mask']}: operand {k} (requires grad) holds {got.tolist()} after sweep {sweep + 1}"
                                f"{' (added to the first)' if f == 2 else ''}; finite differences of the forward give {(num[k] * f).tolist()}"}
    return None


def _mask_fix(d):
    P = gen_dag.Prog()
    for nd in d['nodes']:
        if nd['kind'] == 'leaf': P.add_leaf(tuple(nd['shape']), nd['data'], nd['rg'], nd.get('dt', 'f64'))
        else: P.add_op(nd['name'], nd['ins'], nd['args'], [tuple(d['tshape'][o]) for o in nd['outs']])
    return dict(d, P=P, kind='rgmask')


# ---- size thresholds -----------------------------------------------------------------------------------------------------------
# blocked / chunked / vectorised kernels change their code path at round sizes: every extent of every nn op (batch, channels in / out,
# features, spatial extents, kernel, classes, the softmax dim) is put just below, at and just above a power of two while all the other
# extents stay at 1-2 (the cases stay cheap); forward and EVERY operand gradient go through the ordinary comparison with the model
SIZE_BASES = [16, 32]                                  # (quick tier; extents of 127+ cost the model driver minutes per case)
SIZE_ALL = [15, 16, 17, 31, 32, 33, 63, 64, 65]


def size_slots():
    """(op, name of the extent, builder(rng, n) -> (leaves, args)); every leaf requires grad"""
    import gen_ops as G
    V = lambda r, sh, kind='any': G.vals(r, sh, kind)
    L = lambda r, sh, kind='any', rg=True: (sh, V(r, sh, kind), rg)
    P = show_ints
    out = []
    def lin(which):
        def f(r, n):
            d = {'batch': r.randint(1, 2), 'in': r.randint(1, 2), 'out': r.randint(1, 2)}; d[which] = n
            bias = r.chance(.7)
            return [L(r, (d['batch'], d['in'])), L(r, (d['out'], d['in']))] + ([L(r, (d['out'],))] if bias else []), [int(bias)]
        return f
    for w in ('batch', 'in', 'out'): out.append(('linear', w, lin(w)))
    def c1(which):
        def f(r, n):
            d = {'batch': r.randint(1, 2), 'cin': r.randint(1, 2), 'cout': r.randint(1, 2), 'length': r.randint(2, 4), 'kernel': r.randint(1, 2)}; d[which] = n
            s_, p, dl = (r.randint(1, 2), r.randint(0, 1), 1) if which != 'length' else (r.pick([1, 2, 3, 16]), r.randint(0, 1), r.randint(1, 2))
            if which == 'kernel': d['length'] = n + r.randint(0, 2); s_, p, dl = 1, r.randint(0, 1), 1
            bias = r.chance(.7)
            return ([L(r, (d['batch'], d['cin'], d['length'])), L(r, (d['cout'], d['cin'], d['kernel']))] + ([L(r, (d['cout'],))] if bias else []), [int(bias), s_, p, dl])
        return f
    for w in ('batch', 'cin', 'cout', 'length', 'kernel'): out.append(('conv1d', w, c1(w)))
    def c2(which):
        def f(r, n):
            d = {'batch': r.randint(1, 2), 'cin': 1, 'cout': r.randint(1, 2), 'H': r.randint(2, 3), 'W': r.randint(2, 3), 'kh': r.randint(1, 2), 'kw': r.randint(1, 2)}; d[which] = n
            st, pd = (r.randint(1, 2), r.randint(1, 2)), (r.randint(0, 1), r.randint(0, 1))
            if which in ('H', 'W'): st = (r.pick([1, 2, 16]), r.pick([1, 2, 16]))
            if which == 'kh': d['H'] = n + r.randint(0, 1); st = (1, 1)
            if which == 'kw': d['W'] = n + r.randint(0, 1); st = (1, 1)
            bias = r.chance(.7)
            return ([L(r, (d['batch'], d['cin'], d['H'], d['W'])), L(r, (d['cout'], d['cin'], d['kh'], d['kw']))] + ([L(r, (d['cout'],))] if bias else []),
                    [int(bias), P(st), P(pd), P((1, 1))])
        return f
    for w in ('batch', 'cin', 'cout', 'H', 'W', 'kh', 'kw'): out.append(('conv2d', w, c2(w)))
    def p1(op, which):
        def f(r, n):
            d = {'batch': 1, 'channels': r.randint(1, 2), 'length': r.randint(2, 4), 'kernel': r.randint(1, 2)}; d[which] = n
            s_ = r.randint(1, 2)
            if which == 'length': d['kernel'] = r.pick([1, 2, 3, 16, 17]); s_ = r.pick([1, 2, d['kernel']])
            if which == 'kernel': d['length'] = n + r.randint(0, 3); s_ = r.randint(1, 2)
            sh = (d['batch'], d['channels'], d['length'])
            return [L(r, sh, 'distinct' if op.startswith('max') else 'any')], [d['kernel'], s_, 0, 1]
        return f
    def p2(op, which):
        def f(r, n):
            d = {'batch': 1, 'channels': r.randint(1, 2), 'H': r.randint(2, 3), 'W': r.randint(2, 3)}; d[which] = n
            k = (r.randint(1, 2), r.randint(1, 2)); st = (r.randint(1, 2), r.randint(1, 2))
            sh = (d['batch'], d['channels'], d['H'], d['W'])
            return [L(r, sh, 'distinct' if op.startswith('max') else 'any')], [P(k), P(st), P((0, 0)), P((1, 1))]
        return f
    for op in ('max_pool1d', 'avg_pool1d'):
        for w in ('batch', 'channels', 'length', 'kernel'): out.append((op, w, p1(op, w)))
    for op in ('max_pool2d', 'avg_pool2d'):
        for w in ('batch', 'channels', 'H', 'W'): out.append((op, w, p2(op, w)))
    def bn(which):
        def f(r, n):
            d = {'batch': r.randint(2, 3), 'channels': r.randint(1, 2), 'spatial': None}; d[which] = n
            rest = () if d['spatial'] is None and r.chance(.5) else (d['spatial'] or r.randint(1, 2),)
            c = d['channels']; sh = (d['batch'], c) + rest
            hw, hb, tr, track = r.chance(.7), r.chance(.7), r.chance(.6), r.chance(.6)
            leaves = [L(r, sh)] + ([L(r, (c,), 'pos')] if hw else []) + ([L(r, (c,))] if hb else [])
            rm = show_floats([r.dyadic(-1, 1) for _ in range(c)]) if track else '-'
            rv = show_floats([r.randint(2, 24) / 8 for _ in range(c)]) if track else '-'
            return leaves, [int(hw), int(hb), int(tr), fbits(r.pick([1e-5, 1e-3])), rm, rv]
        return f
    for w in ('batch', 'channels', 'spatial'): out.append(('batch_norm', w, bn(w)))
    def cls(op, which):
        def f(r, n):
            d = {'batch': r.randint(1, 3), 'classes': r.randint(2, 3)}; d[which] = n
            labels = [r.randrange(d['classes']) for _ in range(d['batch'])]
            if which == 'classes': labels[0] = r.pick([n - 1, n - 2, 0])
            return [L(r, (d['batch'], d['classes'])), ((d['batch'],), [float(v) for v in labels], False, 'i64')], [P(labels)]
        return f
    for op in ('nll_loss', 'cross_entropy'):
        for w in ('batch', 'classes'): out.append((op, w, cls(op, w)))
    def pair(op, which):
        def f(r, n):
            sh = {'batch': (n, r.randint(1, 2)), 'features': (r.randint(1, 2), n), 'elements': (n,)}[which]
            m = int(np.prod(sh))
            if op == 'mse_loss': return [L(r, sh), L(r, sh)], []
            if op == 'binary_cross_entropy': return [L(r, sh, 'prob'), (sh, [float(r.randint(0, 1)) for _ in range(m)], False)], []
            return [L(r, sh), (sh, [float(r.randint(0, 1)) for _ in range(m)], False)], []
        return f
    for op in ('mse_loss', 'binary_cross_entropy', 'binary_cross_entropy_with_logits'):
        for w in ('batch', 'features', 'elements'): out.append((op, w, pair(op, w)))
    def sm(op, which):
        def f(r, n):
            sh = (n, r.randint(1, 2)) if which == 'softmax dim' else (r.randint(1, 2), n) if which == 'other dim' else (n,)
            return [L(r, sh)], [0 if which != 'other dim' else r.pick([0, -2])]
        return f
    for op in ('softmax', 'log_softmax'):
        for w in ('softmax dim', 'other dim', 'only dim'): out.append((op, w, sm(op, w)))
    def act(op):
        def f(r, n):
            sh = r.pick([(n,), (n, 1), (1, n)])
            return [(sh, G.nonkink(r, sh), True)], ([fbits(r.pick([0.01, 0.2]))] if op == 'leaky_relu' else [])
        return f
    for op in ('relu', 'leaky_relu', 'selu', 'tanh', 'sigmoid'): out.append((op, 'elements', act(op)))
    def unf(which):
        def f(r, n):
            d = {'batch': 1, 'channels': r.randint(1, 2), 'H': r.randint(2, 3), 'W': r.randint(2, 3)}; d[which] = n
            k = (r.randint(1, 2), r.randint(1, 2)); st = (r.randint(1, 2), r.randint(1, 2)); pd = (r.randint(0, 1), r.randint(0, 1))
            return [L(r, (d['batch'], d['channels'], d['H'], d['W']))], [P(k), P((1, 1)), P(st), P(pd), fbits(0.0)]
        return f
    for w in ('batch', 'channels', 'H', 'W'): out.append(('unfold', w, unf(w)))
    def fol(which):
        def f(r, n):
            d = {'batch': 1, 'channels': r.randint(1, 2), 'H': r.randint(2, 3), 'W': r.randint(2, 3)}; d[which] = n
            k = (r.randint(1, 2), r.randint(1, 2)); st = (r.randint(1, 2), r.randint(1, 2)); pd = (r.randint(0, 1), r.randint(0, 1))
            lh = (d['H'] + 2 * pd[0] - k[0]) // st[0] + 1; lw = (d['W'] + 2 * pd[1] - k[1]) // st[1] + 1
            return [L(r, (d['batch'], d['channels'] * k[0] * k[1], lh * lw))], [P((d['H'], d['W'])), P(k), P((1, 1)), P(st), P(pd)]
        return f
    for w in ('batch', 'channels', 'H', 'W'): out.append(('fold', w, fol(w)))
    return out


def size_cases(rng, tier):
    """quick: per (op, extent) one drawn power of two p with the three sizes p - 1, p, p + 1; thorough: every size of SIZE_ALL, three times"""
    out = []
    for op, which, f in size_slots():
        sizes = [n for p in [rng.pick(SIZE_BASES)] for n in (p - 1, p, p + 1)] if tier == 'quick' else SIZE_ALL
        for n in sizes:
            c = base.finish(base.build(rng, op, False, gen=lambda r, o, m, f=f, n=n: f(r, n)), rng)
            c['size'] = {'op': op, 'extent': which, 'n': n}
            out.append(c)
    return out


FORMULA_THEOREMS = ['src_relu_vjp', 'src_relu_subgradient_at_kink', 'src_leaky_relu_vjp', 'src_selu_vjp', 'src_tanh_vjp', 'src_sigmoid_vjp', 'src_mse_vjp',
                    'src_bce_vjp', 'src_bce_logits_vjp_within_eps', 'model_applies_src_relu', 'model_applies_src_leaky_relu', 'model_applies_src_selu',
                    'model_applies_src_tanh', 'model_applies_src_sigmoid', 'model_applies_src_mse', 'model_scalars_are_src_bce']
REQUIRED_THEOREMS += ['Props.C02.' + t for t in FORMULA_THEOREMS]


def extract():
    """see props/c01.py: the activation / loss formulas are re-read from cpu_ops.py on every run"""
    return formulas.write()[0]


def cases(rng, tier):
    out = []
    out += formula_cases.cases(rng, tier, PROP)
    gen_ops.WIDE_LEVELS = True
    per = 14 if tier == 'quick' else 400
    for op in gen_ops.OPS_NN:
        for _ in range(per * (2 if op in ('fold', 'conv2d', 'max_pool2d') else 1)):
            out.append(base.finish(base.build(rng, op, rng.chance(0.08), gen_ops.gen_nn), rng))
    for _ in range(20 if tier == 'quick' else 600):
        out.append(bnseq_case(rng))
    # every nn op with an INTERIOR first operand that has a second consumer (created before or after the op): both backward
    # functions accumulate into the same non-leaf buffer, in either order (builder and oracle shared with C03)
    from props import c03
    for op in gen_ops.OPS_NN:
        if op in ('max_pool1d', 'max_pool2d'): continue
        for _ in range(3 if tier == 'quick' else 60):
            try:
                c = c03.fanout_case(rng, op)
            except Exception:
                c = None
            if c:
                c.update({'kind': 'fanout', 'op': op + '/fanout', 'nout': 1, 'malformed': False, 'leaves': [((), [0.0], True)], 'args': []})
                out.append(c)
    # far-out magnitudes, both sides, at the binary64 and the binary32 overflow level: forward and backward of every activation / loss
    for op in FAR_OPS:
        for level in ('f64', 'f32'):
            for _ in range(3 if tier == 'quick' else 80):
                out.append(far_case(rng, op, level))
    # every nn op as a node of a backward history (operand shared with other consumers, several roots, accumulation; see C03 / C01)
    for op in gen_ops.OPS_NN:
        for _ in range(2 if tier == 'quick' else 40):
            c = c03.shared_case(rng, op)
            if c:
                c['order'] = c['P'].topo_shuffle(rng)
                c.update({'op': op + '/history', 'nout': 1, 'malformed': False, 'leaves': [((), [0.0], True)], 'args': []})
                out.append(c)
    # every non-empty subset of the differentiable operands of every multi-operand op requires grad, the others are constants
    out += mask_cases(rng, tier)
    out += reuse_cases(rng, tier)
    # every run: max pooling over a window of MORE THAN 256 elements whose maximum sits at the LAST window position (offset >= 256: it does
    # not fit a byte), 1-d and 2-d, appended after the drawn cases so that their stream is not moved
    big = []
    Ln = rng.randint(300, 330)
    big.append(('max_pool1d', (1, 1, Ln), [Ln, 1, 0, 1]))
    big.append(('max_pool2d', (1, 1, 17, 17), [show_ints((17, 17)), show_ints((1, 1)), show_ints((0, 0)), show_ints((1, 1))]))
    # every extent of every nn op just below / at / just above a power of two, the other extents at 1-2
    out += size_cases(rng, tier)
    for op_, sh_, args_ in big:
        n_ = int(np.prod(sh_))
        data_ = [float(v) / 8 for v in range(-n_ // 2, -n_ // 2 + n_)]                      # ascending in row-major order
        fixed = lambda r, o, m, sh_=sh_, data_=data_, args_=args_: ([(sh_, data_, True)], list(args_))
        out.append(base.finish(base.build(rng, op_, False, gen=fixed), rng))
    return out


def reuse_cases(rng, tier):
    """LAYER OBJECTS called several times in one graph BEFORE any backward (builders, executor and oracle of C03): every layer / activation /
    pooling / loss class on same-shape and other-shape inputs in train and eval mode (object_case), BatchNorm / Dropout objects with
    dictated statistics / draws (stateful_case) — a third of those with two training calls of one Dropout object on same-shape inputs —;
    then backward through the results one by one (the earliest first, or only the earliest) and / or through their total: every call
    must back-propagate the function IT computed (the mask / statistics in force at that call)"""
    from props import c03
    out = []
    def add(c, name):
        if c:
            c.update({'order': None, 'op': name, 'nout': 1, 'malformed': False, 'leaves': [((), [0.0], True)], 'args': []})
            out.append(c)
    for op in c03.OBJ_OPS:
        for _ in range(2 if tier == 'quick' else 60):
            add(c03.object_case(rng, op), op + '/object-reuse')
    for k in range(36 if tier == 'quick' else 1500):
        add(c03.stateful_case(rng, each='do' if k % 3 == 0 else True), 'stateful-layer/object-reuse')
    return out


def distribution(cases):
    d = base.distribution(cases)
    mk = [c['mask'] for c in cases if c.get('kind') == 'rgmask']
    d['requires_grad masks: cases'] = len(mk)
    per = {}
    for m in mk:
        for k in (f"rg-mask/route={m['route']}", f"rg-mask/first operand={m['x']}", f"rg-mask/entry={m['entry']}"):
            d[k] = d.get(k, 0) + 1
        q = per.setdefault(f"rg-mask/{m['op']}{'/' + m['operands'] if m['operands'] else ''} (g: requires grad, c: constant)", {})
        q[m['mask']] = q.get(m['mask'], 0) + 1
    for k, q in per.items():
        d[k] = ' '.join(f'{m}={n}' for m, n in sorted(q.items()))
    for c in cases:
        z = c.get('size')
        if z:
            k = f"size thresholds/{z['op']}: extent `{z['extent']}` at"
            d[k] = (d.get(k, '') + f" {z['n']}{'(rejected)' if c['nout'] == 0 else ''}").strip()
    d['size thresholds: cases'] = sum(1 for c in cases if c.get('size'))
    ru = [c for c in cases if c.get('reuse')]
    if ru:
        from props import c03
        d.update({k: v for k, v in c03.distribution(ru).items() if k.startswith(('object reuse', 'stateful'))})
        d['object reuse/one Dropout object, two training calls on same-shape inputs, backward through the first result'] = \
            sum(1 for c in ru if any(k.startswith('do') and 'train' in m and 'train' in m[m.find('train') + 5:] for k, m in (c.get('stateful') or {}).items()) and c['reuse']['earliest result first'])
    return d


def compare(c, mo, io):
    if c.get('kind') == 'far' and c['level'] == 'f32':
        return tprog.diff_program(c['lines'], mo, io, rtol=1e-4)
    return base.compare(c, mo, io)


def impl(c):
    if c.get('kind') == 'formula':
        return formula_cases.impl(c)
    if c.get('kind') == 'fanout':
        return tprog.run_program(c['lines'])
    if c.get('kind') == 'far':
        return far_run(c['level'])(c['lines'])
    if c.get('kind') == 'rgmask':
        return run_masked(c['lines'])
    if c.get('kind') == 'bnseq':
        im = BNExec(); im.momentum = c['mom']
        try:
            return [im.exec(l) for l in c['lines']]
        finally:
            im.close()
    return base.impl(c)


def oracle(c):
    if c.get('kind') == 'formula':
        return None
    if c.get('kind') == 'hist':
        return base.oracle(c)
    if c.get('kind') == 'rgmask':
        return mask_oracle(c)
    if c.get('kind') == 'fanout':
        from props import c03
        f = c03.oracle(c)
        if f: f['case'] = dict(f['case'], kind='fanout')
        return f
    if c.get('kind') == 'bnseq':
        # the gradient of the first (eval-mode) output w.r.t. its input must be g * gamma / sqrt(rv0 + eps): recompute
        io = impl(c)
        l0 = c['lines'][0].split(' ')
        sh = tuple(common.parse_ints(l0[3]))
        hw = c['lines'][1].startswith('t leaf')
        op = [l for l in c['lines'] if l.startswith('t op batch_norm')][0].split(' ')
        eps, rv0 = common.bitsf(op[7]), np.array(common.parse_floats(op[9]))
        gam = np.array(common.parse_floats(c['lines'][1].split(' ')[5])) if hw else np.ones(sh[1])
        bw = [l for l in c['lines'] if l.startswith('t bw')][0].split(' ')
        g = np.array(common.parse_floats(bw[4])).reshape(sh)
        bs = tuple(sh[1] if i == 1 else 1 for i in range(len(sh)))
        want = g * (gam / np.sqrt(rv0 + eps)).reshape(bs)
        got = io[len(c['lines']) - (2 if hw else 1)]
        if got in ('-', 'rejected') or not np.allclose(tprog.parse_arr(got), want, rtol=1e-9, atol=1e-12):
            return {'key': {'op': 'batch_norm', 'cls': 'eval-backward-after-training-forward'}, 'case': {'kind': 'bnseq', 'lines': c['lines'], 'mom': c['mom'], 'op': c['op']},
                    'what': f'the input gradient of an eval-mode batch_norm output, taken after a later training forward through the same running statistics, is {got[:120]}; with the statistics the forward used it is {want.ravel()[:6].tolist()}'}
        return None
    if c.get('kind') == 'far':
        # the gradients under judgement come from the run at the case's precision; the finite differences from the binary64 forward
        cc = dict(c, op=c['op'].split('/')[0])
        f = base.oracle(cc, run=far_run(c['level']), tol=5e-5 if c['level'] == 'f64' else 2e-3)
        if f:
            f['key'] = dict(f['key'], level=c['level']); f['case'] = dict(f['case'], kind='far', level=c['level'])
        return f
    if c['op'] == 'batch_norm' and c.get('leaves') and any(abs(v) >= 2.0 ** 20 for v in c['leaves'][0][1]):
        return None        # data riding on a level of 2^26: a finite-difference step of 1e-6 is below their resolution
    if c['op'].startswith('max_pool') and c.get('leaves') and len(set(c['leaves'][0][1])) != len(c['leaves'][0][1]):
        return None        # equal entries: where two of them share a window the function has a kink and finite differences say nothing
    return base.oracle(c)


def rerun_known(k):
    if k['witness'].get('kind') == 'formula-pair': return formula_cases.replay_pair(k['witness'])['fails']
    return oracle(_fix(k['witness'])) is not None
def _fix(c):
    if c.get('kind') == 'rgmask':
        return _mask_fix(c)
    if c.get('kind') == 'fanout':
        from props import c03
        d = c03._unstrip(c); d['kind'] = 'fanout'
        return d
    if c.get('kind') == 'far':
        d = base._fix(dict(c)); d['kind'] = 'far'; d['level'] = c['level']
        return d
    return c if c.get('kind') == 'bnseq' else base._fix(c)
def replay(fail):
    if fail['case'].get('kind') == 'formula-pair':
        return formula_cases.replay_pair(fail['case'])
    f = oracle(_fix(fail['case']))
    return {'fails': f is not None, 'now': f}


def search(rng, tier):
    yield from formula_cases.pair_search(rng, tier, PROP)
    for op in gen_ops.OPS_NN:
        for _ in range(10):
            c = base.finish(base.build(rng, op, False, gen_ops.gen_nn), rng)
            f = oracle(c)
            if f: yield f
    for c in mask_cases(rng, 'quick', [op for op in MASK_OPS if op in gen_ops.OPS_NN]):
        f = oracle(c)
        if f: yield f
    for c in reuse_cases(rng, 'quick'):
        f = oracle(c)
        if f: yield f
