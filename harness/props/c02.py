"""C02 — backward of every nn op / layer / loss is the vector-Jacobian product (nn/functional.py, cpu_ops.py, conv_tools.py)"""
import common
import gen_ops
from props import c01 as base
from props.c01 import impl, compare, distribution, matches_known, rerun_known, replay, nontrivial   # noqa: F401

PROP = 'C02'
LEAN_TARGETS = ['Props.C02']
REQUIRED_THEOREMS = ['Props.C02.linear_vjp', 'Props.C02.mse_vjp', 'Props.C02.nll_vjp', 'Props.C02.dropout_vjp']
RULE = ('per nn op: relu / leaky_relu (any slope) / selu / tanh / sigmoid, softmax and log_softmax along every dim of ranks 1-4, '
        'mse (both arguments) / nll / bce / bce-with-logits / cross-entropy, linear with and without bias, conv1d / conv2d and '
        'max / avg pooling 1d / 2d over a geometry grid (non-square kernels, stride > kernel, dilation, padding, windows that do not '
        'tile), unfold / fold, batch_norm in all 8 (training | eval) x (affine or not) x (running statistics or not) modes at '
        'arbitrary running values; non-uniform upstream gradients, mixed requires_grad, ~8 % malformed configurations. Compared: '
        'accept/reject, values, every operand gradient. Non-trivial: accepted with a differentiable operand.')
EXHAUSTIVE = {'quick': False, 'thorough': False}
ASSUMPTIONS = base.ASSUMPTIONS + ['relu-family inputs are kept away from the kink, pooling inputs distinct (ties are exercised by the model comparison only)']
TRUSTED_BASE = base.TRUSTED_BASE


def cases(rng, tier):
    out = []
    per = 14 if tier == 'quick' else 400
    for op in gen_ops.OPS_NN:
        for _ in range(per):
            out.append(base.finish(base.build(rng, op, rng.chance(0.08), gen_ops.gen_nn), rng))
    return out


def oracle(c):
    return base.oracle(c)


def search(rng, tier):
    for op in gen_ops.OPS_NN:
        for _ in range(10):
            c = base.finish(base.build(rng, op, False, gen_ops.gen_nn), rng)
            f = oracle(c)
            if f: yield f
