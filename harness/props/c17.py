"""C17 — deep graphs, each op visited once, untracked computations keep no history"""
import gc, io, os, sys, time, types, weakref, collections, contextlib, tracemalloc
import numpy as np
import common
from common import show_floats, show_ints, fbits
import tprog, gen_dag

PROP = 'C17'
LEAN_TARGETS = ['Props.C17']
REQUIRED_THEOREMS = ['Props.C17.each_fn_once', 'Props.C17.trace_linear', 'Props.C17.postorder_covers_reachable',
                     'Props.C17.untracked_has_no_history', 'Props.C17.loop_is_iterative_and_linear']
REQUIRED_THEOREMS += ['Props.C17.src_explicit_stack_skeleton', 'Props.C17.src_explicit_stack_step']   # ties to tensor.py as read on this run
REQUIRED_THEOREMS += ['Props.C17.backward_keeps_modes', 'Props.C17.untracked_after_backward']
REQUIRED_THEOREMS += ['Props.C17.src_creation_rule_is_model', 'Props.C17.src_ctx_new_is_model', 'Props.C17.src_ctx_enter_is_model', 'Props.C17.src_ctx_exit_is_model']   # the untracked half rests on these
RULE = ('chains of depth 10..2000 (quick) / 5000 (thorough) and wide fan-out graphs over add/mul/neg/clone, run through the '
        'model and the implementation with the full engine trace compared (each recorded op called exactly once, in a topological '
        'order); programs whose ops run under no_grad or on operands that do not require grad — every op of the catalogue, optional operands absent included — (results must hold no children and '
        'no grad_fn), also as the very first statements of a fresh interpreter (first tensor created inside a pre-entered context). Runtime residue observed on the implementation only: a chain of 50 000 ops back-propagates (no recursion '
        'limit) with one call per op and linear time; operands of untracked results are freed (weakref) in a loop of 100 000 '
        'untracked updates. '
        'WORK (kind work, implementation only): graphs of nine shapes — one op with k operands (stack / concat), k consumers of one tensor, one multi-output op with k consumed outputs, '
        'a lattice, a binary reduction tree, a chain, nested fan-in, one op whose k operands are the same tensor, dense layers (edges >> nodes) — built at size k and 2k; the work of backward() is '
        'counted deterministically (line events and calls of synapgrad frames through sys.settrace + calls of Tensor.__hash__/__eq__, which stand in for the C-level set / list look-ups) and must grow at most linearly '
        '(work(2k)/work(k) < 2.5; quadratic gives ~4), with exactly one grad_fn call per recorded op. '
        'The count also sees what is done OUTSIDE the package on behalf of backward(): line events of every other Python frame entered during the call, calls into C-level functions (sys.setprofile c_call), and the garbage collections '
        'that run during the call weighted by the number of objects each has to scan (gc.callbacks; automatic collection is off for the duration, so these are collections the code asked for) — the sum AND each component on its own must grow at most linearly; '
        'next to the graphs of hundreds of ops every run builds LARGE ones (>= 2000 recorded ops at k, >= 4000 at 2k: chain and fan-out always, the other shapes drawn / all in the thorough tier), so that anything done once per N nodes or per N backward-function calls shows. '
        'REPEATED backward() over the same graph with retained intermediates (retain_grads block around construction and calls / retain_grad() on every computed node / on runs of nodes; leaf gradients left, zero_()ed, rebound or dropped between the calls): the work of EVERY call (1st, 2nd, 3rd) is counted at k and 2k and must stay linear, '
        'chains of >= 5000 recorded ops with every intermediate retained (block and marks) occur in every run and must complete on every call; a count that runs away (> 1500 units per node + edge) is abandoned and the family is compared at smaller sizes instead. '
        'LOOPS (kind loop, implementation only): untracked loops (no_grad around the loop / per step, or operands none of which requires grad) of N and then 3N more steps over randomly chosen step templates with '
        'STEP-DEPENDENT Python scalars (float, int, NumPy scalars, data-dependent), operators and r-operators, varying shapes, slicing, stack/unbind, reductions, activations, matmul, modules and losses; '
        'between the two phases nothing may grow: live Tensor objects (gc), gc-tracked objects, the size of every module-level / class-level / function-default / closure container of the synapgrad modules, traced memory. '
        'EVENTS inside the untracked region (one every 2..9 steps, drawn per case; every event occurs inside a no_grad region in every run): backward() of a graph recorded before the region (scalar root, loss of a model, twice in a row, a call that raises), '
        'optimizer.step() (SGD / momentum / Adam), zero_grad, Module.eval()/train() with forwards, nested no_grad / retain_grads blocks entered and left (also by exception, also by a layer rejecting its input), Trainer.test, Evaluator — after each event a result computed in the region must be untracked '
        '(no grad_fn, no operands, requires_grad False), and nothing may grow.  VIEW loops: the state is replaced by a view of itself in every step and the previous tensor dropped — one loop per op that can return a view (reshape, flatten, nn.Flatten, transpose, movedim, moveaxis, squeeze, unsqueeze, slicing, unbind, chains of views) and loops over drawn subsets, shapes of rank 1..6, method and function spellings; '
        'after every step the new state must not reach ANY other Tensor through its attributes (walk of gc.get_referents: instance dictionary, containers, closures, callable objects), and the live-Tensor / object / memory counts after N and 4N steps are compared as for the other loops.  The same walk is run on every untracked result of the op-sequence programs (every op of the catalogue) and on the final state / the probes of every loop.  The op-sequence programs (kind untracked) also call backward() of an earlier recorded graph inside the blocks and compare the modes and the flags of later results with the model. '
        'Non-trivial: depth >= 200 or fan-out >= 50 or an untracked op or a work / loop case.')
EXHAUSTIVE = {'quick': False, 'thorough': False}
ASSUMPTIONS = ['CPython reference counting frees unreachable tensors promptly (observed through weakref after gc.collect)']
TRUSTED_BASE = ['harness/tprog.py']
TRUSTED_BASE = TRUSTED_BASE + ['harness/engine_logic.py (reading of the conditions, context transitions, loop skeletons and class method surfaces of tensor.py / nn/modules.py, Generated/EngineLogic.lean; the Boolean translation is validated on every run by the `logic` family of C07)']


def chain(rng, depth, pos='first'):
    """`pos`: the operand position through which the chain runs deep ('first', 'second', or alternating 'mixed')"""
    lines = [gen_dag.leaf_line((2,), [1.0, -0.5], True), gen_dag.leaf_line((2,), [0.5, 2.0], rng.chance(.5))]
    cur = 0
    nt = 2
    for k in range(depth):
        r = rng.random()
        if pos == 'second' or (pos == 'mixed' and k % 2):
            lines.append(f't op {"add" if r < .8 or k % 50 else "mul"} 1,{cur}')
        elif r < .5: lines.append(f't op add {cur},1')
        elif r < .7: lines.append(f't op neg {cur}')
        elif r < .85: lines.append(f't op clone {cur}')
        else: lines.append(f't op add {cur},{cur}') if rng.chance(.3) else lines.append(f't op mul {cur},1') if k % 50 == 0 else lines.append(f't op add 1,{cur}')
        cur = nt; nt += 1
    # retain_grad() on one tensor close to the root and one close to the leaves: only THEY keep their gradient after the sweep,
    # every other intermediate releases its buffer (memory of a deep graph stays one gradient, not depth many)
    marks = [max(2, cur - rng.randint(1, 3)), min(cur, 2 + rng.randint(0, 3))] if depth >= 10 and rng.chance(.6) else []
    for m_ in marks: lines.append(f't retain {m_}')
    lines.append(f't bw {cur} 2 {show_floats([1.0, -2.0])}')
    lines += ['t grad 0', 't grad 1', f't grad {cur}', f't flags {cur}']
    probe = sorted(set([2, 3, cur - 1, cur - 2, cur // 2, cur // 3] + marks + [rng.randint(2, cur) for _ in range(6)]))
    lines += [f't grad {k}' for k in probe if 2 <= k <= cur]
    return {'kind': 'chain', 'depth': depth, 'lines': lines}


def wide(rng, width):
    lines = [gen_dag.leaf_line((2,), [1.0, 3.0], True)]
    nt = 1
    outs = []
    for k in range(width):
        lines.append(rng.pick([f't op mul 0,0', f't op neg 0', f't op add 0,0', 't op clone 0']))
        outs.append(nt); nt += 1
    acc = outs[0]
    for o in outs[1:]:
        lines.append(f't op add {acc},{o}'); acc = nt; nt += 1
    lines.append(f't bw {acc} 2 {show_floats([0.5, 1.0])}')
    lines += ['t grad 0']
    return {'kind': 'wide', 'width': width, 'lines': lines}


def untracked(rng):
    # two no_grad objects constructed up front (while tracking is on) and entered later, also one inside the other
    lines = [gen_dag.leaf_line((2,), [1.0, 3.0], True), gen_dag.leaf_line((2,), [2.0, 1.0], False), 't ctx new ng', 't ctx new ng']
    nt = 2
    # a graph recorded BEFORE the blocks are entered: backward() is called on it INSIDE them (the block goes on afterwards)
    recorded = None
    if rng.chance(.6):
        lines.append(rng.pick(['t op mul 0,0', 't op add 0,1', 't op neg 0'])); recorded = nt; nt += 1
    inside = False
    inner = False
    for _ in range(rng.randint(4, 14)):
        r = rng.random()
        if r < .2 and not inner:
            lines.append('t ctx exit 0' if inside else 't ctx enter 0'); inside = not inside
            continue
        if r < .35 and inside:
            lines.append('t ctx exit 1' if inner else 't ctx enter 1'); inner = not inner
            continue
        if r < .5 and inside and recorded is not None:
            lines += [f't bw {recorded} 2 {show_floats([1.0, rng.dyadic()])}', 't modes']
            continue
        a = rng.randrange(nt); b = rng.randrange(nt)
        lines.append(rng.pick([f't op add {a},{b}', f't op mul {a},{b}', f't op neg {a}', f't op sum {a} all 0', f't op reshape {a} -1']))
        lines.append(f't flags {nt}'); nt += 1
    if inner: lines.append('t ctx exit 1')
    if inside: lines.append('t ctx exit 0')
    return {'kind': 'untracked', 'bw_inside': sum(1 for l in lines if l.startswith('t bw')), 'lines': lines}


def fresh(rng):
    """run in a fresh interpreter: the FIRST tensors of the process are created inside a pre-entered context (an inference script
    that starts with `with no_grad():`); untracked results must hold no history there either, and the modes must be what the
    contexts say"""
    kind = rng.pick(['ng', 'ng', 'rg'])
    lines = [f't ctx new {kind}', 't ctx enter 0', 't modes', gen_dag.leaf_line((2,), [1.0, 3.0], True), 't modes', gen_dag.leaf_line((2,), [2.0, 1.0], False), 't flags 0']
    nt = 2
    for _ in range(rng.randint(2, 6)):
        a = rng.randrange(nt); b = rng.randrange(nt)
        lines.append(rng.pick([f't op add {a},{b}', f't op mul {a},{b}', f't op neg {a}', f't op sum {a} all 0']))
        lines.append(f't flags {nt}'); nt += 1
    lines += ['t modes', 't ctx exit 0', 't modes', 't op mul 0,1', f't flags {nt}']
    return {'kind': 'fresh', 'lines': lines}


def catalogue_untracked(rng, op, ng=None):
    """EVERY op of the catalogue (arguments from the per-op generators) computed untracked — inside no_grad with operands of
    either flag, or with tracking on from operands none of which requires grad (optional operands absent included): every
    result must come out without operands and without a backward function"""
    import gen_ops
    gen = gen_ops.gen_basic if op in gen_ops.OPS_BASIC else gen_ops.gen_nn
    leaves, args = gen(rng, op, False)
    if op in ('linear', 'conv1d', 'conv2d') and len(leaves) == 3 and rng.chance(.5):     # the optional bias absent
        leaves, args = leaves[:2], [0] + list(args[1:])
    ng = rng.chance(.5) if ng is None else ng
    leaves = [tuple(list(lf[:2]) + [((k == 0 or rng.chance(.6)) if ng else False) if len(lf) < 4 or lf[3] != 'i64' else False] + list(lf[3:])) for k, lf in enumerate(leaves)]
    prog = gen_ops.program({'op': op, 'leaves': leaves, 'args': args}, rng)
    nl = len(leaves)
    lines = prog[:nl] + (['t ctx new ng', 't ctx enter 0'] if ng else []) + prog[nl:] + (['t ctx exit 0'] if ng else [])
    io = tprog.run_program(lines)
    res = io[nl + (2 if ng else 0)]
    nout = 0 if res in ('rejected', 'hidden') or not res.startswith('t') else len(res.split(','))
    lines += [f't flags {k}' for k in range(nl, nl + nout)]
    if nout:
        lines += [f't op mul {nl},{nl}', f't flags {nl + nout}']
    return {'kind': 'untracked', 'op': op, 'lines': lines}



def extract():
    """the statement skeleton of the explicit-stack traversal is re-read from tensor.py (Generated/EngineLogic.lean); the src_* theorems are re-checked by the build"""
    import engine_logic
    return engine_logic.write()[0]

def cases(rng, tier):
    out = []
    import gen_ops
    for op in gen_ops.OPS_BASIC + gen_ops.OPS_NN:
        for k in range((12 if op in ('linear', 'conv1d', 'conv2d', 'batch_norm') else 4) if tier == 'quick' else 40):
            try:
                out.append(catalogue_untracked(rng, op, ng=bool(k % 2)))
            except Exception:
                continue
    for _ in range(3 if tier == 'quick' else 12):
        out.append(fresh(rng))
    depths = [10, 50, 200, 1000, 2000] if tier == 'quick' else [10, 50, 200, 1000, 2000, 3000, 5000]
    for d in depths:
        out.append(chain(rng, d))
        if d >= 1000:
            out.append(chain(rng, d, 'second'))
            out.append(chain(rng, d, 'mixed'))
    for w in ([5, 60, 300] if tier == 'quick' else [5, 60, 300, 1000]):
        out.append(wide(rng, w))
    for _ in range(40 if tier == 'quick' else 600):
        out.append(untracked(rng))
    out.append({'kind': 'runtime', 'lines': ['t modes']})
    out += cut_cases(rng, tier)
    out += work_cases(rng, tier) + loop_cases(rng, tier)
    for c in out:
        c['desc'] = f"{c['kind']} depth={c.get('depth')} width={c.get('width')} : " + ' ; '.join(c['lines'][:12])
        if c['kind'] in ('work', 'loop', 'cut'):
            c['desc'] = f"{c['kind']} " + ' '.join(f'{k}={v}' for k, v in c.items() if k not in ('lines', 'desc', 'kind'))
    return out


def refs_failure(c):
    """the program run once more with the tensor objects at hand: a result that came out untracked (no operands recorded, no
    backward function, requires_grad False) must not point to any other Tensor through ANY attribute — its operands would live as
    long as it does"""
    im = tprog.Impl()
    try:
        T = im.sg.Tensor
        for li, l in enumerate(c['lines']):
            o = im.exec(l)
            if not (l.startswith('t flags') and ' ' in o): continue
            f = dict(kv.split('=') for kv in o.split(' '))
            if f['rg'] != '0' or f['children'] != '0' or f['fn'] != '0': continue
            k = int(l.split()[2])
            t = im.ts[k] if k < len(im.ts) else None
            if not isinstance(t, T): continue
            hold = tensor_refs(t, T)
            if hold:
                return {'key': {'cls': 'holds-tensor', 'op': c.get('op')}, 'case': {'kind': c['kind'], 'op': c.get('op'), 'lines': c['lines'][:li + 1]},
                        'what': f"the untracked result t{k} ({o}) holds {len(hold)} other Tensor object(s): " +
                                ', '.join(f"{p_} -> {'operand t%d' % [id(q) for q in im.ts].index(id(r_)) if any(r_ is q for q in im.ts) else 'a Tensor'} of shape {tuple(r_.shape)}" for p_, r_ in hold[:3])}
    finally:
        im.close()
    return None


def impl(c):
    if c['kind'] == 'untracked': c['_res'] = refs_failure(c)
    if c['kind'] == 'work': c['_res'] = work_failure(c)
    if c['kind'] == 'loop': c['_res'] = loop_failure(c)
    if c['kind'] == 'cut': c['_res'] = cut_failure(c)
    return _io(c)


def _io(c):
    return tprog.run_program_fresh(c['lines']) if c['kind'] == 'fresh' else tprog.run_program(c['lines'])


def compare(c, mo, io):
    diffs = tprog.diff_program(c['lines'], mo, io)
    if c['kind'] == 'runtime':
        f = runtime_residue()
        if f: diffs.append(('runtime', 'deep chain / untracked loop', f['what']))
    if c['kind'] == 'untracked' and c.get('_res'):
        diffs.append(('untracked', 'an untracked result holds no reference to another Tensor', c['_res']['what']))
    if c['kind'] == 'cut' and c.get('_res'):
        diffs.append(('cut', 'a tensor cut from a tracked one holds no history', c['_res']['what']))
    if c['kind'] in ('work', 'loop') and c.get('_res'):
        diffs.append((c['kind'], 'backward linear in nodes + edges' if c['kind'] == 'work' else 'nothing grows with the number of untracked steps', c['_res']['what']))
    return diffs


def nontrivial(c):
    return c.get('depth', 0) >= 200 or c.get('width', 0) >= 50 or c['kind'] in ('untracked', 'fresh', 'work', 'loop', 'cut')


def distribution(cases):
    d = {}
    for c in cases:
        d[c['kind']] = d.get(c['kind'], 0) + 1
        if c.get('bw_inside'): d['untracked/backward() called inside the no_grad block'] = d.get('untracked/backward() called inside the no_grad block', 0) + c['bw_inside']
        if c['kind'] == 'work':
            d[f"work/{c['family']}"] = d.get(f"work/{c['family']}", 0) + 1
            d[f"work size/{c.get('size')} of ops"] = d.get(f"work size/{c.get('size')} of ops", 0) + 1
            for k_ in (f"work backward() calls on the same graph/{c.get('passes', 1)}", f"work retained intermediates/{c.get('retain', WORK_RETAIN[0])}",
                       f"work retained intermediates x size/{c.get('retain', WORK_RETAIN[0])}, {c.get('size')} of ops") + ((f"work between the calls/{c['between']}",) if c.get('passes', 1) > 1 else ()):
                d[k_] = d.get(k_, 0) + 1
            if c.get('_metrics'):
                d.setdefault('work/recorded ops at k (min, max)', [10 ** 9, 0])
                mm = d['work/recorded ops at k (min, max)']
                mm[0] = min(mm[0], c['_metrics']['ops'][0]); mm[1] = max(mm[1], c['_metrics']['ops'][0])
        if c['kind'] == 'cut':
            for k_ in (f"cut route/{c['route']}", f"cut source/{c['source']}"): d[k_] = d.get(k_, 0) + 1
        if c['kind'] == 'loop':
            d[f"loop/{c['scenario']}"] = d.get(f"loop/{c['scenario']}", 0) + 1
            for t_ in c['steps']:
                d[f'loop step/{t_}'] = d.get(f'loop step/{t_}', 0) + 1
            for e_ in sorted(set(c.get('events') or ['(no event)'])):
                k_ = f"loop event inside the region/{e_}" + ('' if c['scenario'] != LOOP_SCENARIOS[2] or not c.get('events') else ' (tracking on, operands without grad)')
                d[k_] = d.get(k_, 0) + 1
            if c.get('_metrics'): d['loop events run'] = d.get('loop events run', 0) + c['_metrics'].get('events run', 0)
    return d


# ---- what no model can exhibit: interpreter recursion depth, object liveness, wall time -----------
def runtime_residue(depth=50000, loop=100000):
    sg = common.impl()
    BF = sg.functional.BackwardFunction
    calls = [0]
    oc = BF.__call__
    def call(s):
        calls[0] += 1; return oc(s)
    x = sg.Tensor(np.array([1.0, 2.0]), requires_grad=True)
    y = x
    one = sg.Tensor(np.array([1.0, 1.0]))
    for k in range(depth):          # the chain runs through the first operand, then the second, then alternates
        y = (y + 1.0) if k < depth // 3 else sg.add(one, y) if k < 2 * depth // 3 or k % 2 else sg.add(y, one)
    BF.__call__ = call
    try:
        t0 = time.time()
        try:
            with common.quiet():
                y.backward(sg.Tensor(np.array([1.0, 1.0])))
        except RecursionError:
            return {'key': {'cls': 'recursion'}, 'what': f'backward on a chain of {depth} ops raised RecursionError'}
        dt = time.time() - t0
    finally:
        BF.__call__ = oc
    if calls[0] != depth:
        return {'key': {'cls': 'calls'}, 'what': f'{calls[0]} grad_fn calls for {depth} recorded ops'}
    if not np.allclose(x.grad.data, [1.0, 1.0]):
        return {'key': {'cls': 'value'}, 'what': f'gradient through {depth} additions is {x.grad.data}'}
    if dt > 60:
        return {'key': {'cls': 'time'}, 'what': f'backward over {depth} ops took {dt:.1f}s'}
    del y
    # untracked loop: operands must not be kept alive
    w = sg.Tensor(np.array([1.0, 2.0]), requires_grad=True)
    refs = []
    with sg.no_grad():
        cur = w
        for k in range(loop):
            nxt = cur * 1.0001
            if k % 10000 == 0: refs.append(weakref.ref(nxt))
            cur = nxt
    a = sg.Tensor(np.array([1.0, 2.0]))
    cur = a
    for k in range(loop // 10):
        nxt = cur + 1.0
        if k % 1000 == 0: refs.append(weakref.ref(nxt))
        cur = nxt
    last = cur
    gc.collect()
    alive = sum(1 for r in refs if r() is not None and r() is not last)
    if alive > 1:
        return {'key': {'cls': 'liveness'}, 'what': f'{alive} of {len(refs)} intermediate results of untracked updates are still alive'}
    return None


# ---- WORK: backward is linear in nodes + edges for every graph shape ----------------------------------
# Counted, not timed.  `sys.settrace` counts the line events and the calls of every frame whose code lives in the synapgrad
# package while backward() runs; Tensor.__hash__ / __eq__ (identity, as the defaults) are replaced by counting versions for the
# duration of the call, so that look-ups in sets / dicts / lists of tensors — which run in C and produce no line events — are
# counted too.  The graph is built at size k and at size 2k; the count may at most double (plus slack).
WORK_FAMILIES = ['fan-in', 'fan-out', 'multi-output', 'lattice', 'tree', 'chain', 'nested-fan-in', 'same-operand', 'dense-layers']
WORK_RATIO = 2.5


WORK_BIG = {'dense-layers': 3, 'fan-out': .5, 'tree': .5, 'multi-output': .5}          # factor on k: the number of recorded ops per unit of k differs between the families


def work_cases(rng, tier):
    out = []
    for rep in range(1 if tier == 'quick' else 4):
        for fam in WORK_FAMILIES:
            out.append({'kind': 'work', 'family': fam, 'size': 'hundreds', 'k': rng.randint(300, 500) if tier == 'quick' else rng.randint(300, 1500), 'variant': rng.randrange(1 << 16), 'lines': ['t modes']})
    # LARGE graphs (>= 2000 recorded ops at k, >= 4000 at 2k): anything the engine does once per N nodes / per N backward-function
    # calls / per M allocated objects (a collection, a compaction, a re-sort, a consistency scan) only shows when the graph
    # holds many multiples of N.  Chains and wide graphs in every run, the other shapes drawn (all of them in the thorough tier).
    big = [f for f in WORK_FAMILIES if f != 'same-operand']
    if tier == 'quick':
        rest = [f for f in big if f not in ('chain', 'fan-out')]
        rng.shuffle(rest)
        big = ['chain', 'fan-out'] + rest[:2]
    for rep in range(1 if tier == 'quick' else 2):
        for fam in big:
            out.append({'kind': 'work', 'family': fam, 'size': 'thousands', 'k': int(rng.randint(2050, 2600) * WORK_BIG.get(fam, 1)), 'variant': rng.randrange(1 << 16), 'lines': ['t modes']})
    # REPEATED backward() over the SAME graph whose intermediates keep their gradients (built and differentiated inside
    # retain_grads(), or retain_grad() marks on every / on some computed node), leaves zeroed / set to None / left alone in between:
    # the work of EVERY pass (1st, 2nd, 3rd) is counted and must stay linear, and the deep chains (>= 5000 recorded ops at 2k,
    # far beyond the recursion limit) must complete on every pass.  Every retain mode occurs in every run; a deep retained chain
    # (block and marks) occurs in every run.
    fixed = [('chain', 'thousands', 'retain_grads block', 2), ('chain', 'thousands', 'retain_grad on every node', 2),
             ('chain', 'hundreds', 'retain_grad on every node', 3), ('lattice', 'hundreds', 'retain_grads block', 2), ('fan-out', 'hundreds', 'retain_grad on some nodes', 3)]
    drawn = [(rng.pick(WORK_FAMILIES), 'hundreds', rng.pick(WORK_RETAIN[1:]), rng.randint(2, 3)) for _ in range(3 if tier == 'quick' else 24)]
    drawn += [(rng.pick(WORK_FAMILIES), 'hundreds', WORK_RETAIN[0], rng.randint(2, 3)) for _ in range(1 if tier == 'quick' else 6)]
    if tier != 'quick':
        drawn += [(f, 'thousands', rng.pick(WORK_RETAIN[1:]), rng.randint(2, 3)) for f in big]
    for fam, size, retain, passes in fixed + drawn:
        k_ = rng.randint(300, 500) if size == 'hundreds' else int(rng.randint(2050, 2600) * WORK_BIG.get(fam, 1))
        out.append({'kind': 'work', 'family': fam, 'size': size, 'k': k_, 'variant': rng.randrange(1 << 16), 'retain': retain, 'passes': passes,
                    'between': rng.pick(WORK_BETWEEN), 'lines': ['t modes']})
    return out


WORK_RETAIN = ['nothing retained', 'retain_grads block', 'retain_grad on every node', 'retain_grad on some nodes']
WORK_BETWEEN = ['leaves left alone', 'leaves zero_()', 'leaf .grad rebound to zeros', 'leaf gradients dropped']
WORK_BUDGET = 1500          # units of work per node + edge above which a count is abandoned (the graphs of this file need 30..300)


class OverBudget(Exception):
    pass


def graph_nodes(root):
    seen, todo, out = {id(root)}, [root], []
    while todo:
        n = todo.pop(); out.append(n)
        for ch in n._children:
            if id(ch) not in seen:
                seen.add(id(ch)); todo.append(ch)
    return out


def build_graph(sg, fam, k, variant):
    """the root of a differentiable graph of `size` k (nodes + edges proportional to k); every choice derives from `variant`"""
    r = common.Rng(variant)
    d = r.pick([1, 3, 4])
    w = sg.Tensor(np.linspace(0.5, 1.5, d), requires_grad=True)
    v = sg.Tensor(np.linspace(-1.0, 1.0, d), requires_grad=r.chance(.5))
    def term(i):      # a non-leaf operand
        c = float(i % 7 + 1)
        j = (variant + i) % 5
        return w * c if j == 0 else w + v if j == 1 else -w if j == 2 else w * w if j == 3 else sg.add(v, w) * c
    join = r.pick(['stack', 'concat'])
    def joined(ts, dim=0):
        return sg.stack(ts, dim=dim) if join == 'stack' else sg.concat(ts, dim=dim)
    if fam == 'fan-in':                     # ONE recorded op with k operands
        return joined([term(i) for i in range(k)], r.pick([0, -1]) if join == 'stack' else 0).sum()
    if fam == 'same-operand':               # one op whose k operands are one and the same tensor
        t = term(variant)
        return joined([t] * k).sum()
    if fam == 'fan-out':                    # one tensor with k consumers, reduced by a chain of additions
        t = term(variant)
        acc = t * 1.0
        for i in range(k):
            u = t * float(i + 1) if i % 2 else t + v
            acc = acc + u if (variant + i) % 3 else u + acc
        return acc.sum()
    if fam == 'multi-output':               # one op with k outputs, every output consumed
        x = sg.Tensor(np.ones((k, d)), requires_grad=True)
        parts = sg.unbind(x * 2.0, 0)
        return joined([p_ * p_ if i % 2 else p_ + w for i, p_ in enumerate(parts)]).sum()
    if fam == 'lattice':                    # wide and deep: `wd` nodes per layer, every node feeds two nodes of the next layer
        wd = r.pick([4, 8, 16])
        layer = [term(j) for j in range(wd)]
        for l_ in range(max(1, k // wd)):
            layer = [layer[j] + layer[(j + 1 + l_) % wd] if (j + l_) % 3 else layer[j] * layer[(j + 1) % wd] * 0.5 for j in range(wd)]
        return joined(layer).sum()
    if fam == 'tree':                       # binary reduction of k non-leaf operands
        layer = [term(i) for i in range(k)]
        while len(layer) > 1:
            layer = [layer[i] + layer[i + 1] if i + 1 < len(layer) else layer[i] for i in range(0, len(layer), 2)]
        return layer[0].sum()
    if fam == 'chain':
        y = w
        for i in range(k):
            j = (variant + i) % 4
            y = y * 1.0 + 0.5 if j == 0 else sg.add(v, y) if j == 1 else (-y) if j == 2 else y.clone()
        return y.sum()
    if fam == 'nested-fan-in':              # k/g groups of g operands, joined again
        g = r.pick([10, 20])
        return sg.stack([joined([term(i * g + j) for j in range(g)]) for i in range(max(1, k // g))], 0).sum()
    if fam == 'dense-layers':               # every node of a layer consumes EVERY node of the previous one: edges = wd * nodes
        wd = r.pick([6, 10])
        layer = [term(j) for j in range(wd)]
        for l_ in range(max(1, k // (wd * wd))):
            layer = [sg.stack(layer[j:] + layer[:j], 0).sum(0) * (1.0 / wd) for j in range(wd)]
        return sg.stack(layer).sum()
    raise ValueError(fam)


def graph_size(root):
    """(non-leaf nodes with a grad_fn, nodes, edges) of the differentiable graph below `root`, by the harness's own walk"""
    seen, todo, edges, fns = {id(root)}, [root], 0, 0
    while todo:
        n = todo.pop()
        fns += n.grad_fn is not None
        for ch in n._children:
            edges += 1
            if id(ch) not in seen:
                seen.add(id(ch)); todo.append(ch)
    return fns, len(seen), edges


def count_backward(sg, root, base_objects=None, budget=None):
    """deterministic amount of work of root.backward(), by component:
    line / call   line events and calls of synapgrad frames;
    line_out      line events of every OTHER Python frame entered while backward() runs (helpers of NumPy, copy, gc callbacks, ... —
                  work done outside the package on behalf of backward), the harness's own wrappers excluded;
    c_call        calls into C-level functions (sys.setprofile) made from any of those frames;
    hash_eq       hash / eq calls on tensors (the C-level set / dict / list look-ups);
    gc_runs / gc_scanned   garbage collections that run during the call and the number of objects they have to scan (automatic
                  collection is switched off for the duration, so every collection counted is one the code asked for; a full
                  collection scans every container object of the process — the ones that existed before the graph was built,
                  `base_objects`, are not counted, so that the count is the part that grows with the graph)"""
    T = sg.Tensor
    BF = sg.functional.BackwardFunction
    pkg = os.path.join(os.path.abspath(common.REPO), 'synapgrad') + os.sep
    mine = (os.path.abspath(__file__), os.path.abspath(common.__file__), contextlib.__file__)
    cnt = {'line': 0, 'call': 0, 'line_out': 0, 'c_call': 0, 'hash_eq': 0, 'gc_runs': 0, 'gc_scanned': 0, 'fn': 0}
    lim = budget if budget is not None else float('inf')       # (a count that runs away — exponential re-walks — is abandoned, not waited for)
    def local(frame, event, arg):
        if event == 'line':
            cnt['line'] += 1
            if cnt['line'] > lim: raise OverBudget()
        return local
    def local_out(frame, event, arg):
        if event == 'line':
            cnt['line_out'] += 1
            if cnt['line_out'] > lim: raise OverBudget()
        return local_out
    def tracer(frame, event, arg):
        if event == 'call':
            fn_ = frame.f_code.co_filename
            if fn_.startswith(pkg):
                cnt['call'] += 1
                if cnt['call'] + cnt['c_call'] + cnt['hash_eq'] > lim: raise OverBudget()
                return local
            if fn_ not in mine:
                return local_out
        return None
    def profiler(frame, event, arg):
        if event == 'c_call' and frame.f_code.co_filename not in mine: cnt['c_call'] += 1
    def on_gc(phase, info):
        if phase == 'start':
            g = info['generation']
            seen_ = sum(len(gc.get_objects(generation=i)) for i in range(g + 1))
            cnt['gc_runs'] += 1
            cnt['gc_scanned'] += max(0, seen_ - (base_objects or 0)) if g >= 2 else seen_
    def eq(a, b):
        cnt['hash_eq'] += 1; return a is b
    def hs(a):
        cnt['hash_eq'] += 1; return id(a) >> 4
    oc = BF.__call__
    def call(s_):
        cnt['fn'] += 1; return oc(s_)
    had_eq, had_hash = T.__dict__.get('__eq__'), T.__dict__.get('__hash__')
    if had_eq is None and had_hash is None:         # only stand in for the DEFAULT identity semantics
        T.__eq__ = eq; T.__hash__ = hs
    BF.__call__ = call
    old, oldp, auto = sys.gettrace(), sys.getprofile(), gc.isenabled()
    gc.disable()
    gc.callbacks.append(on_gc)
    out = io.StringIO()
    try:
        with contextlib.redirect_stdout(out):
            sys.setprofile(profiler)
            sys.settrace(tracer)
            try:
                root.backward()
            except OverBudget:
                cnt['over'] = True
            finally:
                sys.settrace(old)
                sys.setprofile(oldp)
    finally:
        gc.callbacks.remove(on_gc)
        if auto: gc.enable()
        BF.__call__ = oc
        if had_eq is None and had_hash is None:
            del T.__eq__; del T.__hash__
    return cnt


WORK_PARTS = ['line', 'call', 'line_out', 'c_call', 'hash_eq', 'gc_scanned']


# ---- FOOTPRINT PROBE: what one tensor occupies does not depend on how many operations came before it ----------------
_FOOTPRINT = []
FOOTPRINT_SIZES = (8, 16, 32, 64, 128)

def footprint_failure():
    """Run once per process, before the first graph of thousands of nodes is built: chains of k = 8 … 128 operations over two
    leaves (named and unnamed, tracked and untracked, through a shared operand / two operands / a Python scalar).  The bytes alive
    after an untracked chain may not depend on k; after a tracked chain they may grow like k.  A tree on which they multiply from
    operation to operation is reported here with this small input — the work / loop families are then answered with this failure
    instead of being run at sizes that would exhaust the machine before any verdict."""
    if _FOOTPRINT: return _FOOTPRINT[0]
    sg = common.impl(); T = sg.Tensor
    was = tracemalloc.is_tracing()
    if was: tracemalloc.stop()
    found = None
    def build(k, tracked, named, shape):
        a = T(np.ones(3), requires_grad=tracked, **({'name': 'a'} if named else {}))
        b = T(np.full(3, .5), requires_grad=tracked, **({'name': 'b'} if named else {}))
        x = a
        for _ in range(k):
            x = (x * b + x) if shape == 'x*b + x' else (x * b) if shape == 'x*b' else (x * 0.5)
        return x
    try:
        for tracked in (False, True):
            for named in (True, False):
                for shape in ('x*b + x', 'x*b', 'x*0.5'):
                    b8 = None
                    for k in FOOTPRINT_SIZES:
                        gc.collect(); tracemalloc.start()
                        x = build(k, tracked, named, shape)
                        gc.collect(); cur = tracemalloc.get_traced_memory()[0]; tracemalloc.stop()
                        del x
                        if b8 is None: b8 = cur; continue
                        allowed = (b8 + 16 * 1024) if not tracked else int(2.5 * (k / 8) * b8) + 32 * 1024
                        if cur > allowed:
                            desc = f"x = a; repeat k times: x = {shape}   (a, b: {'named' if named else 'unnamed'} leaves of 3 elements, requires_grad={tracked})"
                            found = {'key': {'cls': 'memory' if not tracked else 'footprint', 'family': 'footprint probe'},
                                     '_case': {'kind': 'footprint', 'tracked': tracked, 'named': named, 'step': shape, 'k': k},
                                     'what': f"{desc}: {b8} bytes alive after k=8 operations, {cur} after k={k}" +
                                             (" — the operands are untracked, what stays alive may not depend on the number of steps" if not tracked else
                                              f" — more than x{cur / max(b8, 1):.1f} for x{k / 8:.0f} the recorded operations: graphs of tens of thousands of operations cannot be held")}
                            raise StopIteration
    except StopIteration:
        pass
    except Exception:
        found = None          # a tree on which the probe itself cannot run is judged by the families
    finally:
        if tracemalloc.is_tracing(): tracemalloc.stop()
        if was: tracemalloc.start()
    _FOOTPRINT.append(found)
    return found


def work_failure(c):
    fp = footprint_failure()
    if fp: return fp
    sg = common.impl()
    retain, passes, between = c.get('retain', WORK_RETAIN[0]), c.get('passes', 1), c.get('between', WORK_BETWEEN[0])
    how = '' if passes == 1 and retain == WORK_RETAIN[0] else f" [backward() called {passes} times on the same graph; {retain}; between the calls: {between}]"
    def fail(cls, what, **kw):
        return {'key': dict({'cls': cls, 'family': c['family']}, **kw), 'what': what}
    units = 'line events + calls in synapgrad frames + line events in other frames + C-level calls + tensor hash/eq calls + objects scanned by garbage collections'

    def measure(k, budgets=None):
        """[(nodes + edges, work, counts, recorded ops)] for every pass over the graph of size k; ('over', pass, size, budget) when a count was abandoned"""
        block = sg.retain_grads() if retain == WORK_RETAIN[1] else contextlib.nullcontext()
        with block:
            gc.collect()
            base = len(gc.get_objects())            # container objects alive before the graph exists
            root = build_graph(sg, c['family'], k, c['variant'])
            fns, nodes, edges = graph_size(root)
            all_nodes = graph_nodes(root)
            leaves = [n for n in all_nodes if n.is_leaf and n.requires_grad]
            if retain in WORK_RETAIN[2:]:
                r = common.Rng(c['variant'] + 1)
                run = 0
                for n in all_nodes:
                    if n.grad_fn is None or not n.requires_grad: continue
                    if retain == WORK_RETAIN[3]:                      # runs of consecutive marked / unmarked nodes of random length
                        if run == 0: run = r.randint(1, 40) * (1 if r.chance(.5) else -1)
                        run -= 1 if run > 0 else -1
                        if run < 0: continue
                    n.retain_grad()
            del all_nodes
            res = []
            for p in range(passes):
                if p:
                    for lf in leaves:
                        if between == WORK_BETWEEN[1]: lf.zero_()
                        elif between == WORK_BETWEEN[2]: lf.grad = sg.Tensor(np.zeros_like(lf.data))
                        elif between == WORK_BETWEEN[3]:
                            try: lf.grad = None
                            except Exception: lf._grad = None
                budget = budgets[p] if budgets else WORK_BUDGET * (nodes + edges)
                cnt = count_backward(sg, root, base, budget)
                if cnt.get('over'): return ('over', p, nodes + edges, budget)
                if cnt['fn'] != fns:
                    raise AssertionError(f"{c['family']} graph of size {k}{how}: {cnt['fn']} grad_fn calls for {fns} recorded ops in call {p + 1} of backward()")
                res.append((nodes + edges, sum(cnt[p_] for p_ in WORK_PARTS), cnt, fns))
            return res

    k1 = c['k']
    try:
        while True:
            k = k1
            r1 = measure(k1)
            if r1[0] != 'over': break
            # the count ran away already at size k: compare smaller graphs of the same family instead (an exponential re-walk shows at any size)
            if k1 < 16:
                return fail('superlinear', f"backward over the {c['family']} graph (variant {c['variant']}){how}: more than {r1[3]} units of work ({units}) for {r1[2]} nodes+edges at k={k1} in call {r1[1] + 1}")
            k1 = max(8, k1 // 6)
        for m in (2, 4, 8):
            k = m * k1
            r2 = measure(k, [int(m * WORK_RATIO * w) + 5000 for (_, w, _, _) in r1])
            # (a family whose size moves in steps can come out with the same graph at k and 2k once k had to be made small)
            if k1 == c['k'] or r2[0] == 'over' or r2[0][0] >= 1.6 * r1[0][0]: break
    except RecursionError:
        return fail('recursion', f"backward on the {c['family']} graph of size {k}{how} raised RecursionError")
    except AssertionError as e:
        return fail('calls', str(e))
    if r2[0] == 'over':
        s1, w1, c1, f1 = r1[r2[1]]
        return fail('superlinear', f"backward over the {c['family']} graph (variant {c['variant']}){how}, call {r2[1] + 1} of backward(): {w1} units of work ({units}) for {s1} nodes+edges / {f1} recorded ops at k={k1}, "
                                   f"more than {r2[3]} (count abandoned) for {r2[2]} at k={k}: it grows more than x{r2[3] / max(w1, 1):.2f} when the graph grows x{r2[2] / max(s1, 1):.2f}", **({'pass': r2[1] + 1} if passes > 1 else {}))
    c['_metrics'] = {'ops': (r1[0][3], r2[0][3]), 'work': (r1[-1][1], r2[-1][1]), 'parts': (r1[-1][2], r2[-1][2])}
    for p in range(passes):
        (s1, w1, c1, f1), (s2, w2, c2, f2) = r1[p], r2[p]
        gsize = s2 / max(s1, 1)
        # the sum, then every component on its own (a component that is small at size k can still be the one that explodes: it is
        # judged as soon as it is a visible part — 2 % — of the work at size 2k)
        for part, (a1, a2) in [('all', (w1, w2))] + [(p_, (c1[p_], c2[p_])) for p_ in WORK_PARTS]:
            if part != 'all' and (a2 < max(1000, 0.02 * w2) or a1 < max(300, 0.005 * w1)): continue      # (absent at size k: a threshold, not a growth rate — the sum judges it)
            growth = a2 / max(a1, 1)
            if growth > WORK_RATIO * gsize / 2:
                return fail('superlinear', f"backward over the {c['family']} graph (variant {c['variant']}){how}" + (f", call {p + 1} of backward()" if passes > 1 else '') + ": "
                            + (f"{w1} units of work ({units})" if part == 'all' else f"component `{part}` of the work: {a1} units") +
                            f" for {s1} nodes+edges / {f1} recorded ops at k={k1} ({a1 / s1:.1f} per item), {a2} for {s2} / {f2} at k={k} ({a2 / s2:.1f} per item): it grows x{growth:.2f} when the graph grows x{gsize:.2f} "
                            f"(linear = x{gsize:.2f}, quadratic = x{gsize * gsize:.2f}); counts {c1} -> {c2}", **({'pass': p + 1} if passes > 1 else {}))
    return None


# ---- LOOPS: untracked computations keep nothing, whatever the steps look like ---------------------------
LOOP_STEPS = ['mul-add-float', 'r-operators', 'int-scalar', 'division', 'pow', 'neg-sub', 'numpy-scalar', 'data-dependent-scalar', 'tensor-constant', 'varying-shape',
              'reshape-transpose', 'slice-concat', 'stack-unbind', 'reductions', 'activations', 'matmul', 'module', 'loss', 'detach-clone', 'iterate']
LOOP_SCENARIOS = ['no_grad around the loop', 'no_grad per step', 'no operand requires grad']


# EVENTS that happen INSIDE the untracked region while the loop runs (a training script's bookkeeping loop: an EMA update that
# also back-propagates an earlier loss, steps an optimizer, switches the model's mode, validates, ...).  Whatever the event does,
# when it is over the region is still untracked: results computed in it afterwards hold no history, nothing grows.
LOOP_EVENTS = ['backward', 'backward-of-loss', 'backward-accumulate-twice', 'backward-raises', 'optimizer-step', 'zero_grad', 'eval-train', 'train-forward',
               'nested-no_grad', 'nested-no_grad-raises', 'nested-retain_grads', 'nested-retain_grads-raises', 'library-raises-in-nested', 'trainer-test', 'evaluator']


def loop_cases(rng, tier):
    out = []
    n = 10 if tier == 'quick' else 40
    ptr = 0
    for j in range(n):
        # every step template occurs in the cases of one run: case j is built around templates 2j, 2j+1 (mod) plus random ones
        steps = [LOOP_STEPS[(2 * j) % len(LOOP_STEPS)], LOOP_STEPS[(2 * j + 1) % len(LOOP_STEPS)]] + [rng.pick(LOOP_STEPS) for _ in range(rng.randint(1, 4))]
        if j % 3 == 0 and 'mul-add-float' not in steps: steps.append('mul-add-float')
        rng.shuffle(steps)
        scenario = LOOP_SCENARIOS[j % 3] if j < 6 else rng.pick(LOOP_SCENARIOS)
        # every event occurs, inside a no_grad region, in the cases of one run (four designated ones per such case, in turn);
        # the loops over operands that do not require grad get random ones; some later cases stay without events
        if scenario != LOOP_SCENARIOS[2] and (j < 6 or j % 2):
            events = [LOOP_EVENTS[(ptr + i) % len(LOOP_EVENTS)] for i in range(4)] + [rng.pick(LOOP_EVENTS) for _ in range(rng.randint(0, 2))]
            ptr += 4
            rng.shuffle(events)
        elif j < 6 or j % 2:
            events = [rng.pick(LOOP_EVENTS) for _ in range(rng.randint(1, 4))]
        else:
            events = []
        out.append({'kind': 'loop', 'scenario': scenario, 'steps': steps, 'd': rng.pick([1, 3, 8]), 'events': events, 'every': rng.randint(2, 9), 'opt': rng.pick(['sgd', 'sgd-momentum', 'adam']),
                    'n': rng.randint(60, 120) if tier == 'quick' else rng.randint(150, 500), 't0': rng.randrange(10 ** 6), 'lines': ['t modes']})
    # VIEW loops: the state is replaced by a VIEW of itself in every step (`x = x.transpose(i, j)`, `x = x.reshape(...)`, ...), the
    # previous tensor is dropped.  Every op that can return a view has a loop of its own (what one op pins is only seen to
    # accumulate when every step of the loop goes through it), then loops over drawn subsets (ops that keep the buffer
    # contiguous, ops that do not, all of them), with and without events, in the three scenarios.
    nv = 0
    for rep in range(1 if tier == 'quick' else 3):
        sets = [[v] for v in VIEW_STEPS]
        for grp in (VIEW_CONTIGUOUS, VIEW_STRIDED, VIEW_STEPS, VIEW_CONTIGUOUS if rng.chance(.5) else VIEW_STRIDED):
            sets.append([rng.pick(grp) for _ in range(rng.randint(2, 5))])
        for steps in sets:
            scenario = LOOP_SCENARIOS[nv % 3] if rng.chance(.7) else rng.pick(LOOP_SCENARIOS)
            events = [rng.pick(LOOP_EVENTS) for _ in range(rng.randint(1, 2))] if nv % 5 == 4 else []
            nv += 1
            out.append({'kind': 'loop', 'scenario': scenario, 'steps': steps, 'views': True, 'shape': rng.pick([(2, 3, 4), (4, 6), (24,), (1, 5, 1, 2), (3, 1, 8)]), 'd': 3, 'events': events, 'every': rng.randint(2, 9),
                        'opt': rng.pick(['sgd', 'sgd-momentum', 'adam']), 'n': rng.randint(60, 120) if tier == 'quick' else rng.randint(150, 500), 't0': rng.randrange(10 ** 6), 'lines': ['t modes']})
    return out


VIEW_STEPS = ['view:reshape', 'view:flatten', 'view:nn.Flatten', 'view:transpose', 'view:movedim', 'view:moveaxis', 'view:squeeze', 'view:unsqueeze', 'view:slice', 'view:unbind', 'view:chain']
VIEW_CONTIGUOUS = ['view:reshape', 'view:flatten', 'view:nn.Flatten', 'view:squeeze', 'view:unsqueeze', 'view:slice', 'view:unbind']       # a reshape of their results is again a view
VIEW_STRIDED = ['view:transpose', 'view:movedim', 'view:moveaxis', 'view:squeeze', 'view:unsqueeze', 'view:slice', 'view:unbind', 'view:chain']


def view_step(sg, name, x, t, memo={}):
    """x replaced by a view of itself (any shape in, any shape of the same number of elements out); method and function spellings alternate"""
    sh = tuple(int(q) for q in x.shape); nd = len(sh)
    n = int(np.prod(sh)) if sh else 1
    fn = (t // 3) % 2 == 0
    if nd == 0: return x.reshape((1,))
    if name == 'view:reshape':
        divs = [q for q in range(1, n + 1) if n % q == 0]
        f = divs[t % len(divs)]
        shape = [(n,), (f, n // f), (f, -1), (1, f, n // f), (-1,)][(t // len(divs)) % 5]
        if shape == sh: shape = (n // f, f)
        return sg.reshape(x, shape) if fn else x.reshape(shape)
    if name in ('view:flatten', 'view:nn.Flatten'):
        if nd == 1 and t % 3: return x.reshape((2, n // 2)) if n % 2 == 0 and t % 2 else x.reshape((1, n, 1))         # (something to flatten in the next round)
        a = t % nd; b = a + (t // nd) % (nd - a)
        if name == 'view:nn.Flatten':
            key = (id(sg), a, b)
            if key not in memo: memo[key] = sg.nn.Flatten(a, b)         # layer objects are built once and called again and again
            return memo[key](x)
        return sg.flatten(x, a, b) if fn else x.flatten(a, b) if t % 4 else x.flatten()
    if name in ('view:transpose', 'view:movedim', 'view:moveaxis'):
        i = t % nd; j = (i + 1 + (t // nd) % max(nd - 1, 1)) % nd
        if t % 5 == 0: i, j = i - nd, j           # negative spelling
        if name == 'view:transpose': return sg.transpose(x, i, j) if fn else x.transpose(i, j)
        if name == 'view:movedim': return sg.movedim(x, i, j) if fn else x.movedim(i, j)
        return x.moveaxis(i, j)
    if name == 'view:squeeze':
        ones = [k for k, q in enumerate(sh) if q == 1]
        if not ones: return x.unsqueeze(t % (nd + 1)) if nd < 6 else x.squeeze()
        dim = None if t % 3 == 0 else ones[t % len(ones)] if t % 3 == 1 else tuple(ones[:1 + t % len(ones)])
        return sg.squeeze(x, dim) if fn else x.squeeze(dim)
    if name == 'view:unsqueeze':
        if nd >= 6: return x.squeeze() if 1 in sh else x.flatten(0, 1)
        dim = t % (nd + 1) - (nd + 1 if t % 4 == 0 else 0)
        return sg.unsqueeze(x, dim) if fn else x.unsqueeze(dim)
    if name == 'view:slice':
        k = t % 6
        return x[:] if k == 0 else x[...] if k == 1 else x[0:sh[0]] if k == 2 else x[::1] if k == 3 else x[..., :] if k == 4 else x[None][0]
    if name == 'view:unbind':
        ones = [k for k, q in enumerate(sh) if q == 1]
        if ones and nd > 1: return sg.unbind(x, ones[t % len(ones)])[0]
        return sg.unbind(x.unsqueeze(0), 0)[0] if t % 2 else sg.unbind(x.unsqueeze(nd), nd)[0]
    if name == 'view:chain':
        k = t % 4
        if k == 0: return x.unsqueeze(0).transpose(0, 1).squeeze(1)
        if k == 1: return x.movedim(0, -1).movedim(-1, 0)
        if k == 2: return sg.unbind(x.unsqueeze(0).transpose(0, nd), nd)[0][None].transpose(0, nd).squeeze(nd) if nd > 1 else x[None].transpose(0, 1)[:, 0]
        return x.transpose(0, nd - 1)[...].unsqueeze(0)[0]
    raise ValueError(name)



# ---- CUTS: every route from a TRACKED, COMPUTED tensor to an untracked one -----------------------------------------------
# (truncated back-propagation, targets taken with .detach(), values logged out of a training step).  The source is a non-leaf with
# operands / backward function / possibly a retained gradient; whatever the route, the result holds no other Tensor, the source's
# history dies with the source, and a loop that computes a tracked step, back-propagates and cuts keeps a constant number of
# Tensor objects alive.
CUT_SOURCES = ['computed', 'computed, gradient retained and filled', 'computed inside retain_grads', 'view of computed', 'multi-operand (linear layer)']
CUT_ROUTES = ['detach', 'detach inside no_grad', 'detach-clone', 'clone inside no_grad', 'Tensor(x.data)', 'tensor(x.data.copy())', 'Tensor(x.detach())',
              'op inside no_grad', 'slice of detach', 'detach of reshape', 'detach-detach', 'op on detach']


def cut_cases(rng, tier):
    out = []
    for j, route in enumerate(CUT_ROUTES):          # every route in every run, sources in turn plus a drawn one
        for src in {CUT_SOURCES[j % len(CUT_SOURCES)], rng.pick(CUT_SOURCES)} if tier == 'quick' else CUT_SOURCES:
            out.append({'kind': 'cut', 'route': route, 'source': src, 'd': rng.pick([1, 3, 8]), 'n': rng.randint(12, 30), 'lines': ['t modes']})
    return out


def _cut(sg, route, x):
    if route == 'detach': return x.detach()
    if route == 'detach-clone': return x.detach().clone()
    if route == 'detach-detach': return x.detach().detach()
    if route == 'op on detach': return x.detach() * 1.0
    if route == 'Tensor(x.data)': return sg.Tensor(x.data)
    if route == 'tensor(x.data.copy())': return sg.tensor(x.data.copy())
    if route == 'Tensor(x.detach())': return sg.Tensor(x.detach())
    if route == 'slice of detach': return x.detach()[...]
    if route == 'detach of reshape': return x.reshape(tuple(x.shape)).detach()
    with sg.no_grad():
        if route == 'detach inside no_grad': return x.detach()
        if route == 'clone inside no_grad': return x.clone()
        if route == 'op inside no_grad': return x * 1.0
    raise ValueError(route)


def cut_failure(c):
    sg = common.impl()
    T = sg.Tensor
    d, route, source = c['d'], c['route'], c['source']
    def fail(cls, what):
        return {'key': {'cls': cls, 'route': route}, 'what': f"cut `{route}` of a tracked tensor ({source}; vectors of {d}): " + what}
    try:
        with np.errstate(all='ignore'), common.quiet():
            w = T(np.linspace(0.5, 1.5, d), requires_grad=True)
            s = T(np.linspace(1.0, 2.0, d))
            lin = sg.nn.Linear(d, d)
            def compute(h):
                if source == 'multi-operand (linear layer)': return sg.tanh(lin(h.reshape((1, d))).reshape((d,)) * w + s)
                pre = h * w + s
                if source == 'view of computed': return sg.tanh(pre).reshape((d,))[...]
                return sg.tanh(pre)
            def tracked(h):
                if source == 'computed inside retain_grads':
                    with sg.retain_grads(): return compute(h)
                x = compute(h)
                if source == 'computed, gradient retained and filled': x.retain_grad()
                return x
            x = tracked(s)
            x.sum().backward()
            mid = weakref.ref(x._children[0]) if len(x._children) and isinstance(x._children[0], T) else weakref.ref(x)
            assert x.requires_grad and x.grad_fn is not None and len(x._children)
            r = _cut(sg, route, x)
            if r.requires_grad or r.grad_fn is not None or len(r._children):
                return fail('history', f'the result is tracked: requires_grad={r.requires_grad} operands kept={len(r._children)} grad_fn={r.grad_fn}')
            hold = tensor_refs(r, T)
            if hold:
                return fail('holds-tensor', f"the result (requires_grad=False, grad_fn=None) holds {len(hold)} other Tensor object(s): " + ', '.join(f"{p_} -> {'the source' if q_ is x else 'a Tensor'} of shape {tuple(q_.shape)}" for p_, q_ in hold[:3]))
            if r.data.shape != x.data.shape or not np.allclose(r.data, x.data, rtol=1e-5, atol=1e-6):     # (tensor() converts to the default dtype)
                return fail('value', 'the result does not hold the values of the source')
            del x, hold
            gc.collect()
            if mid() is not None:
                return fail('history-alive', 'an operand of the source is still alive after the source was dropped, while only the cut result is held')
            # truncated back-propagation: tracked step, backward, cut; Tensor objects alive after k and after 3k steps
            h, live = r, []
            for t in range(3 * c['n']):
                w._grad = None
                x = tracked(h)
                x.sum().backward()
                h = _cut(sg, route, x)
                del x
                if t + 1 in (c['n'], 3 * c['n']):
                    gc.collect(); live.append(_snapshot(T)[0])
            c['_metrics'] = {'live': tuple(live)}
            if live[1] - live[0] > 2:
                return fail('live-tensors', f"a loop of tracked step / backward / cut keeps {live[0]} Tensor objects alive after {c['n']} steps and {live[1]} after {3 * c['n']} steps: the history behind every cut stays alive")
            if tensor_refs(h, T):
                return fail('holds-tensor', f"the state after {3 * c['n']} steps of tracked step / backward / cut holds {len(tensor_refs(h, T))} other Tensor objects")
    except Exception as e:
        return fail('raises', f'raised {type(e).__name__}: {e}')
    return None


_SKIP_REFS = (type, types.ModuleType, types.BuiltinFunctionType, types.FrameType, types.CodeType, np.ndarray, np.generic, str, bytes, int, float, complex, bool, type(None))


def tensor_refs(t, T, max_depth=8, max_objs=4000):
    """the OTHER Tensor objects reachable from t through its attributes — [(path, tensor)] — found by walking the referents
    (gc.get_referents: instance dictionary, slots, containers, closure cells, bound methods, callable objects), not through the
    globals of functions, not through classes / modules / arrays"""
    found, seen, todo = [], {id(t)}, [(t, 't', 0)]
    while todo and len(seen) < max_objs:
        o, path, dep = todo.pop()
        if isinstance(o, types.FunctionType):
            refs = [('<closure>', c_) for c_ in (o.__closure__ or ())] + [('<defaults>', o.__defaults__), ('<kwdefaults>', o.__kwdefaults__), ('__dict__', o.__dict__)]
        elif isinstance(o, dict):
            refs = [(f'[{k_!r}]' if isinstance(k_, str) else '[key]', v_) for k_, v_ in o.items()] + [('<key>', k_) for k_ in o if not isinstance(k_, str)]
        else:
            refs = [(f'<{type(r_).__name__}>', r_) for r_ in gc.get_referents(o)]
            d_ = getattr(o, '__dict__', None)
            if isinstance(d_, dict):         # name the attributes
                refs = [('.' + k_, v_) for k_, v_ in d_.items()] + [r_ for r_ in refs if r_[1] is not d_]
        for nm, r in refs:
            if r is None or isinstance(r, _SKIP_REFS) or id(r) in seen: continue
            seen.add(id(r))
            if isinstance(r, T):
                found.append((path + nm, r)); continue
            if dep + 1 < max_depth: todo.append((r, path + nm, dep + 1))
    return found


def _loop_runner(sg, c):
    """returns run(t_first, n): executes n steps of the case's loop on its state"""
    from synapgrad import nn
    F = sg.nn.functional
    d = c['d']
    ng_all, ng_step = c['scenario'] == LOOP_SCENARIOS[0], c['scenario'] == LOOP_SCENARIOS[1]
    rg = c['scenario'] != LOOP_SCENARIOS[2]
    st = {'x': sg.Tensor(np.linspace(0.5, 1.5, d), requires_grad=rg)}
    s = sg.Tensor(np.linspace(1.0, 2.0, d), requires_grad=rg)
    W = sg.Tensor(np.eye(d) * 0.5 + 0.1, requires_grad=rg)
    lin = nn.Linear(d, d) if rg else None           # (its parameters require grad: used in the no_grad scenarios only)
    mse = nn.MSELoss()

    def step(name, x, t):
        a = 1.0 / (t + 2.0)
        if name == 'mul-add-float': return x * (1.0 - a) + s * a
        if name == 'r-operators': return (t + 1.5) - ((2.0 ** -(t % 5)) * x + (0.25 * t)) + (0.25 * t) * 1.0 - (t + 1.5) + x * 0.0
        if name == 'int-scalar': return ((x + t) - t) * 1 + (t % 97) * 0
        if name == 'division': return (x / (t + 3.0)) * (t + 3.0) + (1.0 + a) / (x * x + 1.0) * 0.0
        if name == 'pow': return (x * x + 1.0) ** (1.0 / (t % 7 + 2)) - 0.5 + (1.0 + a) ** (x * 0.0) * 0.0
        if name == 'neg-sub': return -(s * (0.001 * (t % 1000)) - x) * 0.5
        if name == 'numpy-scalar': return x * np.float64(1.0 + a) + np.float32(t % 13) * 0.0 - np.int64(t) * 0.0
        if name == 'data-dependent-scalar':
            m = float(x.mean().item())
            return x * (1.0 / (1.0 + abs(m))) + (m * 1e-3 + a)
        if name == 'tensor-constant': return sg.add(x, sg.tensor(np.full(d, a))) * sg.tensor(np.float64(1.0 - a))
        if name == 'varying-shape':
            y = sg.ones(t % 6 + 1, d) * (0.5 + t % 3) + sg.zeros(t % 4 + 1, 1, 1).sum() + sg.arange(t % 5 + 1).sum() * 0.0
            return x * 0.5 + y.mean(0) * a
        if name == 'reshape-transpose': return x.reshape((1, d)).transpose(0, 1).flatten().unsqueeze(0).squeeze(0) * (1.0 - a)
        if name == 'slice-concat':
            j = t % d
            return sg.concat([x[j:], x[:j]], 0) * 0.5 + x[t % d] * a
        if name == 'stack-unbind':
            parts = sg.unbind(sg.stack([x, s * float(t % 11)], 0), 0)
            return parts[0] * 0.5 + parts[1] * a * 0.01
        if name == 'reductions': return (x - x.mean() * a) / (x.max(0) * x.max(0) + 1.0 + a) + x.sum() * 0.0 + x.min(0) * 0.0
        if name == 'activations': return F.softmax(F.relu(x) * (1.0 + a), -1) + F.tanh(x * a) + F.sigmoid(x - t % 3) * 0.1 + F.log_softmax(x, 0) * 0.0
        if name == 'matmul': return (x.reshape((1, d)) @ W).reshape((d,)) * (1.0 - a) + s * a
        if name == 'module': return (lin(x.reshape((1, d))).reshape((d,)) * a + x * 0.5) if lin is not None else F.linear(x.reshape((1, d)), W).reshape((d,)) * a + x * 0.5
        if name == 'loss': return x * 0.5 + mse(x, s) * a + F.mse_loss(x * (1.0 + a), s) * 0.0
        if name == 'detach-clone': return x.detach().clone() * (1.0 - a) + a
        if name == 'iterate': return sg.stack([r_ * (1.0 + a) for r_ in x.reshape((d, 1))], 0).reshape((d,)) * 0.5 + float(len(x)) * a
        raise ValueError(name)

    # ---- events inside the untracked region (their state is built here, with tracking on)
    events, every = c.get('events') or [], c.get('every', 5)
    ev = {}
    if events:
        from synapgrad import optim
        from synapgrad.nn.utils.train import Trainer, Evaluator
        class Fault(Exception): pass
        ew = sg.Tensor(np.linspace(-1.0, 1.0, d), requires_grad=True)
        g_scalar = ((ew * ew) * 0.5 + ew).sum()             # graphs recorded BEFORE the region is entered
        g_vector = ew * ew + 1.0
        model = nn.Sequential(nn.Linear(d, 3), nn.ReLU(), nn.BatchNorm1d(3), nn.Dropout(0.1), nn.Linear(3, 1))
        params = model.parameters()
        opt = (optim.Adam(params, lr=1e-3) if c.get('opt') == 'adam' else optim.SGD(params, lr=1e-3, momentum=0.5) if c.get('opt') == 'sgd-momentum' else optim.SGD(params, lr=1e-3))
        Xb = sg.Tensor(np.linspace(-1.0, 1.0, 4 * d).reshape(4, d).astype(np.float32)); yb = sg.Tensor(np.array([0.0, 1.0, 1.0, 0.0], dtype=np.float32))
        bad = sg.Tensor(np.ones((4, d + 1), dtype=np.float32))
        g_loss = mse(model(Xb).squeeze(dim=1), yb)
        pw = sg.Tensor(np.linspace(1.0, 2.0, d), requires_grad=True)         # the probe operands
        pq = sg.Tensor(np.linspace(1.0, 2.0, d))
        evaluator = Evaluator(mode=Evaluator.BINARY)
        def swallow(f):
            try: f()
            except Exception: pass
        def e_nested_ng():
            with sg.no_grad():
                _ = pw * 2.0
                with sg.no_grad(): _ = model(Xb)
        def e_nested_ng_raises():
            try:
                with sg.no_grad():
                    with sg.no_grad(): raise Fault('inner')
            except Fault: pass
        def e_nested_rg():
            with sg.retain_grads():
                _ = pw * pw
                with sg.no_grad(): _ = pw + 1.0
        def e_nested_rg_raises():
            try:
                with sg.retain_grads():
                    _ = pw * pw; raise Fault('inner')
            except Fault: pass
        def e_lib_raises():
            try:
                with sg.no_grad(): model(bad)                # the layer rejects the malformed batch inside a nested block
            except Exception: pass
        def e_eval_train():
            model.eval(); _ = model(Xb); model.train()
        def e_train_forward():
            model.train(); _ = model(Xb); model.eval(); _ = model(Xb)
        def e_trainer_test():
            tr = Trainer(model, sg); tr.compile(mse, opt, evaluator)
            tr.test([(Xb, yb), (Xb, yb)])
        def e_evaluator():
            evaluator.step(yb, F.sigmoid(model(Xb)), prefix='val'); evaluator.compute(prefix='val')
        def e_bw_twice():
            g_scalar.backward(); g_scalar.backward()
        ev = {'backward': lambda: g_scalar.backward(), 'backward-of-loss': lambda: g_loss.backward(), 'backward-accumulate-twice': e_bw_twice,
              'backward-raises': lambda: (swallow(lambda: g_vector.backward()), swallow(lambda: g_scalar.backward(sg.Tensor(np.ones((d + 2, 2)))))),
              'optimizer-step': lambda: opt.step(), 'zero_grad': lambda: (opt.zero_grad(), model.zero_grad()), 'eval-train': e_eval_train, 'train-forward': e_train_forward,
              'nested-no_grad': e_nested_ng, 'nested-no_grad-raises': e_nested_ng_raises, 'nested-retain_grads': e_nested_rg, 'nested-retain_grads-raises': e_nested_rg_raises,
              'library-raises-in-nested': e_lib_raises, 'trainer-test': e_trainer_test, 'evaluator': e_evaluator}
        assert sorted(ev) == sorted(LOOP_EVENTS)

    def event(t):
        name = events[(t // every) % len(events)]
        ev[name]()
        st['events run'] = st.get('events run', 0) + 1
        # still untracked?  a result computed in the region right after the event
        r = (pw * 2.0 + pw) if (ng_all or ng_step) else (pq * 2.0 + pq)
        if 'bad' not in st and not (r.requires_grad or r.grad_fn is not None or len(r._children)) and tensor_refs(r, sg.Tensor, max_depth=4, max_objs=200):
            st['bad'] = (name, f"after the event `{name}` (step {t}) a result computed in the same untracked region holds other Tensor objects: {[p_ for p_, _ in tensor_refs(r, sg.Tensor, max_depth=4, max_objs=200)][:3]}")
        if (r.requires_grad or r.grad_fn is not None or len(r._children)) and 'bad' not in st:
            st['bad'] = (name, f"after the event `{name}` (step {t}) a result computed in the same untracked region ({'inside the no_grad block, from a leaf that requires grad' if (ng_all or ng_step) else 'from operands that do not require grad'}) "
                               f"is tracked: requires_grad={r.requires_grad} grad_fn={'set' if r.grad_fn is not None else None} operands kept={len(r._children)}")

    views = bool(c.get('views'))
    if views:
        st['x'] = sg.Tensor(np.arange(float(np.prod(c['shape']))).reshape(c['shape']), requires_grad=rg)
    T = sg.Tensor

    def one(t):
        if events and t % every == 0: event(t)
        x = st['x']
        for name in c['steps']:
            if views:
                x0 = x
                x = view_step(sg, name, x, t)
                # the new state must not point back to ANY tensor (the one it was computed from included), through whatever attribute
                if 'pinned' not in st and x is not x0:
                    hold = tensor_refs(x, T, max_depth=4, max_objs=200)
                    if hold:
                        st['pinned'] = (name, f"step {t}: the result of `{name}` on a tensor of shape {tuple(x0.shape)} (result shape {tuple(x.shape)}, requires_grad={x.requires_grad}, operands recorded={len(x._children)}) "
                                              f"holds {len(hold)} other Tensor object(s): " + ', '.join(f"{p_} -> {'its operand' if r_ is x0 else 'a Tensor'} of shape {tuple(r_.shape)}" for p_, r_ in hold[:3]))
                del x0
            else:
                x = step(name, x, t)
        st['x'] = x

    def run(t_first, n):
        with np.errstate(all='ignore'), common.quiet():
            if ng_all:
                with sg.no_grad():
                    for t in range(t_first, t_first + n): one(t)
            elif ng_step:
                for t in range(t_first, t_first + n):
                    with sg.no_grad(): one(t)
            else:
                for t in range(t_first, t_first + n): one(t)
    return run, st


def _csize(o, depth, seen):
    """number of elements held by a container, nested containers and the attribute dictionaries of synapgrad objects included"""
    if id(o) in seen or depth < 0: return 0
    if isinstance(o, (dict, list, set, frozenset, tuple, collections.deque)):
        seen.add(id(o))
        items = (list(o.values()) + list(o.keys())) if isinstance(o, dict) else list(o)
        return len(o) + sum(_csize(v, depth - 1, seen) for v in items)
    if isinstance(o, (types.ModuleType, type, types.FunctionType, types.BuiltinFunctionType, np.ndarray, str, bytes, int, float)): return 0
    dct = getattr(o, '__dict__', None)
    if isinstance(dct, dict) and str(type(o).__module__).startswith('synapgrad'):
        seen.add(id(o))
        return _csize(dct, depth - 1, seen)
    return 0


def persistent_containers():
    """{where: size} for everything that outlives a call: module-level objects, class-level objects, function defaults / attributes /
    closures / memoisation caches — of every loaded synapgrad module (each object once, under the first name it is found by)"""
    out, done = {}, set()
    def put(path, v, size=None):
        if id(v) in done: return
        done.add(id(v))
        n = _csize(v, 4, set()) if size is None else size
        if n: out[path] = n
    def fn_roots(path, f):
        if id(f) in done: return
        done.add(id(f))
        for nm in ('__defaults__', '__kwdefaults__', '__dict__'):
            v = getattr(f, nm, None)
            if v: put(f'{path}.{nm}', v)
        for k, cell in enumerate(getattr(f, '__closure__', None) or ()):
            try: put(f'{path}.<closure {k}>', cell.cell_contents)
            except ValueError: pass
        ci = getattr(f, 'cache_info', None)
        if callable(ci):
            try: put(f'{path}.<memo>', ci, ci().currsize)
            except Exception: pass
        w_ = getattr(f, '__wrapped__', None)
        if isinstance(w_, types.FunctionType): fn_roots(path + '.__wrapped__', w_)
    isfn = lambda f: isinstance(f, types.FunctionType) or callable(getattr(f, 'cache_info', None))
    for mn, m in sorted((k, v) for k, v in sys.modules.items() if v is not None and (k == 'synapgrad' or k.startswith('synapgrad.'))):
        for name, v in list(vars(m).items()):
            if (name.startswith('__') and name.endswith('__') and name != '__all__') or isinstance(v, types.ModuleType): continue
            path = f'{mn}.{name}'
            if isinstance(v, type):
                if not str(getattr(v, '__module__', '')).startswith('synapgrad') or id(v) in done: continue
                done.add(id(v))
                for an, av in list(vars(v).items()):
                    if an in ('__dict__', '__weakref__', '__doc__', '__module__'): continue
                    f = av.__func__ if isinstance(av, (staticmethod, classmethod)) else av.fget if isinstance(av, property) else av
                    if isfn(f): fn_roots(f'{path}.{an}', f)
                    else: put(f'{path}.{an}', av)
            elif isfn(v):
                if str(getattr(v, '__module__', '')).startswith('synapgrad'): fn_roots(path, v)
            else:
                put(path, v)
    return out


def _snapshot(T):
    gc.collect()
    objs = gc.get_objects()
    live = sum(1 for o in objs if isinstance(o, T))
    n = len(objs)
    del objs
    return live, n


_LOOP_RUNS = [0]


def loop_failure(c):
    """run the case's untracked loop for a warm-up, then n steps (phase A), then 3n more (phase B); nothing may have grown in B.
    Every execution in one process uses step numbers no earlier execution has used (the first one starts at the case's `t0`): what a
    memoising table already holds would otherwise hide its growth from a re-run of the same case."""
    fp = footprint_failure()
    if fp: return fp
    sg = common.impl()
    T = sg.Tensor
    n, t = c['n'], c['t0'] + 10 ** 7 * _LOOP_RUNS[0]
    _LOOP_RUNS[0] += 1
    first = t
    def fail(cls, what, **kw):
        return {'key': dict({'cls': cls}, **kw), 'what': f"untracked loop ({c['scenario']}; steps {c['steps']}; events inside the region {c.get('events') or 'none'} (one every {c.get('every')} steps, optimizer {c.get('opt')}); "
                                                          f"vectors of {c['d']}; step numbers from {first}): " + what}
    try:
        run, st = _loop_runner(sg, c)
        # the first 20 steps one at a time under a byte budget: a tree on which what one step keeps alive multiplies from step to
        # step (bytes doubling per step) is reported after a few steps, before phases A / B would exhaust the machine
        was = tracemalloc.is_tracing()
        tracemalloc.start()
        base = None
        for k_ in range(20):
            run(t, 1); t += 1
            cur = tracemalloc.get_traced_memory()[0]
            if k_ == 3: base = cur
            if base is not None and cur > base + (96 << 20):
                tracemalloc.stop()
                if was: tracemalloc.start()
                return fail('memory', f'{base} bytes allocated and still alive after 4 steps, {cur} after {k_ + 1} steps: what a step keeps alive grows from step to step')
        tracemalloc.stop()
        tracemalloc.start()
        run(t, n); t += n
        gc.collect(); memA = tracemalloc.get_traced_memory()[0]
        tracemalloc.stop()
        liveA, objsA = _snapshot(T)
        contA = persistent_containers()
        tracemalloc.start()
        run(t, 3 * n); t += 3 * n
        gc.collect(); memB = tracemalloc.get_traced_memory()[0]
        tracemalloc.stop()
        if was: tracemalloc.start()
        liveB, objsB = _snapshot(T)
        contB = persistent_containers()
    except Exception as e:
        return fail('raises', f'raised {type(e).__name__}: {e}')
    c['_metrics'] = {'live': (liveA, liveB), 'gc objects': (objsA, objsB), 'bytes alive allocated in the phase': (memA, memB)}
    x = st['x']
    c['_metrics']['events run'] = st.get('events run', 0)
    if st.get('bad'):
        return fail('history-after-event', st['bad'][1], event=st['bad'][0])
    if x.requires_grad or len(x._children) or x.grad_fn is not None:
        return fail('history', f'the result is tracked: requires_grad={x.requires_grad} children={len(x._children)} grad_fn={x.grad_fn}')
    if st.get('pinned'):
        return fail('holds-tensor', st['pinned'][1] + f'; live Tensor objects after {n} steps: {liveA}, after {4 * n} steps: {liveB}', step=st['pinned'][0])
    hold = tensor_refs(x, T)
    if hold:
        return fail('holds-tensor', f"the untracked state after {4 * n + 20} steps holds {len(hold)} other Tensor object(s): " + ', '.join(f'{p_} -> Tensor of shape {tuple(r_.shape)}' for p_, r_ in hold[:3]), step=c['steps'][-1])
    grown = {k: (contA.get(k, 0), v) for k, v in contB.items() if v - contA.get(k, 0) > 2}
    if grown:
        return fail('container', f'persistent containers grew during {3 * n} further steps (size after {n} steps, after {4 * n} steps): {grown}')
    if liveB - liveA > 2:
        return fail('live-tensors', f'{liveA} Tensor objects alive after {n} steps, {liveB} after {4 * n} steps: tensors of earlier untracked steps stay alive')
    if objsB - objsA > n // 8 + 24:
        return fail('live-objects', f'{objsA} gc-tracked objects after {n} steps, {objsB} after {4 * n} steps')
    if memB - memA > 16 * 1024 + memA:
        return fail('memory', f'{memA} bytes allocated and still alive after the {n} steps of phase A, {memB} after the {3 * n} steps of phase B')
    return None


def oracle(c):
    if c['kind'] == 'footprint':
        f = footprint_failure()
        return dict({k: v for k, v in f.items() if k != '_case'}, case=f['_case']) if f else None
    if c['kind'] == 'runtime':
        f = runtime_residue()
        return dict(f, case={'kind': 'runtime'}) if f else None
    if c['kind'] == 'cut':
        f = cut_failure(c)
        return dict(f, case={k: v for k, v in c.items() if not k.startswith('_') and k != 'desc'}) if f else None
    if c['kind'] in ('work', 'loop'):
        f = work_failure(c) if c['kind'] == 'work' else loop_failure(c)
        if f and c['kind'] == 'loop' and c.get('events'):
            # the smallest failing loop: one event, one step template
            for e_ in ([f['key']['event']] if f['key'].get('event') else []) + list(dict.fromkeys(c['events'])):
                c2 = dict(c, events=[e_], steps=c['steps'][:1], n=min(c['n'], 60))
                f2 = loop_failure(c2)
                if f2:
                    c, f = c2, f2
                    break
        return dict({k: v for k, v in f.items() if k != '_case'}, case=f.get('_case') or {k: v for k, v in c.items() if not k.startswith('_') and k != 'desc'}) if f else None
    if c['kind'] == 'untracked':
        f = refs_failure(c)
        if f: return f
    io = _io(c)
    depth = 0
    ckinds, active, made = [], [], 0
    for li, (l, o) in enumerate(zip(c['lines'], io)):
        if c['kind'] == 'untracked' and 'op' not in c and l.startswith('t ctx e'):
            depth += 1 if l.startswith('t ctx enter') else -1
        if c['kind'] == 'untracked' and 'op' not in c:
            # tracking switched on while a no_grad block is active (seen at a `t modes` line): whatever is computed in the rest of the
            # block keeps its history — shown by computing one more result from a tracked leaf right there
            t_ = l.split()
            try:
                if l.startswith('t ctx new'): ckinds.append(t_[3])
                elif l.startswith('t ctx enter'): active.append(int(t_[3]))
                elif l.startswith('t ctx exit') and int(t_[3]) in active: active.reverse(); active.remove(int(t_[3])); active.reverse()
                if l.startswith('t modes') and o[:1] == '1' and any(ckinds[k] == 'ng' for k in active):
                    src = next((i_ for i_, x in enumerate([y for y in c['lines'][:li] if y.startswith(('t leaf', 't op'))]) if x.startswith('t leaf') and x.split()[4] == '1'), None)
                    n_t = sum(1 for y in c['lines'][:li] if y.startswith(('t leaf', 't op')))
                    if src is not None:
                        ext = c['lines'][:li + 1] + [f't op neg {src}', f't flags {n_t}']
                        o2 = tprog.run_program(ext)[-1]
                        if ' ' in o2:
                            f2 = dict(kv.split('=') for kv in o2.split(' '))
                            if f2.get('rg') != '0' or f2.get('children') != '0' or f2.get('fn') != '0':
                                return {'key': {'cls': 'history-inside-no_grad'}, 'case': {'kind': c['kind'], 'lines': ext},
                                        'what': f'tracking is on inside an active no_grad block (modes {o}); a result computed there is tracked: {o2}'}
            except (IndexError, ValueError):
                pass
        if c['kind'] == 'untracked' and depth > 0 and l.startswith('t flags') and ' ' in o:
            f = dict(kv.split('=') for kv in o.split(' '))
            if f['rg'] != '0' or f['children'] != '0' or f['fn'] != '0':
                return {'key': {'cls': 'history-inside-no_grad'}, 'case': {'kind': c['kind'], 'lines': c['lines'][:li + 1]}, 'what': f'a result computed inside an active no_grad block is tracked: {o}'}
        if l.startswith('t bw') and c['kind'] == 'untracked':
            continue
        if l.startswith('t bw'):
            if o == 'rejected':
                return {'key': {'cls': 'backward-raises', 'kind': c['kind']}, 'case': c, 'what': 'backward raised'}
            calls = [e for e in o[len('ok trace='):].split(',') if e.startswith('c')]
            nops = sum(1 for x in c['lines'] if x.startswith('t op'))
            if len(calls) != len(set(calls)):
                return {'key': {'cls': 'called-twice', 'kind': c['kind']}, 'case': c, 'what': 'an operation was called more than once'}
            if c['kind'] == 'chain' and len(calls) != nops:
                return {'key': {'cls': 'calls', 'kind': c['kind']}, 'case': c, 'what': f'{len(calls)} calls for {nops} recorded ops'}
        if c['kind'] in ('untracked', 'fresh') and l.startswith('t flags') and ' ' in o:
            f = dict(kv.split('=') for kv in o.split(' '))
            if f['rg'] == '0' and (f['children'] != '0' or f['fn'] != '0'):
                return {'key': {'cls': 'history'}, 'case': {'kind': c['kind'], 'lines': c['lines'][:li + 1]}, 'what': f'an untracked result keeps {o}'}
    return None


def search(rng, tier):
    for c in cases(rng, 'quick'):
        f = oracle(c)
        if f: yield f


def matches_known(k, fail): return k.get('key') == fail.get('key')
def rerun_known(k): return oracle(k['witness']) is not None
def replay(fail):
    f = oracle(fail['case'])
    return {'fails': f is not None, 'now': f}
