"""C17 — deep graphs, each op visited once, untracked computations keep no history"""
import gc, time, weakref
import numpy as np
import common
from common import show_floats, show_ints, fbits
import tprog, gen_dag

PROP = 'C17'
LEAN_TARGETS = ['Props.C17']
REQUIRED_THEOREMS = ['Props.C17.each_fn_once', 'Props.C17.trace_linear', 'Props.C17.postorder_covers_reachable',
                     'Props.C17.untracked_has_no_history', 'Props.C17.loop_is_iterative_and_linear']
RULE = ('chains of depth 10..2000 (quick) / 5000 (thorough) and wide fan-out graphs over add/mul/neg/clone, run through the '
        'model and the implementation with the full engine trace compared (each recorded op called exactly once, in a topological '
        'order); programs whose ops run under no_grad or on operands that do not require grad — every op of the catalogue, optional operands absent included — (results must hold no children and '
        'no grad_fn), also as the very first statements of a fresh interpreter (first tensor created inside a pre-entered context). Runtime residue observed on the implementation only: a chain of 50 000 ops back-propagates (no recursion '
        'limit) with one call per op and linear time; operands of untracked results are freed (weakref) in a loop of 100 000 '
        'untracked updates. Non-trivial: depth >= 200 or fan-out >= 50 or an untracked op.')
EXHAUSTIVE = {'quick': False, 'thorough': False}
ASSUMPTIONS = ['CPython reference counting frees unreachable tensors promptly (observed through weakref after gc.collect)']
TRUSTED_BASE = ['harness/tprog.py']


def chain(rng, depth, pos='first'):
    """`pos`: the operand position through which the chain runs deep ('first', 'second', or alternating 'mixed')"""
    lines = [gen_dag.leaf_line((2,), [1.0, -0.5], True), gen_dag.leaf_line((2,), [0.5, 2.0], rng.chance(.5))]
    cur = 0
    nt = 2
    for k in range(depth):
        r = rng.random()
        if pos == 'second' or (pos == 'mixed' and k % 2):
            lines.append(f't op {"add" if r < .8 or k % 50 else "mul"} 1,{cur}')
        elif r < .5: lines.append(f't op add {cur},1')
        elif r < .7: lines.append(f't op neg {cur}')
        elif r < .85: lines.append(f't op clone {cur}')
        else: lines.append(f't op add {cur},{cur}') if rng.chance(.3) else lines.append(f't op mul {cur},1') if k % 50 == 0 else lines.append(f't op add 1,{cur}')
        cur = nt; nt += 1
    # retain_grad() on one tensor close to the root and one close to the leaves: only THEY keep their gradient after the sweep,
    # every other intermediate releases its buffer (memory of a deep graph stays one gradient, not depth many)
    marks = [max(2, cur - rng.randint(1, 3)), min(cur, 2 + rng.randint(0, 3))] if depth >= 10 and rng.chance(.6) else []
    for m_ in marks: lines.append(f't retain {m_}')
    lines.append(f't bw {cur} 2 {show_floats([1.0, -2.0])}')
    lines += ['t grad 0', 't grad 1', f't grad {cur}', f't flags {cur}']
    probe = sorted(set([2, 3, cur - 1, cur - 2, cur // 2, cur // 3] + marks + [rng.randint(2, cur) for _ in range(6)]))
    lines += [f't grad {k}' for k in probe if 2 <= k <= cur]
    return {'kind': 'chain', 'depth': depth, 'lines': lines}


def wide(rng, width):
    lines = [gen_dag.leaf_line((2,), [1.0, 3.0], True)]
    nt = 1
    outs = []
    for k in range(width):
        lines.append(rng.pick([f't op mul 0,0', f't op neg 0', f't op add 0,0', 't op clone 0']))
        outs.append(nt); nt += 1
    acc = outs[0]
    for o in outs[1:]:
        lines.append(f't op add {acc},{o}'); acc = nt; nt += 1
    lines.append(f't bw {acc} 2 {show_floats([0.5, 1.0])}')
    lines += ['t grad 0']
    return {'kind': 'wide', 'width': width, 'lines': lines}


def untracked(rng):
    # two no_grad objects constructed up front (while tracking is on) and entered later, also one inside the other
    lines = [gen_dag.leaf_line((2,), [1.0, 3.0], True), gen_dag.leaf_line((2,), [2.0, 1.0], False), 't ctx new ng', 't ctx new ng']
    nt = 2
    inside = False
    inner = False
    for _ in range(rng.randint(4, 14)):
        r = rng.random()
        if r < .2 and not inner:
            lines.append('t ctx exit 0' if inside else 't ctx enter 0'); inside = not inside
            continue
        if r < .35 and inside:
            lines.append('t ctx exit 1' if inner else 't ctx enter 1'); inner = not inner
            continue
        a = rng.randrange(nt); b = rng.randrange(nt)
        lines.append(rng.pick([f't op add {a},{b}', f't op mul {a},{b}', f't op neg {a}', f't op sum {a} all 0', f't op reshape {a} -1']))
        lines.append(f't flags {nt}'); nt += 1
    if inner: lines.append('t ctx exit 1')
    if inside: lines.append('t ctx exit 0')
    return {'kind': 'untracked', 'lines': lines}


def fresh(rng):
    """run in a fresh interpreter: the FIRST tensors of the process are created inside a pre-entered context (an inference script
    that starts with `with no_grad():`); untracked results must hold no history there either, and the modes must be what the
    contexts say"""
    kind = rng.pick(['ng', 'ng', 'rg'])
    lines = [f't ctx new {kind}', 't ctx enter 0', 't modes', gen_dag.leaf_line((2,), [1.0, 3.0], True), 't modes', gen_dag.leaf_line((2,), [2.0, 1.0], False), 't flags 0']
    nt = 2
    for _ in range(rng.randint(2, 6)):
        a = rng.randrange(nt); b = rng.randrange(nt)
        lines.append(rng.pick([f't op add {a},{b}', f't op mul {a},{b}', f't op neg {a}', f't op sum {a} all 0']))
        lines.append(f't flags {nt}'); nt += 1
    lines += ['t modes', 't ctx exit 0', 't modes', 't op mul 0,1', f't flags {nt}']
    return {'kind': 'fresh', 'lines': lines}


def catalogue_untracked(rng, op, ng=None):
    """EVERY op of the catalogue (arguments from the per-op generators) computed untracked — inside no_grad with operands of
    either flag, or with tracking on from operands none of which requires grad (optional operands absent included): every
    result must come out without operands and without a backward function"""
    import gen_ops
    gen = gen_ops.gen_basic if op in gen_ops.OPS_BASIC else gen_ops.gen_nn
    leaves, args = gen(rng, op, False)
    if op in ('linear', 'conv1d', 'conv2d') and len(leaves) == 3 and rng.chance(.5):     # the optional bias absent
        leaves, args = leaves[:2], [0] + list(args[1:])
    ng = rng.chance(.5) if ng is None else ng
    leaves = [tuple(list(lf[:2]) + [((k == 0 or rng.chance(.6)) if ng else False) if len(lf) < 4 or lf[3] != 'i64' else False] + list(lf[3:])) for k, lf in enumerate(leaves)]
    prog = gen_ops.program({'op': op, 'leaves': leaves, 'args': args}, rng)
    nl = len(leaves)
    lines = prog[:nl] + (['t ctx new ng', 't ctx enter 0'] if ng else []) + prog[nl:] + (['t ctx exit 0'] if ng else [])
    io = tprog.run_program(lines)
    res = io[nl + (2 if ng else 0)]
    nout = 0 if res in ('rejected', 'hidden') or not res.startswith('t') else len(res.split(','))
    lines += [f't flags {k}' for k in range(nl, nl + nout)]
    if nout:
        lines += [f't op mul {nl},{nl}', f't flags {nl + nout}']
    return {'kind': 'untracked', 'op': op, 'lines': lines}


def cases(rng, tier):
    out = []
    import gen_ops
    for op in gen_ops.OPS_BASIC + gen_ops.OPS_NN:
        for k in range((12 if op in ('linear', 'conv1d', 'conv2d', 'batch_norm') else 4) if tier == 'quick' else 40):
            try:
                out.append(catalogue_untracked(rng, op, ng=bool(k % 2)))
            except Exception:
                continue
    for _ in range(3 if tier == 'quick' else 12):
        out.append(fresh(rng))
    depths = [10, 50, 200, 1000, 2000] if tier == 'quick' else [10, 50, 200, 1000, 2000, 3000, 5000]
    for d in depths:
        out.append(chain(rng, d))
        if d >= 1000:
            out.append(chain(rng, d, 'second'))
            out.append(chain(rng, d, 'mixed'))
    for w in ([5, 60, 300] if tier == 'quick' else [5, 60, 300, 1000]):
        out.append(wide(rng, w))
    for _ in range(40 if tier == 'quick' else 600):
        out.append(untracked(rng))
    out.append({'kind': 'runtime', 'lines': ['t modes']})
    for c in out:
        c['desc'] = f"{c['kind']} depth={c.get('depth')} width={c.get('width')} : " + ' ; '.join(c['lines'][:12])
    return out


def impl(c):
    return _io(c)


def _io(c):
    return tprog.run_program_fresh(c['lines']) if c['kind'] == 'fresh' else tprog.run_program(c['lines'])


def compare(c, mo, io):
    diffs = tprog.diff_program(c['lines'], mo, io)
    if c['kind'] == 'runtime':
        f = runtime_residue()
        if f: diffs.append(('runtime', 'deep chain / untracked loop', f['what']))
    return diffs


def nontrivial(c):
    return c.get('depth', 0) >= 200 or c.get('width', 0) >= 50 or c['kind'] in ('untracked', 'fresh')


def distribution(cases):
    d = {}
    for c in cases:
        d[c['kind']] = d.get(c['kind'], 0) + 1
    return d


# ---- what no model can exhibit: interpreter recursion depth, object liveness, wall time -----------
def runtime_residue(depth=50000, loop=100000):
    sg = common.impl()
    BF = sg.functional.BackwardFunction
    calls = [0]
    oc = BF.__call__
    def call(s):
        calls[0] += 1; return oc(s)
    x = sg.Tensor(np.array([1.0, 2.0]), requires_grad=True)
    y = x
    one = sg.Tensor(np.array([1.0, 1.0]))
    for k in range(depth):          # the chain runs through the first operand, then the second, then alternates
        y = (y + 1.0) if k < depth // 3 else sg.add(one, y) if k < 2 * depth // 3 or k % 2 else sg.add(y, one)
    BF.__call__ = call
    try:
        t0 = time.time()
        try:
            with common.quiet():
                y.backward(sg.Tensor(np.array([1.0, 1.0])))
        except RecursionError:
            return {'key': {'cls': 'recursion'}, 'what': f'backward on a chain of {depth} ops raised RecursionError'}
        dt = time.time() - t0
    finally:
        BF.__call__ = oc
    if calls[0] != depth:
        return {'key': {'cls': 'calls'}, 'what': f'{calls[0]} grad_fn calls for {depth} recorded ops'}
    if not np.allclose(x.grad.data, [1.0, 1.0]):
        return {'key': {'cls': 'value'}, 'what': f'gradient through {depth} additions is {x.grad.data}'}
    if dt > 60:
        return {'key': {'cls': 'time'}, 'what': f'backward over {depth} ops took {dt:.1f}s'}
    del y
    # untracked loop: operands must not be kept alive
    w = sg.Tensor(np.array([1.0, 2.0]), requires_grad=True)
    refs = []
    with sg.no_grad():
        cur = w
        for k in range(loop):
            nxt = cur * 1.0001
            if k % 10000 == 0: refs.append(weakref.ref(nxt))
            cur = nxt
    a = sg.Tensor(np.array([1.0, 2.0]))
    cur = a
    for k in range(loop // 10):
        nxt = cur + 1.0
        if k % 1000 == 0: refs.append(weakref.ref(nxt))
        cur = nxt
    last = cur
    gc.collect()
    alive = sum(1 for r in refs if r() is not None and r() is not last)
    if alive > 1:
        return {'key': {'cls': 'liveness'}, 'what': f'{alive} of {len(refs)} intermediate results of untracked updates are still alive'}
    return None


def oracle(c):
    if c['kind'] == 'runtime':
        f = runtime_residue()
        return dict(f, case={'kind': 'runtime'}) if f else None
    io = _io(c)
    for li, (l, o) in enumerate(zip(c['lines'], io)):
        if l.startswith('t bw'):
            if o == 'rejected':
                return {'key': {'cls': 'backward-raises', 'kind': c['kind']}, 'case': c, 'what': 'backward raised'}
            calls = [e for e in o[len('ok trace='):].split(',') if e.startswith('c')]
            nops = sum(1 for x in c['lines'] if x.startswith('t op'))
            if len(calls) != len(set(calls)):
                return {'key': {'cls': 'called-twice', 'kind': c['kind']}, 'case': c, 'what': 'an operation was called more than once'}
            if c['kind'] == 'chain' and len(calls) != nops:
                return {'key': {'cls': 'calls', 'kind': c['kind']}, 'case': c, 'what': f'{len(calls)} calls for {nops} recorded ops'}
        if c['kind'] in ('untracked', 'fresh') and l.startswith('t flags') and ' ' in o:
            f = dict(kv.split('=') for kv in o.split(' '))
            if f['rg'] == '0' and (f['children'] != '0' or f['fn'] != '0'):
                return {'key': {'cls': 'history'}, 'case': {'kind': c['kind'], 'lines': c['lines'][:li + 1]}, 'what': f'an untracked result keeps {o}'}
    return None


def search(rng, tier):
    for c in cases(rng, 'quick'):
        f = oracle(c)
        if f: yield f


def matches_known(k, fail): return k.get('key') == fail.get('key')
def rerun_known(k): return oracle(k['witness']) is not None
def replay(fail):
    f = oracle(fail['case'])
    return {'fails': f is not None, 'now': f}
