"""C17 — deep graphs, each op visited once, untracked computations keep no history"""
import gc, os, sys, time, types, weakref, collections, tracemalloc
import numpy as np
import common
from common import show_floats, show_ints, fbits
import tprog, gen_dag

PROP = 'C17'
LEAN_TARGETS = ['Props.C17']
REQUIRED_THEOREMS = ['Props.C17.each_fn_once', 'Props.C17.trace_linear', 'Props.C17.postorder_covers_reachable',
                     'Props.C17.untracked_has_no_history', 'Props.C17.loop_is_iterative_and_linear']
REQUIRED_THEOREMS += ['Props.C17.src_explicit_stack_skeleton', 'Props.C17.src_explicit_stack_step']   # ties to tensor.py as read on this run
RULE = ('chains of depth 10..2000 (quick) / 5000 (thorough) and wide fan-out graphs over add/mul/neg/clone, run through the '
        'model and the implementation with the full engine trace compared (each recorded op called exactly once, in a topological '
        'order); programs whose ops run under no_grad or on operands that do not require grad — every op of the catalogue, optional operands absent included — (results must hold no children and '
        'no grad_fn), also as the very first statements of a fresh interpreter (first tensor created inside a pre-entered context). Runtime residue observed on the implementation only: a chain of 50 000 ops back-propagates (no recursion '
        'limit) with one call per op and linear time; operands of untracked results are freed (weakref) in a loop of 100 000 '
        'untracked updates. '
        'WORK (kind work, implementation only): graphs of nine shapes — one op with k operands (stack / concat), k consumers of one tensor, one multi-output op with k consumed outputs, '
        'a lattice, a binary reduction tree, a chain, nested fan-in, one op whose k operands are the same tensor, dense layers (edges >> nodes) — built at size k and 2k; the work of backward() is '
        'counted deterministically (line events and calls of synapgrad frames through sys.settrace + calls of Tensor.__hash__/__eq__, which stand in for the C-level set / list look-ups) and must grow at most linearly '
        '(work(2k)/work(k) < 2.5; quadratic gives ~4), with exactly one grad_fn call per recorded op. '
        'LOOPS (kind loop, implementation only): untracked loops (no_grad around the loop / per step, or operands none of which requires grad) of N and then 3N more steps over randomly chosen step templates with '
        'STEP-DEPENDENT Python scalars (float, int, NumPy scalars, data-dependent), operators and r-operators, varying shapes, slicing, stack/unbind, reductions, activations, matmul, modules and losses; '
        'between the two phases nothing may grow: live Tensor objects (gc), gc-tracked objects, the size of every module-level / class-level / function-default / closure container of the synapgrad modules, traced memory. '
        'Non-trivial: depth >= 200 or fan-out >= 50 or an untracked op or a work / loop case.')
EXHAUSTIVE = {'quick': False, 'thorough': False}
ASSUMPTIONS = ['CPython reference counting frees unreachable tensors promptly (observed through weakref after gc.collect)']
TRUSTED_BASE = ['harness/tprog.py']
TRUSTED_BASE = TRUSTED_BASE + ['harness/engine_logic.py (reading of the conditions, context transitions, loop skeletons and class method surfaces of tensor.py / nn/modules.py, Generated/EngineLogic.lean; the Boolean translation is validated on every run by the `logic` family of C07)']


def chain(rng, depth, pos='first'):
    """`pos`: the operand position through which the chain runs deep ('first', 'second', or alternating 'mixed')"""
    lines = [gen_dag.leaf_line((2,), [1.0, -0.5], True), gen_dag.leaf_line((2,), [0.5, 2.0], rng.chance(.5))]
    cur = 0
    nt = 2
    for k in range(depth):
        r = rng.random()
        if pos == 'second' or (pos == 'mixed' and k % 2):
            lines.append(f't op {"add" if r < .8 or k % 50 else "mul"} 1,{cur}')
        elif r < .5: lines.append(f't op add {cur},1')
        elif r < .7: lines.append(f't op neg {cur}')
        elif r < .85: lines.append(f't op clone {cur}')
        else: lines.append(f't op add {cur},{cur}') if rng.chance(.3) else lines.append(f't op mul {cur},1') if k % 50 == 0 else lines.append(f't op add 1,{cur}')
        cur = nt; nt += 1
    # retain_grad() on one tensor close to the root and one close to the leaves: only THEY keep their gradient after the sweep,
    # every other intermediate releases its buffer (memory of a deep graph stays one gradient, not depth many)
    marks = [max(2, cur - rng.randint(1, 3)), min(cur, 2 + rng.randint(0, 3))] if depth >= 10 and rng.chance(.6) else []
    for m_ in marks: lines.append(f't retain {m_}')
    lines.append(f't bw {cur} 2 {show_floats([1.0, -2.0])}')
    lines += ['t grad 0', 't grad 1', f't grad {cur}', f't flags {cur}']
    probe = sorted(set([2, 3, cur - 1, cur - 2, cur // 2, cur // 3] + marks + [rng.randint(2, cur) for _ in range(6)]))
    lines += [f't grad {k}' for k in probe if 2 <= k <= cur]
    return {'kind': 'chain', 'depth': depth, 'lines': lines}


def wide(rng, width):
    lines = [gen_dag.leaf_line((2,), [1.0, 3.0], True)]
    nt = 1
    outs = []
    for k in range(width):
        lines.append(rng.pick([f't op mul 0,0', f't op neg 0', f't op add 0,0', 't op clone 0']))
        outs.append(nt); nt += 1
    acc = outs[0]
    for o in outs[1:]:
        lines.append(f't op add {acc},{o}'); acc = nt; nt += 1
    lines.append(f't bw {acc} 2 {show_floats([0.5, 1.0])}')
    lines += ['t grad 0']
    return {'kind': 'wide', 'width': width, 'lines': lines}


def untracked(rng):
    # two no_grad objects constructed up front (while tracking is on) and entered later, also one inside the other
    lines = [gen_dag.leaf_line((2,), [1.0, 3.0], True), gen_dag.leaf_line((2,), [2.0, 1.0], False), 't ctx new ng', 't ctx new ng']
    nt = 2
    inside = False
    inner = False
    for _ in range(rng.randint(4, 14)):
        r = rng.random()
        if r < .2 and not inner:
            lines.append('t ctx exit 0' if inside else 't ctx enter 0'); inside = not inside
            continue
        if r < .35 and inside:
            lines.append('t ctx exit 1' if inner else 't ctx enter 1'); inner = not inner
            continue
        a = rng.randrange(nt); b = rng.randrange(nt)
        lines.append(rng.pick([f't op add {a},{b}', f't op mul {a},{b}', f't op neg {a}', f't op sum {a} all 0', f't op reshape {a} -1']))
        lines.append(f't flags {nt}'); nt += 1
    if inner: lines.append('t ctx exit 1')
    if inside: lines.append('t ctx exit 0')
    return {'kind': 'untracked', 'lines': lines}


def fresh(rng):
    """run in a fresh interpreter: the FIRST tensors of the process are created inside a pre-entered context (an inference script
    that starts with `with no_grad():`); untracked results must hold no history there either, and the modes must be what the
    contexts say"""
    kind = rng.pick(['ng', 'ng', 'rg'])
    lines = [f't ctx new {kind}', 't ctx enter 0', 't modes', gen_dag.leaf_line((2,), [1.0, 3.0], True), 't modes', gen_dag.leaf_line((2,), [2.0, 1.0], False), 't flags 0']
    nt = 2
    for _ in range(rng.randint(2, 6)):
        a = rng.randrange(nt); b = rng.randrange(nt)
        lines.append(rng.pick([f't op add {a},{b}', f't op mul {a},{b}', f't op neg {a}', f't op sum {a} all 0']))
        lines.append(f't flags {nt}'); nt += 1
    lines += ['t modes', 't ctx exit 0', 't modes', 't op mul 0,1', f't flags {nt}']
    return {'kind': 'fresh', 'lines': lines}


def catalogue_untracked(rng, op, ng=None):
    """EVERY op of the catalogue (arguments from the per-op generators) computed untracked — inside no_grad with operands of
    either flag, or with tracking on from operands none of which requires grad (optional operands absent included): every
    result must come out without operands and without a backward function"""
    import gen_ops
    gen = gen_ops.gen_basic if op in gen_ops.OPS_BASIC else gen_ops.gen_nn
    leaves, args = gen(rng, op, False)
    if op in ('linear', 'conv1d', 'conv2d') and len(leaves) == 3 and rng.chance(.5):     # the optional bias absent
        leaves, args = leaves[:2], [0] + list(args[1:])
    ng = rng.chance(.5) if ng is None else ng
    leaves = [tuple(list(lf[:2]) + [((k == 0 or rng.chance(.6)) if ng else False) if len(lf) < 4 or lf[3] != 'i64' else False] + list(lf[3:])) for k, lf in enumerate(leaves)]
    prog = gen_ops.program({'op': op, 'leaves': leaves, 'args': args}, rng)
    nl = len(leaves)
    lines = prog[:nl] + (['t ctx new ng', 't ctx enter 0'] if ng else []) + prog[nl:] + (['t ctx exit 0'] if ng else [])
    io = tprog.run_program(lines)
    res = io[nl + (2 if ng else 0)]
    nout = 0 if res in ('rejected', 'hidden') or not res.startswith('t') else len(res.split(','))
    lines += [f't flags {k}' for k in range(nl, nl + nout)]
    if nout:
        lines += [f't op mul {nl},{nl}', f't flags {nl + nout}']
    return {'kind': 'untracked', 'op': op, 'lines': lines}



def extract():
    """the statement skeleton of the explicit-stack traversal is re-read from tensor.py (Generated/EngineLogic.lean); the src_* theorems are re-checked by the build"""
    import engine_logic
    return engine_logic.write()[0]

def cases(rng, tier):
    out = []
    import gen_ops
    for op in gen_ops.OPS_BASIC + gen_ops.OPS_NN:
        for k in range((12 if op in ('linear', 'conv1d', 'conv2d', 'batch_norm') else 4) if tier == 'quick' else 40):
            try:
                out.append(catalogue_untracked(rng, op, ng=bool(k % 2)))
            except Exception:
                continue
    for _ in range(3 if tier == 'quick' else 12):
        out.append(fresh(rng))
    depths = [10, 50, 200, 1000, 2000] if tier == 'quick' else [10, 50, 200, 1000, 2000, 3000, 5000]
    for d in depths:
        out.append(chain(rng, d))
        if d >= 1000:
            out.append(chain(rng, d, 'second'))
            out.append(chain(rng, d, 'mixed'))
    for w in ([5, 60, 300] if tier == 'quick' else [5, 60, 300, 1000]):
        out.append(wide(rng, w))
    for _ in range(40 if tier == 'quick' else 600):
        out.append(untracked(rng))
    out.append({'kind': 'runtime', 'lines': ['t modes']})
    out += work_cases(rng, tier) + loop_cases(rng, tier)
    for c in out:
        c['desc'] = f"{c['kind']} depth={c.get('depth')} width={c.get('width')} : " + ' ; '.join(c['lines'][:12])
        if c['kind'] in ('work', 'loop'):
            c['desc'] = f"{c['kind']} " + ' '.join(f'{k}={v}' for k, v in c.items() if k not in ('lines', 'desc', 'kind'))
    return out


def impl(c):
    if c['kind'] == 'work': c['_res'] = work_failure(c)
    if c['kind'] == 'loop': c['_res'] = loop_failure(c)
    return _io(c)


def _io(c):
    return tprog.run_program_fresh(c['lines']) if c['kind'] == 'fresh' else tprog.run_program(c['lines'])


def compare(c, mo, io):
    diffs = tprog.diff_program(c['lines'], mo, io)
    if c['kind'] == 'runtime':
        f = runtime_residue()
        if f: diffs.append(('runtime', 'deep chain / untracked loop', f['what']))
    if c['kind'] in ('work', 'loop') and c.get('_res'):
        diffs.append((c['kind'], 'backward linear in nodes + edges' if c['kind'] == 'work' else 'nothing grows with the number of untracked steps', c['_res']['what']))
    return diffs


def nontrivial(c):
    return c.get('depth', 0) >= 200 or c.get('width', 0) >= 50 or c['kind'] in ('untracked', 'fresh', 'work', 'loop')


def distribution(cases):
    d = {}
    for c in cases:
        d[c['kind']] = d.get(c['kind'], 0) + 1
        if c['kind'] == 'work':
            d[f"work/{c['family']}"] = d.get(f"work/{c['family']}", 0) + 1
        if c['kind'] == 'loop':
            d[f"loop/{c['scenario']}"] = d.get(f"loop/{c['scenario']}", 0) + 1
            for t_ in c['steps']:
                d[f'loop step/{t_}'] = d.get(f'loop step/{t_}', 0) + 1
    return d


# ---- what no model can exhibit: interpreter recursion depth, object liveness, wall time -----------
def runtime_residue(depth=50000, loop=100000):
    sg = common.impl()
    BF = sg.functional.BackwardFunction
    calls = [0]
    oc = BF.__call__
    def call(s):
        calls[0] += 1; return oc(s)
    x = sg.Tensor(np.array([1.0, 2.0]), requires_grad=True)
    y = x
    one = sg.Tensor(np.array([1.0, 1.0]))
    for k in range(depth):          # the chain runs through the first operand, then the second, then alternates
        y = (y + 1.0) if k < depth // 3 else sg.add(one, y) if k < 2 * depth // 3 or k % 2 else sg.add(y, one)
    BF.__call__ = call
    try:
        t0 = time.time()
        try:
            with common.quiet():
                y.backward(sg.Tensor(np.array([1.0, 1.0])))
        except RecursionError:
            return {'key': {'cls': 'recursion'}, 'what': f'backward on a chain of {depth} ops raised RecursionError'}
        dt = time.time() - t0
    finally:
        BF.__call__ = oc
    if calls[0] != depth:
        return {'key': {'cls': 'calls'}, 'what': f'{calls[0]} grad_fn calls for {depth} recorded ops'}
    if not np.allclose(x.grad.data, [1.0, 1.0]):
        return {'key': {'cls': 'value'}, 'what': f'gradient through {depth} additions is {x.grad.data}'}
    if dt > 60:
        return {'key': {'cls': 'time'}, 'what': f'backward over {depth} ops took {dt:.1f}s'}
    del y
    # untracked loop: operands must not be kept alive
    w = sg.Tensor(np.array([1.0, 2.0]), requires_grad=True)
    refs = []
    with sg.no_grad():
        cur = w
        for k in range(loop):
            nxt = cur * 1.0001
            if k % 10000 == 0: refs.append(weakref.ref(nxt))
            cur = nxt
    a = sg.Tensor(np.array([1.0, 2.0]))
    cur = a
    for k in range(loop // 10):
        nxt = cur + 1.0
        if k % 1000 == 0: refs.append(weakref.ref(nxt))
        cur = nxt
    last = cur
    gc.collect()
    alive = sum(1 for r in refs if r() is not None and r() is not last)
    if alive > 1:
        return {'key': {'cls': 'liveness'}, 'what': f'{alive} of {len(refs)} intermediate results of untracked updates are still alive'}
    return None


# ---- WORK: backward is linear in nodes + edges for every graph shape ----------------------------------
# Counted, not timed.  `sys.settrace` counts the line events and the calls of every frame whose code lives in the synapgrad
# package while backward() runs; Tensor.__hash__ / __eq__ (identity, as the defaults) are replaced by counting versions for the
# duration of the call, so that look-ups in sets / dicts / lists of tensors — which run in C and produce no line events — are
# counted too.  The graph is built at size k and at size 2k; the count may at most double (plus slack).
WORK_FAMILIES = ['fan-in', 'fan-out', 'multi-output', 'lattice', 'tree', 'chain', 'nested-fan-in', 'same-operand', 'dense-layers']
WORK_RATIO = 2.5


def work_cases(rng, tier):
    out = []
    for rep in range(1 if tier == 'quick' else 4):
        for fam in WORK_FAMILIES:
            out.append({'kind': 'work', 'family': fam, 'k': rng.randint(300, 500) if tier == 'quick' else rng.randint(300, 1500), 'variant': rng.randrange(1 << 16), 'lines': ['t modes']})
    return out


def build_graph(sg, fam, k, variant):
    """the root of a differentiable graph of `size` k (nodes + edges proportional to k); every choice derives from `variant`"""
    r = common.Rng(variant)
    d = r.pick([1, 3, 4])
    w = sg.Tensor(np.linspace(0.5, 1.5, d), requires_grad=True)
    v = sg.Tensor(np.linspace(-1.0, 1.0, d), requires_grad=r.chance(.5))
    def term(i):      # a non-leaf operand
        c = float(i % 7 + 1)
        j = (variant + i) % 5
        return w * c if j == 0 else w + v if j == 1 else -w if j == 2 else w * w if j == 3 else sg.add(v, w) * c
    join = r.pick(['stack', 'concat'])
    def joined(ts, dim=0):
        return sg.stack(ts, dim=dim) if join == 'stack' else sg.concat(ts, dim=dim)
    if fam == 'fan-in':                     # ONE recorded op with k operands
        return joined([term(i) for i in range(k)], r.pick([0, -1]) if join == 'stack' else 0).sum()
    if fam == 'same-operand':               # one op whose k operands are one and the same tensor
        t = term(variant)
        return joined([t] * k).sum()
    if fam == 'fan-out':                    # one tensor with k consumers, reduced by a chain of additions
        t = term(variant)
        acc = t * 1.0
        for i in range(k):
            u = t * float(i + 1) if i % 2 else t + v
            acc = acc + u if (variant + i) % 3 else u + acc
        return acc.sum()
    if fam == 'multi-output':               # one op with k outputs, every output consumed
        x = sg.Tensor(np.ones((k, d)), requires_grad=True)
        parts = sg.unbind(x * 2.0, 0)
        return joined([p_ * p_ if i % 2 else p_ + w for i, p_ in enumerate(parts)]).sum()
    if fam == 'lattice':                    # wide and deep: `wd` nodes per layer, every node feeds two nodes of the next layer
        wd = r.pick([4, 8, 16])
        layer = [term(j) for j in range(wd)]
        for l_ in range(max(1, k // wd)):
            layer = [layer[j] + layer[(j + 1 + l_) % wd] if (j + l_) % 3 else layer[j] * layer[(j + 1) % wd] * 0.5 for j in range(wd)]
        return joined(layer).sum()
    if fam == 'tree':                       # binary reduction of k non-leaf operands
        layer = [term(i) for i in range(k)]
        while len(layer) > 1:
            layer = [layer[i] + layer[i + 1] if i + 1 < len(layer) else layer[i] for i in range(0, len(layer), 2)]
        return layer[0].sum()
    if fam == 'chain':
        y = w
        for i in range(k):
            j = (variant + i) % 4
            y = y * 1.0 + 0.5 if j == 0 else sg.add(v, y) if j == 1 else (-y) if j == 2 else y.clone()
        return y.sum()
    if fam == 'nested-fan-in':              # k/g groups of g operands, joined again
        g = r.pick([10, 20])
        return sg.stack([joined([term(i * g + j) for j in range(g)]) for i in range(max(1, k // g))], 0).sum()
    if fam == 'dense-layers':               # every node of a layer consumes EVERY node of the previous one: edges = wd * nodes
        wd = r.pick([6, 10])
        layer = [term(j) for j in range(wd)]
        for l_ in range(max(1, k // (wd * wd))):
            layer = [sg.stack(layer[j:] + layer[:j], 0).sum(0) * (1.0 / wd) for j in range(wd)]
        return sg.stack(layer).sum()
    raise ValueError(fam)


def graph_size(root):
    """(non-leaf nodes with a grad_fn, nodes, edges) of the differentiable graph below `root`, by the harness's own walk"""
    seen, todo, edges, fns = {id(root)}, [root], 0, 0
    while todo:
        n = todo.pop()
        fns += n.grad_fn is not None
        for ch in n._children:
            edges += 1
            if id(ch) not in seen:
                seen.add(id(ch)); todo.append(ch)
    return fns, len(seen), edges


def count_backward(sg, root):
    """deterministic amount of work of root.backward(): line events + calls of synapgrad frames + hash / eq calls on tensors"""
    T = sg.Tensor
    BF = sg.functional.BackwardFunction
    pkg = os.path.join(os.path.abspath(common.REPO), 'synapgrad') + os.sep
    cnt = {'line': 0, 'call': 0, 'hash_eq': 0, 'fn': 0}
    def local(frame, event, arg):
        if event == 'line': cnt['line'] += 1
        return local
    def tracer(frame, event, arg):
        if event == 'call' and frame.f_code.co_filename.startswith(pkg):
            cnt['call'] += 1
            return local
        return None
    def eq(a, b):
        cnt['hash_eq'] += 1; return a is b
    def hs(a):
        cnt['hash_eq'] += 1; return id(a) >> 4
    oc = BF.__call__
    def call(s_):
        cnt['fn'] += 1; return oc(s_)
    had_eq, had_hash = T.__dict__.get('__eq__'), T.__dict__.get('__hash__')
    if had_eq is None and had_hash is None:         # only stand in for the DEFAULT identity semantics
        T.__eq__ = eq; T.__hash__ = hs
    BF.__call__ = call
    old = sys.gettrace()
    sys.settrace(tracer)
    try:
        with common.quiet():
            root.backward()
    finally:
        sys.settrace(old)
        BF.__call__ = oc
        if had_eq is None and had_hash is None:
            del T.__eq__; del T.__hash__
    return cnt


def work_failure(c):
    sg = common.impl()
    def fail(cls, what):
        return {'key': {'cls': cls, 'family': c['family']}, 'what': what}
    res = []
    for k in (c['k'], 2 * c['k']):
        try:
            root = build_graph(sg, c['family'], k, c['variant'])
            fns, nodes, edges = graph_size(root)
            cnt = count_backward(sg, root)
        except RecursionError:
            return fail('recursion', f"backward on the {c['family']} graph of size {k} raised RecursionError")
        if cnt['fn'] != fns:
            return fail('calls', f"{c['family']} graph of size {k}: {cnt['fn']} grad_fn calls for {fns} recorded ops")
        res.append((k, nodes + edges, cnt['line'] + cnt['call'] + cnt['hash_eq'], cnt))
        del root
    (k1, s1, w1, c1), (k2, s2, w2, c2) = res
    growth, gsize = w2 / max(w1, 1), s2 / max(s1, 1)
    if growth > WORK_RATIO * gsize / 2:
        return fail('superlinear', f"backward over the {c['family']} graph (variant {c['variant']}): {w1} units of work (line events + calls in synapgrad frames + tensor hash/eq calls) for "
                    f"{s1} nodes+edges at k={k1} ({w1 / s1:.1f} per item), {w2} for {s2} at k={k2} ({w2 / s2:.1f} per item): the work grows x{growth:.2f} when the graph grows x{gsize:.2f} "
                    f"(linear = x{gsize:.2f}, quadratic = x{gsize * gsize:.2f}); counts {c1} -> {c2}")
    return None


# ---- LOOPS: untracked computations keep nothing, whatever the steps look like ---------------------------
LOOP_STEPS = ['mul-add-float', 'r-operators', 'int-scalar', 'division', 'pow', 'neg-sub', 'numpy-scalar', 'data-dependent-scalar', 'tensor-constant', 'varying-shape',
              'reshape-transpose', 'slice-concat', 'stack-unbind', 'reductions', 'activations', 'matmul', 'module', 'loss', 'detach-clone', 'iterate']
LOOP_SCENARIOS = ['no_grad around the loop', 'no_grad per step', 'no operand requires grad']


def loop_cases(rng, tier):
    out = []
    n = 10 if tier == 'quick' else 40
    for j in range(n):
        # every step template occurs in the cases of one run: case j is built around templates 2j, 2j+1 (mod) plus random ones
        steps = [LOOP_STEPS[(2 * j) % len(LOOP_STEPS)], LOOP_STEPS[(2 * j + 1) % len(LOOP_STEPS)]] + [rng.pick(LOOP_STEPS) for _ in range(rng.randint(1, 4))]
        if j % 3 == 0 and 'mul-add-float' not in steps: steps.append('mul-add-float')
        rng.shuffle(steps)
        out.append({'kind': 'loop', 'scenario': LOOP_SCENARIOS[j % 3] if j < 6 else rng.pick(LOOP_SCENARIOS), 'steps': steps, 'd': rng.pick([1, 3, 8]),
                    'n': rng.randint(60, 120) if tier == 'quick' else rng.randint(150, 500), 't0': rng.randrange(10 ** 6), 'lines': ['t modes']})
    return out


def _loop_runner(sg, c):
    """returns run(t_first, n): executes n steps of the case's loop on its state"""
    from synapgrad import nn
    F = sg.nn.functional
    d = c['d']
    ng_all, ng_step = c['scenario'] == LOOP_SCENARIOS[0], c['scenario'] == LOOP_SCENARIOS[1]
    rg = c['scenario'] != LOOP_SCENARIOS[2]
    st = {'x': sg.Tensor(np.linspace(0.5, 1.5, d), requires_grad=rg)}
    s = sg.Tensor(np.linspace(1.0, 2.0, d), requires_grad=rg)
    W = sg.Tensor(np.eye(d) * 0.5 + 0.1, requires_grad=rg)
    lin = nn.Linear(d, d) if rg else None           # (its parameters require grad: used in the no_grad scenarios only)
    mse = nn.MSELoss()

    def step(name, x, t):
        a = 1.0 / (t + 2.0)
        if name == 'mul-add-float': return x * (1.0 - a) + s * a
        if name == 'r-operators': return (t + 1.5) - ((2.0 ** -(t % 5)) * x + (0.25 * t)) + (0.25 * t) * 1.0 - (t + 1.5) + x * 0.0
        if name == 'int-scalar': return ((x + t) - t) * 1 + (t % 97) * 0
        if name == 'division': return (x / (t + 3.0)) * (t + 3.0) + (1.0 + a) / (x * x + 1.0) * 0.0
        if name == 'pow': return (x * x + 1.0) ** (1.0 / (t % 7 + 2)) - 0.5 + (1.0 + a) ** (x * 0.0) * 0.0
        if name == 'neg-sub': return -(s * (0.001 * (t % 1000)) - x) * 0.5
        if name == 'numpy-scalar': return x * np.float64(1.0 + a) + np.float32(t % 13) * 0.0 - np.int64(t) * 0.0
        if name == 'data-dependent-scalar':
            m = float(x.mean().item())
            return x * (1.0 / (1.0 + abs(m))) + (m * 1e-3 + a)
        if name == 'tensor-constant': return sg.add(x, sg.tensor(np.full(d, a))) * sg.tensor(np.float64(1.0 - a))
        if name == 'varying-shape':
            y = sg.ones(t % 6 + 1, d) * (0.5 + t % 3) + sg.zeros(t % 4 + 1, 1, 1).sum() + sg.arange(t % 5 + 1).sum() * 0.0
            return x * 0.5 + y.mean(0) * a
        if name == 'reshape-transpose': return x.reshape((1, d)).transpose(0, 1).flatten().unsqueeze(0).squeeze(0) * (1.0 - a)
        if name == 'slice-concat':
            j = t % d
            return sg.concat([x[j:], x[:j]], 0) * 0.5 + x[t % d] * a
        if name == 'stack-unbind':
            parts = sg.unbind(sg.stack([x, s * float(t % 11)], 0), 0)
            return parts[0] * 0.5 + parts[1] * a * 0.01
        if name == 'reductions': return (x - x.mean() * a) / (x.max(0) * x.max(0) + 1.0 + a) + x.sum() * 0.0 + x.min(0) * 0.0
        if name == 'activations': return F.softmax(F.relu(x) * (1.0 + a), -1) + F.tanh(x * a) + F.sigmoid(x - t % 3) * 0.1 + F.log_softmax(x, 0) * 0.0
        if name == 'matmul': return (x.reshape((1, d)) @ W).reshape((d,)) * (1.0 - a) + s * a
        if name == 'module': return (lin(x.reshape((1, d))).reshape((d,)) * a + x * 0.5) if lin is not None else F.linear(x.reshape((1, d)), W).reshape((d,)) * a + x * 0.5
        if name == 'loss': return x * 0.5 + mse(x, s) * a + F.mse_loss(x * (1.0 + a), s) * 0.0
        if name == 'detach-clone': return x.detach().clone() * (1.0 - a) + a
        if name == 'iterate': return sg.stack([r_ * (1.0 + a) for r_ in x.reshape((d, 1))], 0).reshape((d,)) * 0.5 + float(len(x)) * a
        raise ValueError(name)

    def one(t):
        x = st['x']
        for name in c['steps']:
            x = step(name, x, t)
        st['x'] = x

    def run(t_first, n):
        with np.errstate(all='ignore'), common.quiet():
            if ng_all:
                with sg.no_grad():
                    for t in range(t_first, t_first + n): one(t)
            elif ng_step:
                for t in range(t_first, t_first + n):
                    with sg.no_grad(): one(t)
            else:
                for t in range(t_first, t_first + n): one(t)
    return run, st


def _csize(o, depth, seen):
    """number of elements held by a container, nested containers and the attribute dictionaries of synapgrad objects included"""
    if id(o) in seen or depth < 0: return 0
    if isinstance(o, (dict, list, set, frozenset, tuple, collections.deque)):
        seen.add(id(o))
        items = (list(o.values()) + list(o.keys())) if isinstance(o, dict) else list(o)
        return len(o) + sum(_csize(v, depth - 1, seen) for v in items)
    if isinstance(o, (types.ModuleType, type, types.FunctionType, types.BuiltinFunctionType, np.ndarray, str, bytes, int, float)): return 0
    dct = getattr(o, '__dict__', None)
    if isinstance(dct, dict) and str(type(o).__module__).startswith('synapgrad'):
        seen.add(id(o))
        return _csize(dct, depth - 1, seen)
    return 0


def persistent_containers():
    """{where: size} for everything that outlives a call: module-level objects, class-level objects, function defaults / attributes /
    closures / memoisation caches — of every loaded synapgrad module (each object once, under the first name it is found by)"""
    out, done = {}, set()
    def put(path, v, size=None):
        if id(v) in done: return
        done.add(id(v))
        n = _csize(v, 4, set()) if size is None else size
        if n: out[path] = n
    def fn_roots(path, f):
        if id(f) in done: return
        done.add(id(f))
        for nm in ('__defaults__', '__kwdefaults__', '__dict__'):
            v = getattr(f, nm, None)
            if v: put(f'{path}.{nm}', v)
        for k, cell in enumerate(getattr(f, '__closure__', None) or ()):
            try: put(f'{path}.<closure {k}>', cell.cell_contents)
            except ValueError: pass
        ci = getattr(f, 'cache_info', None)
        if callable(ci):
            try: put(f'{path}.<memo>', ci, ci().currsize)
            except Exception: pass
        w_ = getattr(f, '__wrapped__', None)
        if isinstance(w_, types.FunctionType): fn_roots(path + '.__wrapped__', w_)
    isfn = lambda f: isinstance(f, types.FunctionType) or callable(getattr(f, 'cache_info', None))
    for mn, m in sorted((k, v) for k, v in sys.modules.items() if v is not None and (k == 'synapgrad' or k.startswith('synapgrad.'))):
        for name, v in list(vars(m).items()):
            if (name.startswith('__') and name.endswith('__') and name != '__all__') or isinstance(v, types.ModuleType): continue
            path = f'{mn}.{name}'
            if isinstance(v, type):
                if not str(getattr(v, '__module__', '')).startswith('synapgrad') or id(v) in done: continue
                done.add(id(v))
                for an, av in list(vars(v).items()):
                    if an in ('__dict__', '__weakref__', '__doc__', '__module__'): continue
                    f = av.__func__ if isinstance(av, (staticmethod, classmethod)) else av.fget if isinstance(av, property) else av
                    if isfn(f): fn_roots(f'{path}.{an}', f)
                    else: put(f'{path}.{an}', av)
            elif isfn(v):
                if str(getattr(v, '__module__', '')).startswith('synapgrad'): fn_roots(path, v)
            else:
                put(path, v)
    return out


def _snapshot(T):
    gc.collect()
    objs = gc.get_objects()
    live = sum(1 for o in objs if isinstance(o, T))
    n = len(objs)
    del objs
    return live, n


_LOOP_RUNS = [0]


def loop_failure(c):
    """run the case's untracked loop for a warm-up, then n steps (phase A), then 3n more (phase B); nothing may have grown in B.
    Every execution in one process uses step numbers no earlier execution has used (the first one starts at the case's `t0`): what a
    memoising table already holds would otherwise hide its growth from a re-run of the same case."""
    sg = common.impl()
    T = sg.Tensor
    n, t = c['n'], c['t0'] + 10 ** 7 * _LOOP_RUNS[0]
    _LOOP_RUNS[0] += 1
    first = t
    def fail(cls, what):
        return {'key': {'cls': cls}, 'what': f"untracked loop ({c['scenario']}; steps {c['steps']}; vectors of {c['d']}; step numbers from {first}): " + what}
    try:
        run, st = _loop_runner(sg, c)
        run(t, 20); t += 20
        was = tracemalloc.is_tracing()
        tracemalloc.start()
        run(t, n); t += n
        gc.collect(); memA = tracemalloc.get_traced_memory()[0]
        tracemalloc.stop()
        liveA, objsA = _snapshot(T)
        contA = persistent_containers()
        tracemalloc.start()
        run(t, 3 * n); t += 3 * n
        gc.collect(); memB = tracemalloc.get_traced_memory()[0]
        tracemalloc.stop()
        if was: tracemalloc.start()
        liveB, objsB = _snapshot(T)
        contB = persistent_containers()
    except Exception as e:
        return fail('raises', f'raised {type(e).__name__}: {e}')
    c['_metrics'] = {'live': (liveA, liveB), 'gc objects': (objsA, objsB), 'bytes alive allocated in the phase': (memA, memB)}
    x = st['x']
    if x.requires_grad or len(x._children) or x.grad_fn is not None:
        return fail('history', f'the result is tracked: requires_grad={x.requires_grad} children={len(x._children)} grad_fn={x.grad_fn}')
    grown = {k: (contA.get(k, 0), v) for k, v in contB.items() if v - contA.get(k, 0) > 2}
    if grown:
        return fail('container', f'persistent containers grew during {3 * n} further steps (size after {n} steps, after {4 * n} steps): {grown}')
    if liveB - liveA > 2:
        return fail('live-tensors', f'{liveA} Tensor objects alive after {n} steps, {liveB} after {4 * n} steps: tensors of earlier untracked steps stay alive')
    if objsB - objsA > n // 8 + 24:
        return fail('live-objects', f'{objsA} gc-tracked objects after {n} steps, {objsB} after {4 * n} steps')
    if memB - memA > 16 * 1024 + memA:
        return fail('memory', f'{memA} bytes allocated and still alive after the {n} steps of phase A, {memB} after the {3 * n} steps of phase B')
    return None


def oracle(c):
    if c['kind'] == 'runtime':
        f = runtime_residue()
        return dict(f, case={'kind': 'runtime'}) if f else None
    if c['kind'] in ('work', 'loop'):
        f = work_failure(c) if c['kind'] == 'work' else loop_failure(c)
        return dict(f, case={k: v for k, v in c.items() if not k.startswith('_') and k != 'desc'}) if f else None
    io = _io(c)
    for li, (l, o) in enumerate(zip(c['lines'], io)):
        if l.startswith('t bw'):
            if o == 'rejected':
                return {'key': {'cls': 'backward-raises', 'kind': c['kind']}, 'case': c, 'what': 'backward raised'}
            calls = [e for e in o[len('ok trace='):].split(',') if e.startswith('c')]
            nops = sum(1 for x in c['lines'] if x.startswith('t op'))
            if len(calls) != len(set(calls)):
                return {'key': {'cls': 'called-twice', 'kind': c['kind']}, 'case': c, 'what': 'an operation was called more than once'}
            if c['kind'] == 'chain' and len(calls) != nops:
                return {'key': {'cls': 'calls', 'kind': c['kind']}, 'case': c, 'what': f'{len(calls)} calls for {nops} recorded ops'}
        if c['kind'] in ('untracked', 'fresh') and l.startswith('t flags') and ' ' in o:
            f = dict(kv.split('=') for kv in o.split(' '))
            if f['rg'] == '0' and (f['children'] != '0' or f['fn'] != '0'):
                return {'key': {'cls': 'history'}, 'case': {'kind': c['kind'], 'lines': c['lines'][:li + 1]}, 'what': f'an untracked result keeps {o}'}
    return None


def search(rng, tier):
    for c in cases(rng, 'quick'):
        f = oracle(c)
        if f: yield f


def matches_known(k, fail): return k.get('key') == fail.get('key')
def rerun_known(k): return oracle(k['witness']) is not None
def replay(fail):
    f = oracle(fail['case'])
    return {'fails': f is not None, 'now': f}
