"""C09 — stability-critical ops stay finite and accurate for large-magnitude inputs (partial by nature)"""
import numpy as np
import common
from common import show_floats, show_ints, outcome
import tprog

PROP = 'C09'
LEAN_TARGETS = ['Props.C09']
REQUIRED_THEOREMS = ['Props.C09.softmax_shift_range', 'Props.C09.sigmoid_range', 'Props.C09.exp_100_overflows_f32',
                     'Props.C09.log_softmax_exact', 'Props.C09.bce_logits_shift_nonpos']
REQUIRED_THEOREMS += ['Props.C09.' + t for t in ['src_sigmoid_formula', 'src_sigmoid_backward_formula', 'src_tanh_formula', 'src_tanh_backward_formula', 'src_selu_backward_clamped', 'src_bce_logits_formula', 'src_bce_logits_backward_formula']]   # ties to cpu_ops.py as read on this run
RULE = ('sigmoid, tanh, selu, softmax, log_softmax, cross-entropy, BCE-with-logits, forward and backward, at float32 and float64, on '
        'the magnitude table {0, +-1, +-20, +-88, +-89, +-100, +-1e3, +-1e4} (single values and rows mixing them, i.e. spreads up to '
        '2e4, any label / target) plus random rows, plus batches of more than 1 MiB whose rows sit at levels spread over the table (the row-wise ops are run on the repeated rows, the model on one copy); the model kernels are executed at Float32 and Float and compared with the '
        'implementation at the same dtype (so an overflow is a fact of the model run too); the failing-input search compares with '
        '50-digit mpmath: outputs and gradients must be finite and within 16 ulp(float32) x max(1, |x|max) of the exact value. '
        'Non-trivial: a case with |x| >= 88 or a row spread >= 100.')
EXHAUSTIVE = {'quick': False, 'thorough': False}
ASSUMPTIONS = ['rounding-error propagation and IEEE overflow semantics are observed, not proved; the Lean theorems bound the real-valued intermediates']
TRUSTED_BASE = ['harness/props/c09.py', 'mpmath (oracle of the failing-input search only)']
MAGS = [0.0, 1.0, -1.0, 20.0, -20.0, 88.0, -88.0, 89.0, -89.0, 100.0, -100.0, 1e3, -1e3, 1e4, -1e4]
OPS = ['sigmoid', 'tanh', 'selu', 'softmax', 'log_softmax', 'cross_entropy', 'binary_cross_entropy_with_logits']


def mk(rng, op, dt, row=None):
    if op in ('sigmoid', 'tanh', 'selu'):
        n = rng.randint(1, 5)
        x = row or [rng.pick(MAGS) if rng.chance(.7) else rng.uniform(-1e4, 1e4) for _ in range(n)]
        sh = (len(x),)
        return {'op': op, 'dt': dt, 'shape': sh, 'x': x, 'g': [rng.dyadic(-2, 2) or 1.0 for _ in x], 'gshape': sh, 'dim': 0, 'labels': [], 'aux': [0.0], 'ashape': (1,)}
    if op == 'binary_cross_entropy_with_logits':
        n = rng.randint(1, 5)
        x = row or [rng.pick(MAGS) if rng.chance(.7) else rng.uniform(-1e4, 1e4) for _ in range(n)]
        sh = (len(x),)
        return {'op': op, 'dt': dt, 'shape': sh, 'x': x, 'g': [rng.dyadic(-2, 2) or 1.0 for _ in x], 'gshape': sh, 'dim': 0, 'labels': [],
                'aux': [float(rng.randint(0, 1)) for _ in x], 'ashape': sh}
    if op in ('softmax', 'log_softmax') and row is None and rng.chance(.1):
        # 0-d operand with dim 0 / -1 (NumPy's max / sum accept these two int axes on a 0-d array and reduce nothing): exp(x - x) / exp(x - x)
        # at any magnitude
        return {'op': op, 'dt': dt, 'shape': (), 'x': [rng.pick(MAGS) if rng.chance(.7) else rng.uniform(-1e4, 1e4)], 'g': [rng.dyadic(-2, 2) or 1.0],
                'gshape': (), 'dim': rng.pick([0, -1]), 'labels': [], 'aux': [0.0], 'ashape': (1,)}
    n, c = rng.randint(1, 3), rng.randint(2, 4)
    x = []
    for _ in range(n):
        x += row[:c] + [0.0] * max(0, c - len(row)) if row else [rng.pick(MAGS) if rng.chance(.7) else rng.uniform(-1e4, 1e4) for _ in range(c)]
    sh = (n, c)
    if op == 'cross_entropy':
        return {'op': op, 'dt': dt, 'shape': sh, 'x': x, 'g': [rng.dyadic(-2, 2) or 1.0 for _ in range(n)], 'gshape': (n,), 'dim': 1,
                'labels': [rng.randrange(c) for _ in range(n)], 'aux': [0.0], 'ashape': (1,)}
    return {'op': op, 'dt': dt, 'shape': sh, 'x': x, 'g': [rng.dyadic(-2, 2) or 1.0 for _ in x], 'gshape': sh, 'dim': rng.pick([1, -1, 0]), 'labels': [], 'aux': [0.0], 'ashape': (1,)}


def line(c):
    f32 = lambda v: [float(np.float32(a)) for a in v] if c['dt'] == 'f32' else v
    return (f"stab {c['op']} {c['dt']} {c['dim']} {show_ints(c['labels'])} {show_ints(c['shape'])} {show_floats(f32(c['x']))} "
            f"{show_ints(c['gshape'])} {show_floats(f32(c['g']))} {show_ints(c['ashape'])} {show_floats(f32(c['aux']))}")



def extract():
    """the stability-critical formulas are re-read from cpu_ops.py (Generated/KernelFormulas.lean); the src_* theorems are re-checked by the build"""
    import formulas
    return formulas.write()[0]

def cases(rng, tier):
    out = []
    for dt in ('f32', 'f64'):
        for op in OPS:
            for m in MAGS:
                out.append(mk(rng, op, dt, row=[m, 0.0, -m, m / 2]))
            # several entries of one row just below the level at which a single exp overflows (88.72 in float32, 709.78 in
            # float64): every exp is finite, their sum is not
            for m in ([87.0, 88.0, 88.5, 88.7] if dt == 'f32' else [88.5, 709.0, 709.5, 709.7]):
                out.append(mk(rng, op, dt, row=[m, m, 0.0, m]))
                out.append(mk(rng, op, dt, row=[-m, -m, 0.0, -m]))
            for _ in range(6 if tier == 'quick' else 400):
                out.append(mk(rng, op, dt))
    for dt in ('f32', 'f64'):
        for op in ('softmax', 'log_softmax', 'cross_entropy', 'sigmoid', 'binary_cross_entropy_with_logits'):
            for _ in range(1 if tier == 'quick' else 6):
                out.append(big(rng, op, dt))
    for c in out:
        c['lines'] = [line(c)]
        c['desc'] = {k: c[k] for k in ('op', 'dt', 'shape', 'x', 'labels', 'dim')}
    return out


def big(rng, op, dt):
    """a batch of more than 1 MiB: the rows of a small case (levels spread over the magnitude table) repeated along the batch axis.
    The ops are row-wise, so the first block of the big result is the result of the small case, which is what the model computes."""
    k, C = 8, 64
    x = []
    for _ in range(k):
        lvl = rng.pick(MAGS)
        x += [lvl + rng.dyadic(-4, 4) for _ in range(C)]
    sh = (k, C)
    reps = (2 ** 20 // (k * C * (4 if dt == 'f32' else 8))) + 2
    if op == 'cross_entropy':
        c = {'op': op, 'dt': dt, 'shape': sh, 'x': x, 'g': [rng.dyadic(-2, 2) or 1.0 for _ in range(k)], 'gshape': (k,), 'dim': 1,
             'labels': [rng.randrange(C) for _ in range(k)], 'aux': [0.0], 'ashape': (1,)}
    elif op == 'binary_cross_entropy_with_logits':
        c = {'op': op, 'dt': dt, 'shape': sh, 'x': x, 'g': [rng.dyadic(-2, 2) or 1.0 for _ in x], 'gshape': sh, 'dim': 1, 'labels': [],
             'aux': [float(rng.randint(0, 1)) for _ in x], 'ashape': sh}
    else:
        c = {'op': op, 'dt': dt, 'shape': sh, 'x': x, 'g': [rng.dyadic(-2, 2) or 1.0 for _ in x], 'gshape': sh, 'dim': rng.pick([1, -1]), 'labels': [], 'aux': [0.0], 'ashape': (1,)}
    c['big'] = reps
    return c


def _run(c):
    sg = common.impl()
    dt = tprog.DT[c['dt']]
    reps = c.get('big')
    if reps:
        til = lambda a, shape: np.tile(np.array(a, dtype=np.float64).astype(dt).reshape(shape), (reps,) + (1,) * (len(shape) - 1))
        x = sg.Tensor(til(c['x'], c['shape']), requires_grad=True)
        g = sg.Tensor(til(c['g'], c['gshape']))
        k = c['shape'][0]
        c = dict(c, labels=list(c['labels']) * reps, aux=(til(c['aux'], c['ashape']).ravel().tolist() if tuple(c['ashape']) == tuple(c['shape']) else c['aux']),
                 ashape=((k * reps,) + tuple(c['shape'][1:]) if tuple(c['ashape']) == tuple(c['shape']) else c['ashape']))
        y, gx = _run_on(sg, dt, c, x, g)
        blocks_y, blocks_g = y.reshape((reps, -1)), gx.reshape((reps, -1))
        # every block must repeat the first one (same rows); report the block that deviates most
        dev = np.nanmax(np.abs(blocks_g - blocks_g[0]), axis=1) + np.nanmax(np.abs(blocks_y - blocks_y[0]), axis=1)
        dev = np.where(np.isfinite(dev), dev, 0) + (~np.isfinite(blocks_g)).any(axis=1) + (~np.isfinite(blocks_y)).any(axis=1)
        b = int(np.argmax(dev))
        return y[b * (len(y) // reps):(b + 1) * (len(y) // reps)], gx[b * k:(b + 1) * k]
    x = sg.Tensor(np.array(c['x'], dtype=np.float64).astype(dt).reshape(c['shape']), requires_grad=True)
    g = sg.Tensor(np.array(c['g'], dtype=np.float64).astype(dt).reshape(c['gshape']))
    return _run_on(sg, dt, c, x, g)


def _run_on(sg, dt, c, x, g):
    op = c['op']
    from synapgrad import nn
    layer = (len(c['x']) + int(abs(c['x'][0]) * 8)) % 2 == 1          # the nn layer / loss class instead of the function
    if op in ('sigmoid', 'tanh', 'selu'):
        y = {'sigmoid': nn.Sigmoid, 'tanh': nn.Tanh, 'selu': nn.SELU}[op]()(x) if layer else getattr(sg, op)(x)
    elif op in ('softmax', 'log_softmax'):
        y = (nn.Softmax if op == 'softmax' else nn.LogSoftmax)(c['dim'])(x) if layer else getattr(sg, op)(x, c['dim'])
    elif op == 'cross_entropy':
        lab = sg.Tensor(np.array(c['labels']), dtype=np.int8)
        y = nn.CrossEntropyLoss(reduction='none')(x, lab) if layer else sg.cross_entropy(x, lab)
    else:
        aux = sg.Tensor(np.array(c['aux'], dtype=np.float64).astype(dt).reshape(c['ashape']))
        y = nn.BCEWithLogitsLoss(reduction='none')(x, aux) if layer else sg.binary_cross_entropy_with_logits(x, aux)
    y.backward(g)
    return y.data.astype(np.float64), x.grad.data.astype(np.float64)


def impl(c):
    r = outcome(lambda: _run(c))
    if isinstance(r, str): return [r]
    return [tprog.show_arr(r[0]) + ' ' + tprog.show_arr(r[1])]


def _tol(c):
    m = max([1.0] + [abs(v) for v in c['x']])
    return (16 * 2.0 ** -23 if c['dt'] == 'f32' else 1e-9) * m


def _close(c, a, b):
    if a.shape != b.shape: return False
    if not (np.isfinite(a) == np.isfinite(b)).all(): return False
    fin = np.isfinite(a)
    if (np.isnan(a) != np.isnan(b)).any(): return False
    if (~fin).any() and not np.array_equal(a[~fin & ~np.isnan(a)], b[~fin & ~np.isnan(b)]): return False
    return not fin.any() or np.abs(a[fin] - b[fin]).max() <= _tol(c)


def compare(c, mo, io):
    m, i = mo[0], io[0]
    if m == i: return []
    if ' ' not in m or ' ' not in i: return [(c['lines'][0][:100], m[:100], i[:100])]
    ma, mb = [tprog.parse_arr(s) for s in m.split(' ')]
    ia, ib = [tprog.parse_arr(s) for s in i.split(' ')]
    diffs = []
    if not _close(c, ma, ia): diffs.append((f"{c['op']} {c['dt']} forward", str(ma.ravel()[:6].tolist()), str(ia.ravel()[:6].tolist())))
    if not _close(c, mb, ib): diffs.append((f"{c['op']} {c['dt']} backward", str(mb.ravel()[:6].tolist()), str(ib.ravel()[:6].tolist())))
    return diffs


def nontrivial(c):
    return max(abs(v) for v in c['x']) >= 88 or (max(c['x']) - min(c['x'])) >= 100


def distribution(cases):
    d = {}
    for c in cases:
        k = f"{c['op']}/{c['dt']}"
        d[k] = d.get(k, 0) + 1
        if c.get('big'): d['batch over 1 MiB'] = d.get('batch over 1 MiB', 0) + 1
    d['large'] = sum(1 for c in cases if nontrivial(c))
    return d


# ---- oracle: 50-digit mpmath ---------------------------------------------------------------------------
def _exact(c):
    import mpmath as mp
    mp.mp.dps = 50
    dt = tprog.DT[c['dt']]
    X = np.array(c['x'], dtype=np.float64).astype(dt).astype(np.float64).reshape(c['shape'])
    G = np.array(c['g'], dtype=np.float64).astype(dt).astype(np.float64).reshape(c['gshape'])
    op = c['op']
    f = np.vectorize(lambda v: mp.mpf(float(v)), otypes=[object])
    x, g = f(X), f(G)
    sig = lambda v: 1 / (1 + mp.exp(-v))
    if op == 'sigmoid':
        y = np.vectorize(sig, otypes=[object])(x); return y, g * y * (1 - y)
    if op == 'tanh':
        y = np.vectorize(mp.tanh, otypes=[object])(x); return y, g * (1 - y * y)
    if op == 'selu':
        al, sc = mp.mpf('1.6732632423543772848170429916717'), mp.mpf('1.0507009873554804934193349852946')
        y = np.vectorize(lambda v: sc * (v if v > 0 else al * (mp.exp(v) - 1)), otypes=[object])(x)
        d = np.vectorize(lambda v: sc * (1 if v > 0 else al * mp.exp(v)), otypes=[object])(x)
        return y, g * d
    if op == 'binary_cross_entropy_with_logits':
        t = f(np.array(c['aux'], dtype=np.float64).reshape(c['ashape']))
        y = np.vectorize(lambda v, tt: (1 - tt) * v + mp.log(1 + mp.exp(-v)), otypes=[object])(x, t)
        return y, g * (np.vectorize(sig, otypes=[object])(x) - t)
    if X.ndim == 0:      # softmax / log_softmax of a 0-d operand: the fibre is the element itself
        return np.array(mp.mpf(1 if op == 'softmax' else 0), dtype=object), np.array(mp.mpf(0), dtype=object)
    ax = c['dim'] % X.ndim if op != 'cross_entropy' else 1
    xm = np.moveaxis(x, ax, -1)
    mx = np.max(np.moveaxis(X, ax, -1), axis=-1)
    e = np.vectorize(mp.exp, otypes=[object])(xm - f(mx)[..., None])
    s = e / e.sum(axis=-1)[..., None]
    ls = (xm - f(mx)[..., None]) - np.vectorize(mp.log, otypes=[object])(e.sum(axis=-1))[..., None]
    if op == 'softmax':
        gm = np.moveaxis(g, ax, -1)
        d = s * (gm - (gm * s).sum(axis=-1)[..., None])
        return np.moveaxis(s, -1, ax), np.moveaxis(d, -1, ax)
    if op == 'log_softmax':
        gm = np.moveaxis(g, ax, -1)
        d = gm - s * gm.sum(axis=-1)[..., None]
        return np.moveaxis(ls, -1, ax), np.moveaxis(d, -1, ax)
    n = X.shape[0]
    lab = c['labels']
    y = np.array([-ls[i, lab[i]] for i in range(n)], dtype=object)
    oh = np.zeros(X.shape); oh[range(n), lab] = 1
    return y, (s - f(oh)) * g[:, None]


def oracle(c):
    r = outcome(lambda: _run(c))
    cc = {k: c[k] for k in ('op', 'dt', 'shape', 'x', 'g', 'gshape', 'dim', 'labels', 'aux', 'ashape', 'big') if k in c}
    key = {'op': c['op'], 'dt': c['dt']}
    if isinstance(r, str):
        return {'key': dict(key, cls='raises'), 'case': cc, 'what': f"{c['op']} raised on finite inputs"}
    y, gx = r
    ey, eg = _exact(c)
    for name, got, ex in (('forward', y, ey), ('backward', gx, eg)):
        if not np.isfinite(got).all():
            return {'key': dict(key, cls=name + '-nonfinite'), 'case': cc, 'what': f"{c['op']} ({c['dt']}) {name} is not finite on x={c['x'][:6]}: {got.ravel()[:6].tolist()}"}
        exf = np.array([float(v) for v in np.asarray(ex).ravel()]).reshape(got.shape)
        err = np.abs(got - exf).max()
        if err > _tol(c):
            return {'key': dict(key, cls=name + '-inaccurate'), 'case': cc,
                    'what': f"{c['op']} ({c['dt']}) {name} on x={c['x'][:6]}: {got.ravel()[:6].tolist()}; exact {exf.ravel()[:6].tolist()} (error {err:.3g} > {_tol(c):.3g})"}
    return None


def search(rng, tier):
    for c in cases(rng, 'quick'):
        f = oracle(c)
        if f: yield f


def _fix(c):
    for k in ('shape', 'gshape', 'ashape'): c[k] = tuple(c[k])
    c['lines'] = [line(c)]
    return c
def matches_known(k, fail): return k.get('key') == fail.get('key')
def rerun_known(k): return oracle(_fix(k['witness'])) is not None
def replay(fail):
    f = oracle(_fix(fail['case']))
    return {'fails': f is not None, 'now': f}
