import SynapModel.Drv.GenLogic
/-! `genlogic` : the decision logic generated from tensor.py on this run (`ge <condition> <bools>`, `ge skeleton …`)
    Separate executables on purpose: each `SynapModel/Generated/*.lean` is rewritten from /repo by the checks that own it; a source a
    translator cannot read must break the build targets of those checks only, never the model driver every property uses. -/
open Synap

def stepG (line : String) : String :=
  let toks := (line.trimAscii.toString.splitOn " ").filter (· ≠ "")
  match toks with
  | [] => ""
  | _ :: rest => Drv.GenLogic.runCond rest

partial def loopG (h : IO.FS.Stream) (out : IO.FS.Stream) : IO Unit := do
  let line ← h.getLine
  if line.isEmpty then return ()
  out.putStrLn (stepG line)
  loopG h out

def main : IO Unit := do
  let out ← IO.getStdout
  loopG (← IO.getStdin) out
  out.flush
