
import Proofs.TrainMetrics
