import SynapModel.Kernels.Basic
/-!
# NumPy calls by name

The names `harness/array_formulas.py` emits when it re-reads the array-level kernels of `cpu_ops.py` (those that are a few
NumPy calls): one definition per NumPy function / method, with NumPy's argument order, in terms of the array model of
`SynapModel/Np.lean`.  What each NumPy function *does* is the hand-written model (validated by the correspondence runs of
C01 / C05); what the translator adds is *which* calls a kernel makes, on which arguments, in which order.
-/
namespace Synap.NpCall
open NDArray Np

variable {α : Type} [Zero α] [One α] [Add α] [Mul α] [Neg α]

/-- `np.swapaxes(a, axis1, axis2)` -/
def swapaxes (a : NDArray α) (i j : Int) : Option (NDArray α) := Np.swapaxes a i j
/-- `np.moveaxis(a, source, destination)` -/
def moveaxis (a : NDArray α) (source destination : Int) : Option (NDArray α) := Np.moveaxis a source destination
/-- `a.reshape(shape)` with a target that may hold one `-1` -/
def reshape (a : NDArray α) (target : List Int) : Option (NDArray α) := Np.reshape a target
/-- `a.reshape(shape)` with the concrete shape of another array: raises unless the sizes agree -/
def reshape_to (a : NDArray α) (s : Shape) : Option (NDArray α) := if a.shape.size = s.size then some (reshapeTo a s) else none
/-- `np.expand_dims(a, axis)` -/
def expand_dims (a : NDArray α) (axes : List Int) : Option (NDArray α) := Np.expandDims a axes
/-- `np.squeeze(a, axis)` with explicit axes -/
def squeeze (a : NDArray α) (axes : List Int) : Option (NDArray α) := Np.squeezeAxes a axes
/-- `a @ b` -/
def matmul (a b : NDArray α) : Option (NDArray α) := Np.matmul a b
/-- `a + b` (broadcasting) -/
def add (a b : NDArray α) : Option (NDArray α) := bcast2 (· + ·) a b
/-- `np.sum(a, axis=axis, keepdims=keepdims)` -/
def sum (a : NDArray α) (axis : Axes) (keepdims : Bool) : Option (NDArray α) := Np.sum a axis keepdims
/-- `np.concatenate(arrays, axis=axis)` -/
def concatenate (xs : List (NDArray α)) (axis : Int) : Option (NDArray α) := Np.concatenate xs axis
/-- `np.stack(arrays, axis=axis)` -/
def stack (xs : List (NDArray α)) (axis : Int) : Option (NDArray α) := Np.stack xs axis
/-- `np.rollaxis(a, axis=axis)` read as the sequence of its leading-axis entries (how every caller uses it) -/
def rollaxis (a : NDArray α) (axis : Int) : Option (List (NDArray α)) := Np.unbind a axis
/-- `a[s]` for an index expression -/
def index (a : NDArray α) (s : List Sel) : Option (NDArray α) := do
  let rs ← resolveIndex a.shape s
  pure (gather (indexShape rs) (indexMap rs) a)
/-- `z = np.zeros(shape); np.add.at(z, s, g); z` -/
def add_at_zeros (shape : Shape) (s : List Sel) (g : NDArray α) : Option (NDArray α) := do
  let rs ← resolveIndex shape s
  pure (scatterAdd shape (indexShape rs) (indexMap rs) g)
/-- the helper `unbroadcast(grad, shape)` of cpu_ops.py -/
def unbroadcast (g : NDArray α) (s : Shape) : NDArray α := Np.unbroadcast g s

end Synap.NpCall
