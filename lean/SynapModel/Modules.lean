/-!
# synapgrad/nn/modules.py : Module registries, parameters(), train/eval, Sequential

Modules and parameters are objects with identity: the model keeps them in a world indexed by
ids, so sharing (one parameter or submodule registered under several parents) is expressible.
The generator only builds hierarchies in which a submodule was created before its parent
(`child id < parent id`), which excludes cycles (on which the real code recurses forever).
-/
namespace Synap.Modules

structure Mod where
  subs : List (String × Nat)     -- `_submodules`  (OrderedDict: name ↦ module id)
  params : List (String × Nat)   -- `_parameters`  (OrderedDict: name ↦ parameter id)
  training : Bool
deriving Repr, DecidableEq

structure Par where
  size : Nat
  reqGrad : Bool
  hasGrad : Bool
  /-- the value held by the gradient buffer (a constant fill is all the module programs need) -/
  gval : Option Int := none
deriving Repr, DecidableEq

structure World where
  mods : List Mod
  pars : List Par
deriving Repr, DecidableEq

def World.empty : World := ⟨[], []⟩

/-- `OrderedDict.__setitem__`: an existing key keeps its position -/
def odSet (d : List (String × Nat)) (k : String) (v : Nat) : List (String × Nat) :=
  if d.any (·.1 == k) then d.map (fun e => if e.1 == k then (k, v) else e) else d ++ [(k, v)]

/-- `OrderedDict.pop(k, None)` -/
def odPop (d : List (String × Nat)) (k : String) : List (String × Nat) := d.filter (·.1 != k)

def odGet (d : List (String × Nat)) (k : String) : Option Nat := (d.find? (·.1 == k)).map (·.2)

inductive Val where
  | mod (k : Nat) | par (k : Nat) | other
deriving Repr, DecidableEq

def newMod (w : World) : World × Nat := ({ w with mods := w.mods ++ [⟨[], [], true⟩] }, w.mods.length)
def newPar (w : World) (size : Nat) (rg : Bool) : World × Nat :=
  ({ w with pars := w.pars ++ [{ size := size, reqGrad := rg, hasGrad := false }] }, w.pars.length)

def updMod (w : World) (m : Nat) (f : Mod → Mod) : World :=
  { w with mods := w.mods.zipIdx.map (fun (x, i) => if i = m then f x else x) }
def updPar (w : World) (p : Nat) (f : Par → Par) : World :=
  { w with pars := w.pars.zipIdx.map (fun (x, i) => if i = p then f x else x) }

/-- `register_module` -/
def regMod (w : World) (m : Nat) (name : String) (k : Nat) : World :=
  updMod w m (fun M => { M with params := odPop M.params name, subs := odSet M.subs name k })
/-- `register_parameter` -/
def regPar (w : World) (m : Nat) (name : String) (k : Nat) : World :=
  updMod w m (fun M => { M with subs := odPop M.subs name, params := odSet M.params name k })

/-- `Module.__setattr__`: drop any previous registration of the name, then register by kind -/
def setAttr (w : World) (m : Nat) (name : String) (v : Val) : World :=
  let w := updMod w m (fun M => { M with subs := odPop M.subs name, params := odPop M.params name })
  match v with
  | .mod k => regMod w m name k
  | .par k => regPar w m name k
  | .other => w

/-- keep the first occurrence of every element -/
def dedup (l : List Nat) : List Nat := l.foldl (fun acc x => if acc.contains x then acc else acc ++ [x]) []

/-- `Module.parameters()` as written: own parameters, then every submodule's `parameters()`,
    each parameter object reported once.  `fuel` bounds the nesting depth. -/
def parameters (w : World) : Nat → Nat → List Nat
  | 0, _ => []
  | f+1, m =>
    match w.mods[m]? with
    | none => []
    | some M => dedup (M.params.map (·.2) ++ M.subs.flatMap (fun s => parameters w f s.2))

/-- the plain pre-order listing (with repetitions): the specification `parameters` is compared to -/
def paramsFlat (w : World) : Nat → Nat → List Nat
  | 0, _ => []
  | f+1, m =>
    match w.mods[m]? with
    | none => []
    | some M => M.params.map (·.2) ++ M.subs.flatMap (fun s => paramsFlat w f s.2)

def fuelOf (w : World) : Nat := w.mods.length + 1

/-- `train()` / `eval()`: set the flag on the module and recursively on every submodule -/
def setTraining (v : Bool) : Nat → World → Nat → World
  | 0, w, _ => w
  | f+1, w, m =>
    match w.mods[m]? with
    | none => w
    | some M =>
      let w := updMod w m (fun M => { M with training := v })
      M.subs.foldl (fun w s => setTraining v f w s.2) w

def numParams (w : World) (m : Nat) : Nat × Nat × Nat :=
  let ps := (parameters w (fuelOf w) m).filterMap (fun p => w.pars[p]?)
  ((ps.map (·.size)).sum, ((ps.filter (·.reqGrad)).map (·.size)).sum, ((ps.filter (!·.reqGrad)).map (·.size)).sum)

def zeroGrad (w : World) (m : Nat) : World :=
  (parameters w (fuelOf w) m).foldl (fun w p => updPar w p (fun P => if P.reqGrad then { P with hasGrad := true, gval := some 0 } else P)) w
/-- `p.grad = Tensor(full(v))` through the public setter -/
def setGradVal (w : World) (p : Nat) (v : Int) : World := updPar w p (fun P => { P with hasGrad := true, gval := some v })
/-- `q.grad = p.grad` (a no-op when `p` has no gradient or the sizes differ): `q` now holds the same VALUES; whatever later
    happens to `p`'s gradient does not change `q`'s -/
def shareGrad (w : World) (p q : Nat) : World :=
  match w.pars[p]?, w.pars[q]? with
  | some P, some Q => if P.hasGrad && P.size == Q.size then updPar w q (fun Q' => { Q' with hasGrad := true, gval := P.gval }) else w
  | _, _ => w

/-- `Parameter(p)` / `Parameter(t)` over an existing parameter or tensor (the copy constructor): a NEW object that starts with every
    attribute of its source — size, flag, gradient values — and from then on has a life of its own -/
def wrapPar (w : World) (p : Nat) : World × Option Nat :=
  match w.pars[p]? with
  | some P => ({ w with pars := w.pars ++ [P] }, some w.pars.length)
  | none => (w, none)
/-- the `requires_grad` setter on ONE parameter object -/
def setParReqGrad (w : World) (p : Nat) (v : Bool) : World := updPar w p (fun P => { P with reqGrad := v })

def setReqGrad (v : Bool) (w : World) (m : Nat) : World :=
  (parameters w (fuelOf w) m).foldl (fun w p => updPar w p (fun P => { P with reqGrad := v })) w

/-- `Sequential(*modules)` -/
def sequential (w : World) (ks : List Nat) : World × Nat :=
  let (w, m) := newMod w
  (ks.zipIdx.foldl (fun w (k, i) => regMod w m (toString i) k) w, m)
/-- `Sequential(OrderedDict)` -/
def sequentialDict (w : World) (ks : List (String × Nat)) : World × Nat :=
  let (w, m) := newMod w
  (ks.foldl (fun w (n, k) => regMod w m n k) w, m)

/-- order in which `Sequential.forward` applies its submodules -/
def applyOrder (w : World) (m : Nat) : List Nat := match w.mods[m]? with | none => [] | some M => M.subs.map (·.2)

/-! ### Collections owned by the caller

A container constructor may be handed an object of the calling program: `Sequential(d)` with `d` an `OrderedDict`, or
`Sequential(*l)` with `l` a list of modules.  Such objects have a life of their own: the caller may build a second container from
the same object, or add / remove / replace / reorder its entries afterwards.  The world of modules is kept apart from them: the
constructor COPIES the registrations out of the collection (`seqFrom`), and no operation on a collection touches a module. -/

/-- a collection object of the calling program: an `OrderedDict` name ↦ module, or a list of modules (names unused) -/
structure Coll where
  isDict : Bool
  items : List (String × Nat)
deriving Repr, DecidableEq

/-- the module world together with the caller's collection objects -/
structure CWorld where
  w : World := World.empty
  colls : List Coll := []
deriving Repr

def newColl (cw : CWorld) (c : Coll) : CWorld × Nat := ({ cw with colls := cw.colls ++ [c] }, cw.colls.length)

def updColl (cw : CWorld) (i : Nat) (f : Coll → Coll) : CWorld :=
  { cw with colls := cw.colls.zipIdx.map (fun (x, j) => if j = i then f x else x) }

/-- `d[name] = module`;  `l[i] = module` (`l.append(module)` when `i` is not an index of `l`) -/
def Coll.put (c : Coll) (name : String) (k : Nat) : Coll :=
  if c.isDict then { c with items := odSet c.items name k }
  else match name.toNat? with
    | some i => if i < c.items.length then { c with items := c.items.set i ("", k) } else { c with items := c.items ++ [("", k)] }
    | none => c

/-- `d.pop(name, None)`;  `del l[i]` (nothing when `i` is not an index) -/
def Coll.del (c : Coll) (name : String) : Coll :=
  if c.isDict then { c with items := odPop c.items name }
  else match name.toNat? with
    | some i => { c with items := c.items.eraseIdx i }
    | none => c

/-- `d.move_to_end(name, last)` when the key exists;  `l.append(l.pop(i))` / `l.insert(0, l.pop(i))` -/
def Coll.move (c : Coll) (name : String) (last : Bool) : Coll :=
  if c.isDict then
    match c.items.find? (·.1 == name) with
    | some e => let rest := odPop c.items name; { c with items := if last then rest ++ [e] else e :: rest }
    | none => c
  else match name.toNat? with
    | some i =>
      match c.items[i]? with
      | some e => let rest := c.items.eraseIdx i; { c with items := if last then rest ++ [e] else e :: rest }
      | none => c
    | none => c

def Coll.clear (c : Coll) : Coll := { c with items := [] }
/-- `l.reverse()`;  for a dict `for k in reversed(list(d)): d.move_to_end(k)` -/
def Coll.rev (c : Coll) : Coll := { c with items := c.items.reverse }

/-- `Sequential(d)` / `Sequential(*l)`: the entries are registered one by one in the NEW module's own registry -/
def seqFrom (cw : CWorld) (i : Nat) : CWorld × Option Nat :=
  match cw.colls[i]? with
  | none => (cw, none)
  | some c =>
    let r := if c.isDict then sequentialDict cw.w c.items else sequential cw.w (c.items.map (·.2))
    ({ cw with w := r.1 }, some r.2)

end Synap.Modules
