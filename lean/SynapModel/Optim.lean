/-!
# synapgrad/optim/optimizers.py : SGD, Adam, AdamW over any history of backward / zero_grad / step

Every parameter is modelled by one scalar: the array update of the code is the pointwise map of
the scalar update (`p.data -= lr * grad` on NumPy arrays), and the correspondence run drives the
model once per array element.  The scalar type is generic: `Float` in the driver, a field with a
square root in the theorems.
-/
namespace Synap.Optim

class HasSqrt (α : Type) where
  sqrt : α → α

/-- one parameter tensor (one element of it) as the optimizer sees it -/
structure P (α : Type) where
  θ : α                 -- p.data
  grad : Option α       -- p._grad
  rg : Bool             -- p.requires_grad
deriving Repr

inductive Ev (α : Type) where
  | backward (i : Nat) (g : α)   -- a backward call that contributes `g` to parameter `i`
  | zeroGrad                     -- optimizer.zero_grad()
  | step                         -- optimizer.step()
  | setRg (i : Nat) (b : Bool)   -- p.requires_grad = b  (freeze / unfreeze)
deriving Repr

section
variable {α : Type} [Add α] [Sub α] [Mul α] [Div α] [Neg α] [Zero α] [One α]

/-- `x._grad += g` of the engine: a leaf without gradient is zero-initialised first; a parameter
    that does not require grad receives nothing -/
def accumulate (p : P α) (g : α) : P α :=
  if p.rg then { p with grad := some (p.grad.getD 0 + g) } else p

/-- `Optimizer.zero_grad` (after the repair: only parameters that require grad) -/
def zeroP (p : P α) : P α := if p.rg then { p with grad := some 0 } else p

/-! ### SGD -/
structure SGDCfg (α : Type) where
  lr : α
  momentum : α
  dampening : α
  weightDecay : α
  useWd : Bool        -- `weight_decay != 0`
  useMom : Bool       -- `momentum != 0`
  nesterov : Bool
  maximize : Bool

/-- the body of `SGD.step` for one parameter: returns the new value and momentum buffer -/
def sgdUpdate (c : SGDCfg α) (θ g : α) (buf : Option α) : α × Option α :=
  let g := if c.useWd then g + c.weightDecay * θ else g
  let (g, buf) :=
    if c.useMom then
      let b := match buf with
        | some b => c.momentum * b + (1 - c.dampening) * g
        | none => g
      (if c.nesterov then g + c.momentum * b else b, some b)
    else (g, buf)
  (if c.maximize then θ + c.lr * g else θ - c.lr * g, buf)

/-- one parameter in `SGD.step`: skipped when frozen or without gradient -/
def sgdStepP (c : SGDCfg α) (p : P α) (buf : Option α) : P α × Option α :=
  match p.rg, p.grad with
  | true, some g => let (θ', b') := sgdUpdate c p.θ g buf; ({ p with θ := θ' }, b')
  | _, _ => (p, buf)

structure SGDState (α : Type) where
  ps : List (P α)
  bufs : List (Option α)

def sgdInit (ps : List (P α)) : SGDState α := ⟨ps, ps.map (fun _ => none)⟩

def modifyAt (l : List β) (i : Nat) (f : β → β) : List β :=
  l.zipIdx.map (fun (x, k) => if k = i then f x else x)

def sgdEv (c : SGDCfg α) (s : SGDState α) : Ev α → SGDState α
  | .backward i g => { s with ps := modifyAt s.ps i (fun p => accumulate p g) }
  | .zeroGrad => { s with ps := s.ps.map zeroP }
  | .setRg i b => { s with ps := modifyAt s.ps i (fun p => { p with rg := b }) }
  | .step =>
    let r := List.zipWith (sgdStepP c) s.ps s.bufs
    ⟨r.map (·.1), r.map (·.2)⟩

def sgdRun (c : SGDCfg α) (s : SGDState α) (evs : List (Ev α)) : SGDState α := evs.foldl (sgdEv c) s

/-! ### Adam / AdamW -/
variable [HPow α Nat α] [HasSqrt α]

structure AdamCfg (α : Type) where
  lr : α
  beta1 : α
  beta2 : α
  eps : α
  weightDecay : α
  useWd : Bool
  maximize : Bool
  decoupled : Bool    -- AdamW

structure Moments (α : Type) where
  m1 : α
  m2 : α
  t : Nat
deriving Repr

def adamUpdate (c : AdamCfg α) (θ g : α) (mo : Moments α) : α × Moments α :=
  let t := mo.t + 1
  let g := if c.maximize then -g else g
  let θ := if c.decoupled then θ - c.lr * c.weightDecay * θ else θ
  let g := if !c.decoupled && c.useWd then g + c.weightDecay * θ else g
  let m1 := c.beta1 * mo.m1 + (1 - c.beta1) * g
  let m2 := c.beta2 * mo.m2 + (1 - c.beta2) * (g * g)
  let m1h := m1 / (1 - c.beta1 ^ t)
  let m2h := m2 / (1 - c.beta2 ^ t)
  (θ - (c.lr * m1h) / (HasSqrt.sqrt m2h + c.eps), ⟨m1, m2, t⟩)

def adamStepP (c : AdamCfg α) (p : P α) (mo : Moments α) : P α × Moments α :=
  match p.rg, p.grad with
  | true, some g => let (θ', mo') := adamUpdate c p.θ g mo; ({ p with θ := θ' }, mo')
  | _, _ => (p, mo)

structure AdamState (α : Type) where
  ps : List (P α)
  mos : List (Moments α)

def adamInit (ps : List (P α)) : AdamState α := ⟨ps, ps.map (fun _ => ⟨0, 0, 0⟩)⟩

def adamEv (c : AdamCfg α) (s : AdamState α) : Ev α → AdamState α
  | .backward i g => { s with ps := modifyAt s.ps i (fun p => accumulate p g) }
  | .zeroGrad => { s with ps := s.ps.map zeroP }
  | .setRg i b => { s with ps := modifyAt s.ps i (fun p => { p with rg := b }) }
  | .step =>
    let r := List.zipWith (adamStepP c) s.ps s.mos
    ⟨r.map (·.1), r.map (·.2)⟩

def adamRun (c : AdamCfg α) (s : AdamState α) (evs : List (Ev α)) : AdamState α := evs.foldl (adamEv c) s

end

/-! ### The published recursions (the specification)

For one parameter, given the list of *effective gradients* (the gradient accumulated since the
last reset at the moment of each step that is applied to it), the trajectory is a left fold of
the documented update. -/
section Spec
variable {α : Type} [Add α] [Sub α] [Mul α] [Div α] [Neg α] [Zero α] [One α]

/-- PyTorch SGD pseudo-code, one step (b = momentum buffer, `none` before the first step) -/
def sgdSpecStep (lr μ τ wd : α) (nesterov maximize : Bool) (st : α × Option α) (g : α) : α × Option α :=
  let θ := st.1
  let g := g + wd * θ
  let b := match st.2 with
    | some b => μ * b + (1 - τ) * g
    | none => g
  let g' := if nesterov then g + μ * b else b
  (if maximize then θ + lr * g' else θ - lr * g', some b)

/-- plain SGD (μ = 0): no buffer is ever used -/
def sgdSpecStepPlain (lr wd : α) (maximize : Bool) (θ g : α) : α :=
  let g := g + wd * θ
  if maximize then θ + lr * g else θ - lr * g

/-- effective gradients seen by parameter `i`: scan the history keeping the accumulated gradient
    and the requires-grad flag, emit at every step that is applied -/
def effGrads (i : Nat) (rg0 : Bool) (g0 : Option α) : List (Ev α) → List α
  | [] => []
  | .backward j g :: es =>
    if j = i ∧ rg0 then effGrads i rg0 (some (g0.getD 0 + g)) es else effGrads i rg0 g0 es
  | .zeroGrad :: es => if rg0 then effGrads i rg0 (some 0) es else effGrads i rg0 g0 es
  | .setRg j b :: es => if j = i then effGrads i b g0 es else effGrads i rg0 g0 es
  | .step :: es =>
    match rg0, g0 with
    | true, some g => g :: effGrads i rg0 g0 es
    | _, _ => effGrads i rg0 g0 es

end Spec

end Synap.Optim
