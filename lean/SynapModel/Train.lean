/-!
# synapgrad/nn/utils/train.py : Trainer.fit and Evaluator accuracy

The model produces the *event trace* of `fit` as a function of
`(epochs, nTrain, nVal?, callbacks)`.  Every event records the two pieces of global state the
property is about: the model's training flag and the engine's gradient mode.
-/
namespace Synap.Train

inductive Ev where
  | setTrain                         -- model.train()
  | setEval                          -- model.eval()
  | cbTrain | cbVal                  -- on_train_epoch / on_validation_epoch callbacks
  | forward (training gradOn : Bool) -- model(*inputs)
  | zeroGrad | backward | step       -- optimizer.zero_grad / loss.backward / optimizer.step
  | noGradEnter | noGradExit
deriving Repr, DecidableEq

structure St where
  training : Bool
  gradOn : Bool
  trace : List Ev
deriving Repr

def St.emit (s : St) (e : Ev) : St := { s with trace := s.trace ++ [e] }

/-- one training batch of `Trainer.__train` -/
def trainBatch (s : St) : St :=
  let s := s.emit (.forward s.training s.gradOn)
  let s := s.emit .zeroGrad
  let s := s.emit .backward
  s.emit .step

/-- `Trainer.__train` : `none` models the `UnboundLocalError` on a loader with zero batches, and
    the `RuntimeError` of `loss.backward()` when `fit` is called with gradients disabled -/
def trainEpoch (s : St) (nTrain : Nat) : Option St :=
  let s := { s.emit .setTrain with training := true }
  let s' := (List.range nTrain).foldl (fun s _ => trainBatch s) s
  if nTrain == 0 || !s.gradOn then none else some s'

/-- `Trainer.__validate` -/
def validate (s : St) (nVal : Nat) : Option St :=
  let s := { s.emit .setEval with training := false }
  let prev := s.gradOn                       -- no_grad().__enter__ records the mode in force
  let s := { s.emit .noGradEnter with gradOn := false }
  let s := (List.range nVal).foldl (fun s _ => s.emit (.forward s.training s.gradOn)) s
  if nVal = 0 then none
  else some { s.emit .noGradExit with gradOn := prev }

/-- `Trainer.test` : eval mode, a fresh `no_grad()` block around the whole loop (zero batches are fine here) -/
def test (s : St) (nTest : Nat) : St :=
  let s := { s.emit .setEval with training := false }
  let prev := s.gradOn
  let s := { s.emit .noGradEnter with gradOn := false }
  let s := (List.range nTest).foldl (fun s _ => s.emit (.forward s.training s.gradOn)) s
  { s.emit .noGradExit with gradOn := prev }

structure Cfg where
  epochs : Nat
  nTrain : Nat
  nVal : Option Nat
  cbTrain : Bool
  cbVal : Bool
deriving Repr

def epoch (c : Cfg) (s : St) : Option St := do
  let s := { s.emit .setTrain with training := true }
  let s := if c.cbTrain then s.emit .cbTrain else s
  let s ← trainEpoch s c.nTrain
  match c.nVal with
  | none => pure s
  | some nv =>
    let s := if c.cbVal then s.emit .cbVal else s
    validate s nv

def fitFrom (c : Cfg) : Nat → St → Option St
  | 0, s => some s
  | k+1, s => (epoch c s).bind (fitFrom c k)

/-- the event trace of `fit` started in training flag `tr0` and gradient mode `g0` -/
def fit (c : Cfg) (tr0 g0 : Bool) : Option St := fitFrom c c.epochs ⟨tr0, g0, []⟩

def countStep (t : List Ev) : Nat := t.count .step

/-- keys of the returned history and their lengths -/
def historyKeys (c : Cfg) (evaluator : Bool) : List (String × Nat) :=
  let tr := [("loss", c.epochs)] ++ (if evaluator then [("accuracy", c.epochs)] else [])
  let va := match c.nVal with
    | none => []
    | some _ => [("val_loss", c.epochs)] ++ (if evaluator then [("val_accuracy", c.epochs)] else [])
  if c.epochs = 0 then [] else tr ++ va

/-- fraction of correct predictions -/
def accuracyCount (yTrue yPred : List Nat) : Nat × Nat :=
  ((List.zipWith (fun a b => if a = b then 1 else 0) yTrue yPred).sum, yTrue.length)

/-- index of the first maximum (np.argmax) of a row of scores given as comparable keys -/
def argmax (row : List Int) : Nat :=
  match row with
  | [] => 0
  | x :: xs => (xs.foldl (fun (acc : Int × Nat × Nat) v =>
      let (best, bi, k) := acc
      if v > best then (v, k, k+1) else (best, bi, k+1)) (x, 0, 1)).2.1

end Synap.Train
