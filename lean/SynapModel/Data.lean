/-!
# synapgrad/nn/utils/data.py : split_dataset, DataLoader, one_hot_encode

Samples are identified by their position in the input (`Nat`), so "which sample went where" is
the whole content of the model.  The floating-point computation `int(np.floor(frac * n))` is
done by `floorMul` (the same IEEE operations NumPy performs) and enters the index logic as the
natural number `k`.
-/
namespace Synap.Data

/-- `int(np.floor(frac * n))` for `frac ≥ 0` (binary64 multiply, floor, truncate) -/
def floorMul (frac : Float) (n : Nat) : Nat := (Float.floor (frac * n.toFloat)).toUInt64.toNat

structure Split where
  train : List Nat
  test : List Nat
  val : Option (List Nat)
deriving Repr, DecidableEq

/-- `get_split_indices`: `indices` is `range n` or its shuffle; `kTest = floor(test_split·n)`;
    `kVal = floor(val_split·len(train_val))` is computed by the caller from the remaining length -/
def splitIndices (indices : List Nat) (kTest : Nat) (kVal : Option (Nat → Nat)) : Split :=
  let trainVal := indices.drop kTest
  let test := indices.take kTest
  match kVal with
  | none => { train := trainVal, test := test, val := none }
  | some f =>
    let v := f trainVal.length
    { train := trainVal.drop v, test := test, val := some (trainVal.take v) }

/-- the whole of `split_dataset` on positions, with the fractions as floats -/
def splitDataset (indices : List Nat) (testFrac : Float) (valFrac : Option Float) : Split :=
  splitIndices indices (floorMul testFrac indices.length) (valFrac.map (fun f m => floorMul f m))

/-- `DataLoader.__len__` : `len(y) // batch_size` (Python raises for `batch_size = 0`) -/
def loaderLen (n b : Nat) : Option Nat := if b = 0 then none else some (n / b)

/-- `DataLoader.__getitem__(idx)` on positions: `X[start:end]`, `y[start:end]` with Python's
    saturating slices; `nx`, `ny` are the lengths of `X` and `y` -/
def loaderItem (nx ny b idx : Nat) : List Nat × List Nat :=
  let sl (n : Nat) := ((List.range n).drop (idx * b)).take b
  (sl nx, sl ny)

/-- one pass over the loader (`__iter__` resets `step`, `__next__` until `step ≥ len`) -/
def loaderBatches (nx ny b : Nat) : Option (List (List Nat × List Nat)) :=
  (loaderLen ny b).map (fun len => (List.range len).map (loaderItem nx ny b))

/-- the loader object with its cursor (`self.step`): `__iter__` rewinds, `__next__` yields the batch under
    the cursor and advances, or stops (inner `none`) at the end; the outer `none` is Python raising
    (`batch_size = 0`) -/
structure Loader where
  nx : Nat
  ny : Nat
  b : Nat
  step : Nat
deriving Repr

def Loader.iter (l : Loader) : Loader := { l with step := 0 }

def Loader.next (l : Loader) : Option (Option (List Nat × List Nat) × Loader) :=
  (loaderLen l.ny l.b).map (fun len =>
    if l.step < len then (some (loaderItem l.nx l.ny l.b l.step), { l with step := l.step + 1 }) else (none, l))

/-- the body of a `for` loop that is abandoned (`break`) after at most `k` items: the items it saw -/
def Loader.consume : Nat → Loader → Option (List (List Nat × List Nat) × Loader)
  | 0, l => some ([], l)
  | k + 1, l =>
    match l.next with
    | none => none
    | some (none, l') => some ([], l')
    | some (some it, l') => (Loader.consume k l').map (fun r => (it :: r.1, r.2))

/-- `for item in loader: … break after k items` = `iter` then `consume` -/
def Loader.forLoop (l : Loader) (k : Nat) : Option (List (List Nat × List Nat) × Loader) := l.iter.consume k

/-- a program of successive `for` loops over one loader object, each abandoned after at most `k_i` items -/
def Loader.loops : List Nat → Loader → Option (List (List (List Nat × List Nat)))
  | [], _ => some []
  | k :: ks, l =>
    match l.forLoop k with
    | none => none
    | some (its, l') => (Loader.loops ks l').map (its :: ·)

/-- insert into a strictly increasing list, dropping duplicates -/
def insertUniq (y : Int) : List Int → List Int
  | [] => [y]
  | x :: xs => if y < x then y :: x :: xs else if y = x then x :: xs else x :: insertUniq y xs

/-- sorted distinct labels (`np.unique`) -/
def uniques (ys : List Int) : List Int := ys.foldr insertUniq []

/-- `one_hot_encode` -/
def oneHot (ys : List Int) : List (List Nat) :=
  let u := uniques ys
  ys.map (fun y => (List.range u.length).map (fun k => if u.idxOf y = k then 1 else 0))

end Synap.Data
