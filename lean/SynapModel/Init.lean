import SynapModel.Optim
/-!
# synapgrad/nn/init.py and the `reset_parameters` of Linear / Conv layers

The model returns the *request* an initialiser hands to NumPy's global generator
(`np.random.uniform(low, high, shape)` / `np.random.normal(mean, std, shape)` / a constant fill);
the generator itself is not modelled.
-/
namespace Synap.Init
open Synap.Optim (HasSqrt)

inductive Request (α : Type) where
  | uniform (low high : α)
  | normal (mean std : α)
  | const (v : α)
deriving Repr

inductive Nonlin where
  | linear | conv1d | conv2d | sigmoid | tanh | relu | leakyRelu | selu
deriving Repr, DecidableEq

/-- `_calculate_fan_in_and_fan_out` : `none` for tensors of rank < 2 -/
def fans (shape : List Nat) : Option (Nat × Nat) :=
  match shape with
  | o :: i :: rest => let r := rest.foldr (· * ·) 1; some (i * r, o * r)
  | _ => none

section
variable {α : Type} [Add α] [Sub α] [Mul α] [Div α] [Neg α] [Zero α] [One α] [NatCast α] [OfScientific α] [HasSqrt α]

/-- `calculate_gain(nonlinearity, param)`; `param = none` is Python's `None` -/
def gain (nl : Nonlin) (param : Option α) : α :=
  match nl with
  | .linear | .conv1d | .conv2d | .sigmoid => 1
  | .tanh => ((5 : Nat) : α) / ((3 : Nat) : α)
  | .relu => HasSqrt.sqrt ((2 : Nat) : α)
  | .leakyRelu =>
    let s : α := match param with | none => (OfScientific.ofScientific 1 true 2 : α) | some p => p
    HasSqrt.sqrt (((2 : Nat) : α) / (1 + s * s))
  | .selu => ((3 : Nat) : α) / ((4 : Nat) : α)

def uniform_ (a b : α) : Request α := .uniform a b
def normal_ (mean std : α) : Request α := .normal mean std

def xavierUniform (shape : List Nat) (g : α) : Option (Request α) :=
  (fans shape).map (fun (fi, fo) =>
    let a := g * HasSqrt.sqrt (((6 : Nat) : α) / ((fi + fo : Nat) : α))
    uniform_ (-a) a)

def xavierNormal (shape : List Nat) (g : α) : Option (Request α) :=
  (fans shape).map (fun (fi, fo) =>
    let std := g * HasSqrt.sqrt (((2 : Nat) : α) / ((fi + fo : Nat) : α))
    normal_ 0 std)

/-- `mode`: false = fan_in, true = fan_out -/
def kaimingUniform (shape : List Nat) (a : α) (fanOut : Bool) (nl : Nonlin) : Option (Request α) :=
  (fans shape).map (fun (fi, fo) =>
    let fan := if fanOut then fo else fi
    let std := gain nl (some a) * HasSqrt.sqrt (((3 : Nat) : α) / ((fan : Nat) : α))
    uniform_ (-std) std)

def kaimingNormal (shape : List Nat) (a : α) (fanOut : Bool) (nl : Nonlin) : Option (Request α) :=
  (fans shape).map (fun (fi, fo) =>
    let fan := if fanOut then fo else fi
    let std := gain nl (some a) * (1 / HasSqrt.sqrt ((fan : Nat) : α))
    normal_ 0 std)

/-- `Linear.reset_parameters` / `Conv*.reset_parameters`: the request used for weight and bias -/
def layerDefault (weightShape : List Nat) : Option (Request α) :=
  (fans weightShape).map (fun (fi, _) =>
    let std : α := if fi > 0 then 1 / HasSqrt.sqrt ((fi : Nat) : α) else 0
    uniform_ (-std) std)
end

end Synap.Init
