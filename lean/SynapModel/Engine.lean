/-!
# synapgrad/tensor.py : the reverse-mode engine (`Tensor.backward`), gradient buffers, grad modes

Tensors are nodes `0..n-1` in creation order; an operation's result is created after its operands,
so `children v` only holds indices `< v`.  Gradients live in an abstract type `G` with an addition;
the driver instantiates `G` with arrays, the theorems with any additive commutative monoid.

`backward` below is the code's algorithm step for step (tensor.py `Tensor.backward`):
depth-first traversal with a visited set producing a post-order; zero-initialisation of a child's
buffer when it requires grad and has none (or is a non-leaf met for the first time); the root's
buffer is set (accumulated when the root is a leaf); the reversed list is swept calling each
`grad_fn` once; non-root, non-leaf, non-retained buffers are released.
-/
namespace Synap.Engine

structure Node (G : Type) where
  children : List Nat
  reqGrad : Bool
  /-- `grad_fn`: maps the node's gradient to one contribution per child position (outer `none`:
      the kernel raises, e.g. on a gradient of the wrong shape; inner `none`: the closure has no
      `+=` statement for that operand, e.g. integer labels of a loss) -/
  back : Option (G → Option (List (Option G)))
  retain : Bool
  grad : Option G
  /-- `zeros_like(self.data)` -/
  zero : G

def Node.isLeaf (n : Node G) : Bool := !n.reqGrad || n.back.isNone

inductive TrEv where
  | zero (i : Nat)      -- `child.zero_()`
  | call (i : Nat)      -- `node.grad_fn()`
  | release (i : Nat)   -- `node._grad = None`
deriving Repr, DecidableEq

abbrev Graph (G : Type) := List (Node G)

def setGrad (ns : Graph G) (i : Nat) (g : Option G) : Graph G :=
  ns.zipIdx.map (fun (n, k) => if k = i then { n with grad := g } else n)

/-- state of the traversal -/
structure DfsSt (G : Type) where
  visited : List Nat
  ordered : List Nat
  ns : Graph G
  trace : List TrEv

/-- `visit_node` (the recursion the explicit stack of the code unrolls); `fuel` > depth -/
def visit : Nat → Nat → DfsSt G → DfsSt G
  | 0, _, s => s
  | f+1, v, s =>
    if s.visited.contains v then s else
    let s := { s with visited := v :: s.visited }
    let ch := match s.ns[v]? with | some n => n.children | none => []
    let s := ch.foldl (fun s c =>
      let s := match s.ns[c]? with
        | some n =>
          if n.reqGrad && (n.grad.isNone || (!n.isLeaf && !s.visited.contains c))
          then { s with ns := setGrad s.ns c (some n.zero), trace := s.trace ++ [TrEv.zero c] }
          else s
        | none => s
      visit f c s) s
    { s with ordered := s.ordered ++ [v] }

section
variable {G : Type} [Add G]

/-- accumulate the contributions of one `grad_fn` call into the children that require grad.
    `none` models the `TypeError` of `None += array`. -/
def accumulate (ns : Graph G) : List Nat → List (Option G) → Option (Graph G)
  | c :: cs, some g :: gs =>
    match ns[c]? with
    | some n =>
      if n.reqGrad then
        match n.grad with
        | some old => accumulate (setGrad ns c (some (old + g))) cs gs
        | none => none
      else accumulate ns cs gs
    | none => none
  | _ :: cs, none :: gs => accumulate ns cs gs
  | _, _ => some ns

/-- the sweep over the reversed post-order -/
def sweep (root : Nat) (retainAll : Bool) : List Nat → Graph G → List TrEv → Option (Graph G × List TrEv)
  | [], ns, tr => some (ns, tr)
  | v :: rest, ns, tr =>
    match ns[v]? with
    | none => none
    | some n =>
      let r := match n.back, n.grad with
        | some f, some g => ((f g).bind (accumulate ns n.children)).map (fun ns' => (ns', tr ++ [TrEv.call v]))
        | some _, none => none                          -- `out.grad` is None: `.data` raises
        | none, _ => some (ns, tr)
      match r with
      | none => none
      | some (ns, tr) =>
        if v ≠ root && !n.isLeaf && !n.retain && !retainAll
        then sweep root retainAll rest (setGrad ns v none) (tr ++ [TrEv.release v])
        else sweep root retainAll rest ns tr

/-- the traversal phase of `Tensor.backward`: post-order, zero-initialised buffers, trace so far -/
def traverse (ns : Graph G) (root : Nat) : DfsSt G := visit (ns.length + 1) root ⟨[], [], ns, []⟩

/-- the second phase: store the root gradient (a leaf accumulates, any other root starts from the
    caller's gradient), sweep the reversed post-order, release -/
def finish (s : DfsSt G) (root : Nat) (g : G) (retainAll : Bool) : Option (Graph G × List TrEv) :=
  let ns1 := match s.ns[root]? with
    | some r' =>
      (match r'.isLeaf, r'.grad with
       | true, some old => setGrad s.ns root (some (old + g))
       | _, _ => setGrad s.ns root (some g))
    | none => s.ns
  sweep root retainAll s.ordered.reverse ns1 s.trace

/-- `Tensor.backward(grad)` : `none` = the call raises -/
def backward (ns : Graph G) (root : Nat) (g : G) (retainAll : Bool) : Option (Graph G × List TrEv) :=
  match ns[root]? with
  | none => none
  | some r => if !r.reqGrad then none else finish (traverse ns root) root g retainAll

end

/-! ### Grad-mode contexts (`no_grad`, `retain_grads`) -/
structure Modes where
  grad : Bool := true        -- gradient__
  retain : Bool := false     -- retain_grads__
deriving Repr, DecidableEq

inductive CtxKind where | noGrad | retainGrads
deriving Repr, DecidableEq

/-- a context-manager object: its kind and the `prev` field -/
structure Ctx where
  kind : CtxKind
  prev : Bool
deriving Repr, DecidableEq

/-- `no_grad()` / `retain_grads()` : `__init__` stores the current mode in `prev` -/
def ctxNew (m : Modes) (k : CtxKind) : Ctx :=
  ⟨k, match k with | .noGrad => m.grad | .retainGrads => m.retain⟩

/-- `__enter__` : records the mode in force, then switches -/
def ctxEnter (m : Modes) (c : Ctx) : Modes × Ctx :=
  match c.kind with
  | .noGrad => ({ m with grad := false }, { c with prev := m.grad })
  | .retainGrads => ({ m with retain := true }, { c with prev := m.retain })

/-- `__exit__` (normal or by exception): restores `prev` -/
def ctxExit (m : Modes) (c : Ctx) : Modes :=
  match c.kind with
  | .noGrad => { m with grad := c.prev }
  | .retainGrads => { m with retain := c.prev }

/-- requires-grad flag a new result gets: `any(operands) and gradient__` -/
def resultReqGrad (m : Modes) (operands : List Bool) : Bool := operands.any id && m.grad

end Synap.Engine
