import SynapModel.Optim
/-!
# synapgrad/optim/optimizers.py over a store of array buffers with identities

`Synap.Optim` follows one scalar per parameter element and cannot say *which array object* holds a
value.  Here every NumPy array is a buffer in a heap, named by a `BufId`; the tensors and the
optimizer hold buffer ids, and every statement of the code is one of

* an **allocating** statement (`x = expr`): the result goes to a fresh buffer (`alloc`), the
  name `x` is rebound to the fresh id;
* an **in-place** statement (`x += expr`, `x -= expr`): the content of the buffer that `x` names
  is replaced (`wrBuf`), the id stays.

Sources mirrored (statement by statement, in the order of the code):

* functional.py, backward closures: `x._grad += g` (in place) after `Tensor.backward` has
  zero-initialised a missing `_grad` with `child.zero_()` (a fresh `np.zeros_like(data)`);
* tensor.py `backward` on a leaf root: `self._grad = self._grad + grad_data` (fresh array), or
  `self._grad = grad_data` (own copy) when there is none;
* tensor.py `zero_`: a fresh zero array; optimizers.py `zero_grad`: for each `p.requires_grad`;
* optimizers.py `SGD.step`, `Adam.step`, `AdamW.step`.

Arrays are `List α` (row-major flattening); arithmetic is elementwise (`List.zipWith`, `List.map`).
Expression temporaries that are never bound to a name (`self.lr*grad`, the bias-corrected moments)
are not given buffers; every *named* array is (`grad`, `momentum_buffer[i]`, `m1[i]`, `m2[i]`).
-/
namespace Synap.OptimStore
open Synap.Optim (SGDCfg AdamCfg HasSqrt)

abbrev BufId := Nat
/-- the heap: buffer `b` is the `b`-th array ever allocated -/
abbrev Heap (α : Type) := List (List α)

/-- content of a buffer -/
def rdBuf (h : Heap α) (b : BufId) : List α := (h[b]?).getD []
/-- a fresh buffer holding `a`: the new heap and the fresh id -/
def alloc (h : Heap α) (a : List α) : Heap α × BufId := (h ++ [a], h.length)
/-- overwrite the content of an existing buffer (identity kept) -/
def wrBuf (h : Heap α) (b : BufId) (a : List α) : Heap α := h.set b a

/-- one parameter tensor as the optimizer sees it: ids, not values -/
structure PS where
  data : BufId            -- p.data
  grad : Option BufId     -- p._grad (None / an ndarray)
  rg : Bool               -- p.requires_grad
deriving Repr, DecidableEq

/-- engine + optimizer state.  `b1` is `SGD.momentum_buffer` / `Adam.m1`, `b2` is `Adam.m2`
    (`none` = Python `None`, resp. the integer `0` the moments start as), `steps` is `Adam.steps` -/
structure Store (α : Type) where
  heap : Heap α
  ps : List PS
  b1 : List (Option BufId)
  b2 : List (Option BufId)
  steps : List Nat
deriving Repr

/-- the four kinds of places that hold an array -/
inductive Role where
  | data | grad | b1 | b2
deriving Repr, DecidableEq

/-- the buffer id held in place `(r, i)`, if any -/
def slot (s : Store α) : Role → Nat → Option BufId
  | .data, i => (s.ps[i]?).map (·.data)
  | .grad, i => (s.ps[i]?).bind (·.grad)
  | .b1, i => (s.b1[i]?).join
  | .b2, i => (s.b2[i]?).join

/-- all places, in the order [datas…, grads…, b1…, b2…] -/
def slots (s : Store α) : List (Option BufId) :=
  s.ps.map (fun p => some p.data) ++ s.ps.map (·.grad) ++ s.b1 ++ s.b2

/-- the live buffer ids -/
def liveIds (s : Store α) : List BufId := (slots s).filterMap id

/-- a model holding the given arrays as parameters `0 … n-1` (buffer `i` = parameter `i`),
    no gradients, a new optimizer -/
def mk (arrs : List (List α)) (rgs : List Bool) : Store α :=
  { heap := arrs
    ps := rgs.zipIdx.map (fun (rg, i) => ⟨i, none, rg⟩)
    b1 := rgs.map (fun _ => none)
    b2 := rgs.map (fun _ => none)
    steps := rgs.map (fun _ => 0) }

inductive Ev (α : Type) where
  | backward (i : Nat) (g : List α)      -- a backward call of a loss that contributes `g` to parameter `i`
  | backwardRoot (i : Nat) (g : List α)  -- `p.backward(g)` on the parameter itself (leaf root)
  | zeroGrad                             -- optimizer.zero_grad()
  | step                                 -- optimizer.step()
  | setRg (i : Nat) (b : Bool)           -- p.requires_grad = b
deriving Repr

section
variable {α : Type} [Add α] [Sub α] [Mul α] [Div α] [Neg α] [Zero α] [One α]

/-! ### the four statement forms -/
/-- `x = f(a)` -/
def allocMap (h : Heap α) (f : α → α) (a : BufId) : Heap α × BufId := alloc h ((rdBuf h a).map f)
/-- `x = f(a, b)` -/
def allocZip (h : Heap α) (f : α → α → α) (a b : BufId) : Heap α × BufId :=
  alloc h (List.zipWith f (rdBuf h a) (rdBuf h b))
/-- `d = f(d)` in place (`d op= scalar`) -/
def writeMap (h : Heap α) (d : BufId) (f : α → α) : Heap α := wrBuf h d ((rdBuf h d).map f)
/-- `d = f(d, b)` in place (`d op= b`) -/
def writeZip (h : Heap α) (d : BufId) (f : α → α → α) (b : BufId) : Heap α :=
  wrBuf h d (List.zipWith f (rdBuf h d) (rdBuf h b))
/-- `d = f(d, g)` in place with a literal array `g` coming from outside (a backward closure) -/
def writeZipLit (h : Heap α) (d : BufId) (f : α → α → α) (g : List α) : Heap α :=
  wrBuf h d (List.zipWith f (rdBuf h d) g)

/-! ### engine side -/

/-- `x._grad += g` inside a backward closure; `Tensor.backward` has first given a parameter without
    gradient a fresh `np.zeros_like(data)`; a parameter that does not require grad receives nothing -/
def accumulate (s : Store α) (i : Nat) (g : List α) : Store α :=
  match s.ps[i]? with
  | none => s
  | some p =>
    if p.rg then
      match p.grad with
      | some gb => { s with heap := writeZipLit s.heap gb (· + ·) g }
      | none =>
        let z := allocMap s.heap (fun _ => 0) p.data            -- child.zero_()
        { s with heap := writeZipLit z.1 z.2 (· + ·) g,         -- x._grad += g
                 ps := s.ps.set i { p with grad := some z.2 } }
    else s

/-- `p.backward(g)`: `self._grad = self._grad + grad_data` (a new array), or the own copy
    `grad_data` itself when there was no gradient -/
def accumulateRoot (s : Store α) (i : Nat) (g : List α) : Store α :=
  match s.ps[i]? with
  | none => s
  | some p =>
    if p.rg then
      let r := match p.grad with
        | some gb => alloc s.heap (List.zipWith (· + ·) (rdBuf s.heap gb) g)
        | none => alloc s.heap g
      { s with heap := r.1, ps := s.ps.set i { p with grad := some r.2 } }
    else s

/-- `if p.requires_grad: p.zero_()` : a fresh zero array becomes the gradient -/
def zeroGradAt (s : Store α) (i : Nat) : Store α :=
  match s.ps[i]? with
  | none => s
  | some p =>
    if p.rg then
      let z := allocMap s.heap (fun _ => 0) p.data
      { s with heap := z.1, ps := s.ps.set i { p with grad := some z.2 } }
    else s

/-- `Optimizer.zero_grad`: the loop over the parameters -/
def zeroGrad (s : Store α) : Store α := (List.range s.ps.length).foldl zeroGradAt s

def setRg (s : Store α) (i : Nat) (b : Bool) : Store α :=
  match s.ps[i]? with
  | none => s
  | some p => { s with ps := s.ps.set i { p with rg := b } }

/-! ### SGD.step -/

/-- `p.data += lr*grad` / `p.data -= lr*grad` : in place -/
def sgdApply (c : SGDCfg α) (h : Heap α) (d g : BufId) : Heap α :=
  writeZip h d (fun θ g => if c.maximize then θ + c.lr * g else θ - c.lr * g) g

/-- `grad = p._grad` and `if weight_decay != 0: grad = grad + weight_decay*p.data` (fresh) -/
def sgdGrad (c : SGDCfg α) (h : Heap α) (d gb : BufId) : Heap α × BufId :=
  if c.useWd then allocZip h (fun g θ => g + c.weightDecay * θ) gb d else (h, gb)

/-- the momentum-buffer statement.  `copy = true` is the code (`np.array(grad)`: a private copy);
    `copy = false` is the earlier version that stored `grad` itself. -/
def sgdBuf (copy : Bool) (c : SGDCfg α) (h : Heap α) (g : BufId) (b : Option BufId) : Heap α × BufId :=
  match b with
  | some b => allocZip h (fun b g => c.momentum * b + (1 - c.dampening) * g) b g
  | none => if copy then allocMap h (fun x => x) g else (h, g)

/-- `grad = grad + momentum*buf` (fresh) if nesterov else `grad = buf` -/
def sgdDir (c : SGDCfg α) (h : Heap α) (g b : BufId) : Heap α × BufId :=
  if c.nesterov then allocZip h (fun g b => g + c.momentum * b) g b else (h, b)

/-- the body of the loop of `SGD.step` for parameter `i` -/
def sgdStepAtG (copy : Bool) (c : SGDCfg α) (s : Store α) (i : Nat) : Store α :=
  match s.ps[i]? with
  | none => s
  | some p =>
    match p.rg, p.grad with
    | true, some gb =>
      let r1 := sgdGrad c s.heap p.data gb
      if c.useMom then
        let r2 := sgdBuf copy c r1.1 r1.2 (slot s .b1 i)
        let r3 := sgdDir c r2.1 r1.2 r2.2
        { s with heap := sgdApply c r3.1 p.data r3.2, b1 := s.b1.set i (some r2.2) }
      else
        { s with heap := sgdApply c r1.1 p.data r1.2 }
    | _, _ => s                                   -- frozen / unused parameters stay fixed

def sgdStepAt (c : SGDCfg α) (s : Store α) (i : Nat) : Store α := sgdStepAtG true c s i
def sgdStepAliasedAt (c : SGDCfg α) (s : Store α) (i : Nat) : Store α := sgdStepAtG false c s i

def sgdStep (c : SGDCfg α) (s : Store α) : Store α := (List.range s.ps.length).foldl (sgdStepAt c) s
/-- the earlier, defective version: the first momentum buffer *is* the gradient array -/
def sgdStepAliased (c : SGDCfg α) (s : Store α) : Store α :=
  (List.range s.ps.length).foldl (sgdStepAliasedAt c) s

def sgdEvG (step : Store α → Store α) (s : Store α) : Ev α → Store α
  | .backward i g => accumulate s i g
  | .backwardRoot i g => accumulateRoot s i g
  | .zeroGrad => zeroGrad s
  | .setRg i b => setRg s i b
  | .step => step s

def sgdEv (c : SGDCfg α) (s : Store α) (e : Ev α) : Store α := sgdEvG (sgdStep c) s e
def sgdEvAliased (c : SGDCfg α) (s : Store α) (e : Ev α) : Store α := sgdEvG (sgdStepAliased c) s e

def sgdRun (c : SGDCfg α) (s : Store α) (evs : List (Ev α)) : Store α := evs.foldl (sgdEv c) s
def sgdRunAliased (c : SGDCfg α) (s : Store α) (evs : List (Ev α)) : Store α :=
  evs.foldl (sgdEvAliased c) s

/-! ### Adam.step / AdamW.step (`c.decoupled`) -/
variable [HPow α Nat α] [HasSqrt α]

/-- `grad = -p._grad if maximize else p._grad` (the negation is a fresh array) -/
def adamNeg (c : AdamCfg α) (h : Heap α) (gb : BufId) : Heap α × BufId :=
  if c.maximize then allocMap h (fun g => -g) gb else (h, gb)

/-- AdamW: `p.data -= lr*weight_decay*p.data` (in place, unconditionally);
    Adam: `if weight_decay != 0: grad = grad + weight_decay*p.data` (fresh) -/
def adamDecay (c : AdamCfg α) (h : Heap α) (d g : BufId) : Heap α × BufId :=
  if c.decoupled then (writeMap h d (fun θ => θ - c.lr * c.weightDecay * θ), g)
  else if c.useWd then allocZip h (fun g θ => g + c.weightDecay * θ) g d
  else (h, g)

/-- `m1[i] = beta1*m1[i] + (1-beta1)*grad` : always a fresh array (`m1[i]` starts as the integer 0) -/
def adamM1 (c : AdamCfg α) (h : Heap α) (g : BufId) (b : Option BufId) : Heap α × BufId :=
  match b with
  | some b => allocZip h (fun m g => c.beta1 * m + (1 - c.beta1) * g) b g
  | none => allocMap h (fun g => c.beta1 * 0 + (1 - c.beta1) * g) g

/-- `m2[i] = beta2*m2[i] + (1-beta2)*grad**2.0` : always a fresh array -/
def adamM2 (c : AdamCfg α) (h : Heap α) (g : BufId) (b : Option BufId) : Heap α × BufId :=
  match b with
  | some b => allocZip h (fun v g => c.beta2 * v + (1 - c.beta2) * (g * g)) b g
  | none => allocMap h (fun g => c.beta2 * 0 + (1 - c.beta2) * (g * g)) g

/-- `p.data -= (lr * m1_corrected) / (sqrt(m2_corrected) + eps)` : the quotient is a fresh array,
    the subtraction is in place -/
def adamApply (c : AdamCfg α) (t : Nat) (h : Heap α) (d m1 m2 : BufId) : Heap α :=
  let q := allocZip h (fun m v => (c.lr * (m / (1 - c.beta1 ^ t))) / (HasSqrt.sqrt (v / (1 - c.beta2 ^ t)) + c.eps)) m1 m2
  writeZip q.1 d (fun θ q => θ - q) q.2

/-- the body of the loop of `Adam.step` / `AdamW.step` for parameter `i` -/
def adamStepAt (c : AdamCfg α) (s : Store α) (i : Nat) : Store α :=
  match s.ps[i]? with
  | none => s
  | some p =>
    match p.rg, p.grad with
    | true, some gb =>
      let t := (s.steps[i]?).getD 0 + 1                       -- self.steps[i] += 1
      let r1 := adamNeg c s.heap gb
      let r2 := adamDecay c r1.1 p.data r1.2
      let m1 := adamM1 c r2.1 r2.2 (slot s .b1 i)
      let m2 := adamM2 c m1.1 r2.2 (slot s .b2 i)
      { s with heap := adamApply c t m2.1 p.data m1.2 m2.2,
               b1 := s.b1.set i (some m1.2), b2 := s.b2.set i (some m2.2), steps := s.steps.set i t }
    | _, _ => s

def adamStep (c : AdamCfg α) (s : Store α) : Store α := (List.range s.ps.length).foldl (adamStepAt c) s
/-- `AdamW.step` is `adamStep` with the decoupled flag set -/
def adamwStep (c : AdamCfg α) (s : Store α) : Store α := adamStep { c with decoupled := true } s

def adamEv (c : AdamCfg α) (s : Store α) : Ev α → Store α
  | .backward i g => accumulate s i g
  | .backwardRoot i g => accumulateRoot s i g
  | .zeroGrad => zeroGrad s
  | .setRg i b => setRg s i b
  | .step => adamStep c s

def adamRun (c : AdamCfg α) (s : Store α) (evs : List (Ev α)) : Store α := evs.foldl (adamEv c) s

end

/-! ### the alias pattern (what the harness observes with `np.shares_memory` / `is`) -/

/-- canonical partition of the places [datas…, grads…, b1…, b2…] into groups sharing a buffer:
    each occupied place is labelled with the index of the first place holding the same buffer -/
def aliasPattern (s : Store α) : List (Option Nat) :=
  let l := slots s
  l.map (fun o => o.map (fun x => l.idxOf (some x)))

/-- is the data buffer of each parameter the one it started with (`mk` gives parameter `i` buffer `i`) -/
def dataKept (s : Store α) : List Bool := s.ps.zipIdx.map (fun (p, i) => p.data == i)

end Synap.OptimStore
