import SynapModel.Engine
import SynapModel.Kernels.Basic
/-!
# tensor.py / functional.py glue: the tensor store, tensor creation rules, op application

A `TState` is the engine graph plus the value of every tensor and the global modes.  `applyOp`
is the common body of every wrapper in functional.py / nn/functional.py:

    out = Tensor(out_data, children=inputs, requires_grad=any(inputs.requires_grad), operation=…)
    if out.requires_grad: out.grad_fn = BackwardFunction(backward, …)

with `Tensor.__init__` computing `req_grad = requires_grad and gradient__` and keeping
`children` only when `req_grad`.
-/
namespace Synap.Api
open Synap Engine NDArray

inductive DType where
  | f32 | f64 | i8 | i32 | i64 | bool
deriving Repr, DecidableEq

def DType.isFloat : DType → Bool
  | .f32 | .f64 => true
  | _ => false

structure TState (α : Type) where
  g : Graph (NDArray α) := []
  vals : List (NDArray α) := []
  dtypes : List DType := []
  modes : Modes := {}

variable {α : Type} [Zero α]

/-- `Tensor.__init__` for a tensor with the given value: the common node-creation rule.
    `none` = "Only floating point Tensors can require gradients". -/
def mkTensor (st : TState α) (v : NDArray α) (dt : DType) (requiresGrad : Bool)
    (children : List Nat) (back : Option (NDArray α → Option (List (Option (NDArray α))))) :
    Option (TState α × Nat) :=
  let rg := requiresGrad && st.modes.grad
  if rg && !dt.isFloat then none else
  let node : Node (NDArray α) :=
    { children := if rg then children else [], reqGrad := rg,
      back := if rg then back else none, retain := false, grad := none, zero := zeros v.shape }
  some ({ st with g := st.g ++ [node], vals := st.vals ++ [v], dtypes := st.dtypes ++ [dt] }, st.g.length)

/-- a leaf created by the user -/
def newLeaf (st : TState α) (v : NDArray α) (dt : DType) (requiresGrad : Bool) : Option (TState α × Nat) :=
  mkTensor st v dt requiresGrad [] none

/-- one output of an op: its value and its `backward` closure -/
structure OpOut (α : Type) where
  value : NDArray α
  back : NDArray α → Option (List (Option (NDArray α)))

/-- the body shared by all op wrappers: every output becomes a tensor whose flag is
    `any(operands require grad) and grad mode`; children / grad_fn only when it requires grad -/
def applyOp (st : TState α) (inputs : List Nat) (dt : DType) (outs : List (OpOut α)) :
    Option (TState α × List Nat) :=
  let rgs := inputs.map (fun i => match st.g[i]? with | some n => n.reqGrad | none => false)
  let rg := rgs.any id
  outs.foldlM (fun (acc : TState α × List Nat) o => do
    let (st', k) ← mkTensor acc.1 o.value dt rg inputs (some o.back)
    pure (st', acc.2 ++ [k])) (st, [])

/-- `requires_grad` setter: only on leaves, only floats may be switched on -/
def setRequiresGrad (st : TState α) (i : Nat) (v : Bool) : Option (TState α) :=
  match st.g[i]?, st.dtypes[i]? with
  | some n, some dt =>
    if !n.isLeaf then none
    else if v && !dt.isFloat then none
    else some { st with g := st.g.zipIdx.map (fun (m, k) => if k = i then { m with reqGrad := v } else m) }
  | _, _ => none

/-- every ROUTE that switches the flag of several tensors at once (`Module.freeze()` / `unfreeze()` on any ancestor: `for p in
    self.parameters(): p.requires_grad = v`) is the setter applied to the listed tensors one after the other: the first tensor the
    setter refuses ends the call (`false`), the tensors before it keep their new flag -/
def setRequiresGradAll (st : TState α) : List Nat → Bool → TState α × Bool
  | [], _ => (st, true)
  | i :: is, v =>
    match setRequiresGrad st i v with
    | some st' => setRequiresGradAll st' is v
    | none => (st, false)

/-- `retain_grad()` -/
def retainGrad (st : TState α) (i : Nat) : Option (TState α) :=
  match st.g[i]? with
  | some n =>
    if !n.reqGrad then none
    else some { st with g := st.g.zipIdx.map (fun (m, k) => if k = i then { m with retain := true } else m) }
  | none => none

/-- `zero_()` : `self.grad = zeros_like(data)` -/
def zeroGrad (st : TState α) (i : Nat) : Option (TState α) :=
  match st.g[i]? with
  | some n => some { st with g := setGrad st.g i (some n.zero) }
  | none => none

/-- `t.grad = g` (the property setter): `matches_shape` compares rank and every extent; on success the
    buffer IS the caller's array (whatever was there before is dropped).  `none` = the setter raises. -/
def assignGrad (st : TState α) (i : Nat) (g : NDArray α) : Option (TState α) :=
  match st.g[i]?, st.vals[i]? with
  | some _, some v => if v.shape != g.shape then none else some { st with g := setGrad st.g i (some g) }
  | _, _ => none

/-! ### tensors made from tensors without an op: `detach`, `Tensor(t.data, …)`, `Tensor(t)`, `t.grad` -/

/-- `t.detach()` : `Tensor(self.data.copy(), requires_grad=False)` — a fresh leaf, whatever the source holds -/
def detach (st : TState α) (i : Nat) : Option (TState α × Nat) :=
  match st.vals[i]?, st.dtypes[i]? with
  | some v, some dt => mkTensor st v dt false [] none
  | _, _ => none

/-- `Tensor(t.data, requires_grad=rg)` (the `.data` round trip): the leaf-creation rule over the source's array -/
def fromData (st : TState α) (i : Nat) (requiresGrad : Bool) : Option (TState α × Nat) :=
  match st.vals[i]?, st.dtypes[i]? with
  | some v, some dt => newLeaf st v dt requiresGrad
  | _, _ => none

/-- `Tensor(t)` (the copy constructor, `copy_from`): every attribute of the source, as it is at that moment —
    flags, operands, backward function, retain mark, gradient buffer; the mode and the other constructor
    arguments are not looked at -/
def copyTensor (st : TState α) (i : Nat) : Option (TState α × Nat) :=
  match st.g[i]?, st.vals[i]?, st.dtypes[i]? with
  | some n, some v, some dt =>
    some ({ st with g := st.g ++ [n], vals := st.vals ++ [v], dtypes := st.dtypes ++ [dt] }, st.g.length)
  | _, _, _ => none

/-- `t.grad` (the property getter): `None` when there is no buffer (inner `none`), else a NEW plain tensor
    around the buffer (does not require grad, no history).  Outer `none` = no such tensor. -/
def gradTensor (st : TState α) (i : Nat) : Option (Option (TState α × Nat)) :=
  match st.g[i]?, st.dtypes[i]? with
  | some n, some dt =>
    match n.grad with
    | some g => (mkTensor st g dt false [] none).map some
    | none => some none
  | _, _ => none

/-- `t.backward(grad)` under the current modes.  The result is `none` when the call raises; the
    shape check of the gradient happens after the traversal (as in the code), so the buffers the
    traversal zero-initialised stay initialised even when the call is then rejected. -/
def backward [Add α] (st : TState α) (root : Nat) (g : NDArray α) : TState α × Option (List TrEv) :=
  match st.g[root]?, st.vals[root]? with
  | some r, some v =>
    if !r.reqGrad then (st, none) else
    let s := traverse st.g root
    if v.shape != g.shape then ({ st with g := s.ns }, none)
    else match finish s root g st.modes.retain with
      | some (g', tr) => ({ st with g := g' }, some tr)
      | none => ({ st with g := s.ns }, none)
  | _, _ => (st, none)

/-! ### constructors (tensor.py `zeros`, `ones`, `eye`, `arange`, `*_like`) : default dtype float32 -/
section Ctor
variable [One α] [NatCast α] [IntCast α]

/-- the three accepted spellings of a shape: `f(2, 3)`, `f((2, 3))`, `f([2, 3])` -/
inductive ShapeArgs where
  | varargs (dims : List Nat)
  | tuple (dims : List Nat)
  | list (dims : List Nat)
deriving Repr, DecidableEq

/-- `if len(shape) == 1 and isinstance(shape[0], (list, tuple)): shape = shape[0]` -/
def ShapeArgs.norm : ShapeArgs → Shape
  | .varargs d => d
  | .tuple d => d
  | .list d => d

def ctorFull (st : TState α) (args : ShapeArgs) (v : α) : Option (TState α × Nat) :=
  newLeaf st (full args.norm v) .f32 false

def ctorEye (st : TState α) (n : Nat) : Option (TState α × Nat) :=
  newLeaf st (ofFn [n, n] (fun i => if i.getD 0 0 = i.getD 1 1 then 1 else 0)) .f32 false

/-- `np.arange(start, stop, step)` on integers: `⌈(stop − start)/step⌉` values -/
def arangeVals (start stop step : Int) : Option (List Int) :=
  if step = 0 then none
  else
    let n : Int := if step > 0 then (stop - start + step - 1) / step else (start - stop + (-step) - 1) / (-step)
    some ((List.range n.toNat).map (fun (k : Nat) => start + step * (k : Int)))

def ctorArange (st : TState α) (start stop step : Int) : Option (TState α × Nat) :=
  (arangeVals start stop step).bind (fun vs => newLeaf st ⟨[vs.length], vs.map (fun (v : Int) => (IntCast.intCast v : α))⟩ .f32 false)

def ctorLike (st : TState α) (i : Nat) (v : α) : Option (TState α × Nat) :=
  match st.vals[i]?, st.dtypes[i]? with
  | some x, some dt => newLeaf st (full x.shape v) dt false
  | _, _ => none
end Ctor

end Synap.Api
