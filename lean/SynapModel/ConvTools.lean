import SynapModel.Kernels.NN
/-!
# synapgrad/conv_tools.py : im2col / col2im in three implementations, extract / place windows

Layout of an unfolded tensor: `(N, C·kH·kW, L)` with row `r = (c·kH + a)·kW + b` (channel-major
kernel layout) and column `l = i·lW + j` (row-major block order).  The 2-D "column matrix" layout
is `(C·kH·kW, L·N)` with column `l·N + n`.

Each implementation is modelled along the structure of its code:
* `Idx`  — `im2col` / `col2im`: explicit index arrays built with `repeat` / `tile`, fancy indexing, `np.add.at`;
* `Loop` — `im2col_v2` / `col2im_v2`: a double loop over window positions with strided slices and `ravel`;
* `View` — `im2col_fast` / `col2im_fast`: the strided window view (`extract_windows`), `reshape`, `moveaxis`, and `place_windows`.
-/
namespace Synap.ConvTools
open Synap NDArray Np Kernels

variable {α : Type}

structure Geom where
  n : Nat
  c : Nat
  h : Nat
  w : Nat
  k : Nat × Nat
  s : Nat × Nat
  p : Nat × Nat
  d : Nat × Nat
deriving Repr, DecidableEq

def Geom.out (g : Geom) : Option (Nat × Nat) :=
  match convOut g.h g.k.1 g.s.1 g.p.1 g.d.1, convOut g.w g.k.2 g.s.2 g.p.2 g.d.2 with
  | some a, some b => some (a, b)
  | _, _ => none

def Geom.rows (g : Geom) : Nat := g.c * g.k.1 * g.k.2

section
variable [Zero α] [Add α]

/-- the padded image at *padded* coordinates -/
def padGet (g : Geom) (x : NDArray α) (pad : α) (n c ih iw : Nat) : α :=
  if g.p.1 ≤ ih ∧ ih < g.p.1 + g.h ∧ g.p.2 ≤ iw ∧ iw < g.p.2 + g.w then x.get [n, c, ih - g.p.1, iw - g.p.2] else pad

/-! ### specification -/
/-- `cols[n, (c·kH+a)·kW+b, i·lW+j] = xpad[n, c, i·sH + a·dH, j·sW + b·dW]` -/
def im2colSpec (g : Geom) (x : NDArray α) (pad : α) : Option (NDArray α) :=
  g.out.map (fun (lh, lw) =>
    ofFn [g.n, g.rows, lh * lw] (fun q =>
      let r := getI q 1
      let l := getI q 2
      let cc := r / (g.k.1 * g.k.2)
      let a := (r / g.k.2) % g.k.1
      let b := r % g.k.2
      padGet g x pad (getI q 0) cc ((l / lw) * g.s.1 + a * g.d.1) ((l % lw) * g.s.2 + b * g.d.2)))

/-- the 2-D column-matrix layout of an unfolded tensor -/
def toMatrix (cols : NDArray α) : NDArray α :=
  match cols.shape with
  | [n, r, l] => ofFn [r, l * n] (fun q => cols.get [getI q 1 % n, getI q 0, getI q 1 / n])
  | _ => cols

/-- sum of all unfolded entries that land on padded pixel `(c, ih, iw)` of image `n` -/
def col2imSpec (g : Geom) (cols : NDArray α) : Option (NDArray α) :=
  g.out.map (fun (lh, lw) =>
    ofFn [g.n, g.c, g.h, g.w] (fun q =>
      let (n, cc, hh, ww) := (getI q 0, getI q 1, getI q 2, getI q 3)
      ((List.range (g.k.1 * g.k.2)).flatMap (fun ab => (List.range (lh * lw)).map (fun l =>
        let a := ab / g.k.2
        let b := ab % g.k.2
        if (l / lw) * g.s.1 + a * g.d.1 = hh + g.p.1 ∧ (l % lw) * g.s.2 + b * g.d.2 = ww + g.p.2
        then cols.get [n, cc * (g.k.1 * g.k.2) + ab, l] else 0))).sum))

/-! ### implementation 1: index arrays (`get_im2col_indices`, `im2col`, `col2im`) -/
def repeatL (l : List Nat) (n : Nat) : List Nat := l.flatMap (fun x => List.replicate n x)   -- np.repeat
def tileL (l : List Nat) (n : Nat) : List Nat := (List.range n).flatMap (fun _ => l)          -- np.tile
def arangeStep (n step : Nat) : List Nat := (List.range n).map (· * step)                     -- np.arange(0, n*step, step)

structure ColIdx where
  k : List Nat          -- channel per row
  i0 : List Nat
  i1 : List Nat
  j0 : List Nat
  j1 : List Nat

def colIndices (g : Geom) (lh lw : Nat) : ColIdx :=
  { k := repeatL (List.range g.c) (g.k.1 * g.k.2),
    i0 := tileL (repeatL (arangeStep g.k.1 g.d.1) g.k.2) g.c,
    i1 := (repeatL (List.range lh) lw).map (g.s.1 * ·),
    j0 := tileL (arangeStep g.k.2 g.d.2) (g.k.1 * g.c),
    j1 := (tileL (List.range lw) lh).map (g.s.2 * ·) }

def im2colIdx (g : Geom) (x : NDArray α) (pad : α) : Option (NDArray α) :=
  g.out.map (fun (lh, lw) =>
    let ci := colIndices g lh lw
    ofFn [g.n, g.rows, lh * lw] (fun q =>
      let r := getI q 1
      let l := getI q 2
      padGet g x pad (getI q 0) (ci.k.getD r 0) (ci.i0.getD r 0 + ci.i1.getD l 0) (ci.j0.getD r 0 + ci.j1.getD l 0)))

/-- `np.add.at(output, (:, k, i, j), cols)` then crop the padding -/
def col2imIdx (g : Geom) (cols : NDArray α) : Option (NDArray α) :=
  g.out.map (fun (lh, lw) =>
    let ci := colIndices g lh lw
    ofFn [g.n, g.c, g.h, g.w] (fun q =>
      let (n, cc, hh, ww) := (getI q 0, getI q 1, getI q 2, getI q 3)
      ((List.range g.rows).flatMap (fun r => (List.range (lh * lw)).map (fun l =>
        if ci.k.getD r 0 = cc ∧ ci.i0.getD r 0 + ci.i1.getD l 0 = hh + g.p.1 ∧ ci.j0.getD r 0 + ci.j1.getD l 0 = ww + g.p.2
        then cols.get [n, r, l] else 0))).sum))

/-! ### implementation 2: double loop over window positions (`im2col_v2`, `col2im_v2`) -/
/-- `window = padded[:, :, hs:he:dH, ws:we:dW]`; `output[:, :, i*lW+j] = window.ravel().reshape(N, C·kH·kW)` -/
def im2colLoop (g : Geom) (x : NDArray α) (pad : α) : Option (NDArray α) :=
  g.out.map (fun (lh, lw) =>
    ofFn [g.n, g.rows, lh * lw] (fun q =>
      let i := getI q 2 / lw
      let j := getI q 2 % lw
      -- position `r` of the raveled (C, kH, kW) block of image n
      let u := unravel [g.c, g.k.1, g.k.2] (getI q 1)
      padGet g x pad (getI q 0) (getI u 0) (i * g.s.1 + getI u 1 * g.d.1) (j * g.s.2 + getI u 2 * g.d.2)))

/-- `output[:, :, hs:he:dH, ws:we:dW] += a[:, :, :, i*lW+j].reshape(N, C, kH, kW)` for every (i, j) -/
def col2imLoop (g : Geom) (cols : NDArray α) : Option (NDArray α) :=
  g.out.map (fun (lh, lw) =>
    ofFn [g.n, g.c, g.h, g.w] (fun q =>
      let (n, cc, hh, ww) := (getI q 0, getI q 1, getI q 2, getI q 3)
      ((List.range lh).flatMap (fun i => (List.range lw).flatMap (fun j =>
        (List.range g.k.1).flatMap (fun a => (List.range g.k.2).map (fun b =>
          if i * g.s.1 + a * g.d.1 = hh + g.p.1 ∧ j * g.s.2 + b * g.d.2 = ww + g.p.2
          then cols.get [n, ravel [g.c, g.k.1, g.k.2] [cc, a, b], i * lw + j] else 0))))).sum))

/-! ### implementation 3: strided window view (`extract_windows`, `im2col_fast`, `place_windows`, `col2im_fast`) -/
/-- `extract_windows`: shape `(lH, lW, N, C, kH, kW)` -/
def extractWindows (g : Geom) (x : NDArray α) (pad : α) : Option (NDArray α) :=
  g.out.map (fun (lh, lw) =>
    ofFn [lh, lw, g.n, g.c, g.k.1, g.k.2] (fun q =>
      padGet g x pad (getI q 2) (getI q 3) (getI q 0 * g.s.1 + getI q 4 * g.d.1) (getI q 1 * g.s.2 + getI q 5 * g.d.2)))

/-- `np.moveaxis(windows.reshape(L, N, C·kH·kW), 0, 2)` -/
def im2colView (g : Geom) (x : NDArray α) (pad : α) : Option (NDArray α) := do
  let wv ← extractWindows g x pad
  let (lh, lw) ← g.out
  let r := reshapeTo wv [lh * lw, g.n, g.rows]
  moveaxis r 0 2

/-- `place_windows`: for every window position add the window into the strided slice, then crop -/
def placeWindows (g : Geom) (wv : NDArray α) : Option (NDArray α) :=
  g.out.map (fun (lh, lw) =>
    ofFn [g.n, g.c, g.h, g.w] (fun q =>
      let (n, cc, hh, ww) := (getI q 0, getI q 1, getI q 2, getI q 3)
      ((List.range lh).flatMap (fun i => (List.range lw).flatMap (fun j =>
        (List.range g.k.1).flatMap (fun a => (List.range g.k.2).map (fun b =>
          if i * g.s.1 + a * g.d.1 = hh + g.p.1 ∧ j * g.s.2 + b * g.d.2 = ww + g.p.2
          then wv.get [i, j, n, cc, a, b] else 0))))).sum))

/-- `np.moveaxis(a, 2, 0).reshape(lH, lW, N, C, kH, kW)` then `place_windows` -/
def col2imView (g : Geom) (cols : NDArray α) : Option (NDArray α) := do
  let (lh, lw) ← g.out
  let m ← moveaxis cols 2 0
  placeWindows g (reshapeTo m [lh, lw, g.n, g.c, g.k.1, g.k.2])

end
end Synap.ConvTools

namespace Synap.ConvTools
open Synap NDArray
variable {α : Type} [Zero α]

/-- inverse of `toMatrix`: `(R, L·N)` column matrix back to `(N, R, L)` -/
def fromMatrix (n : Nat) (m : NDArray α) : NDArray α :=
  match m.shape with
  | [r, ln] => if n = 0 then m else ofFn [n, r, ln / n] (fun q => m.get [Np.getI q 1, Np.getI q 2 * n + Np.getI q 0])
  | _ => m

end Synap.ConvTools
