import SynapModel.Engine
/-!
# The traversal of `Tensor.backward` as the code writes it: an explicit stack

tensor.py (after the fix for deep graphs) does not recurse.  It keeps a stack of
`(node, iterator over node._children)` frames:

    visited = {root}; stack = [(root, iter(root._children))]
    while stack:
        node, children = stack[-1]
        for child in children:                 # resumes where the iterator stopped
            if child.requires_grad and (child._grad is None or (not child.is_leaf and child not in visited)):
                child.zero_()
            if child not in visited:
                visited.add(child); stack.append((child, iter(child._children))); break
        else:
            ordered.append(node); stack.pop()

`stackStep` is one iteration of the inner `for` (one child consumed) or the `else` branch (pop).
`Proofs.EngineStack.traverseStack_eq_traverse` shows that this machine computes exactly the
recursive `visit` of `SynapModel.Engine` (same visited set, same post-order, same buffers, same
zero-initialisation events in the same order), so every engine theorem is a theorem about the
code's loop.
-/
namespace Synap.Engine

/-- a stack frame: the node and the children its iterator has not yet yielded -/
structure Frame where
  node : Nat
  rest : List Nat
deriving Repr, DecidableEq

/-- `child.zero_()` when the condition of the loop body holds (the same test as in `visit`) -/
def zeroCheck (s : DfsSt G) (c : Nat) : DfsSt G :=
  match s.ns[c]? with
  | some n =>
    if n.reqGrad && (n.grad.isNone || (!n.isLeaf && !s.visited.contains c))
    then { s with ns := setGrad s.ns c (some n.zero), trace := s.trace ++ [TrEv.zero c] }
    else s
  | none => s

def childrenOf (ns : Graph G) (v : Nat) : List Nat :=
  match ns[v]? with | some n => n.children | none => []

/-- one turn of the machine -/
def stackStep (s : DfsSt G) : List Frame → DfsSt G × List Frame
  | [] => (s, [])
  | ⟨v, []⟩ :: st => ({ s with ordered := s.ordered ++ [v] }, st)
  | ⟨v, c :: cs⟩ :: st =>
    let s := zeroCheck s c
    if s.visited.contains c then (s, ⟨v, cs⟩ :: st)
    else ({ s with visited := c :: s.visited }, ⟨c, childrenOf s.ns c⟩ :: ⟨v, cs⟩ :: st)

/-- run until the stack is empty (`fuel` bounds the number of turns) -/
def runStack : Nat → DfsSt G → List Frame → DfsSt G
  | 0, s, _ => s
  | _ + 1, s, [] => s
  | f + 1, s, st => let r := stackStep s st; runStack f r.1 r.2

/-- every turn consumes one child edge or pops one node: `edges + nodes` turns suffice -/
def stackFuel (ns : Graph G) : Nat := (ns.map (fun n => n.children.length + 1)).sum + 1

/-- the traversal phase as the code performs it -/
def traverseStack (ns : Graph G) (root : Nat) : DfsSt G :=
  runStack (stackFuel ns) ⟨[root], [], ns, []⟩ [⟨root, childrenOf ns root⟩]

end Synap.Engine
