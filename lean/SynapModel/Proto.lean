/-!
# Line protocol helpers (driver side)

Tokens are separated by single spaces.  Lists are comma separated inside one token; `_` is the
empty list and `-` is "absent" (`None`).  Floats travel as the decimal value of their IEEE-754
binary64 bit pattern, so nothing is lost in transit.
-/
namespace Synap.Proto

def parseNat? (s : String) : Option Nat := s.toNat?
def parseInt? (s : String) : Option Int := s.toInt?

def parseList? (f : String → Option α) (s : String) : Option (List α) :=
  if s = "_" then some [] else (s.splitOn ",").mapM f

def parseNatList? := parseList? parseNat?
def parseIntList? := parseList? parseInt?

def parseFloat? (s : String) : Option Float := (s.toNat?).map (fun n => Float.ofBits n.toUInt64)
def parseFloatList? := parseList? parseFloat?

def parseBool? (s : String) : Option Bool :=
  if s = "1" then some true else if s = "0" then some false else none

/-- `-` is `none` -/
def parseOpt? (f : String → Option α) (s : String) : Option (Option α) :=
  if s = "-" then some none else (f s).map some

def showList (f : α → String) (l : List α) : String :=
  if l.isEmpty then "_" else ",".intercalate (l.map f)

def showNatList (l : List Nat) : String := showList toString l
def showIntList (l : List Int) : String := showList toString l
def showFloat (x : Float) : String := toString x.toBits.toNat
def showFloatList (l : List Float) : String := showList showFloat l
def showBool (b : Bool) : String := if b then "1" else "0"
def showOpt (f : α → String) : Option α → String
  | none => "-"
  | some a => f a

/-- key=value arguments after the positional ones -/
def kv? (toks : List String) (key : String) : Option String :=
  toks.findSome? (fun t => if t.startsWith (key ++ "=") then some ((t.drop (key.length + 1)).toString) else none)

end Synap.Proto
