import SynapModel.Core.Shape
/-!
# N-dimensional arrays in index-function form

`NDArray α` is a shape plus row-major data.  Every kernel of the model is written as
`ofFn outShape (fun idx => …)`; `get_ofFn` (Proofs/Core) moves every theorem to the level of
index functions.
-/
namespace Synap

structure NDArray (α : Type) where
  shape : Shape
  data : List α
deriving Repr, BEq, Inhabited

namespace NDArray
variable {α : Type}

def ofFn (s : Shape) (f : Idx → α) : NDArray α := ⟨s, (allIdx s).map f⟩

def get [Zero α] (x : NDArray α) (i : Idx) : α := x.data.getD (ravel x.shape i) 0

/-- well-formed: the data has exactly `shape.size` entries -/
def WF (x : NDArray α) : Prop := x.data.length = x.shape.size

def wfB (x : NDArray α) : Bool := x.data.length == x.shape.size

def full (s : Shape) (v : α) : NDArray α := ofFn s (fun _ => v)
def zeros [Zero α] (s : Shape) : NDArray α := full s 0
def ones [One α] (s : Shape) : NDArray α := full s 1
def scalar (v : α) : NDArray α := ⟨[], [v]⟩

def map (f : α → β) (x : NDArray α) : NDArray β := ⟨x.shape, x.data.map f⟩

/-- pointwise combination of two arrays of the *same* shape -/
def zipSame (f : α → β → γ) (x : NDArray α) (y : NDArray β) : NDArray γ :=
  ⟨x.shape, List.zipWith f x.data y.data⟩

/-- `x += y` of NumPy on arrays of the same shape (the engine only ever adds a kernel result of
    the operand's shape into the operand's buffer) -/
instance [Add α] : Add (NDArray α) := ⟨zipSame (· + ·)⟩

/-- `out[j] = x[φ j]` -/
def gather [Zero α] (outShape : Shape) (φ : Idx → Idx) (x : NDArray α) : NDArray α :=
  ofFn outShape (fun j => x.get (φ j))

/-- partial gather: where `φ j = none` the result holds `pad` -/
def gatherPad [Zero α] (outShape : Shape) (φ : Idx → Option Idx) (pad : α) (x : NDArray α) :
    NDArray α :=
  ofFn outShape (fun j => match φ j with | some i => x.get i | none => pad)

/-- `out[i] = Σ_{j ∈ allIdx gShape, φ j = i} g[j]` : the adjoint of `gather` -/
def scatterAdd [Zero α] [Add α] (inShape gShape : Shape) (φ : Idx → Idx) (g : NDArray α) :
    NDArray α :=
  ofFn inShape (fun i => (((allIdx gShape).filter (fun j => φ j == i)).map g.get).sum)

def scatterAddPad [Zero α] [Add α] (inShape gShape : Shape) (φ : Idx → Option Idx)
    (g : NDArray α) : NDArray α :=
  ofFn inShape (fun i => (((allIdx gShape).filter (fun j => φ j == some i)).map g.get).sum)

/-- broadcasting binary op; `none` when the shapes are incompatible -/
def bcast2 [Zero α] (f : α → α → α) (x y : NDArray α) : Option (NDArray α) := do
  let s ← broadcastShapes x.shape y.shape
  pure (ofFn s (fun j => f (x.get (bcastIdx x.shape j)) (y.get (bcastIdx y.shape j))))

/-- sum of all entries -/
def total [Zero α] [Add α] (x : NDArray α) : α := x.data.sum

/-- the pairing `⟪x, y⟫ = Σ_i x[i]·y[i]` over the indices of `x`'s shape -/
def dot [Zero α] [Add α] [Mul α] (x y : NDArray α) : α :=
  ((allIdx x.shape).map (fun i => x.get i * y.get i)).sum

end NDArray
end Synap
