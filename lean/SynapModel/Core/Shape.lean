/-!
# Shapes, multi-indices, row-major enumeration

Model of the index arithmetic NumPy performs for synapgrad.  Everything here is plain `Nat`/`Int`
list code with no Mathlib import, so that the compiled driver can link.
-/
namespace Synap

abbrev Shape := List Nat
abbrev Idx := List Nat

/-- number of elements -/
def Shape.size (s : Shape) : Nat := s.foldr (· * ·) 1

/-- all multi-indices of a shape in row-major (C) order -/
def allIdx : Shape → List Idx
  | [] => [[]]
  | n :: s => (List.range n).flatMap (fun a => (allIdx s).map (a :: ·))

/-- row-major flat offset -/
def ravel : Shape → Idx → Nat
  | n :: s, a :: i => a * Shape.size s + ravel s i
  | _, _ => 0

/-- inverse of `ravel` -/
def unravel : Shape → Nat → Idx
  | [], _ => []
  | _ :: s, k => (k / Shape.size s) :: unravel s (k % Shape.size s)

def validIdx : Shape → Idx → Prop
  | [], [] => True
  | n :: s, a :: i => a < n ∧ validIdx s i
  | _, _ => False

def validIdxB : Shape → Idx → Bool
  | [], [] => true
  | n :: s, a :: i => decide (a < n) && validIdxB s i
  | _, _ => false

/-- Python-style axis normalisation: `-ndim ≤ ax < ndim` -/
def normAxis (ndim : Nat) (ax : Int) : Option Nat :=
  if 0 ≤ ax ∧ ax < ndim then some ax.toNat
  else if ax < 0 ∧ -(ndim : Int) ≤ ax then some (ax + ndim).toNat
  else none

/-- normalise a list of axes, rejecting out-of-range and repeated axes (NumPy's rule) -/
def normAxes (ndim : Nat) (axes : List Int) : Option (List Nat) := do
  let r ← axes.mapM (normAxis ndim)
  if r.eraseDups.length = r.length then some r else none

/-- broadcast two shapes (NumPy rule); `none` when incompatible -/
def broadcastShapes (a b : Shape) : Option Shape :=
  let n := max a.length b.length
  let pa := List.replicate (n - a.length) 1 ++ a
  let pb := List.replicate (n - b.length) 1 ++ b
  (List.zip pa pb).mapM (fun (x, y) =>
    if x = y then some x else if x = 1 then some y else if y = 1 then some x else none)

/-- index of an operand of shape `s` that feeds output index `j` under broadcasting:
    drop the leading extra dims, set the index to 0 on size-1 axes -/
def bcastIdx (s : Shape) (j : Idx) : Idx :=
  let j' := j.drop (j.length - s.length)
  List.zipWith (fun n a => if n = 1 then 0 else a) s j'

/-- remove the entries at the given (sorted-insensitive) positions -/
def dropAxes (l : List α) (axes : List Nat) : List α :=
  (l.zipIdx.filter (fun (_, k) => !axes.contains k)).map (·.1)

/-- set the entries at the given positions to `v` -/
def setAxes (l : List α) (axes : List Nat) (v : α) : List α :=
  l.zipIdx.map (fun (x, k) => if axes.contains k then v else x)

/-- insert `v` so that it ends up at position `k` of the result -/
def insertAt (l : List α) (k : Nat) (v : α) : List α := l.take k ++ v :: l.drop k

/-- apply a permutation given as "result axis p takes source axis perm[p]" -/
def permute (l : List Nat) (perm : List Nat) : List Nat := perm.map (fun p => l.getD p 0)

/-- inverse permutation -/
def invPerm (perm : List Nat) : List Nat :=
  (List.range perm.length).map (fun k => (perm.idxOf k))

/-- the permutation `np.moveaxis(a, src, dst)` applies: result axis order -/
def moveaxisPerm (ndim src dst : Nat) : List Nat :=
  let rest := (List.range ndim).filter (· ≠ src)
  insertAt rest dst src

/-- the permutation `np.swapaxes` applies -/
def swapPerm (ndim a b : Nat) : List Nat :=
  (List.range ndim).map (fun k => if k = a then b else if k = b then a else k)

end Synap
