import SynapModel.Proto
import SynapModel.Kernels.NN
import SynapModel.Drv.Tensor
/-! driver commands for the stability-critical ops (C09): the same kernels executed at `Float32` and `Float` -/
namespace Synap.Drv.Stab
open Synap Synap.Proto Synap.Kernels Synap.NDArray

instance : Transc Float32 := ⟨Float32.exp, Float32.log, Float32.sqrt, Float32.tanh, Float32.pow⟩
instance : NatCast Float32 := ⟨Float32.ofNat⟩
instance : Zero Float32 := ⟨0.0⟩
instance : One Float32 := ⟨1.0⟩

section
variable {α : Type} [Zero α] [One α] [Add α] [Sub α] [Mul α] [Div α] [Neg α] [NatCast α] [OfScientific α]
  [LT α] [DecidableLT α] [LE α] [DecidableLE α] [Transc α]

/-- forward value and input gradient of one stability-critical op -/
def runOp (op : String) (x g : NDArray α) (aux : NDArray α) (labels : List Nat) (dim : Int) :
    Option (NDArray α × NDArray α) :=
  match op with
  | "sigmoid" => let o := sigmoidForward x; some (o, sigmoidBackward g o)
  | "tanh" => let o := tanhForward x; some (o, tanhBackward g o)
  | "selu" => some (seluForward x seluAlpha seluScale, seluBackward g x seluAlpha seluScale)
  | "softmax" => do let o ← softmaxForward x dim; pure (o, ← softmaxBackward g o dim)
  | "log_softmax" => do let o ← logSoftmaxForward x dim; pure (o, ← logSoftmaxBackward g o dim)
  | "cross_entropy" => do let o ← crossEntropyForward x labels; pure (o, ← crossEntropyBackward g x labels)
  | "binary_cross_entropy_with_logits" => do let o ← bceLogitsForward x aux; pure (o, ← bceLogitsBackward g x aux)
  | _ => none
end

def arr32 (x : NDArray Float) : NDArray Float32 := x.map Float.toFloat32
def arr64 (x : NDArray Float32) : NDArray Float := x.map Float32.toFloat

/-- stab <op> <f32|f64> <dim> <labels|_> <shape> <x> <gshape> <g> <auxshape> <aux> -/
def run (toks : List String) : String :=
  match toks with
  | [op, dt, dim, labels, sh, xd, gsh, gd, ash, ad] =>
    match dim.toInt?, parseNatList? labels, Drv.Tensor.parseArr? sh xd, Drv.Tensor.parseArr? gsh gd, Drv.Tensor.parseArr? ash ad with
    | some dim, some labels, some x, some g, some aux =>
      if dt = "f32" then
        match runOp op (arr32 x) (arr32 g) (arr32 aux) labels dim with
        | some (o, gx) => Drv.Tensor.showArr (arr64 o) ++ " " ++ Drv.Tensor.showArr (arr64 gx)
        | none => "rejected"
      else
        match runOp op x g aux labels dim with
        | some (o, gx) => Drv.Tensor.showArr o ++ " " ++ Drv.Tensor.showArr gx
        | none => "rejected"
    | _, _, _, _, _ => "bad-op"
  | _ => "bad-op"

end Synap.Drv.Stab
