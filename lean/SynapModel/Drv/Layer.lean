import SynapModel.Proto
import SynapModel.LayerArgs
/-! driver commands for layer argument normalisation (C06) -/
namespace Synap.Drv.Layer
open Synap.Proto Synap.LayerArgs Synap.Kernels

def parseIT? (s : String) : Option IT :=
  match parseNatList? s with
  | some [a] => some (.int a)
  | some [a, b] => some (.pair a b)
  | _ => none

def parsePad? (s : String) : Option Pad :=
  if s = "same" then some .same else if s = "valid" then some .valid else (parseIT? s).map .it

def showGeo (g : Geo2) : String := s!"k={g.k.1},{g.k.2} s={g.s.1},{g.s.2} p={g.p.1},{g.p.2} d={g.d.1},{g.d.2}"

def run (toks : List String) : String :=
  match toks with
  -- conv2d <k> <s> <pad> <d> <H> <W>
  | ["conv2d", k, s, p, d, h, w] =>
    match parseIT? k, parseIT? s, parsePad? p, parseIT? d, parseNat? h, parseNat? w with
    | some k, some s, some p, some d, some h, some w =>
      match conv2dArgs k s p d with
      | none => "rejected"
      | some g => showGeo g ++ " out=" ++ (match outSize2 g h w with | some (a, b) => s!"{a},{b}" | none => "rejected")
    | _, _, _, _, _, _ => "bad-op"
  | ["conv1d", k, s, p, d, l] =>
    match parseNat? k, parseNat? s, parseNat? d, parseNat? l with
    | some k, some s, some d, some l =>
      let p? : Option (Option (Option Nat)) := if p = "same" then some none else if p = "valid" then some (some none) else (parseNat? p).map (fun v => some (some v))
      match p? with
      | none => "bad-op"
      | some pp =>
        match conv1dArgs k s pp d with
        | none => "rejected"
        | some (k, s, p, d) => s!"k={k} s={s} p={p} d={d} out=" ++ (match convOut l k s p d with | some a => toString a | none => "rejected")
    | _, _, _, _ => "bad-op"
  | ["pool2d", k, s, p, d, h, w] =>
    match parseIT? k, parseOpt? parseIT? s, parseIT? p, parseIT? d, parseNat? h, parseNat? w with
    | some k, some s, some p, some d, some h, some w =>
      let g := pool2dArgs k s p d
      showGeo g ++ " out=" ++ (match outSize2 g h w with | some (a, b) => s!"{a},{b}" | none => "rejected")
    | _, _, _, _, _, _ => "bad-op"
  | ["pool1d", k, s, p, d, l] =>
    match parseNat? k, parseOpt? parseNat? s, parseNat? p, parseNat? d, parseNat? l with
    | some k, some s, some p, some d, some l =>
      let (k, s, p, d) := pool1dArgs k s p d
      s!"k={k} s={s} p={p} d={d} out=" ++ (match convOut l k s p d with | some a => toString a | none => "rejected")
    | _, _, _, _, _ => "bad-op"
  | _ => "bad-op"

end Synap.Drv.Layer
