import SynapModel.Proto
import SynapModel.Modules
/-! driver commands for modules.py (C12) -/
namespace Synap.Drv.Modules
open Synap.Proto Synap.Modules

def parseVal? (s : String) : Option Val :=
  if s = "none" || s = "other" then some .other
  else if s.startsWith "m" then ((s.drop 1).toString.toNat?).map .mod
  else if s.startsWith "p" then ((s.drop 1).toString.toNat?).map .par
  else none

def parseNamed? (s : String) : Option (String × Nat) :=
  match s.splitOn ":" with
  | [n, k] => k.toNat?.map (fun k => (n, k))
  | _ => none

def run (w : World) (toks : List String) : World × String :=
  match toks with
  | ["new"] => let (w, k) := newMod w; (w, s!"m{k}")
  | ["param", sz, rg] =>
    match parseNat? sz, parseBool? rg with
    | some sz, some rg => let (w, k) := newPar w sz rg; (w, s!"p{k}")
    | _, _ => (w, "bad-op")
  | ["set", m, name, v] =>
    match parseNat? m, parseVal? v with
    | some m, some v => (setAttr w m name v, "ok")
    | _, _ => (w, "bad-op")
  | ["regm", m, name, k] =>
    match parseNat? m, parseNat? k with
    | some m, some k => (regMod w m name k, "ok")
    | _, _ => (w, "bad-op")
  | ["regp", m, name, k] =>
    match parseNat? m, parseNat? k with
    | some m, some k => (regPar w m name k, "ok")
    | _, _ => (w, "bad-op")
  | ["seq", ks] =>
    match parseNatList? ks with
    | some ks => let (w, k) := sequential w ks; (w, s!"m{k}")
    | none => (w, "bad-op")
  | ["seqd", ks] =>
    match parseList? parseNamed? ks with
    | some ks => let (w, k) := sequentialDict w ks; (w, s!"m{k}")
    | none => (w, "bad-op")
  | ["params", m] =>
    match parseNat? m with
    | some m => (w, showNatList (parameters w (fuelOf w) m))
    | none => (w, "bad-op")
  | ["num", m] =>
    match parseNat? m with
    | some m => let (a, b, c) := numParams w m; (w, s!"{a},{b},{c}")
    | none => (w, "bad-op")
  | ["train", m] =>
    match parseNat? m with
    | some m => (setTraining true (fuelOf w) w m, "ok")
    | none => (w, "bad-op")
  | ["eval", m] =>
    match parseNat? m with
    | some m => (setTraining false (fuelOf w) w m, "ok")
    | none => (w, "bad-op")
  | ["zero", m] =>
    match parseNat? m with
    | some m => (zeroGrad w m, "ok")
    | none => (w, "bad-op")
  | ["freeze", m] =>
    match parseNat? m with
    | some m => (setReqGrad false w m, "ok")
    | none => (w, "bad-op")
  | ["unfreeze", m] =>
    match parseNat? m with
    | some m => (setReqGrad true w m, "ok")
    | none => (w, "bad-op")
  | ["order", m] =>
    match parseNat? m with
    | some m => (w, showNatList (applyOrder w m))
    | none => (w, "bad-op")
  | ["flags"] => (w, showList (fun M => showBool M.training) w.mods)
  | ["gset", p, v] =>
    match parseNat? p, parseInt? v with
    | some p, some v => (setGradVal w p v, "ok")
    | _, _ => (w, "bad-op")
  | ["gshare", p, q] =>
    match parseNat? p, parseNat? q with
    | some p, some q => (shareGrad w p q, "ok")
    | _, _ => (w, "bad-op")
  | ["pwrap", p] =>
    match parseNat? p with
    | some p => match wrapPar w p with
      | (w, some k) => (w, s!"p{k}")
      | (w, none) => (w, "bad-op")
    | none => (w, "bad-op")
  | ["psetrg", p, v] =>
    match parseNat? p, parseBool? v with
    | some p, some v => (setParReqGrad w p v, "ok")
    | _, _ => (w, "bad-op")
  | ["grads"] => (w, showList (fun P => match P.gval with | some v => toString v | none => "-") w.pars)
  | ["pflags"] => (w, showList (fun P => showBool P.reqGrad ++ showBool P.hasGrad) w.pars)
  | _ => (w, "bad-op")

def showColl (c : Coll) : String :=
  (if c.isDict then "dict " else "list ") ++ showList (fun e => if c.isDict then s!"{e.1}:{e.2}" else toString e.2) c.items

/-- the module commands plus the caller-owned collections (`Sequential(d)` with a dict / list that lives on in the caller's hands) -/
def runC (cw : CWorld) (toks : List String) : CWorld × String :=
  let onColl (i : String) (f : Coll → Coll) : CWorld × String :=
    match parseNat? i with
    | some i => if i < cw.colls.length then (updColl cw i f, "ok") else (cw, "bad-op")
    | none => (cw, "bad-op")
  match toks with
  | ["cdict", ks] =>
    match parseList? parseNamed? ks with
    | some ks => let (cw, i) := newColl cw ⟨true, ks⟩; (cw, s!"c{i}")
    | none => (cw, "bad-op")
  | ["clist", ks] =>
    match parseNatList? ks with
    | some ks => let (cw, i) := newColl cw ⟨false, ks.map (fun k => ("", k))⟩; (cw, s!"c{i}")
    | none => (cw, "bad-op")
  | ["seqc", i] =>
    match parseNat? i with
    | some i => match seqFrom cw i with
      | (cw, some m) => (cw, s!"m{m}")
      | (cw, none) => (cw, "bad-op")
    | none => (cw, "bad-op")
  | ["cput", i, name, k] =>
    match parseNat? k with
    | some k => onColl i (·.put name k)
    | none => (cw, "bad-op")
  | ["cdel", i, name] => onColl i (·.del name)
  | ["cmove", i, name, last] =>
    match parseBool? last with
    | some last => onColl i (·.move name last)
    | none => (cw, "bad-op")
  | ["cclear", i] => onColl i Coll.clear
  | ["crev", i] => onColl i Coll.rev
  | ["cshow", i] =>
    match parseNat? i with
    | some i => (cw, (cw.colls[i]?.map showColl).getD "bad-op")
    | none => (cw, "bad-op")
  | _ => let (w, o) := run cw.w toks; ({ cw with w := w }, o)

end Synap.Drv.Modules
