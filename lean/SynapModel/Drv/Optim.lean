import SynapModel.Proto
import SynapModel.Optim
/-! driver commands for optimizers.py (C08), scalar type `Float` -/
namespace Synap.Drv.Optim
open Synap.Proto Synap.Optim

instance : HasSqrt Float := ⟨Float.sqrt⟩
instance : HPow Float Nat Float := ⟨fun x n => Float.pow x n.toFloat⟩
instance : Zero Float := ⟨0.0⟩
instance : One Float := ⟨1.0⟩

inductive St where
  | none
  | sgd (c : SGDCfg Float) (s : SGDState Float)
  | adam (c : AdamCfg Float) (s : AdamState Float)

def mkPs (θs : List Float) (rgs : List Bool) : List (P Float) :=
  List.zipWith (fun θ rg => ⟨θ, Option.none, rg⟩) θs rgs

def ev (st : St) (e : Ev Float) : St :=
  match st with
  | .none => .none
  | .sgd c s => .sgd c (sgdEv c s e)
  | .adam c s => .adam c (adamEv c s e)

def params : St → List (P Float)
  | .none => []
  | .sgd _ s => s.ps
  | .adam _ s => s.ps

def run (st : St) (toks : List String) : St × String :=
  match toks with
  -- sgd lr momentum dampening wd nesterov maximize thetas rgs
  | ["sgd", lr, mo, da, wd, ne, mx, th, rg] =>
    match parseFloat? lr, parseFloat? mo, parseFloat? da, parseFloat? wd, parseBool? ne, parseBool? mx,
          parseFloatList? th, parseList? parseBool? rg with
    | some lr, some mo, some da, some wd, some ne, some mx, some th, some rg =>
      if th.isEmpty then (st, "rejected")
      else if ne && (mo <= 0.0 || da != 0.0) then (st, "rejected")
      else
        let c : SGDCfg Float := ⟨lr, mo, da, wd, wd != 0.0, mo != 0.0, ne, mx⟩
        (.sgd c (sgdInit (mkPs th rg)), "ok")
    | _, _, _, _, _, _, _, _ => (st, "bad-op")
  -- adam|adamw lr b1 b2 eps wd maximize thetas rgs
  | [kind, lr, b1, b2, eps, wd, mx, th, rg] =>
    if kind != "adam" && kind != "adamw" then (st, "bad-op") else
    match parseFloat? lr, parseFloat? b1, parseFloat? b2, parseFloat? eps, parseFloat? wd, parseBool? mx,
          parseFloatList? th, parseList? parseBool? rg with
    | some lr, some b1, some b2, some eps, some wd, some mx, some th, some rg =>
      if th.isEmpty then (st, "rejected")
      else
        let c : AdamCfg Float := ⟨lr, b1, b2, eps, wd, wd != 0.0, mx, kind == "adamw"⟩
        (.adam c (adamInit (mkPs th rg)), "ok")
    | _, _, _, _, _, _, _, _ => (st, "bad-op")
  | ["bw", i, g] =>
    match parseNat? i, parseFloat? g with
    | some i, some g => (ev st (.backward i g), "ok")
    | _, _ => (st, "bad-op")
  | ["zero"] => (ev st .zeroGrad, "ok")
  | ["step"] => (ev st .step, "ok")
  | ["rg", i, b] =>
    match parseNat? i, parseBool? b with
    | some i, some b => (ev st (.setRg i b), "ok")
    | _, _ => (st, "bad-op")
  | ["get"] => (st, showFloatList ((params st).map (·.θ)))
  | ["grads"] => (st, showList (showOpt showFloat) ((params st).map (·.grad)))
  | _ => (st, "bad-op")

end Synap.Drv.Optim
