import SynapModel.Proto
import SynapModel.ModuleFwd
import SynapModel.Layers
import SynapModel.Drv.Tensor
/-!
driver commands for the module forward passes of `SynapModel/ModuleFwd.lean` (C14), scalar type `Float`

The registry of module OBJECTS is the `Modules.World` of C12 (so a `Sequential` is built by `Modules.sequential` /
`sequentialDict` and read back by `applyOrder`, exactly what `sequentialForward` walks); next to it the driver keeps, per
module id, what kind of layer the object is (`Kind`: its constructor arguments) and the state its `forward` changes
(`Cell`: batch-norm statistics and counter, number of dropout draws consumed, the `training` flag).  The list of cells is
the `σ` threaded through `sequentialForward`.

    mf linear <in> <out> <bias 0|1> <w> <b>      -> m<k>      `Linear.init`  (w: out*in values, b: out values or `_`)
    mf neuron <in> <bias 0|1> <w> <b>            -> m<k>      `Neuron.init`  (w: in values, b: one value or `_`)
    mf act relu|tanh|sigmoid                     -> m<k>
    mf flatten <start> <end>                     -> m<k>
    mf bn <C> <momentum|-> <eps> <affine> <track> <gamma|-> <beta|-> -> m<k>      BatchNorm1d (training mode)
    mf dropout <p> <draws>                       -> m<k>      the uniform draws successive calls will consume
    mf seq <ids>                                 -> m<k>      `Sequential(*modules)`, ids may repeat / be Sequentials
    mf seqd <name:id,...>                        -> m<k>      `Sequential(OrderedDict)`
    mf train <m> <0|1>                           -> ok        `train()` / `eval()` (recursively, `Modules.setTraining`)
    mf attrs <m>                                 -> in=<n> out=<n> w=<shape> b=<shape|->      (Linear / Neuron objects)
    mf fwd <m> <shape> <data>                    -> <shape>|<data>  or  rejected
    mf state <m>                                 -> nbt=<n> rm=<C>|<..> rv=<C>|<..>  /  used=<n>  /  -
-/
namespace Synap.Drv.ModuleFwd
open Synap Synap.Proto Synap.Modules Synap.ModuleFwd Synap.Kernels Synap.Layers
open Synap.Drv.Tensor (showArr parseArr?)
open Synap.Drv.Layers (toChannels fromChannels)

/-- what the object is: class and constructor arguments (never changed by `forward`) -/
inductive Kind where
  | linear (L : Linear Float)
  | neuron (L : Linear Float)
  | relu | tanh | sigmoid
  | flatten (startDim endDim : Int)
  | bn (cfg : BNCfg Float) (channels : Nat)
  | dropout (p : Float) (draws : List Float)
  | seq

/-- what `forward` changes on the object -/
inductive Cell where
  | none
  | bn (s : BNState Float)
  | drop (used : Nat)

/-- the state threaded through a forward pass: one cell per module object -/
abbrev Carried := List Cell

structure St where
  w : World := World.empty
  kinds : List Kind := []
  cells : Carried := []

def setCell (c : Carried) (k : Nat) (v : Cell) : Carried := c.zipIdx.map (fun (x, i) => if i = k then v else x)

/-- `BatchNorm1d.forward` on an array `(N, C)` or `(N, C, L)` through `Layers.bnForward` -/
def bnCall (cfg : BNCfg Float) (channels : Nat) (s : BNState Float) (x : NDArray Float) :
    Option (BNState Float × NDArray Float) :=
  match x.shape with
  | n :: c :: rest =>
    if c ≠ channels ∨ rest.length > 1 then none else
    let l := Shape.size rest
    match bnForward cfg s (toChannels n c l x.data) with
    | (none, _) => none
    | (some out, s') => some (s', ⟨x.shape, fromChannels n c l out⟩)
  | _ => none

/-- `Dropout.forward`: `np.random.rand(*x.shape)` takes the next `x.size` draws of the stream -/
def dropCall (p : Float) (draws : List Float) (training : Bool) (used : Nat) (x : NDArray Float) :
    Option (Nat × NDArray Float) :=
  if !training then some (used, x) else
  let n := x.data.length
  let us := (draws.drop used).take n
  if us.length ≠ n then none else some (used + n, ⟨x.shape, dropout p true x.data us⟩)

/-- `module(inp)` for the module object `k`; a `Sequential` member runs `sequentialForward` over its own members
    (`fuel` bounds the nesting depth, as in `Modules.parameters`) -/
def call (S : St) : Nat → Nat → Carried → NDArray Float → Option (Carried × NDArray Float)
  | 0, _, _, _ => none
  | f+1, k, st, x =>
    match S.kinds[k]? with
    | none => none
    | some (.linear L) => (Linear.forward L x).map (fun y => (st, y))
    | some (.neuron L) => (Neuron.forward L x).map (fun y => (st, y))
    | some .relu => some (st, reluForward x)
    | some .tanh => some (st, tanhForward x)
    | some .sigmoid => some (st, sigmoidForward x)
    | some (.flatten s e) => (flattenForward x s e).map (fun y => (st, y))
    | some (.bn cfg ch) =>
      match st[k]? with
      | some (.bn s) =>
        let s := { s with training := ((S.w.mods[k]?).map (·.training)).getD true }
        (bnCall cfg ch s x).map (fun (s', y) => (setCell st k (.bn s'), y))
      | _ => none
    | some (.dropout p draws) =>
      match st[k]? with
      | some (.drop used) =>
        (dropCall p draws (((S.w.mods[k]?).map (·.training)).getD true) used x).map (fun (u, y) => (setCell st k (.drop u), y))
      | _ => none
    | some .seq => sequentialForward (call S f) S.w k st x

def fuel (S : St) : Nat := fuelOf S.w + 1

/-- a new leaf module object -/
def addLeaf (S : St) (kd : Kind) (c : Cell) : St × String :=
  let (w, k) := newMod S.w
  ({ w := w, kinds := S.kinds ++ [kd], cells := S.cells ++ [c] }, s!"m{k}")

def showVec (l : List Float) : String := showArr ⟨[l.length], l⟩

def parseNamed? (s : String) : Option (String × Nat) :=
  match s.splitOn ":" with
  | [n, k] => k.toNat?.map (fun k => (n, k))
  | _ => none

def run (S : St) (toks : List String) : St × String :=
  match toks with
  | ["linear", i, o, hb, wv, bv] =>
    match parseNat? i, parseNat? o, parseBool? hb, parseFloatList? wv, parseFloatList? bv with
    | some i, some o, some hb, some wv, some bv =>
      if wv.length ≠ o * i ∨ bv.length ≠ (if hb then o else 0) then (S, "bad-op")
      else addLeaf S (.linear (Linear.init i o hb wv bv)) .none
    | _, _, _, _, _ => (S, "bad-op")
  | ["neuron", i, hb, wv, bv] =>
    match parseNat? i, parseBool? hb, parseFloatList? wv, parseFloatList? bv with
    | some i, some hb, some wv, some bv =>
      if wv.length ≠ i ∨ bv.length ≠ (if hb then 1 else 0) then (S, "bad-op")
      else addLeaf S (.neuron (Neuron.init i hb wv bv)) .none
    | _, _, _, _ => (S, "bad-op")
  | ["act", "relu"] => addLeaf S .relu .none
  | ["act", "tanh"] => addLeaf S .tanh .none
  | ["act", "sigmoid"] => addLeaf S .sigmoid .none
  | ["flatten", s, e] =>
    match parseInt? s, parseInt? e with
    | some s, some e => addLeaf S (.flatten s e) .none
    | _, _ => (S, "bad-op")
  | ["bn", c, mo, eps, af, tr, g, b] =>
    match parseNat? c, parseOpt? parseFloat? mo, parseFloat? eps, parseBool? af, parseBool? tr,
          parseOpt? parseFloatList? g, parseOpt? parseFloatList? b with
    | some c, some mo, some eps, some af, some tr, some g, some b =>
      let cfg : BNCfg Float := ⟨mo, eps, tr⟩
      let s0 := bnInit cfg c af
      let okLen := fun (v : Option (List Float)) => match v with | none => true | some l => l.length == c
      if !af && (g.isSome || b.isSome) || !okLen g || !okLen b then (S, "bad-op")
      else addLeaf S (.bn cfg c) (.bn { s0 with gamma := g.orElse (fun _ => s0.gamma), beta := b.orElse (fun _ => s0.beta) })
    | _, _, _, _, _, _, _ => (S, "bad-op")
  | ["dropout", p, draws] =>
    match parseFloat? p, parseFloatList? draws with
    | some p, some draws => addLeaf S (.dropout p draws) (.drop 0)
    | _, _ => (S, "bad-op")
  | ["seq", ks] =>
    match parseNatList? ks with
    | some ks =>
      if ks.any (fun k => k ≥ S.kinds.length) then (S, "bad-op") else
      let (w, k) := sequential S.w ks
      ({ w := w, kinds := S.kinds ++ [.seq], cells := S.cells ++ [.none] }, s!"m{k}")
    | none => (S, "bad-op")
  | ["seqd", ks] =>
    match parseList? parseNamed? ks with
    | some ks =>
      if ks.any (fun k => k.2 ≥ S.kinds.length) then (S, "bad-op") else
      let (w, k) := sequentialDict S.w ks
      ({ w := w, kinds := S.kinds ++ [.seq], cells := S.cells ++ [.none] }, s!"m{k}")
    | none => (S, "bad-op")
  | ["train", m, v] =>
    match parseNat? m, parseBool? v with
    | some m, some v => if m < S.kinds.length then ({ S with w := setTraining v (fuelOf S.w) S.w m }, "ok") else (S, "bad-op")
    | _, _ => (S, "bad-op")
  | ["fwd", m, sh, d] =>
    match parseNat? m, parseArr? sh d with
    | some m, some x =>
      if m ≥ S.kinds.length then (S, "bad-op") else
      match call S (fuel S) m S.cells x with
      | none => (S, "rejected")
      | some (cells, y) => ({ S with cells := cells }, showArr y)
    | _, _ => (S, "bad-op")
  | ["attrs", m] =>
    match (parseNat? m).bind (fun m => S.kinds[m]?) with
    | some (.linear L) | some (.neuron L) =>
      (S, s!"in={L.inFeatures} out={L.outFeatures} w={showNatList L.weight.shape} b={showOpt (fun b => showNatList b.shape) L.bias}")
    | _ => (S, "bad-op")
  | ["state", m] =>
    match parseNat? m with
    | some m =>
      match S.cells[m]? with
      | some (.bn s) => (S, s!"nbt={s.nbt} rm={showVec s.rm} rv={showVec s.rv}")
      | some (.drop used) => (S, s!"used={used}")
      | some .none => (S, "-")
      | none => (S, "bad-op")
    | none => (S, "bad-op")
  | _ => (S, "bad-op")

end Synap.Drv.ModuleFwd
