import SynapModel.Proto
import SynapModel.Init
import SynapModel.Drv.Layers
/-! driver commands for nn/init.py (C15) -/
namespace Synap.Drv.Init
open Synap.Proto Synap.Init

def showReq : Option (Request Float) → String
  | none => "rejected"
  | some (.uniform a b) => s!"uniform {showFloat a} {showFloat b}"
  | some (.normal m s) => s!"normal {showFloat m} {showFloat s}"
  | some (.const v) => s!"const {showFloat v}"

def parseNl? : String → Option Nonlin
  | "linear" => some .linear | "conv1d" => some .conv1d | "conv2d" => some .conv2d | "sigmoid" => some .sigmoid
  | "tanh" => some .tanh | "relu" => some .relu | "leaky_relu" => some .leakyRelu | "selu" => some .selu | _ => none

def run (toks : List String) : String :=
  match toks with
  | ["fans", sh] => match parseNatList? sh with
    | some sh => (match fans sh with | some (a, b) => s!"{a},{b}" | none => "rejected")
    | none => "bad-op"
  | ["gain", nl, p] => match parseNl? nl, parseOpt? parseFloat? p with
    | some nl, some p => showFloat (gain nl p)
    | _, _ => "rejected"
  | ["uniform", a, b] => match parseFloat? a, parseFloat? b with
    | some a, some b => showReq (some (uniform_ a b)) | _, _ => "bad-op"
  | ["normal", a, b] => match parseFloat? a, parseFloat? b with
    | some a, some b => showReq (some (normal_ a b)) | _, _ => "bad-op"
  | ["const", v] => match parseFloat? v with | some v => showReq (some (.const v)) | none => "bad-op"
  | ["xavier_uniform", sh, g] => match parseNatList? sh, parseFloat? g with
    | some sh, some g => showReq (xavierUniform sh g) | _, _ => "bad-op"
  | ["xavier_normal", sh, g] => match parseNatList? sh, parseFloat? g with
    | some sh, some g => showReq (xavierNormal sh g) | _, _ => "bad-op"
  | ["kaiming_uniform", sh, a, mode, nl] => match parseNatList? sh, parseFloat? a, parseNl? nl with
    | some sh, some a, some nl =>
      if mode = "fan_in" then showReq (kaimingUniform sh a false nl)
      else if mode = "fan_out" then showReq (kaimingUniform sh a true nl) else "rejected"
    | _, _, _ => "rejected"
  | ["kaiming_normal", sh, a, mode, nl] => match parseNatList? sh, parseFloat? a, parseNl? nl with
    | some sh, some a, some nl =>
      if mode = "fan_in" then showReq (kaimingNormal sh a false nl)
      else if mode = "fan_out" then showReq (kaimingNormal sh a true nl) else "rejected"
    | _, _, _ => "rejected"
  | ["layer", sh] => match parseNatList? sh with
    | some sh => showReq (layerDefault sh) | none => "bad-op"
  | _ => "bad-op"

end Synap.Drv.Init
