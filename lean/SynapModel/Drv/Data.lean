import SynapModel.Proto
import SynapModel.Data
/-! driver commands for data.py (C18) -/
namespace Synap.Drv.Data
open Synap.Proto Synap.Data

def showBatches (bs : List (List Nat × List Nat)) : String :=
  if bs.isEmpty then "_" else
  "|".intercalate (bs.map (fun (x, y) => showNatList x ++ ";" ++ showNatList y))

def run (toks : List String) : String :=
  match toks with
  -- split <indices> <testFracBits> <valFracBits|->
  | ["split", idx, tf, vf] =>
    match parseNatList? idx, parseFloat? tf, parseOpt? parseFloat? vf with
    | some idx, some tf, some vf =>
      let s := splitDataset idx tf vf
      s!"train={showNatList s.train} test={showNatList s.test} val={showOpt showNatList s.val}"
    | _, _, _ => "bad-op"
  -- loader <nx> <ny> <b>
  | ["loader", nx, ny, b] =>
    match parseNat? nx, parseNat? ny, parseNat? b with
    | some nx, some ny, some b =>
      match loaderBatches nx ny b with
      | none => "rejected"
      | some bs => s!"len={bs.length} batches={showBatches bs}"
    | _, _, _ => "bad-op"
  -- loops <nx> <ny> <b> <k1,k2,...> : successive for-loops over ONE loader object, loop i abandoned after at most k_i items
  | ["loops", nx, ny, b, ks] =>
    match parseNat? nx, parseNat? ny, parseNat? b, parseNatList? ks with
    | some nx, some ny, some b, some ks =>
      match Loader.loops ks { nx := nx, ny := ny, b := b, step := 0 } with
      | none => "rejected"
      | some ls => if ls.isEmpty then "_" else " / ".intercalate (ls.map showBatches)
    | _, _, _, _ => "bad-op"
  -- onehot <labels>
  | ["onehot", ys] =>
    match parseIntList? ys with
    | some ys => showList showNatList (oneHot ys) |>.replace "," ";" |> fun _ =>
        (if ys.isEmpty then "_" else "|".intercalate ((oneHot ys).map showNatList))
    | none => "bad-op"
  | _ => "bad-op"

end Synap.Drv.Data
