import SynapModel.Proto
import SynapModel.Layers
import SynapModel.Drv.Optim
/-! driver commands for BatchNorm / Dropout histories (C13), scalar type `Float` -/
namespace Synap.Drv.Layers
open Synap.Proto Synap.Layers

instance : NatCast Float := ⟨Float.ofNat⟩

structure St where
  cfg : BNCfg Float := ⟨none, 0.0, true⟩
  st : BNState Float := ⟨[], [], none, none, 0, true⟩

/-- split row-major data of shape (N, C, L) into per-channel lists, order (n, l) -/
def toChannels (n c l : Nat) (d : List Float) : List (List Float) :=
  (List.range c).map (fun k =>
    (List.range n).flatMap (fun i => (List.range l).map (fun j => d.getD ((i * c + k) * l + j) 0.0)))

def fromChannels (n c l : Nat) (ch : List (List Float)) : List Float :=
  (List.range n).flatMap (fun i => (List.range c).flatMap (fun k =>
    (List.range l).map (fun j => (ch.getD k []).getD (i * l + j) 0.0)))

def showState (s : BNState Float) : String :=
  s!"rm={showFloatList s.rm} rv={showFloatList s.rv} nbt={s.nbt} training={showBool s.training}"

def run (s : St) (toks : List String) : St × String :=
  match toks with
  -- new <C> <momentum|-> <eps> <affine> <track>
  | ["new", c, mo, eps, af, tr] =>
    match parseNat? c, parseOpt? parseFloat? mo, parseFloat? eps, parseBool? af, parseBool? tr with
    | some c, some mo, some eps, some af, some tr =>
      let cfg : BNCfg Float := ⟨mo, eps, tr⟩
      ({ cfg := cfg, st := bnInit cfg c af }, "ok")
    | _, _, _, _, _ => (s, "bad-op")
  | ["setstats", rm, rv] =>
    match parseFloatList? rm, parseFloatList? rv with
    | some rm, some rv => ({ s with st := { s.st with rm := rm, rv := rv } }, "ok")
    | _, _ => (s, "bad-op")
  | ["setaffine", g, b] =>
    match parseFloatList? g, parseFloatList? b with
    | some g, some b => ({ s with st := { s.st with gamma := some g, beta := some b } }, "ok")
    | _, _ => (s, "bad-op")
  | ["train"] => ({ s with st := { s.st with training := true } }, "ok")
  | ["eval"] => ({ s with st := { s.st with training := false } }, "ok")
  | ["state"] => (s, showState s.st)
  -- fwd <N> <C> <L> <data>
  | ["fwd", n, c, l, d] =>
    match parseNat? n, parseNat? c, parseNat? l, parseFloatList? d with
    | some n, some c, some l, some d =>
      match bnForward s.cfg s.st (toChannels n c l d) with
      | (none, st') => ({ s with st := st' }, s!"rejected {showState st'}")
      | (some out, st') => ({ s with st := st' }, s!"out={showFloatList (fromChannels n c l out)} {showState st'}")
    | _, _, _, _ => (s, "bad-op")
  -- drop <p> <training> <xs> <us>
  | ["drop", p, tr, xs, us] =>
    match parseFloat? p, parseBool? tr, parseFloatList? xs, parseFloatList? us with
    | some p, some tr, some xs, some us => (s, showFloatList (dropout p tr xs us))
    | _, _, _, _ => (s, "bad-op")
  | ["dropbw", p, gs, us] =>
    match parseFloat? p, parseFloatList? gs, parseFloatList? us with
    | some p, some gs, some us => (s, showFloatList (dropoutBackward p gs us))
    | _, _, _ => (s, "bad-op")
  | _ => (s, "bad-op")

end Synap.Drv.Layers
