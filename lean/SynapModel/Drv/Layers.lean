import SynapModel.Proto
import SynapModel.Layers
import SynapModel.Modules
import SynapModel.Drv.Optim
/-! driver commands for BatchNorm / Dropout histories (C13), scalar type `Float` -/
namespace Synap.Drv.Layers
open Synap.Proto Synap.Layers
open Synap.Modules (World Val newMod setAttr regMod setTraining fuelOf sequential)

instance : NatCast Float := ⟨Float.ofNat⟩

structure St where
  cfg : BNCfg Float := ⟨none, 0.0, true⟩
  st : BNState Float := ⟨[], [], none, none, 0, true⟩
  /-- the module tree the layer lives in (C13 histories that interleave mode switches with attaching / detaching): node 0 is the
      layer itself; `train()` / `eval()` on any node reach the layer through the registrations that exist AT THAT CALL
      (`Synap.Modules.setTraining`), attaching / detaching (`setAttr`, `regMod`, container constructors) never changes a mode -/
  tree : World := World.empty

/-- split row-major data of shape (N, C, L) into per-channel lists, order (n, l) -/
def toChannels (n c l : Nat) (d : List Float) : List (List Float) :=
  (List.range c).map (fun k =>
    (List.range n).flatMap (fun i => (List.range l).map (fun j => d.getD ((i * c + k) * l + j) 0.0)))

def fromChannels (n c l : Nat) (ch : List (List Float)) : List Float :=
  (List.range n).flatMap (fun i => (List.range c).flatMap (fun k =>
    (List.range l).map (fun j => (ch.getD k []).getD (i * l + j) 0.0)))

/-- the layer's mode is the flag of node 0 of the tree -/
def sync (s : St) (w : World) : St :=
  { s with tree := w, st := { s.st with training := (w.mods[0]?.map (·.training)).getD s.st.training } }

def bitsEq (a b : List Float) : Bool := a.map (·.toBits) == b.map (·.toBits)
/-- buffers, counter and mode are the same (bit for bit) -/
def kept (a b : BNState Float) : Bool := bitsEq a.rm b.rm && bitsEq a.rv b.rv && a.nbt == b.nbt && a.training == b.training

def parseTVal? (v : String) : Option Val :=
  if v = "none" || v = "other" then some .other
  else if v.startsWith "m" then ((v.drop 1).toString.toNat?).map .mod else none

def showState (s : BNState Float) : String :=
  s!"rm={showFloatList s.rm} rv={showFloatList s.rv} nbt={s.nbt} training={showBool s.training}"

def run (s : St) (toks : List String) : St × String :=
  match toks with
  -- new <C> <momentum|-> <eps> <affine> <track>
  | ["new", c, mo, eps, af, tr] =>
    match parseNat? c, parseOpt? parseFloat? mo, parseFloat? eps, parseBool? af, parseBool? tr with
    | some c, some mo, some eps, some af, some tr =>
      let cfg : BNCfg Float := ⟨mo, eps, tr⟩
      ({ cfg := cfg, st := bnInit cfg c af }, "ok")
    | _, _, _, _, _ => (s, "bad-op")
  -- what exists after construction
  | ["attrs"] =>
    let o := bnOwns s.cfg s.st
    (s, s!"weight={showBool o.weight} bias={showBool o.bias} running_mean={showBool o.runningMean} running_var={showBool o.runningVar} nbt={s.st.nbt} params={o.params}")
  | ["setstats", rm, rv] =>
    match parseFloatList? rm, parseFloatList? rv with
    | some rm, some rv => ({ s with st := { s.st with rm := rm, rv := rv } }, "ok")
    | _, _ => (s, "bad-op")
  | ["setaffine", g, b] =>
    match parseFloatList? g, parseFloatList? b with
    | some g, some b => ({ s with st := { s.st with gamma := some g, beta := some b } }, "ok")
    | _, _ => (s, "bad-op")
  | ["train"] => ({ s with st := { s.st with training := true } }, "ok")
  | ["eval"] => ({ s with st := { s.st with training := false } }, "ok")
  | ["state"] => (s, showState s.st)
  -- fwd <N> <C> <L> <data>
  | ["fwd", n, c, l, d] =>
    match parseNat? n, parseNat? c, parseNat? l, parseFloatList? d with
    | some n, some c, some l, some d =>
      match bnForward s.cfg s.st (toChannels n c l d) with
      | (none, st') => ({ s with st := st' }, s!"rejected kept={showBool (kept s.st st')} {showState st'}")
      | (some out, st') => ({ s with st := st' }, s!"out={showFloatList (fromChannels n c l out)} kept={showBool (kept s.st st')} {showState st'}")
    | _, _, _, _ => (s, "bad-op")
  -- a backward pass through any earlier output of the layer: it writes gradients of the input and of the affine parameters; the
  -- layer's buffers, counter and mode are not among the things it touches (in either mode)
  | ["bwd"] => (s, s!"kept=1 {showState s.st}")
  -- the module tree around the layer
  | ["tree"] => (sync s ⟨[⟨[], [], s.st.training⟩], []⟩, "m0")
  | ["tnew", kids] =>
    match parseNatList? kids with
    | some kids => let (w, m) := sequential s.tree kids; (sync s w, s!"m{m}")
    | none => (s, "bad-op")
  | ["tset", m, name, v] =>
    match parseNat? m, parseTVal? v with
    | some m, some v => (sync s (setAttr s.tree m name v), "ok")
    | _, _ => (s, "bad-op")
  | ["treg", m, name, k] =>
    match parseNat? m, parseNat? k with
    | some m, some k => (sync s (regMod s.tree m name k), "ok")
    | _, _ => (s, "bad-op")
  | ["tmode", m, v] =>
    match parseNat? m, parseBool? v with
    | some m, some v => (sync s (setTraining v (fuelOf s.tree) s.tree m), "ok")
    | _, _ => (s, "bad-op")
  | ["tflags"] => (s, showList (fun M => showBool M.training) s.tree.mods)
  -- Dropout as node 0 of the tree: the mode is the layer's flag
  | ["tdrop", p, xs, us] =>
    match parseFloat? p, parseFloatList? xs, parseFloatList? us with
    | some p, some xs, some us => (s, s!"training={showBool s.st.training} y={showFloatList (dropout p s.st.training xs us)}")
    | _, _, _ => (s, "bad-op")
  | ["tdropbw", p, gs, us] =>
    match parseFloat? p, parseFloatList? gs, parseFloatList? us with
    | some p, some gs, some us => (s, s!"g={showFloatList (if s.st.training then dropoutBackward p gs us else gs)}")
    | _, _, _ => (s, "bad-op")
  -- drop <p> <training> <xs> <us>
  | ["drop", p, tr, xs, us] =>
    match parseFloat? p, parseBool? tr, parseFloatList? xs, parseFloatList? us with
    | some p, some tr, some xs, some us => (s, showFloatList (dropout p tr xs us))
    | _, _, _, _ => (s, "bad-op")
  | ["dropbw", p, gs, us] =>
    match parseFloat? p, parseFloatList? gs, parseFloatList? us with
    | some p, some gs, some us => (s, showFloatList (dropoutBackward p gs us))
    | _, _, _ => (s, "bad-op")
  | _ => (s, "bad-op")

end Synap.Drv.Layers
