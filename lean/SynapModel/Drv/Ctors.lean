import SynapModel.Proto
import SynapModel.Ctors
/-! driver command `t mk <kind> <spelling> <A> <B> <dtype> <requires_grad>` : one constructor CALL (SynapModel/Ctors.lean).

`<spelling>` tells the harness how to write the call in Python (positional / keyword / varargs / tuple / list, Python int or
float); the model reads the VALUES.  Numbers travel as `i<int>` (a Python int) or `f<bits>` (a Python float).
Answer: `t<k>` for a determined result (then `t val / dtype / flags k` apply), `r <shape> <dtype> rg=<0|1>` for a random one
(nothing is registered), `rejected` when the call raises. -/
namespace Synap.Drv.Ctors
open Synap Synap.Proto Synap.Api Synap.Ctors

def parseNum? (s : String) : Option Float :=
  if s.startsWith "i" then ((s.drop 1).toString.toInt?).map Float.ofInt
  else if s.startsWith "f" then parseFloat? (s.drop 1).toString
  else none

def parseDT? : String → Option DType
  | "f32" => some .f32 | "f64" => some .f64 | "i8" => some .i8 | "i32" => some .i32
  | "i64" => some .i64 | "bool" => some .bool | _ => none

def showDT : DType → String
  | .f32 => "f32" | .f64 => "f64" | .i8 => "i8" | .i32 => "i32" | .i64 => "i64" | .bool => "bool"

def parseOptDT? (s : String) : Option (Opt DType) :=
  if s = "-" then some .omitted else if s = "none" then some .none else (parseDT? s).map .given

def parseOptBool? (s : String) : Option (Opt Bool) :=
  if s = "-" then some .omitted else if s = "none" then some .none else (parseBool? s).map .given

def shapeArgs? (form : String) (dims : List Int) : Option ShapeArgs :=
  (natDims? dims).bind (fun d =>
    if form.startsWith "v" then some (.varargs d) else if form.startsWith "t" then some (.tuple d)
    else if form.startsWith "l" then some (.list d) else none)

/-- `none`: malformed line; `some none`: the call raises before anything is built (e.g. a negative extent) -/
def parseCall? (kind sp a b : String) : Option (Option Call) :=
  match kind with
  | "zeros" | "ones" => (parseIntList? a).map (fun d => (shapeArgs? sp d).map (.full (if kind = "ones" then 1.0 else 0.0)))
  | "empty" | "rand" | "randn" =>
    let k : RandomKind := if kind = "empty" then .empty else if kind = "rand" then .rand else .randn
    (parseIntList? a).map (fun d => (shapeArgs? sp d).map (.random k))
  | "eye" => a.toInt?.map (fun n => some (.eye n))
  | "arange" => (parseList? parseNum? a).map (fun xs => some (.arange xs))
  | "normal" =>
    match parseIntList? a, parseList? parseNum? b with
    | some d, some [loc, scale] => some (some (.normal loc scale d))
    | _, _ => none
  | "randint" =>
    match parseIntList? a, parseIntList? b with
    | some d, some [lo, hi] => some (some (.randint lo hi d))
    | _, _ => none
  | "like0" | "like1" => (parseNat? a).map (fun i => some (.like i (if kind = "like1" then 1.0 else 0.0)))
  | "data" =>
    -- spelling `<entry>:<pykind>`: entry `f` = synapgrad.tensor(...), `T` = Tensor(...); arrays and NumPy scalars carry a dtype
    match sp.splitOn ":", parseNatList? a, parseFloatList? b with
    | entry :: pk :: _, some sh, some v =>
      if v.length ≠ Shape.size sh then none else
      let own : Option DType :=
        if pk.endsWith "f64" then some .f64 else if pk.endsWith "f32" then some .f32
        else if pk.endsWith "i64" then some .i64 else if pk.endsWith "i32" then some .i32 else none
      some (some (.data (entry = "f") own ⟨sh, v⟩))
    | _, _, _ => none
  | _ => none

def run (st : TState Float) (toks : List String) : TState Float × String :=
  match toks with
  | [kind, sp, a, b, dt, rg] =>
    match parseCall? kind sp a b, parseOptDT? dt, parseOptBool? rg with
    | some c?, some dt, some rg =>
      match c?.bind (fun c => call st c dt rg) with
      | some (st', k, m) =>
        if m.determined then (st', s!"t{k}")
        else (st, s!"r {showNatList m.value.shape} {showDT m.dtype} rg={showBool (rg.get false && st.modes.grad)}")
      | none => (st, "rejected")
    | _, _, _ => (st, "bad-op")
  | _ => (st, "bad-op")

end Synap.Drv.Ctors
