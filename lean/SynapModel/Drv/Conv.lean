import SynapModel.Proto
import SynapModel.ConvTools
import SynapModel.Drv.Tensor
/-! driver commands for conv_tools.py (C16) -/
namespace Synap.Drv.Conv
open Synap Synap.Proto Synap.ConvTools Synap.Drv.Tensor

def parseGeom? (sh k s p d : String) : Option Geom :=
  match parseNatList? sh, parsePair? k, parsePair? s, parsePair? p, parsePair? d with
  | some [n, c, h, w], some k, some s, some p, some d => some ⟨n, c, h, w, k, s, p, d⟩
  | _, _, _, _, _ => none

def run (toks : List String) : String :=
  match toks with
  -- im2col <variant> <N,C,H,W> <k> <s> <p> <d> <pad> <asUnfold> <data>
  | ["im2col", variant, sh, k, s, p, d, pad, unf, data] =>
    match parseGeom? sh k s p d, parseFloat? pad, parseBool? unf, parseArr? sh data with
    | some g, some pad, some unf, some x =>
      let r := match variant with
        | "idx" => im2colIdx g x pad | "loop" => im2colLoop g x pad | "view" => im2colView g x pad
        | "spec" => im2colSpec g x pad | _ => none
      match r with
      | none => "rejected"
      | some cols => showArr (if unf then cols else toMatrix cols)
    | _, _, _, _ => "bad-op"
  -- col2im <variant> <N,C,H,W> <k> <s> <p> <d> <fold 0/1> <colsShape> <data>
  | ["col2im", variant, sh, k, s, p, d, fold, csh, data] =>
    match parseGeom? sh k s p d, parseBool? fold, parseArr? csh data with
    | some g, some fold, some cols =>
      let cols3 := if fold then cols else fromMatrix g.n cols
      match g.out with
      | none => "rejected"
      | some (lh, lw) =>
        if cols3.shape != [g.n, g.rows, lh * lw] then "rejected" else
        let r := match variant with
          | "idx" => col2imIdx g cols3 | "loop" => col2imLoop g cols3 | "view" => col2imView g cols3
          | "spec" => col2imSpec g cols3 | _ => none
        match r with | none => "rejected" | some y => showArr y
    | _, _, _ => "bad-op"
  | ["extract", sh, k, s, p, d, pad, data] =>
    match parseGeom? sh k s p d, parseFloat? pad, parseArr? sh data with
    | some g, some pad, some x => match extractWindows g x pad with | some w => showArr w | none => "rejected"
    | _, _, _ => "bad-op"
  | ["place", sh, k, s, p, d, wsh, data] =>
    match parseGeom? sh k s p d, parseArr? wsh data with
    | some g, some w => match placeWindows g w with | some y => showArr y | none => "rejected"
    | _, _ => "bad-op"
  | _ => "bad-op"

end Synap.Drv.Conv
