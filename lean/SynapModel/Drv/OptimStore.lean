import SynapModel.Proto
import SynapModel.OptimStore
import SynapModel.Drv.Optim
/-! driver commands for optimizers.py over the store of array buffers (C08, family `store`),
    scalar type `Float` (the `Float` instances are the ones of `Synap.Drv.Optim`) -/
namespace Synap.Drv.OptimStore
open Synap.Proto
open Synap.Optim (SGDCfg AdamCfg)
open Synap.OptimStore (Store Ev BufId)

inductive St where
  | none
  | sgd (c : SGDCfg Float) (s : Store Float)
  | adam (c : AdamCfg Float) (s : Store Float)

/-- arrays separated by `;`, each a comma separated list of float bit patterns; `_` alone = no array -/
def parseArrays? (s : String) : Option (List (List Float)) :=
  if s = "_" then some [] else (s.splitOn ";").mapM parseFloatList?

def ev (st : St) (e : Ev Float) : St :=
  match st with
  | .none => .none
  | .sgd c s => .sgd c (Synap.OptimStore.sgdEv c s e)
  | .adam c s => .adam c (Synap.OptimStore.adamEv c s e)

def store? : St → Option (Store Float)
  | .none => Option.none
  | .sgd _ s => some s
  | .adam _ s => some s

/-- arrays joined by `;`, `-` for a place without array -/
def showBufs (h : Synap.OptimStore.Heap Float) (l : List (Option BufId)) : String :=
  if l.isEmpty then "_"
  else ";".intercalate (l.map (showOpt (fun b => showFloatList (Synap.OptimStore.rdBuf h b))))

def showAlias (s : Store Float) : String :=
  ",".intercalate ((Synap.OptimStore.aliasPattern s).map (showOpt toString)) ++ "|" ++
  ",".intercalate ((Synap.OptimStore.dataKept s).map showBool)

def query (st : St) (f : Store Float → String) : St × String :=
  match store? st with
  | some s => (st, f s)
  | Option.none => (st, "bad-op")

def run (st : St) (toks : List String) : St × String :=
  match toks with
  -- new sgd lr momentum dampening wd nesterov maximize arrays rgs
  | ["new", "sgd", lr, mo, da, wd, ne, mx, arrs, rg] =>
    match parseFloat? lr, parseFloat? mo, parseFloat? da, parseFloat? wd, parseBool? ne, parseBool? mx,
          parseArrays? arrs, parseList? parseBool? rg with
    | some lr, some mo, some da, some wd, some ne, some mx, some arrs, some rg =>
      if arrs.isEmpty then (st, "rejected")
      else if ne && (mo <= 0.0 || da != 0.0) then (st, "rejected")
      else if arrs.length != rg.length then (st, "bad-op")
      else
        let c : SGDCfg Float := ⟨lr, mo, da, wd, wd != 0.0, mo != 0.0, ne, mx⟩
        (.sgd c (Synap.OptimStore.mk arrs rg), "ok")
    | _, _, _, _, _, _, _, _ => (st, "bad-op")
  -- new adam|adamw lr b1 b2 eps wd maximize arrays rgs
  | ["new", kind, lr, b1, b2, eps, wd, mx, arrs, rg] =>
    if kind != "adam" && kind != "adamw" then (st, "bad-op") else
    match parseFloat? lr, parseFloat? b1, parseFloat? b2, parseFloat? eps, parseFloat? wd, parseBool? mx,
          parseArrays? arrs, parseList? parseBool? rg with
    | some lr, some b1, some b2, some eps, some wd, some mx, some arrs, some rg =>
      if arrs.isEmpty then (st, "rejected")
      else if arrs.length != rg.length then (st, "bad-op")
      else
        let c : AdamCfg Float := ⟨lr, b1, b2, eps, wd, wd != 0.0, mx, kind == "adamw"⟩
        (.adam c (Synap.OptimStore.mk arrs rg), "ok")
    | _, _, _, _, _, _, _, _ => (st, "bad-op")
  | ["ev", "bw", i, g] =>
    match parseNat? i, parseFloatList? g with
    | some i, some g => (ev st (.backward i g), "ok")
    | _, _ => (st, "bad-op")
  | ["ev", "bwroot", i, g] =>
    match parseNat? i, parseFloatList? g with
    | some i, some g => (ev st (.backwardRoot i g), "ok")
    | _, _ => (st, "bad-op")
  | ["ev", "zero"] => (ev st .zeroGrad, "ok")
  | ["ev", "step"] => (ev st .step, "ok")
  | ["ev", "rg", i, b] =>
    match parseNat? i, parseBool? b with
    | some i, some b => (ev st (.setRg i b), "ok")
    | _, _ => (st, "bad-op")
  | ["alias"] => query st showAlias
  | ["get"] => query st (fun s => showBufs s.heap (s.ps.map (fun p => some p.data)))
  | ["grads"] => query st (fun s => showBufs s.heap (s.ps.map (·.grad)))
  | ["bufs"] => query st (fun s => showBufs s.heap s.b1 ++ "|" ++ showBufs s.heap s.b2)
  | _ => (st, "bad-op")

end Synap.Drv.OptimStore
