import SynapModel.Proto
import SynapModel.Drv.Tensor
import SynapModel.Generated.KernelFormulas
import SynapModel.Generated.OptimSteps
import SynapModel.Generated.EngineLogic
import SynapModel.Drv.Optim
/-! driver commands for the generated formulas (`gf <kernel> <floats>`): the definitions `harness/formulas.py` wrote from
    `cpu_ops.py` on this run, executed at `Float`, so that the TRANSLATION is validated against the real kernels on every run;
    `gf names` lists what was translated -/
namespace Synap.Drv.Formulas
open Synap Synap.Proto

/-- `gs <Class> <scalars> <flags 0/1> <optional slots: - or bits> <counters>` -> `<scalars>|<optional slots>|<counters>` -/
def runStep : List String → String
  | [name, xs, fs, os, ns] =>
    match parseFloatList? xs, parseList? parseBool? fs, parseList? (parseOpt? parseFloat?) os, parseNatList? ns with
    | some x, some f, some o, some n =>
      match Gen.runStepFloat name x f o n with
      | none => "bad-op"
      | some (rx, ro, rn) => showFloatList rx ++ "|" ++ showList (showOpt showFloat) ro ++ "|" ++ showNatList rn
    | _, _, _, _ => "bad-op"
  | _ => "bad-op"

/-- `ge <condition> <atoms 0/1 in signature order>` -> 0/1 : a generated condition of `Generated/EngineLogic.lean` on one row of its truth table;
    `ge skeleton traversal|sweep` -> the statement skeleton -/
def runCond : List String → String
  | ["skeleton", "traversal"] => " ; ".intercalate Gen.Engine.traversalSkeleton
  | ["skeleton", "sweep"] => " ; ".intercalate Gen.Engine.sweepSkeleton
  | [name, xs] =>
    match parseList? parseBool? xs with
    | none => "bad-op"
    | some v => match Gen.Engine.evalCond name v with | none => "bad-op" | some b => showBool b
  | _ => "bad-op"

def run : List String → String
  | ["names"] => showList id Gen.names
  | [name, xs] =>
    match parseFloatList? xs with
    | none => "bad-op"
    | some v =>
      match Gen.runFloat name v with
      | none => "bad-op"
      | some r => showNatList [r.length] ++ "|" ++ showFloatList r
  | _ => "bad-op"

end Synap.Drv.Formulas
