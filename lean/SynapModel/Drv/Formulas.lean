import SynapModel.Proto
import SynapModel.Drv.Tensor
import SynapModel.Generated.KernelFormulas
/-! driver commands for the generated formulas (`gf <kernel> <floats>`): the definitions `harness/formulas.py` wrote from
    `cpu_ops.py` on this run, executed at `Float`, so that the TRANSLATION is validated against the real kernels on every run;
    `gf names` lists what was translated -/
namespace Synap.Drv.Formulas
open Synap Synap.Proto

def run : List String → String
  | ["names"] => showList id Gen.names
  | [name, xs] =>
    match parseFloatList? xs with
    | none => "bad-op"
    | some v =>
      match Gen.runFloat name v with
      | none => "bad-op"
      | some r => showNatList [r.length] ++ "|" ++ showFloatList r
  | _ => "bad-op"


end Synap.Drv.Formulas
