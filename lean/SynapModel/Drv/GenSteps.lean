import SynapModel.Proto
import SynapModel.Drv.Tensor
import SynapModel.Drv.Optim
import SynapModel.Generated.OptimSteps
/-! driver command for the generated optimizer steps (`gs …`), executed at `Float` -/
namespace Synap.Drv.GenSteps
open Synap Synap.Proto

/-- `gs <Class> <scalars> <flags 0/1> <optional slots: - or bits> <counters>` -> `<scalars>|<optional slots>|<counters>` -/
def runStep : List String → String
  | [name, xs, fs, os, ns] =>
    match parseFloatList? xs, parseList? parseBool? fs, parseList? (parseOpt? parseFloat?) os, parseNatList? ns with
    | some x, some f, some o, some n =>
      match Gen.runStepFloat name x f o n with
      | none => "bad-op"
      | some (rx, ro, rn) => showFloatList rx ++ "|" ++ showList (showOpt showFloat) ro ++ "|" ++ showNatList rn
    | _, _, _, _ => "bad-op"
  | _ => "bad-op"

end Synap.Drv.GenSteps
