import SynapModel.Proto
import SynapModel.Rng
/-! driver commands for the draw signatures (C19) -/
namespace Synap.Drv.Rng
open Synap.Proto Synap.Rng

def showDraws (d : List (String × Nat)) : String :=
  if d.isEmpty then "_" else ",".intercalate (d.map (fun (f, n) => s!"{f}:{n}"))

def run (toks : List String) : String :=
  match toks with
  | [k, sh] =>
    match parseNatList? sh with
    | some sh =>
      if k = "rand" then showDraws (draws (.rand sh)) else if k = "randn" then showDraws (draws (.randn sh))
      else if k = "normal" then showDraws (draws (.normal sh)) else if k = "randint" then showDraws (draws (.randint sh))
      else if k = "init_uniform" then showDraws (draws (.initUniform sh)) else if k = "init_normal" then showDraws (draws (.initNormal sh))
      else if k = "init_const" then showDraws (draws (.initConst sh)) else "bad-op"
    | none => "bad-op"
  | ["linear", i, o, b] => match parseNat? i, parseNat? o, parseBool? b with
    | some i, some o, some b => showDraws (draws (.linear i o b)) | _, _, _ => "bad-op"
  | ["conv1d", ci, co, k, b] => match parseNat? ci, parseNat? co, parseNat? k, parseBool? b with
    | some ci, some co, some k, some b => showDraws (draws (.conv1d ci co k b)) | _, _, _, _ => "bad-op"
  | ["conv2d", ci, co, kh, kw, b] => match parseNat? ci, parseNat? co, parseNat? kh, parseNat? kw, parseBool? b with
    | some ci, some co, some kh, some kw, some b => showDraws (draws (.conv2d ci co kh kw b)) | _, _, _, _, _ => "bad-op"
  | ["dropout", n, t] => match parseNat? n, parseBool? t with
    | some n, some t => showDraws (draws (.dropout n t)) | _, _ => "bad-op"
  | ["split", n, s] => match parseNat? n, parseBool? s with
    | some n, some s => showDraws (draws (.split n s)) | _, _ => "bad-op"
  | _ => "bad-op"

end Synap.Drv.Rng
