import SynapModel.Proto
import SynapModel.Ops
import SynapModel.Drv.Layers
/-! driver commands for tensor programs (engine, ops), scalar type `Float` -/
namespace Synap.Drv.Tensor
open Synap Synap.Proto Synap.Api Synap.Ops Synap.Np Synap.Engine

instance : Transc Float := ⟨Float.exp, Float.log, Float.sqrt, Float.tanh, Float.pow⟩

structure St where
  ts : TState Float := {}
  ctxs : List Ctx := []

def showArr (x : NDArray Float) : String := showNatList x.shape ++ "|" ++ showFloatList x.data

def parseArr? (sh d : String) : Option (NDArray Float) := do
  let s ← parseNatList? sh
  let v ← parseFloatList? d
  if v.length = Shape.size s then some ⟨s, v⟩ else none

def parseDType? : String → Option DType
  | "f32" => some .f32 | "f64" => some .f64 | "i8" => some .i8 | "i32" => some .i32
  | "i64" => some .i64 | "bool" => some .bool | _ => none

def parseAxes? (s : String) : Option Axes :=
  if s = "all" then some .all
  else if s.startsWith "i:" then ((s.drop 2).toString.toInt?).map .one
  else if s.startsWith "t:" then (parseIntList? (s.drop 2).toString).map .many
  else none

def parseOptInt? (s : String) : Option (Option Int) := if s = "~" then some none else s.toInt?.map some

def parseSel? (s : String) : Option Sel :=
  if s = "e" then some .ellipsis
  else if s = "n" then some .newaxis
  else if s.startsWith "i" then ((s.drop 1).toString.toInt?).map .int
  else if s.startsWith "l" then (parseList? parseInt? ((s.drop 1).toString.replace "." ",")).map .list
  else if s.startsWith "s" then
    match (s.drop 1).toString.splitOn ":" with
    | [a, b, c] => do
      let a ← parseOptInt? a
      let b ← parseOptInt? b
      let c ← c.toInt?
      pure (.slice a b c)
    | _ => none
  else none

def parsePair? (s : String) : Option (Nat × Nat) :=
  match parseNatList? s with
  | some [a, b] => some (a, b)
  | _ => none

def parseOp? (name : String) (args : List String) : Option (Op Float) :=
  match name, args with
  | "add", [] => some .add | "mul", [] => some .mul | "matmul", [] => some .matmul
  | "addmm", [] => some .addmm | "neg", [] => some .neg | "clone", [] => some .clone
  | "exp", [] => some .exp | "log", [] => some .log | "sqrt", [] => some .sqrt
  | "pow", [n] => (parseFloat? n).map .pow
  | "rpow", [n] => (parseFloat? n).map .rpow
  | "slice", [s] => ((if s = "_" then some [] else (s.splitOn ";").mapM parseSel?)).map .slice
  | "concat", [d] => d.toInt?.map .concat
  | "stack", [d] => d.toInt?.map .stack
  | "unbind", [d] => d.toInt?.map .unbind
  | "sum", [ax, k] => do pure (.sum (← parseAxes? ax) (← parseBool? k))
  | "mean", [ax, k] => do pure (.mean (← parseAxes? ax) (← parseBool? k))
  | "max", [d, k] => do pure (.max (← parseOptInt? d) (← parseBool? k))
  | "min", [d, k] => do pure (.min (← parseOptInt? d) (← parseBool? k))
  | "squeeze", [ax] => (parseAxes? ax).map .squeeze
  | "unsqueeze", [ax] => (parseIntList? ax).map .unsqueeze
  | "reshape", [t] => (parseIntList? t).map .reshape
  | "movedim", [s, d] => do pure (.movedim (← s.toInt?) (← d.toInt?))
  | "transpose", [a, b] => do pure (.transpose (← a.toInt?) (← b.toInt?))
  | "flatten", [a, b] => do pure (.flatten (← a.toInt?) (← b.toInt?))
  | "unfold_dim", [d, sz, st] => do pure (.unfoldDim (← d.toInt?) (← sz.toInt?) (← st.toInt?))
  | "relu", [] => some .relu | "selu", [] => some .selu | "tanh", [] => some .tanh | "sigmoid", [] => some .sigmoid
  | "leaky_relu", [sl] => (parseFloat? sl).map .leakyRelu
  | "softmax", [d] => d.toInt?.map .softmax
  | "log_softmax", [d] => d.toInt?.map .logSoftmax
  | "mse_loss", [] => some .mse | "binary_cross_entropy", [] => some .bce
  | "binary_cross_entropy_with_logits", [] => some .bceLogits
  | "nll_loss", [l] => (parseNatList? l).map .nll
  | "cross_entropy", [l] => (parseNatList? l).map .crossEntropy
  | "linear", [b] => (parseBool? b).map .linear
  | "conv1d", [b, s, p, d] => do pure (.conv1d (← parseBool? b) (← parseNat? s) (← parseNat? p) (← parseNat? d))
  | "conv2d", [b, s, p, d] => do pure (.conv2d (← parseBool? b) (← parsePair? s) (← parsePair? p) (← parsePair? d))
  | "max_pool1d", [k, s, p, d] => do pure (.maxPool1d (← parseNat? k) (← parseNat? s) (← parseNat? p) (← parseNat? d))
  | "avg_pool1d", [k, s, p, d] => do pure (.avgPool1d (← parseNat? k) (← parseNat? s) (← parseNat? p) (← parseNat? d))
  | "max_pool2d", [k, s, p, d] => do pure (.maxPool2d (← parsePair? k) (← parsePair? s) (← parsePair? p) (← parsePair? d))
  | "avg_pool2d", [k, s, p, d] => do pure (.avgPool2d (← parsePair? k) (← parsePair? s) (← parsePair? p) (← parsePair? d))
  | "unfold", [k, d, s, p, pad] => do pure (.unfold (← parsePair? k) (← parsePair? d) (← parsePair? s) (← parsePair? p) (← parseFloat? pad))
  | "fold", [o, k, d, s, p] => do pure (.fold (← parsePair? o) (← parsePair? k) (← parsePair? d) (← parsePair? s) (← parsePair? p))
  | "batch_norm", [hw, hb, tr, eps, rm, rv] => do
    let rm ← parseOpt? parseFloatList? rm
    let rv ← parseOpt? parseFloatList? rv
    let running := match rm, rv with | some a, some b => some (a, b) | _, _ => none
    pure (.batchNorm (← parseBool? hw) (← parseBool? hb) running (← parseBool? tr) (← parseFloat? eps) 0.0)
  | _, _ => none

def showEv : TrEv → String
  | .zero i => s!"z{i}" | .call i => s!"c{i}" | .release i => s!"r{i}"

def run (s : St) (toks : List String) : St × String :=
  match toks with
  | ["leaf", dt, sh, rg, d] =>
    match parseDType? dt, parseArr? sh d, parseBool? rg with
    | some dt, some v, some rg =>
      match newLeaf s.ts v dt rg with
      | some (ts, k) => ({ s with ts := ts }, s!"t{k}")
      | none => (s, "rejected")
    | _, _, _ => (s, "bad-op")
  | "op" :: name :: ins :: args =>
    match parseNatList? ins, parseOp? name args with
    | some ins, some op =>
      match Ops.apply s.ts op ins with
      | some (ts, ks) => ({ s with ts := ts }, ",".intercalate (ks.map (fun k => s!"t{k}")))
      | none => (s, "rejected")
    | _, _ => (s, "bad-op")
  | ["bw", r, sh, d] =>
    match parseNat? r, parseArr? sh d with
    | some r, some g =>
      match Api.backward s.ts r g with
      | (ts, some tr) => ({ s with ts := ts }, "ok trace=" ++ showList showEv tr)
      | (ts, none) => ({ s with ts := ts }, "rejected")
    | _, _ => (s, "bad-op")
  | ["zero", i] =>
    match (parseNat? i).bind (zeroGrad s.ts) with
    | some ts => ({ s with ts := ts }, "ok") | none => (s, "rejected")
  | ["retain", i] =>
    match (parseNat? i).bind (retainGrad s.ts) with
    | some ts => ({ s with ts := ts }, "ok") | none => (s, "rejected")
  | ["setrg", i, b] =>
    match parseNat? i, parseBool? b with
    | some i, some b =>
      match setRequiresGrad s.ts i b with
      | some ts => ({ s with ts := ts }, "ok") | none => (s, "rejected")
    | _, _ => (s, "bad-op")
  | ["ctx", "new", k] =>
    let kind := if k = "ng" then CtxKind.noGrad else CtxKind.retainGrads
    ({ s with ctxs := s.ctxs ++ [ctxNew s.ts.modes kind] }, s!"c{s.ctxs.length}")
  | ["ctx", "enter", k] =>
    match (parseNat? k).bind (fun k => s.ctxs[k]?.map (fun c => (k, c))) with
    | some (k, c) =>
      let (m, c') := ctxEnter s.ts.modes c
      ({ ts := { s.ts with modes := m }, ctxs := s.ctxs.zipIdx.map (fun (x, i) => if i = k then c' else x) }, "ok")
    | none => (s, "bad-op")
  -- exit by exception runs the same `__exit__`
  | ["ctx", "exitexc", k] =>
    match (parseNat? k).bind (fun k => s.ctxs[k]?) with
    | some c => ({ s with ts := { s.ts with modes := ctxExit s.ts.modes c } }, "ok")
    | none => (s, "bad-op")
  | ["ctx", "exit", k] =>
    match (parseNat? k).bind (fun k => s.ctxs[k]?) with
    | some c => ({ s with ts := { s.ts with modes := ctxExit s.ts.modes c } }, "ok")
    | none => (s, "bad-op")
  | ["modes"] => (s, showBool s.ts.modes.grad ++ showBool s.ts.modes.retain)
  | ["grad", i] =>
    match (parseNat? i).bind (fun i => s.ts.g[i]?) with
    | some n => (s, match n.grad with | some g => showArr g | none => "-")
    | none => (s, "bad-op")
  | ["val", i] =>
    match (parseNat? i).bind (fun i => s.ts.vals[i]?) with
    | some v => (s, showArr v) | none => (s, "bad-op")
  | ["flags", i] =>
    match (parseNat? i).bind (fun i => s.ts.g[i]?) with
    | some n => (s, s!"rg={showBool n.reqGrad} leaf={showBool n.isLeaf} fn={showBool n.back.isSome} grad={showBool n.grad.isSome} children={n.children.length}")
    | none => (s, "bad-op")
  | _ => (s, "bad-op")

end Synap.Drv.Tensor
