import SynapModel.Proto
import SynapModel.Ops
import SynapModel.Drv.Layers
import SynapModel.Drv.Ctors
/-! driver commands for tensor programs (engine, ops), scalar type `Float` -/
namespace Synap.Drv.Tensor
open Synap Synap.Proto Synap.Api Synap.Ops Synap.Np Synap.Engine

instance : Transc Float := ⟨Float.exp, Float.log, Float.sqrt, Float.tanh, Float.pow⟩

instance : IntCast Float := ⟨Float.ofInt⟩

structure St where
  ts : TState Float := {}
  ctxs : List Ctx := []
  iters : List (Nat × Nat) := []      -- (tensor, next position) of every live iterator

def showArr (x : NDArray Float) : String := showNatList x.shape ++ "|" ++ showFloatList x.data

def parseArr? (sh d : String) : Option (NDArray Float) := do
  let s ← parseNatList? sh
  let v ← parseFloatList? d
  if v.length = Shape.size s then some ⟨s, v⟩ else none

def parseDType? : String → Option DType
  | "f32" => some .f32 | "f64" => some .f64 | "i8" => some .i8 | "i32" => some .i32
  | "i64" => some .i64 | "bool" => some .bool | _ => none

def parseAxes? (s : String) : Option Axes :=
  if s = "all" then some .all
  else if s.startsWith "i:" then ((s.drop 2).toString.toInt?).map .one
  else if s.startsWith "t:" then (parseIntList? (s.drop 2).toString).map .many
  else none

def parseOptInt? (s : String) : Option (Option Int) := if s = "~" then some none else s.toInt?.map some

def parseSel? (s : String) : Option Sel :=
  if s = "e" then some .ellipsis
  else if s = "n" then some .newaxis
  else if s.startsWith "i" then ((s.drop 1).toString.toInt?).map .int
  else if s.startsWith "l" then (parseList? parseInt? ((s.drop 1).toString.replace "." ",")).map .list
  else if s.startsWith "s" then
    match (s.drop 1).toString.splitOn ":" with
    | [a, b, c] => do
      let a ← parseOptInt? a
      let b ← parseOptInt? b
      let c ← c.toInt?
      pure (.slice a b c)
    | _ => none
  else none

def parsePair? (s : String) : Option (Nat × Nat) :=
  match parseNatList? s with
  | some [a, b] => some (a, b)
  | _ => none

def parseOp? (name : String) (args : List String) : Option (Op Float) :=
  match name, args with
  | "add", [] => some .add | "mul", [] => some .mul | "matmul", [] => some .matmul
  | "addmm", [] => some .addmm | "neg", [] => some .neg | "clone", [] => some .clone
  | "exp", [] => some .exp | "log", [] => some .log | "sqrt", [] => some .sqrt
  | "pow", [n] => (parseFloat? n).map .pow
  | "rpow", [n] => (parseFloat? n).map .rpow
  | "slice", [s] => ((if s = "_" then some [] else (s.splitOn ";").mapM parseSel?)).map .slice
  | "concat", [d] => d.toInt?.map .concat
  | "stack", [d] => d.toInt?.map .stack
  | "unbind", [d] => d.toInt?.map .unbind
  | "sum", [ax, k] => do pure (.sum (← parseAxes? ax) (← parseBool? k))
  | "mean", [ax, k] => do pure (.mean (← parseAxes? ax) (← parseBool? k))
  | "max", [d, k] => do pure (.max (← parseOptInt? d) (← parseBool? k))
  | "min", [d, k] => do pure (.min (← parseOptInt? d) (← parseBool? k))
  | "squeeze", [ax] => (parseAxes? ax).map .squeeze
  | "unsqueeze", [ax] => (parseIntList? ax).map .unsqueeze
  | "reshape", [t] => (parseIntList? t).map .reshape
  | "movedim", [s, d] => do pure (.movedim (← s.toInt?) (← d.toInt?))
  | "transpose", [a, b] => do pure (.transpose (← a.toInt?) (← b.toInt?))
  | "flatten", [a, b] => do pure (.flatten (← a.toInt?) (← b.toInt?))
  | "unfold_dim", [d, sz, st] => do pure (.unfoldDim (← d.toInt?) (← sz.toInt?) (← st.toInt?))
  | "relu", [] => some .relu | "selu", [] => some .selu | "tanh", [] => some .tanh | "sigmoid", [] => some .sigmoid
  | "leaky_relu", [sl] => (parseFloat? sl).map .leakyRelu
  | "softmax", [d] => d.toInt?.map .softmax
  | "log_softmax", [d] => d.toInt?.map .logSoftmax
  | "mse_loss", [] => some .mse | "binary_cross_entropy", [] => some .bce
  | "binary_cross_entropy_with_logits", [] => some .bceLogits
  | "nll_loss", [l] => (parseNatList? l).map .nll
  | "cross_entropy", [l] => (parseNatList? l).map .crossEntropy
  | "linear", [b] => (parseBool? b).map .linear
  | "conv1d", [b, s, p, d] => do pure (.conv1d (← parseBool? b) (← parseNat? s) (← parseNat? p) (← parseNat? d))
  | "conv2d", [b, s, p, d] => do pure (.conv2d (← parseBool? b) (← parsePair? s) (← parsePair? p) (← parsePair? d))
  | "max_pool1d", [k, s, p, d] => do pure (.maxPool1d (← parseNat? k) (← parseNat? s) (← parseNat? p) (← parseNat? d))
  | "avg_pool1d", [k, s, p, d] => do pure (.avgPool1d (← parseNat? k) (← parseNat? s) (← parseNat? p) (← parseNat? d))
  | "max_pool2d", [k, s, p, d] => do pure (.maxPool2d (← parsePair? k) (← parsePair? s) (← parsePair? p) (← parsePair? d))
  | "avg_pool2d", [k, s, p, d] => do pure (.avgPool2d (← parsePair? k) (← parsePair? s) (← parsePair? p) (← parsePair? d))
  | "unfold", [k, d, s, p, pad] => do pure (.unfold (← parsePair? k) (← parsePair? d) (← parsePair? s) (← parsePair? p) (← parseFloat? pad))
  | "fold", [o, k, d, s, p] => do pure (.fold (← parsePair? o) (← parsePair? k) (← parsePair? d) (← parsePair? s) (← parsePair? p))
  | "batch_norm", [hw, hb, tr, eps, rm, rv] => do
    let rm ← parseOpt? parseFloatList? rm
    let rv ← parseOpt? parseFloatList? rv
    let running := match rm, rv with | some a, some b => some (a, b) | _, _ => none
    pure (.batchNorm (← parseBool? hw) (← parseBool? hb) running (← parseBool? tr) (← parseFloat? eps) 0.0)
  | _, _ => none

def showEv : TrEv → String
  | .zero i => s!"z{i}" | .call i => s!"c{i}" | .release i => s!"r{i}"

def run (s : St) (toks : List String) : St × String :=
  match toks with
  | ["leaf", dt, sh, rg, d] =>
    match parseDType? dt, parseArr? sh d, parseBool? rg with
    | some dt, some v, some rg =>
      match newLeaf s.ts v dt rg with
      | some (ts, k) => ({ s with ts := ts }, s!"t{k}")
      | none => (s, "rejected")
    | _, _, _ => (s, "bad-op")
  | "op" :: name :: ins :: args =>
    match parseNatList? ins, parseOp? name args with
    | some ins, some op =>
      match Ops.apply s.ts op ins with
      | some (ts, ks) => ({ s with ts := ts }, ",".intercalate (ks.map (fun k => s!"t{k}")))
      | none => (s, "rejected")
    | _, _ => (s, "bad-op")
  -- sop <kind> <a> t<b> | s<bits>
  | ["sop", kind, a, b] =>
    let k? : Option SOp := match kind with
      | "add" => some .addS | "mul" => some .mulS | "neg" => some .neg | "sub" => some (if b.startsWith "t" then .subT else .subS)
      | "rsub" => some .rsubS | "div" => some (if b.startsWith "t" then .divT else .divS) | "rdiv" => some .rdivS | _ => none
    let b? : Option (Nat ⊕ Float) :=
      if b.startsWith "t" then ((b.drop 1).toString.toNat?).map Sum.inl
      else if b.startsWith "s" then (parseFloat? (b.drop 1).toString).map Sum.inr else none
    match k?, parseNat? a, b? with
    | some k, some a, some b =>
      match applySOp s.ts k a b with
      | some (ts, r) => ({ s with ts := ts }, s!"t{r}")
      | none => (s, "rejected")
    | _, _, _ => (s, "bad-op")
  -- loss <name> <mean|sum|none> <pred> <target> [labels]  (nn.losses.Loss.__call__: forward, then the reduction)
  | "loss" :: name :: red :: a :: b :: rest =>
    match parseNat? a, parseNat? b, parseOp? name rest with
    | some a, some b, some op =>
      match Ops.apply s.ts op [a, b] with
      | some (ts, [l]) =>
        if red = "none" then ({ s with ts := ts }, s!"t{l}")
        else
          let rop : Op Float := if red = "sum" then .sum .all false else .mean .all false
          match Ops.apply ts rop [l] with
          | some (ts, [r]) => ({ s with ts := ts }, s!"t{r}")
          | _ => (s, "rejected")
      | _ => (s, "rejected")
    | _, _, _ => (s, "bad-op")
  | ["iter", "new", i] =>
    match (parseNat? i).bind (fun i => s.ts.vals[i]?.map (fun v => (i, v))) with
    | some (i, v) => if v.shape.length = 0 then (s, "rejected") else ({ s with iters := s.iters ++ [(i, 0)] }, s!"it{s.iters.length}")
    | none => (s, "bad-op")
  | ["iter", "next", k] =>
    match (parseNat? k).bind (fun k => s.iters[k]?.map (fun it => (k, it))) with
    | some (k, (i, pos)) =>
      match s.ts.vals[i]? with
      | some v =>
        if pos < v.shape.headD 0 then
          match Ops.apply s.ts (.slice [.int pos]) [i] with
          | some (ts, [r]) => ({ s with ts := ts, iters := s.iters.zipIdx.map (fun (x, j) => if j = k then (i, pos + 1) else x) }, s!"t{r}")
          | _ => (s, "rejected")
        else (s, "stop")
      | none => (s, "bad-op")
    | none => (s, "bad-op")
  -- ctor zeros|ones v|t|l dims ; ctor eye n ; ctor arange a b c ; ctor like i 0|1
  | ["ctor", kind, form, dims] =>
    match parseNatList? dims with
    | some d =>
      let args := if form = "v" then Api.ShapeArgs.varargs d else if form = "t" then .tuple d else .list d
      let v : Float := if kind = "ones" then 1.0 else 0.0
      if kind = "like" then
        match ctorLike s.ts (d.headD 0) (if form = "1" then 1.0 else 0.0) with
        | some (ts, k) => ({ s with ts := ts }, s!"t{k}") | none => (s, "rejected")
      else match ctorFull s.ts args v with
        | some (ts, k) => ({ s with ts := ts }, s!"t{k}") | none => (s, "rejected")
    | none => (s, "bad-op")
  -- mk <kind> <spelling> <A> <B> <dtype> <requires_grad> : a constructor CALL with every argument position (Drv/Ctors.lean)
  | "mk" :: rest =>
    let (ts, out) := Drv.Ctors.run s.ts rest
    ({ s with ts := ts }, out)
  | ["eye", n] =>
    match (parseNat? n).bind (ctorEye s.ts) with
    | some (ts, k) => ({ s with ts := ts }, s!"t{k}") | none => (s, "rejected")
  | ["arange", a, b, c] =>
    match a.toInt?, b.toInt?, c.toInt? with
    | some a, some b, some c =>
      match ctorArange s.ts a b c with
      | some (ts, k) => ({ s with ts := ts }, s!"t{k}") | none => (s, "rejected")
    | _, _, _ => (s, "bad-op")
  -- dtype of the gradient buffer: buffers are created by `zeros_like(data)` / `astype(self.dtype)` and only
  -- ever updated in place, so a present buffer has the tensor's dtype
  | ["gdtype", i] =>
    match (parseNat? i).bind (fun i => (s.ts.g[i]?).bind (fun n => s.ts.dtypes[i]?.map (fun dt => (n, dt)))) with
    | some (n, dt) => (s, if n.grad.isNone then "-" else match dt with | .f32 => "f32" | .f64 => "f64" | .i8 => "i8" | .i32 => "i32" | .i64 => "i64" | .bool => "bool")
    | none => (s, "bad-op")
  | ["dtype", i] =>
    match (parseNat? i).bind (fun i => s.ts.dtypes[i]?) with
    | some dt => (s, match dt with | .f32 => "f32" | .f64 => "f64" | .i8 => "i8" | .i32 => "i32" | .i64 => "i64" | .bool => "bool")
    | none => (s, "bad-op")
  | ["bw", r, sh, d, _gdt] =>       -- upstream gradient of another dtype: the root casts it to its own dtype
    match parseNat? r, parseArr? sh d with
    | some r, some g =>
      match Api.backward s.ts r g with
      | (ts, some tr) => ({ s with ts := ts }, "ok trace=" ++ showList showEv tr)
      | (ts, none) => ({ s with ts := ts }, "rejected")
    | _, _ => (s, "bad-op")
  | ["bw", r, sh, d] =>
    match parseNat? r, parseArr? sh d with
    | some r, some g =>
      match Api.backward s.ts r g with
      | (ts, some tr) => ({ s with ts := ts }, "ok trace=" ++ showList showEv tr)
      | (ts, none) => ({ s with ts := ts }, "rejected")
    | _, _ => (s, "bad-op")
  -- `t.grad = Tensor(array)` : the shape-checked setter
  | ["setgrad", i, sh, d] =>
    match parseNat? i, parseArr? sh d with
    | some i, some g =>
      match assignGrad s.ts i g with
      | some ts => ({ s with ts := ts }, "ok") | none => (s, "rejected")
    | _, _ => (s, "bad-op")
  -- tensors made from tensors without an op
  | ["detach", i] =>
    match (parseNat? i).bind (detach s.ts) with
    | some (ts, k) => ({ s with ts := ts }, s!"t{k}") | none => (s, "rejected")
  | ["fromdata", i, rg] =>
    match parseNat? i, parseBool? rg with
    | some i, some rg =>
      match fromData s.ts i rg with
      | some (ts, k) => ({ s with ts := ts }, s!"t{k}") | none => (s, "rejected")
    | _, _ => (s, "bad-op")
  | ["copy", i] =>
    match (parseNat? i).bind (copyTensor s.ts) with
    | some (ts, k) => ({ s with ts := ts }, s!"t{k}") | none => (s, "rejected")
  | ["gradt", i] =>
    match (parseNat? i).bind (gradTensor s.ts) with
    | some (some (ts, k)) =>       -- the tensor handed out is not kept: its flags are the answer
      match ts.g[k]? with
      | some n => (s, s!"rg={showBool n.reqGrad} leaf={showBool n.isLeaf} fn={showBool n.back.isSome} grad={showBool n.grad.isSome} children={n.children.length}")
      | none => (s, "bad-op")
    | some none => (s, "none")
    | none => (s, "rejected")
  | ["zero", i] =>
    match (parseNat? i).bind (zeroGrad s.ts) with
    | some ts => ({ s with ts := ts }, "ok") | none => (s, "rejected")
  | ["retain", i] =>
    match (parseNat? i).bind (retainGrad s.ts) with
    | some ts => ({ s with ts := ts }, "ok") | none => (s, "rejected")
  | ["setrg", i, b] =>
    match parseNat? i, parseBool? b with
    | some i, some b =>
      match setRequiresGrad s.ts i b with
      | some ts => ({ s with ts := ts }, "ok") | none => (s, "rejected")
    | _, _ => (s, "bad-op")
  | ["setrgs", b, is] =>
    match parseBool? b, parseNatList? is with
    | some b, some is =>
      let (ts, ok) := setRequiresGradAll s.ts is b
      ({ s with ts := ts }, if ok then "ok" else "rejected")
    | _, _ => (s, "bad-op")
  | ["ctx", "new", k] =>
    let kind := if k = "ng" then CtxKind.noGrad else CtxKind.retainGrads
    ({ s with ctxs := s.ctxs ++ [ctxNew s.ts.modes kind] }, s!"c{s.ctxs.length}")
  | ["ctx", "enter", k] =>
    match (parseNat? k).bind (fun k => s.ctxs[k]?.map (fun c => (k, c))) with
    | some (k, c) =>
      let (m, c') := ctxEnter s.ts.modes c
      ({ ts := { s.ts with modes := m }, ctxs := s.ctxs.zipIdx.map (fun (x, i) => if i = k then c' else x) }, "ok")
    | none => (s, "bad-op")
  -- exit by exception runs the same `__exit__`
  | ["ctx", "exitexc", k] =>
    match (parseNat? k).bind (fun k => s.ctxs[k]?) with
    | some c => ({ s with ts := { s.ts with modes := ctxExit s.ts.modes c } }, "ok")
    | none => (s, "bad-op")
  | ["ctx", "exit", k] =>
    match (parseNat? k).bind (fun k => s.ctxs[k]?) with
    | some c => ({ s with ts := { s.ts with modes := ctxExit s.ts.modes c } }, "ok")
    | none => (s, "bad-op")
  | ["modes"] => (s, showBool s.ts.modes.grad ++ showBool s.ts.modes.retain)
  | ["grad", i] =>
    match (parseNat? i).bind (fun i => s.ts.g[i]?) with
    | some n => (s, match n.grad with | some g => showArr g | none => "-")
    | none => (s, "bad-op")
  | ["val", i] =>
    match (parseNat? i).bind (fun i => s.ts.vals[i]?) with
    | some v => (s, showArr v) | none => (s, "bad-op")
  | ["flags", i] =>
    match (parseNat? i).bind (fun i => s.ts.g[i]?) with
    | some n => (s, s!"rg={showBool n.reqGrad} leaf={showBool n.isLeaf} fn={showBool n.back.isSome} grad={showBool n.grad.isSome} children={n.children.length}")
    | none => (s, "bad-op")
  | _ => (s, "bad-op")

end Synap.Drv.Tensor
