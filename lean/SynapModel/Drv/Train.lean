import SynapModel.Proto
import SynapModel.Train
/-! driver commands for train.py (C20) -/
namespace Synap.Drv.Train
open Synap.Proto Synap.Train

def showEv : Ev → String
  | .setTrain => "T" | .setEval => "E" | .cbTrain => "ct" | .cbVal => "cv"
  | .forward tr g => "f" ++ showBool tr ++ showBool g
  | .zeroGrad => "z" | .backward => "b" | .step => "s"
  | .noGradEnter => "n+" | .noGradExit => "n-"

def run (toks : List String) : String :=
  match toks with
  -- fit <epochs> <nTrain> <nVal|-> <cbT> <cbV> <evaluator> <tr0> <g0>
  | ["fit", e, nt, nv, ct, cv, ev, tr0, g0] =>
    match parseNat? e, parseNat? nt, parseOpt? parseNat? nv, parseBool? ct, parseBool? cv,
          parseBool? ev, parseBool? tr0, parseBool? g0 with
    | some e, some nt, some nv, some ct, some cv, some ev, some tr0, some g0 =>
      let c : Cfg := { epochs := e, nTrain := nt, nVal := nv, cbTrain := ct, cbVal := cv }
      match fit c tr0 g0 with
      | none => "rejected"
      | some s =>
        let keys := ",".intercalate ((historyKeys c ev).map (fun (k, n) => s!"{k}:{n}"))
        s!"trace={showList showEv s.trace} steps={countStep s.trace} training={showBool s.training} grad={showBool s.gradOn} keys={if keys.isEmpty then "_" else keys}"
    | _, _, _, _, _, _, _, _ => "bad-op"
  -- test <nTest> <tr0> <g0>
  | ["test", n, tr0, g0] =>
    match parseNat? n, parseBool? tr0, parseBool? g0 with
    | some n, some tr0, some g0 =>
      let s := test ⟨tr0, g0, []⟩ n
      s!"trace={showList showEv s.trace} steps={countStep s.trace} training={showBool s.training} grad={showBool s.gradOn}"
    | _, _, _ => "bad-op"
  -- acc <yTrue> <yPred>
  | ["acc", yt, yp] =>
    match parseNatList? yt, parseNatList? yp with
    | some yt, some yp => let (a, b) := accuracyCount yt yp; s!"{a}/{b}"
    | _, _ => "bad-op"
  -- argmax <row of ints>
  | ["argmax", r] =>
    match parseIntList? r with
    | some r => toString (argmax r)
    | none => "bad-op"
  | _ => "bad-op"

end Synap.Drv.Train
