import SynapModel.Proto
import SynapModel.Train
import SynapModel.TrainMetrics
/-! driver commands for train.py (C20) -/
namespace Synap.Drv.Train
open Synap.Proto Synap.Train

def showEv : Ev → String
  | .setTrain => "T" | .setEval => "E" | .cbTrain => "ct" | .cbVal => "cv"
  | .forward tr g => "f" ++ showBool tr ++ showBool g
  | .zeroGrad => "z" | .backward => "b" | .step => "s"
  | .noGradEnter => "n+" | .noGradExit => "n-"

def run (toks : List String) : String :=
  match toks with
  -- fit <epochs> <nTrain> <nVal|-> <cbT> <cbV> <evaluator> <tr0> <g0>
  | ["fit", e, nt, nv, ct, cv, ev, tr0, g0] =>
    match parseNat? e, parseNat? nt, parseOpt? parseNat? nv, parseBool? ct, parseBool? cv,
          parseBool? ev, parseBool? tr0, parseBool? g0 with
    | some e, some nt, some nv, some ct, some cv, some ev, some tr0, some g0 =>
      let c : Cfg := { epochs := e, nTrain := nt, nVal := nv, cbTrain := ct, cbVal := cv }
      match fit c tr0 g0 with
      | none => "rejected"
      | some s =>
        let keys := ",".intercalate ((historyKeys c ev).map (fun (k, n) => s!"{k}:{n}"))
        s!"trace={showList showEv s.trace} steps={countStep s.trace} training={showBool s.training} grad={showBool s.gradOn} keys={if keys.isEmpty then "_" else keys}"
    | _, _, _, _, _, _, _, _ => "bad-op"
  -- test <nTest> <tr0> <g0>
  | ["test", n, tr0, g0] =>
    match parseNat? n, parseBool? tr0, parseBool? g0 with
    | some n, some tr0, some g0 =>
      let s := test ⟨tr0, g0, []⟩ n
      s!"trace={showList showEv s.trace} steps={countStep s.trace} training={showBool s.training} grad={showBool s.gradOn}"
    | _, _, _ => "bad-op"
  -- acc <yTrue> <yPred>
  | ["acc", yt, yp] =>
    match parseNatList? yt, parseNatList? yp with
    | some yt, some yp => let (a, b) := accuracyCount yt yp; s!"{a}/{b}"
    | _, _ => "bad-op"
  -- argmax <row of ints>
  | ["argmax", r] =>
    match parseIntList? r with
    | some r => toString (argmax r)
    | none => "bad-op"
  | _ => "bad-op"

/-! ## values: the Evaluator state machine and the history of `fit` (`train ev …`, `train hist …`)

Rows are separated by `;`, entries by `,`, `_` is "no rows".  A rational travels as `num:den`.
Metric values are printed as `c/t` (accuracy: the two counts, never reduced; `0/0` is NumPy's nan),
`q<num>/<den>` (exact rational, reduced), `cb<int>` / `cbi<int>` (callback value, float / not a float). -/

structure St where
  cfg : Option EvCfg := none
  st : EvState := EvState.empty
  /-- the evaluator objects of a session other than the current one: `(slot, cfg, state)`; `cur` is the slot of `cfg` / `st`.
      A slot that was never filled holds no evaluator (`cfg = none`): a trainer compiled without one. -/
  cur : Nat := 0
  others : List (Nat × Option EvCfg × EvState) := []

def parseMode? : String → Option Mode
  | "binary" => some .binary
  | "multi-class" => some .multiClass
  | "categorical" => some .categorical
  | _ => none

def parseRows? (s : String) : Option (List (List Int)) :=
  if s = "_" then some [] else (s.splitOn ";").mapM parseIntList?

def parseSamples? (labels scores : String) : Option (List Sample) :=
  match parseRows? labels, parseRows? scores with
  | some ls, some ss => if ls.length = ss.length then some (List.zipWith (fun l s => ⟨l, s⟩) ls ss) else none
  | _, _ => none

def parseRat? (s : String) : Option Rat :=
  match s.splitOn ":" with
  | [n, d] => match parseInt? n, parseNat? d with
    | some n, some d => if d = 0 then none else some (mkRat n d)
    | _, _ => none
  | _ => none

/-- the callbacks the harness installs: `name:kind,…` with kinds
    `len` (number of samples), `wsum` (Σ 3·y_true + y_pred), `dis` (number of disagreements),
    `ilen` (number of samples, returned as a Python `int`) -/
def cbValue (kind : String) (yt yp : List Int) : Option MVal :=
  match kind with
  | "len" => some (.cb yt.length true)
  | "wsum" => some (.cb (List.zipWith (fun a b => 3 * a + b) yt yp).sum true)
  | "dis" => some (.cb ((List.zipWith (fun a b => if a = b then (0 : Int) else 1) yt yp).sum) true)
  | "ilen" => some (.cb yt.length false)
  | _ => none

def parseCb? (s : String) : Option (Option Callback) :=
  if s = "-" then some none else
  let parts := (s.splitOn ",").map (fun p => p.splitOn ":")
  if parts.all (fun p => match p with | [_, k] => (cbValue k [] []).isSome | _ => false) then
    some (some (fun yt yp => parts.filterMap (fun p => match p with
      | [n, k] => (cbValue k yt yp).map (fun v => (n, v))
      | _ => none)))
  else none

def showVal : MVal → String
  | .frac c t => s!"{c}/{t}"
  | .num q => s!"q{q.num}/{q.den}"
  | .cb v true => s!"cb{v}"
  | .cb v false => s!"cbi{v}"

def showMetrics (ms : List Metric) : String :=
  if ms.isEmpty then "_" else ",".intercalate (ms.map (fun (k, v) => s!"{k}={showVal v}"))

def showHist (h : Hist) : String :=
  if h.isEmpty then "_" else ",".intercalate (h.map (fun (k, vs) => s!"{k}={"|".intercalate (vs.map showVal)}"))

def parseCfg? (mode scale acc ecb scb : String) : Option (Option EvCfg) :=
  if mode = "-" then some none else
  match parseMode? mode, parseNat? scale, parseBool? acc, parseCb? ecb, parseCb? scb with
  | some m, some sc, some a, some e, some s => some (some { accuracy := a, mode := m, scale := sc, epochCb := e, stepCb := s })
  | _, _, _, _, _ => none

def parseBatch? (s : String) : Option LBatch :=
  match s.splitOn "@" with
  | [l, labels, scores] => match parseRat? l, parseSamples? labels scores with
    | some l, some ss => some ⟨l, ss⟩
    | _, _ => none
  | _ => none

def parseBatches? (s : String) : Option (List LBatch) :=
  if s = "" then some [] else (s.splitOn "+").mapM parseBatch?

def parseEpoch? (s : String) : Option EpochData :=
  match s.splitOn "|" with
  | [t, v] => match parseBatches? t, parseBatches? v with
    | some t, some v => some ⟨t, v⟩
    | _, _ => none
  | _ => none

def runS (w : St) (toks : List String) : St × String :=
  match toks with
  -- ev new <mode> <scale> <accuracy> <epoch callback|-> <step callback|->
  | ["ev", "new", mode, scale, acc, ecb, scb] =>
    match parseCfg? mode scale acc ecb scb with
    | some (some cfg) => ({ w with cfg := some cfg, st := EvState.empty }, "ok")
    | _ => (w, "bad-op")
  -- ev step <prefix|-> <label rows> <score rows>
  | ["ev", "step", pre, labels, scores] =>
    match w.cfg, parseSamples? labels scores with
    | some cfg, some b =>
      match evStep cfg w.st (if pre = "-" then none else some pre) b with
      | none => (w, "rejected")
      | some (st, ms) => ({ w with st := st }, s!"metrics={showMetrics ms} n={st.yTrue.length}")
    | _, _ => (w, "bad-op")
  -- ev compute <prefix|->
  | ["ev", "compute", pre] =>
    match w.cfg with
    | some cfg =>
      let (st, ms) := evCompute cfg w.st (if pre = "-" then none else some pre)
      ({ w with st := st }, s!"metrics={showMetrics ms} n={st.yTrue.length}")
    | none => (w, "bad-op")
  | ["ev", "reset"] => ({ w with st := evReset w.st }, "ok")
  -- ev sel <slot> : the evaluator object the following commands talk to (several evaluators / trainers in one session)
  | ["ev", "sel", k] =>
    match parseNat? k with
    | some k =>
      if k = w.cur then (w, "ok") else
      let saved := (w.cur, w.cfg, w.st) :: w.others.filter (fun e => e.1 != w.cur)
      match saved.find? (fun e => e.1 == k) with
      | some (_, cfg, st) => ({ cfg := cfg, st := st, cur := k, others := saved.filter (fun e => e.1 != k) }, "ok")
      | none => ({ cfg := none, st := EvState.empty, cur := k, others := saved }, "ok")
    | none => (w, "bad-op")
  -- sfit <hasVal> <epoch>* : one more `fit` call of a trainer compiled with the CURRENT evaluator object (none if the slot is empty);
  --   the history it returns and the state it leaves the evaluator in (a call that raises leaves the model's state alone: not modelled)
  | "sfit" :: hv :: eps =>
    match parseBool? hv, eps.mapM parseEpoch? with
    | some hv, some ds =>
      match Call.run w.cfg w.st (.fit hv ds) with
      | some (st, .hist h) => ({ w with st := st }, s!"hist={showHist h} n={st.yTrue.length}")
      | _ => (w, "rejected")
    | _, _ => (w, "bad-op")
  | ["ev", "state"] => (w, s!"ytrue={showIntList w.st.yTrue} ypred={showIntList w.st.yPred}")
  -- hist <mode|-> <scale> <accuracy> <epoch cb|-> <step cb|-> <hasVal> <y_true found> <y_pred found> <epoch>*
  --   epoch = <batch>+<batch>…|<batch>+… (training | validation), batch = <num:den>@<label rows>@<score rows>
  | "hist" :: mode :: scale :: acc :: ecb :: scb :: hv :: yt0 :: yp0 :: eps =>
    match parseCfg? mode scale acc ecb scb, parseBool? hv, parseIntList? yt0, parseIntList? yp0, eps.mapM parseEpoch? with
    | some ev, some hv, some yt0, some yp0, some ds =>
      match fitHist ev hv ⟨yt0, yp0⟩ ds with
      | none => (w, "rejected")
      | some (st, h) => (w, s!"hist={showHist h} n={st.yTrue.length}")
    | _, _, _, _, _ => (w, "bad-op")
  -- testret <batch>+<batch>… | _ (no batches), batch = <label rows>@<score rows>
  | ["testret", bs] =>
    match (if bs = "_" then some [] else (bs.splitOn "+").mapM (fun b => match b.splitOn "@" with
        | [l, s] => parseSamples? l s
        | _ => none)) with
    | some batches =>
      let (yp, yt) := testReturn batches
      let showRows := fun (rs : List (List Int)) => if rs.isEmpty then "_" else ";".intercalate (rs.map showIntList)
      (w, s!"n={yp.length} pred={showRows yp} true={showRows yt}")
    | none => (w, "bad-op")
  | _ => (w, run toks)

end Synap.Drv.Train
