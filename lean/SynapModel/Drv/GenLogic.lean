import SynapModel.Proto
import SynapModel.Generated.EngineLogic
/-! driver command for the generated decision logic of tensor.py (`ge …`) -/
namespace Synap.Drv.GenLogic
open Synap Synap.Proto

/-- `ge <condition> <atoms 0/1 in signature order>` -> 0/1 : a generated condition of `Generated/EngineLogic.lean` on one row of its truth table;
    `ge skeleton traversal|sweep` -> the statement skeleton -/
def runCond : List String → String
  | ["skeleton", "traversal"] => " ; ".intercalate Gen.Engine.traversalSkeleton
  | ["skeleton", "sweep"] => " ; ".intercalate Gen.Engine.sweepSkeleton
  | [name, xs] =>
    match parseList? parseBool? xs with
    | none => "bad-op"
    | some v => match Gen.Engine.evalCond name v with | none => "bad-op" | some b => showBool b
  | _ => "bad-op"

end Synap.Drv.GenLogic
