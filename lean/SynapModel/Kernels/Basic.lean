import SynapModel.Np
/-!
# cpu_ops.py, lines 8–284, and the argument handling of functional.py

`*_forward` / `*_backward` of every tensor op, in index-function form.  A `none` result means the
call raises.  Scalars are generic; transcendental functions come from `Transc`.
-/
namespace Synap

class Transc (α : Type) where
  exp : α → α
  log : α → α
  sqrt : α → α
  tanh : α → α
  /-- real power `x ** y` -/
  pow : α → α → α

namespace Kernels
open NDArray Np

variable {α : Type}

section Alg
variable [Zero α] [One α] [Add α] [Mul α] [Neg α]

/-! ### add / mul / matmul / addmm / neg -/
def addForward (a b : NDArray α) : Option (NDArray α) := bcast2 (· + ·) a b
def addBackward (g : NDArray α) (sa sb : Shape) : NDArray α × NDArray α :=
  (unbroadcast g sa, unbroadcast g sb)

def mulForward (a b : NDArray α) : Option (NDArray α) := bcast2 (· * ·) a b
def mulBackward (g a b : NDArray α) : Option (NDArray α × NDArray α) := do
  let ga ← bcast2 (· * ·) g b
  let gb ← bcast2 (· * ·) g a
  pure (unbroadcast ga a.shape, unbroadcast gb b.shape)

def swapLast (x : NDArray α) : Option (NDArray α) := swapaxes x (-2) (-1)

def matmulForward (a b : NDArray α) : Option (NDArray α) := matmul a b
def matmulBackward (g a b : NDArray α) : Option (NDArray α × NDArray α) := do
  let ga ← matmul g (← swapLast b)
  let gb ← matmul (← swapLast a) g
  pure (unbroadcast ga a.shape, unbroadcast gb b.shape)

def addmmForward (a b c : NDArray α) : Option (NDArray α) := do addForward a (← matmul b c)
def addmmBackward (g a b c : NDArray α) : Option (NDArray α × NDArray α × NDArray α) := do
  let (ga, gmm) := addBackward g a.shape [b.shape.getD 0 0, c.shape.getD 1 0]
  let (gb, gc) ← matmulBackward gmm b c
  pure (ga, gb, gc)

def negForward (a : NDArray α) : NDArray α := a.map (- ·)
def negBackward (g : NDArray α) : NDArray α := g.map (- ·)

/-! ### indexing -/
def sliceForward (a : NDArray α) (sels : List Sel) : Option (NDArray α) := do
  let rs ← resolveIndex a.shape sels
  pure (gather (indexShape rs) (indexMap rs) a)
/-- `np.add.at(zeros(a_shape), s, grad)` -/
def sliceBackward (g : NDArray α) (sa : Shape) (sels : List Sel) : Option (NDArray α) := do
  let rs ← resolveIndex sa sels
  pure (scatterAdd sa (indexShape rs) (indexMap rs) g)

/-! ### concat / stack / unbind -/
def concatForward (xs : List (NDArray α)) (axis : Int) : Option (NDArray α) := concatenate xs axis
/-- `np.split(grad, sections, axis)`: the pieces matching the operands -/
def concatBackward (g : NDArray α) (shapes : List Shape) (axis : Int) : Option (List (NDArray α)) := do
  let a ← normAxis g.shape.length axis
  let sizes := shapes.map (fun s => s.getD a 0)
  let offs := sizes.foldl (fun (acc : List Nat × Nat) n => (acc.1 ++ [acc.2], acc.2 + n)) ([], 0)
  pure ((List.zip shapes offs.1).map (fun (s, off) =>
    gather s (fun j => j.zipIdx.map (fun (v, k) => if k = a then v + off else v)) g))

def stackForward (xs : List (NDArray α)) (axis : Int) : Option (NDArray α) := stack xs axis
def stackBackward (g : NDArray α) (axis : Int) : Option (List (NDArray α)) := unbind g axis

def unbindForward (a : NDArray α) (axis : Int) : Option (List (NDArray α)) := unbind a axis
/-- zeros with the gradient of output `index` placed at position `index` along `axis` -/
def unbindBackward (g : NDArray α) (sa : Shape) (axis : Int) (index : Nat) : Option (NDArray α) := do
  let a ← normAxis sa.length axis
  pure (ofFn sa (fun i => if getI i a = index then g.get (dropAxes i [a]) else 0))

def cloneForward (a : NDArray α) : NDArray α := a
def cloneBackward (g : NDArray α) : NDArray α := g

/-! ### sum / squeeze / unsqueeze / reshape / movedim / transpose / flatten / unfold -/
def sumForward (a : NDArray α) (ax : Axes) (keep : Bool) : Option (NDArray α) := Np.sum a ax keep
def sumBackward (g : NDArray α) (sa : Shape) (ax : Axes) (keep : Bool) : Option (NDArray α) := do
  let axes ← ax.normRed sa.length
  pure (unreduce g sa axes (keep || ax == .all))

/-- `squeeze_forward` as written: `None` squeezes everything; an int squeezes that axis when it
    has size 1 and is the identity otherwise; a tuple squeezes those of its axes that have size 1;
    a 0-d array is returned unchanged. -/
def squeezeForward (a : NDArray α) (ax : Axes) : Option (NDArray α) :=
  match ax with
  | .all => some (if a.shape.length > 0 then squeezeAll a else a)
  | .one k =>
    if a.shape.length = 0 then some a
    else do
      let k' ← normAxis a.shape.length k          -- `a.shape[axis]` raises IndexError
      if a.shape.getD k' 0 = 1 then squeezeAxes a [k] else pure a
  | .many ks =>
    if a.shape.length = 0 then some a
    else do
      let ks' ← ks.mapM (normAxis a.shape.length)
      let sel := (List.zip ks ks').filter (fun (_, k') => a.shape.getD k' 0 == 1)
      if sel.isEmpty then pure a else squeezeAxes a (sel.map (·.1))
def squeezeBackward (g : NDArray α) (sa : Shape) : Option (NDArray α) :=
  if g.shape.size = sa.size then some (reshapeTo g sa) else none

def unsqueezeForward (a : NDArray α) (axes : List Int) : Option (NDArray α) := expandDims a axes
def unsqueezeBackward (g : NDArray α) (axes : List Int) : Option (NDArray α) := squeezeAxes g axes

def reshapeForward (a : NDArray α) (target : List Int) : Option (NDArray α) := reshape a target
def reshapeBackward (g : NDArray α) (sa : Shape) : Option (NDArray α) :=
  if g.shape.size = sa.size then some (reshapeTo g sa) else none

def movedimForward (a : NDArray α) (src dst : Int) : Option (NDArray α) := moveaxis a src dst
def movedimBackward (g : NDArray α) (src dst : Int) : Option (NDArray α) := moveaxis g dst src

def transposeForward (a : NDArray α) (d0 d1 : Int) : Option (NDArray α) := swapaxes a d0 d1
def transposeBackward (g : NDArray α) (d0 d1 : Int) : Option (NDArray α) := swapaxes g d0 d1

/-- the reshape target `functional.flatten` computes (after the repair of negative dims) -/
def flattenTarget (s : Shape) (startDim endDim : Int) : Option (List Int) :=
  let nd : Int := if s.length > 0 then s.length else 1
  if !(-nd ≤ startDim && startDim < nd && -nd ≤ endDim && endDim < nd) then none else
  let st := if startDim < 0 then startDim + nd else startDim
  let en := if endDim < 0 then endDim + nd else endDim
  if st > en then none
  else if s.length = 0 then some [1]
  else if st < en then
    some ((s.take st.toNat).map Int.ofNat ++ [-1] ++ (s.drop (en.toNat + 1)).map Int.ofNat)
  else some (s.map Int.ofNat)
def flattenForward (a : NDArray α) (startDim endDim : Int) : Option (NDArray α) := do
  reshape a (← flattenTarget a.shape startDim endDim)

/-- `Tensor.unfold(dimension, size, step)` : windows of `size` every `step` along `dimension`,
    window contents in a new last axis -/
def unfoldDimCheck (s : Shape) (dimension size step : Int) : Option (Nat × Nat × Nat × Nat) := do
  let d ← normAxis s.length dimension
  if size ≤ 0 || step ≤ 0 then none
  let n := s.getD d 0
  if size.toNat > n then none
  pure (d, size.toNat, step.toNat, (n - size.toNat) / step.toNat + 1)
def unfoldDimMap (d step : Nat) (j : Idx) : Idx :=
  let body := j.dropLast
  let k := j.getLastD 0
  body.zipIdx.map (fun (v, a) => if a = d then v * step + k else v)
def unfoldDimForward (a : NDArray α) (dimension size step : Int) : Option (NDArray α) := do
  let (d, sz, st, cnt) ← unfoldDimCheck a.shape dimension size step
  let outShape := (a.shape.zipIdx.map (fun (n, k) => if k = d then cnt else n)) ++ [sz]
  pure (gather outShape (unfoldDimMap d st) a)
def unfoldDimBackward (g : NDArray α) (sa : Shape) (dimension size step : Int) : Option (NDArray α) := do
  let (d, _, st, _) ← unfoldDimCheck sa dimension size step
  pure (scatterAdd sa g.shape (unfoldDimMap d st) g)

end Alg

/-! ### mean (needs division by a count) -/
section Mean
variable [Zero α] [Add α] [Div α] [NatCast α]

def meanForward (a : NDArray α) (ax : Axes) (keep : Bool) : Option (NDArray α) := do
  let axes ← ax.norm a.shape.length
  let cnt : Nat := ((axes.map (fun k => a.shape.getD k 0)).foldr (· * ·) 1)
  let s ← Np.sum a ax keep
  pure (s.map (· / (cnt : α)))
def meanBackward (g : NDArray α) (sa : Shape) (ax : Axes) (keep : Bool) : Option (NDArray α) := do
  let axes ← ax.norm sa.length
  let cnt : Nat := ((axes.map (fun k => sa.getD k 0)).foldr (· * ·) 1)
  pure ((unreduce g sa axes (keep || ax == .all)).map (· / (cnt : α)))
end Mean

/-! ### max / min : the kernel's one-hot mask at the first arg-max of every fibre -/
section MaxMin
variable [Zero α] [One α] [Mul α] [LT α] [DecidableLT α]

/-- first index (row-major) attaining the extremum among the input indices reduced into `o` -/
def argExt (better : α → α → Bool) (a : NDArray α) (axes : List Nat) (keep : Bool) (o : Idx) : Idx :=
  let fibre := (allIdx a.shape).filter (fun i => reduceIdx axes keep i == o)
  match fibre with
  | [] => []
  | i0 :: r => r.foldl (fun best i => if better (a.get i) (a.get best) then i else best) i0

def extForward (better : α → α → Bool) (a : NDArray α) (dim : Option Int) (keep : Bool) : Option (NDArray α) := do
  let ax := match dim with | none => Axes.all | some d => Axes.one d
  let axes ← ax.normRed a.shape.length
  if (axes.any (fun k => a.shape.getD k 0 == 0)) || (a.shape.size = 0) then none
  pure (ofFn (reduceShape a.shape axes keep) (fun o => a.get (argExt better a axes keep o)))

def extBackward (better : α → α → Bool) (g a : NDArray α) (dim : Option Int) (keep : Bool) : Option (NDArray α) := do
  let ax := match dim with | none => Axes.all | some d => Axes.one d
  let axes ← ax.normRed a.shape.length
  -- `grad * mask` broadcasts the (expanded) gradient against the mask
  let keepG := keep || dim.isNone
  let gShape := if dim.isNone then g.shape else reduceShape a.shape axes true
  let gE := if keepG then g else reshapeTo g gShape
  pure (ofFn a.shape (fun i =>
    let o := reduceIdx axes keep i
    let isArg := argExt better a axes keep o == i
    let gv := if dim.isNone then gE.get (List.replicate gE.shape.length 0) else gE.get (reduceIdx axes true i)
    if isArg then gv * 1 else gv * 0))

def maxForward (a : NDArray α) := extForward (fun x y => decide (y < x)) a
def maxBackward (g a : NDArray α) := extBackward (fun x y => decide (y < x)) g a
def minForward (a : NDArray α) := extForward (fun x y => decide (x < y)) a
def minBackward (g a : NDArray α) := extBackward (fun x y => decide (x < y)) g a
end MaxMin

/-! ### pointwise transcendental ops -/
section Tr
variable [Zero α] [One α] [Add α] [Sub α] [Mul α] [Div α] [NatCast α] [OfScientific α] [Transc α]

/-- the guard constant `epsilon = 1e-12` of cpu_ops.py -/
def epsilon : α := (OfScientific.ofScientific 1 true 12 : α)

def powForward (a : NDArray α) (n : α) : NDArray α := a.map (fun x => Transc.pow x n)
def powBackward (g a : NDArray α) (n : α) : NDArray α :=
  zipSame (fun gv x => n * Transc.pow x (n - (1 : α)) * gv) g a
def rpowForward (a : NDArray α) (n : α) : NDArray α := a.map (fun x => Transc.pow n x)
def rpowBackward (g out : NDArray α) (n : α) : NDArray α :=
  zipSame (fun gv o => (o * Transc.log n) * gv) g out
def expForward (a : NDArray α) : NDArray α := a.map Transc.exp
def expBackward (g out : NDArray α) : NDArray α := zipSame (· * ·) g out
def logForward (a : NDArray α) : NDArray α := a.map (fun x => Transc.log (x + epsilon))
def logBackward (g a : NDArray α) : NDArray α := zipSame (fun gv x => gv / (x + epsilon)) g a
def sqrtForward (a : NDArray α) : NDArray α := a.map Transc.sqrt
def sqrtBackward (g out : NDArray α) : NDArray α := zipSame (fun gv o => gv / (((2 : Nat) : α) * o)) g out
end Tr

end Kernels
end Synap
