import SynapModel.Kernels.Basic
/-!
# cpu_ops.py, lines 286–602: activations, losses, pooling, convolution, batch normalisation

Index-function form.  Window geometry (`convOut`, `winPos`) is shared by convolution, pooling and
(in `ConvTools.lean`) by unfold / fold.
-/
namespace Synap.Kernels
open NDArray Np

variable {α : Type}

/-! ### window geometry -/
/-- number of window positions: `⌊(L + 2p − d(k−1) − 1)/s⌋ + 1`, `none` when no window fits (or
    the arguments are not positive) -/
def convOut (L k s p d : Nat) : Option Nat :=
  if k = 0 ∨ s = 0 ∨ d = 0 then none
  else if L + 2 * p < d * (k - 1) + 1 then none
  else some ((L + 2 * p - d * (k - 1) - 1) / s + 1)

/-- input coordinate read by window `l` at kernel offset `a` (`none` = padding) -/
def winPos (L s p d l a : Nat) : Option Nat :=
  let q := l * s + a * d
  if q < p then none else if q - p < L then some (q - p) else none

section Act
variable [Zero α] [One α] [Add α] [Sub α] [Mul α] [Div α] [Neg α] [NatCast α] [OfScientific α]
  [LT α] [DecidableLT α] [LE α] [DecidableLE α] [Transc α]

def indPos (x : α) : α := if 0 < x then 1 else 0     -- `(a > 0)` as a number
def indNonPos (x : α) : α := if x ≤ 0 then 1 else 0  -- `(a <= 0)`
def maxS (x y : α) : α := if x < y then y else x     -- `np.maximum`
def minS (x y : α) : α := if y < x then y else x     -- `np.minimum`

def reluForward (a : NDArray α) : NDArray α := a.map (fun x => maxS 0 x)
def reluBackward (g a : NDArray α) : NDArray α := zipSame (fun gv x => gv * indPos x) g a

def leakyReluForward (a : NDArray α) (slope : α) : NDArray α := a.map (fun x => if 0 < x then x else slope * x)
def leakyReluBackward (g a : NDArray α) (slope : α) : NDArray α :=
  zipSame (fun gv x => gv * (indPos x + slope * indNonPos x)) g a

def seluAlpha : α := (OfScientific.ofScientific 16732632423543772848170429916717 true 31 : α)
def seluScale : α := (OfScientific.ofScientific 10507009873554804934193349852946 true 31 : α)

def seluForward (a : NDArray α) (alpha scale : α) : NDArray α :=
  a.map (fun x => scale * (maxS 0 x + minS 0 (alpha * (Transc.exp x - 1))))
def seluBackward (g a : NDArray α) (alpha scale : α) : NDArray α :=
  zipSame (fun gv x => scale * gv * (indPos x + alpha * Transc.exp (minS x 0) * indNonPos x)) g a

def tanhForward (a : NDArray α) : NDArray α := a.map Transc.tanh
def tanhBackward (g out : NDArray α) : NDArray α := zipSame (fun gv o => gv * (1 - o * o)) g out

def sigmoidForward (a : NDArray α) : NDArray α := a.map (fun x => 1 / (1 + Transc.exp (-x)))
def sigmoidBackward (g out : NDArray α) : NDArray α := zipSame (fun gv o => gv * o * (1 - o)) g out

/-! ### softmax family along one axis -/
/-- maximum of the fibre of `i` along `axis` -/
def fibreMax (a : NDArray α) (axis : Nat) (i : Idx) : α :=
  let n := a.shape.getD axis 0
  ((List.range n).map (fun t => a.get (i.set axis t))).foldl (fun m v => maxS m v) (a.get (i.set axis 0))

def fibreSum (f : Idx → α) (shape : Shape) (axis : Nat) (i : Idx) : α :=
  ((List.range (shape.getD axis 0)).map (fun t => f (i.set axis t))).sum

/-- `softmax` / `log_softmax` of a 0-d array with `dim` 0 or −1.  NumPy's reductions accept the INT axes 0 and −1 on a
    0-d array and reduce nothing: `a.max(axis, keepdims=True)` and `.sum(axis, keepdims=True)` are the element
    itself (every other axis raises `AxisError`).  The four kernels below evaluate the library's expressions
    with "maximum of the fibre" / "sum over the fibre" read as the single element. -/
def zeroDimAxis (s : Shape) (axis : Int) : Prop := s = [] ∧ (axis = 0 ∨ axis = -1)
instance (s : Shape) (axis : Int) : Decidable (zeroDimAxis s axis) := by unfold zeroDimAxis; infer_instance

def softmaxForward (a : NDArray α) (axis : Int) : Option (NDArray α) :=
  if zeroDimAxis a.shape axis then
    let e : α := Transc.exp (a.get [] - a.get [])            -- `exp(a − a.max())`
    some (ofFn [] (fun _ => e / e))                          -- `exps / exps.sum()`
  else do
  let ax ← normAxis a.shape.length axis
  if a.shape.getD ax 0 = 0 then none
  let e : Idx → α := fun i => Transc.exp (a.get i - fibreMax a ax i)
  pure (ofFn a.shape (fun i => e i / fibreSum e a.shape ax i))
/-- `s ⊙ (g − Σ_axis g ⊙ s)` -/
def softmaxBackward (g s : NDArray α) (axis : Int) : Option (NDArray α) :=
  if zeroDimAxis s.shape axis then
    some (ofFn [] (fun _ => s.get [] * (g.get [] - g.get [] * s.get [])))
  else do
  let ax ← normAxis s.shape.length axis
  pure (ofFn s.shape (fun i => s.get i * (g.get i - fibreSum (fun j => g.get j * s.get j) s.shape ax i)))

def logSoftmaxForward (a : NDArray α) (axis : Int) : Option (NDArray α) :=
  if zeroDimAxis a.shape axis then
    let m := a.get []                                        -- `a.max()`
    some (ofFn [] (fun _ => a.get [] - (m + Transc.log (Transc.exp (a.get [] - m)))))
  else do
  let ax ← normAxis a.shape.length axis
  if a.shape.getD ax 0 = 0 then none
  pure (ofFn a.shape (fun i =>
    let m := fibreMax a ax i
    a.get i - (m + Transc.log (fibreSum (fun j => Transc.exp (a.get j - m)) a.shape ax i))))
/-- `g − exp(ls) ⊙ Σ_axis g` -/
def logSoftmaxBackward (g ls : NDArray α) (axis : Int) : Option (NDArray α) :=
  if zeroDimAxis ls.shape axis then
    some (ofFn [] (fun _ => g.get [] - Transc.exp (ls.get []) * g.get []))
  else do
  let ax ← normAxis ls.shape.length axis
  pure (ofFn ls.shape (fun i => g.get i - Transc.exp (ls.get i) * fibreSum g.get ls.shape ax i))

/-! ### losses (per-element values; the reduction is `sum` / `mean` of the tensor API) -/
def mseForward (p t : NDArray α) : Option (NDArray α) :=
  if p.shape = t.shape then some (zipSame (fun a b => (a - b) * (a - b)) p t) else none
def mseBackward (g p t : NDArray α) : NDArray α × NDArray α :=
  let d := zipSame (fun gv (ab : α × α) => gv * ((2 : Nat) : α) * (ab.1 - ab.2)) g (zipSame (fun a b => (a, b)) p t)
  (d, d.map (- ·))

/-- `-y_pred[range(N), y_true]` : predictions (N, C), labels (N,) -/
def nllForward (p : NDArray α) (labels : List Nat) : Option (NDArray α) :=
  match p.shape with
  | [n, c] =>
    if labels.length = n ∧ labels.all (· < c) then some (ofFn [n] (fun i => - p.get [getI i 0, labels.getD (getI i 0) 0]))
    else none
  | _ => none
def nllBackward (g p : NDArray α) (labels : List Nat) : NDArray α :=
  ofFn p.shape (fun i => g.get [getI i 0] * (if labels.getD (getI i 0) 0 = getI i 1 then -1 else 0))

def bceForward (p t : NDArray α) : Option (NDArray α) := do
  let l ← bcast2 (fun pv tv => -(tv * Transc.log (pv + epsilon) + (1 - tv) * Transc.log (1 - pv + epsilon))) p t
  -- `np.where(loss == -np.log(epsilon), 100, loss)` (equality as "neither smaller nor larger")
  let c : α := -(Transc.log epsilon)
  pure (l.map (fun v => if ¬ (v < c) ∧ ¬ (c < v) then ((100 : Nat) : α) else v))
def bceBackward (g p t : NDArray α) : Option (NDArray α) := do
  let lg ← bcast2 (fun pv tv => -((-(1 - tv) / ((1 - pv) + epsilon)) + tv / (pv + epsilon))) p t
  bcast2 (fun a b => a * b) lg g

def bceLogitsForward (x y : NDArray α) : Option (NDArray α) :=
  bcast2 (fun xv yv =>
    let tn := maxS 0 (-xv)
    (1 - yv) * xv + tn + Transc.log (Transc.exp (-tn) + Transc.exp (-xv - tn))) x y
def bceLogitsBackward (g x y : NDArray α) : Option (NDArray α) := do
  let lg ← bcast2 (fun xv yv =>
    let tn := maxS 0 (-xv)
    let dtn : α := if 0 < tn then -1 else 0          -- `np.where(tn == 0, 0, -1)` (tn ≥ 0)
    let e1 := Transc.exp (-tn)
    let e2 := Transc.exp (-xv - tn)
    (1 - yv) + dtn + ((-dtn) * e1 + (-1 - dtn) * e2) / ((e1 + e2) + epsilon)) x y
  bcast2 (fun a b => a * b) g lg

def crossEntropyForward (x : NDArray α) (labels : List Nat) : Option (NDArray α) := do
  if x.shape.length ≠ 2 then none
  let ls ← logSoftmaxForward x 1
  nllForward ls labels
def crossEntropyBackward (g x : NDArray α) (labels : List Nat) : Option (NDArray α) := do
  let s ← softmaxForward x 1
  pure (ofFn x.shape (fun i => (s.get i - (if labels.getD (getI i 0) 0 = getI i 1 then 1 else 0)) * g.get [getI i 0]))

/-! ### linear -/
def linearForward (x w : NDArray α) (b : Option (NDArray α)) : Option (NDArray α) := do
  let wt ← swapaxes w 0 1
  match b with
  | some bv => addmmForward bv x wt
  | none => matmulForward x wt
def linearBackward (g x w : NDArray α) (b : Option (NDArray α)) :
    Option (NDArray α × NDArray α × Option (NDArray α)) := do
  let wt ← swapaxes w 0 1
  match b with
  | some bv =>
    let (gb, gx, gwt) ← addmmBackward g bv x wt
    pure (gx, ← swapaxes gwt 0 1, some gb)
  | none =>
    let (gx, gwt) ← matmulBackward g x wt
    pure (gx, ← swapaxes gwt 0 1, none)

/-! ### convolution (cross-correlation) -/
/-- padded read of `x[n, c, pos…]` with zero padding -/
def readPad1 (x : NDArray α) (pad : α) (n c : Nat) (pos : Option Nat) : α :=
  match pos with | some q => x.get [n, c, q] | none => pad
def readPad2 (x : NDArray α) (pad : α) (n c : Nat) (ph pw : Option Nat) : α :=
  match ph, pw with | some a, some b => x.get [n, c, a, b] | _, _ => pad

def conv1dForward (x w : NDArray α) (b : Option (NDArray α)) (s p d : Nat) : Option (NDArray α) :=
  match x.shape, w.shape with
  | [n, c, l], [co, ci, k] =>
    if ci ≠ c then none else
    match convOut l k s p d with
    | none => none
    | some lo =>
      if (match b with | some bv => bv.shape.size != co | none => false) then none else
      some (ofFn [n, co, lo] (fun j =>
        let (bn, o, t) := (getI j 0, getI j 1, getI j 2)
        let acc := ((List.range c).flatMap (fun cc => (List.range k).map (fun a =>
          w.get [o, cc, a] * readPad1 x 0 bn cc (winPos l s p d t a)))).sum
        match b with | some bv => acc + bv.data.getD o 0 | none => acc))
  | _, _ => none

def conv1dBackward (g x w : NDArray α) (hasBias : Bool) (s p d : Nat) :
    Option (NDArray α × NDArray α × Option (NDArray α)) :=
  match x.shape, w.shape, g.shape with
  | [n, c, l], [co, _, k], [_, _, lo] =>
    let gx := ofFn [n, c, l] (fun i =>
      let (bn, cc, q) := (getI i 0, getI i 1, getI i 2)
      ((List.range co).flatMap (fun o => (List.range lo).flatMap (fun t => (List.range k).map (fun a =>
        if winPos l s p d t a = some q then g.get [bn, o, t] * w.get [o, cc, a] else 0)))).sum)
    let gw := ofFn [co, c, k] (fun i =>
      let (o, cc, a) := (getI i 0, getI i 1, getI i 2)
      ((List.range n).flatMap (fun bn => (List.range lo).map (fun t =>
        g.get [bn, o, t] * readPad1 x 0 bn cc (winPos l s p d t a)))).sum)
    let gb := if hasBias then some (ofFn [co] (fun i =>
      ((List.range n).flatMap (fun bn => (List.range lo).map (fun t => g.get [bn, getI i 0, t]))).sum)) else none
    some (gx, gw, gb)
  | _, _, _ => none

def conv2dForward (x w : NDArray α) (b : Option (NDArray α)) (s p d : Nat × Nat) : Option (NDArray α) :=
  match x.shape, w.shape with
  | [n, c, h, wd], [co, ci, kh, kw] =>
    if ci ≠ c then none else
    match convOut h kh s.1 p.1 d.1, convOut wd kw s.2 p.2 d.2 with
    | some lh, some lw =>
      if (match b with | some bv => bv.shape.size != co | none => false) then none else
      some (ofFn [n, co, lh, lw] (fun j =>
        let (bn, o, th, tw) := (getI j 0, getI j 1, getI j 2, getI j 3)
        let acc := ((List.range c).flatMap (fun cc => (List.range kh).flatMap (fun a => (List.range kw).map (fun bb =>
          w.get [o, cc, a, bb] * readPad2 x 0 bn cc (winPos h s.1 p.1 d.1 th a) (winPos wd s.2 p.2 d.2 tw bb))))).sum
        match b with | some bv => acc + bv.data.getD o 0 | none => acc))
    | _, _ => none
  | _, _ => none

def conv2dBackward (g x w : NDArray α) (hasBias : Bool) (s p d : Nat × Nat) :
    Option (NDArray α × NDArray α × Option (NDArray α)) :=
  match x.shape, w.shape, g.shape with
  | [n, c, h, wd], [co, _, kh, kw], [_, _, lh, lw] =>
    let gx := ofFn [n, c, h, wd] (fun i =>
      let (bn, cc, qh, qw) := (getI i 0, getI i 1, getI i 2, getI i 3)
      ((List.range co).flatMap (fun o => (List.range lh).flatMap (fun th => (List.range lw).flatMap (fun tw =>
        (List.range kh).flatMap (fun a => (List.range kw).map (fun bb =>
          if winPos h s.1 p.1 d.1 th a = some qh ∧ winPos wd s.2 p.2 d.2 tw bb = some qw
          then g.get [bn, o, th, tw] * w.get [o, cc, a, bb] else 0)))))).sum)
    let gw := ofFn [co, c, kh, kw] (fun i =>
      let (o, cc, a, bb) := (getI i 0, getI i 1, getI i 2, getI i 3)
      ((List.range n).flatMap (fun bn => (List.range lh).flatMap (fun th => (List.range lw).map (fun tw =>
        g.get [bn, o, th, tw] * readPad2 x 0 bn cc (winPos h s.1 p.1 d.1 th a) (winPos wd s.2 p.2 d.2 tw bb))))).sum)
    let gb := if hasBias then some (ofFn [co] (fun i =>
      ((List.range n).flatMap (fun bn => (List.range lh).flatMap (fun th => (List.range lw).map (fun tw =>
        g.get [bn, getI i 0, th, tw])))).sum)) else none
    some (gx, gw, gb)
  | _, _, _ => none

/-! ### pooling: windows (padded with −∞ for max, 0 for avg) then max / mean -/
/-- values of the window at output position, in kernel order, with their input coordinate -/
def window1 (x : NDArray α) (l k s p d n c t : Nat) : List (Option Nat) :=
  (List.range k).map (fun a => winPos l s p d t a)

/-- first maximum of a window given as optional values (`none` = −∞ padding): (value, position) -/
def firstMax (vals : List (Option α)) : Option (α × Nat) :=
  (vals.zipIdx.foldl (fun (best : Option (α × Nat)) (v, k) =>
    match v, best with
    | some x, none => some (x, k)
    | some x, some (bv, bk) => if bv < x then some (x, k) else some (bv, bk)
    | none, b => b) none)

def poolGeom1 (x : NDArray α) (k s p d : Nat) : Option (Nat × Nat × Nat × Nat) :=
  match x.shape with
  | [n, c, l] => (convOut l k s p d).map (fun lo => (n, c, l, lo))
  | _ => none

def maxPool1dForward (x : NDArray α) (negInf : α) (k s p d : Nat) : Option (NDArray α) := do
  let (n, c, l, lo) ← poolGeom1 x k s p d
  pure (ofFn [n, c, lo] (fun j =>
    let vals := (List.range k).map (fun a => (winPos l s p d (getI j 2) a).map (fun q => x.get [getI j 0, getI j 1, q]))
    match firstMax vals with | some (v, _) => v | none => negInf))
def maxPool1dBackward (g x : NDArray α) (k s p d : Nat) : Option (NDArray α) := do
  let (n, c, l, lo) ← poolGeom1 x k s p d
  pure (ofFn [n, c, l] (fun i =>
    ((List.range lo).map (fun t =>
      let pos := (List.range k).map (fun a => winPos l s p d t a)
      let vals := pos.map (fun o => o.map (fun q => x.get [getI i 0, getI i 1, q]))
      match firstMax vals with
      | some (_, a) => if pos.getD a none = some (getI i 2) then g.get [getI i 0, getI i 1, t] else 0
      | none => 0)).sum))

def avgPool1dForward (x : NDArray α) (k s p d : Nat) : Option (NDArray α) := do
  let (n, c, l, lo) ← poolGeom1 x k s p d
  pure (ofFn [n, c, lo] (fun j =>
    ((List.range k).map (fun a => readPad1 x 0 (getI j 0) (getI j 1) (winPos l s p d (getI j 2) a))).sum / ((k : Nat) : α)))
def avgPool1dBackward (g x : NDArray α) (k s p d : Nat) : Option (NDArray α) := do
  let (n, c, l, lo) ← poolGeom1 x k s p d
  pure (ofFn [n, c, l] (fun i =>
    ((List.range lo).flatMap (fun t => (List.range k).map (fun a =>
      if winPos l s p d t a = some (getI i 2) then g.get [getI i 0, getI i 1, t] / ((k : Nat) : α) else 0))).sum))

def poolGeom2 (x : NDArray α) (k s p d : Nat × Nat) : Option (Nat × Nat × Nat × Nat × Nat × Nat) :=
  match x.shape with
  | [n, c, h, w] =>
    match convOut h k.1 s.1 p.1 d.1, convOut w k.2 s.2 p.2 d.2 with
    | some lh, some lw => some (n, c, h, w, lh, lw)
    | _, _ => none
  | _ => none

/-- window coordinates in row-major kernel order -/
def win2 (h w : Nat) (k s p d : Nat × Nat) (th tw : Nat) : List (Option (Nat × Nat)) :=
  (List.range k.1).flatMap (fun a => (List.range k.2).map (fun b =>
    match winPos h s.1 p.1 d.1 th a, winPos w s.2 p.2 d.2 tw b with
    | some qa, some qb => some (qa, qb) | _, _ => none))

def maxPool2dForward (x : NDArray α) (negInf : α) (k s p d : Nat × Nat) : Option (NDArray α) := do
  let (n, c, h, w, lh, lw) ← poolGeom2 x k s p d
  pure (ofFn [n, c, lh, lw] (fun j =>
    let vals := (win2 h w k s p d (getI j 2) (getI j 3)).map (fun o => o.map (fun (qa, qb) => x.get [getI j 0, getI j 1, qa, qb]))
    match firstMax vals with | some (v, _) => v | none => negInf))
def maxPool2dBackward (g x : NDArray α) (k s p d : Nat × Nat) : Option (NDArray α) := do
  let (n, c, h, w, lh, lw) ← poolGeom2 x k s p d
  pure (ofFn [n, c, h, w] (fun i =>
    ((List.range lh).flatMap (fun th => (List.range lw).map (fun tw =>
      let pos := win2 h w k s p d th tw
      let vals := pos.map (fun o => o.map (fun (qa, qb) => x.get [getI i 0, getI i 1, qa, qb]))
      match firstMax vals with
      | some (_, a) => if pos.getD a none = some (getI i 2, getI i 3) then g.get [getI i 0, getI i 1, th, tw] else 0
      | none => 0))).sum))

def avgPool2dForward (x : NDArray α) (k s p d : Nat × Nat) : Option (NDArray α) := do
  let (n, c, h, w, lh, lw) ← poolGeom2 x k s p d
  pure (ofFn [n, c, lh, lw] (fun j =>
    ((win2 h w k s p d (getI j 2) (getI j 3)).map (fun o =>
      match o with | some (qa, qb) => x.get [getI j 0, getI j 1, qa, qb] | none => 0)).sum / ((k.1 * k.2 : Nat) : α)))
def avgPool2dBackward (g x : NDArray α) (k s p d : Nat × Nat) : Option (NDArray α) := do
  let (n, c, h, w, lh, lw) ← poolGeom2 x k s p d
  pure (ofFn [n, c, h, w] (fun i =>
    ((List.range lh).flatMap (fun th => (List.range lw).flatMap (fun tw =>
      (win2 h w k s p d th tw).map (fun o =>
        if o = some (getI i 2, getI i 3) then g.get [getI i 0, getI i 1, th, tw] / ((k.1 * k.2 : Nat) : α) else 0)))).sum))

/-! ### batch normalisation (forward values and backward; the running statistics are `Layers.lean`) -/
/-- all indices of `shape` whose channel (axis 1) is `c` -/
def chanIdx (shape : Shape) (c : Nat) : List Idx := (allIdx shape).filter (fun i => getI i 1 == c)

def bnStats (x : NDArray α) (c : Nat) : α × α :=
  let vals := (chanIdx x.shape c).map x.get
  let n : α := ((vals.length : Nat) : α)
  let m := vals.sum / n
  (m, (vals.map (fun v => (v - m) * (v - m))).sum / n)

/-- output given the statistics actually used (batch or running) per channel -/
def bnForward (x : NDArray α) (gamma beta : Option (NDArray α)) (mean var : Nat → α) (eps : α) : NDArray α :=
  ofFn x.shape (fun i =>
    let c := getI i 1
    let y := (x.get i - mean c) / Transc.sqrt (var c + eps)
    let y := match gamma with | some g => y * g.data.getD c 1 | none => y
    match beta with | some b => y + b.data.getD c 0 | none => y)

/-- `batch_norm_backward` : `useBatch` = `training or not track_running_stats` -/
def bnBackward (g x : NDArray α) (gamma : Option (NDArray α)) (hasBeta : Bool) (useBatch : Bool)
    (mean var : Nat → α) (eps : α) : NDArray α × Option (NDArray α) × Option (NDArray α) :=
  let ch := x.shape.getD 1 0
  let xhat : Idx → α := fun i => (x.get i - mean (getI i 1)) / Transc.sqrt (var (getI i 1) + eps)
  let dxhat : Idx → α := fun i => match gamma with | some gm => g.get i * gm.data.getD (getI i 1) 1 | none => g.get i
  let dgamma := gamma.map (fun _ => ofFn [ch] (fun j => ((chanIdx x.shape (getI j 0)).map (fun i => g.get i * xhat i)).sum))
  let dbeta := if hasBeta then some (ofFn [ch] (fun j => ((chanIdx x.shape (getI j 0)).map g.get).sum)) else none
  let dx := ofFn x.shape (fun i =>
    let c := getI i 1
    if useBatch then
      let idx := chanIdx x.shape c
      let n : α := ((idx.length : Nat) : α)
      let sd := Transc.sqrt (var c + eps)
      let dvar := (idx.map (fun k => -(1 / ((2 : Nat) : α)) * dxhat k * (x.get k - mean c))).sum * Transc.pow (var c + eps) (-(((3 : Nat) : α) / ((2 : Nat) : α)))
      let davg := (idx.map (fun k => -1 / sd * dxhat k)).sum + dvar * (idx.map (fun k => -((2 : Nat) : α) * (x.get k - mean c))).sum / n
      dxhat i / sd + ((2 : Nat) : α) * dvar * (x.get i - mean c) / n + davg / n
    else dxhat i / Transc.sqrt (var c + eps))
  (dx, dgamma, dbeta)

end Act
end Synap.Kernels
