import SynapModel.Core.NDArray
/-!
# The NumPy primitives synapgrad delegates to, in index-function form

Each primitive is given by its result shape and an index map (`gather` / `scatterAdd`), together
with NumPy's argument validation, so that accept/reject is part of the model.
-/
namespace Synap.Np
open Synap NDArray

variable {α : Type}

def getI (i : Idx) (k : Nat) : Nat := i.getD k 0

/-- axes argument of a reduction: `None`, an int, or a tuple -/
inductive Axes where
  | all
  | one (a : Int)
  | many (as : List Int)
deriving Repr, DecidableEq

/-- normalised reduction axes (NumPy: out-of-range and repeated axes are errors) -/
def Axes.norm (ndim : Nat) : Axes → Option (List Nat)
  | .all => some (List.range ndim)
  | .one a => (normAxis ndim a).map ([·])
  | .many as => normAxes ndim as

/-- reduction axes of `np.sum` / `np.max` / `np.min` (ufunc reductions): as `Axes.norm`, except
    that a 0-d array accepts the *integer* axes `0` and `-1` — nothing is reduced.  Every other
    integer and every non-empty tuple (`(0,)`, `(-1,)`) is an AxisError on a 0-d array; `np.mean`
    validates with `Axes.norm` throughout (it rejects every integer axis on a 0-d array). -/
def Axes.normRed (ndim : Nat) (ax : Axes) : Option (List Nat) :=
  match ndim, ax with
  | 0, .one a => if a = 0 ∨ a = -1 then some [] else none
  | _, _ => ax.norm ndim

/-- result shape of a reduction -/
def reduceShape (s : Shape) (axes : List Nat) (keep : Bool) : Shape :=
  if keep then setAxes s axes 1 else dropAxes s axes

/-- the output index an input index is reduced into -/
def reduceIdx (axes : List Nat) (keep : Bool) (i : Idx) : Idx :=
  if keep then setAxes i axes 0 else dropAxes i axes

section
variable [Zero α] [Add α]

/-- `np.sum(a, axis, keepdims)` -/
def sum (x : NDArray α) (ax : Axes) (keep : Bool) : Option (NDArray α) := do
  let axes ← ax.normRed x.shape.length
  pure (scatterAdd (reduceShape x.shape axes keep) x.shape (reduceIdx axes keep) x)

/-- broadcast a reduced array back over the reduced axes (`zeros(a_shape) + expand_dims(g)`) -/
def unreduce (g : NDArray α) (s : Shape) (axes : List Nat) (keep : Bool) : NDArray α :=
  gather s (reduceIdx axes keep) g

/-- `unbroadcast(grad, shape)` of cpu_ops.py: sum over the leading extra axes and over every axis
    on which the operand had size 1 -/
def unbroadcast (g : NDArray α) (s : Shape) : NDArray α :=
  if g.shape.length < s.length then
    gather s (bcastIdx g.shape) g           -- `np.zeros(shape) + grad`
  else scatterAdd s g.shape (bcastIdx s) g
end

/-! ### permutations of axes -/
section
variable [Zero α]

/-- result axis `k` takes source axis `perm[k]` -/
def transposeP (x : NDArray α) (perm : List Nat) : NDArray α :=
  let q := invPerm perm
  gather (permute x.shape perm) (fun j => permute j q) x

/-- `np.moveaxis(a, source, destination)` (ints) -/
def moveaxis (x : NDArray α) (src dst : Int) : Option (NDArray α) := do
  let n := x.shape.length
  let s ← normAxis n src
  let d ← normAxis n dst
  pure (transposeP x (moveaxisPerm n s d))

/-- `np.swapaxes` -/
def swapaxes (x : NDArray α) (a b : Int) : Option (NDArray α) := do
  let n := x.shape.length
  let a ← normAxis n a
  let b ← normAxis n b
  pure (transposeP x (swapPerm n a b))

/-- resolve a `-1` in a reshape target; `none` when sizes do not match -/
def resolveShape (size : Nat) (target : List Int) : Option Shape :=
  let known := (target.filter (· ≥ 0)).map Int.toNat
  let nNeg := (target.filter (· < 0)).length
  let p := known.foldr (· * ·) 1
  if target.any (· < -1) then none
  else if nNeg = 0 then (if p = size then some known else none)
  else if nNeg = 1 then
    (if p = 0 then none
     else if size % p = 0 then some (target.map (fun t => if t < 0 then size / p else t.toNat)) else none)
  else none

/-- `a.reshape(shape)` on a C-contiguous reading of `a` -/
def reshapeTo (x : NDArray α) (s : Shape) : NDArray α :=
  gather s (fun j => unravel x.shape (ravel s j)) x

def reshape (x : NDArray α) (target : List Int) : Option (NDArray α) :=
  (resolveShape x.shape.size target).map (reshapeTo x)

/-- `np.expand_dims(a, axes)`: axes are normalised against the *result* rank -/
def expandDims (x : NDArray α) (axes : List Int) : Option (NDArray α) := do
  let n := x.shape.length + axes.length
  let ax ← normAxes n axes
  let s := (List.range n).foldl (fun (acc : Shape × Shape) k =>
      if ax.contains k then (acc.1 ++ [1], acc.2)
      else (acc.1 ++ [acc.2.headD 1], acc.2.drop 1)) (([] : Shape), x.shape)
  pure (reshapeTo x s.1)

/-- `np.squeeze(a, axes)` with explicit axes: every named axis must have size 1 -/
def squeezeAxes (x : NDArray α) (axes : List Int) : Option (NDArray α) := do
  let ax ← normAxes x.shape.length axes
  if ax.all (fun k => x.shape.getD k 0 == 1) then pure (reshapeTo x (dropAxes x.shape ax)) else none

/-- `np.squeeze(a)` -/
def squeezeAll (x : NDArray α) : NDArray α := reshapeTo x (x.shape.filter (· ≠ 1))
end

/-! ### indexing -/
/-- one entry of an index expression -/
inductive Sel where
  | int (k : Int)
  | slice (start stop : Option Int) (step : Int)
  | ellipsis
  | newaxis
  | list (ks : List Int)
deriving Repr, DecidableEq

/-- Python's `slice(start, stop, step).indices(n)` as (first index, count) -/
def sliceIndices (n : Nat) (start stop : Option Int) (step : Int) : Option (Int × Nat) :=
  if step = 0 then none else
  let n' : Int := n
  let clamp (v lo hi : Int) : Int := if v < lo then lo else if v > hi then hi else v
  if step > 0 then
    let st := match start with | none => 0 | some v => clamp (if v < 0 then v + n' else v) 0 n'
    let sp := match stop with | none => n' | some v => clamp (if v < 0 then v + n' else v) 0 n'
    some (st, if sp > st then ((sp - st + step - 1) / step).toNat else 0)
  else
    let st := match start with | none => n' - 1 | some v => clamp (if v < 0 then v + n' else v) (-1) (n' - 1)
    let sp := match stop with | none => -1 | some v => clamp (if v < 0 then v + n' else v) (-1) (n' - 1)
    some (st, if st > sp then ((st - sp + (-step) - 1) / (-step)).toNat else 0)

/-- a resolved selector for one *input* axis or an inserted axis -/
inductive RSel where
  | fixed (k : Nat)                        -- integer index: axis disappears
  | range (start : Int) (count : Nat) (step : Int)
  | new                                    -- `None`: inserted axis of size 1 (consumes no input axis)
  | pick (ks : List Nat)                   -- integer-array index
deriving Repr, DecidableEq

/-- resolve an index expression against a shape.  Supported: ints, slices, one ellipsis,
    newaxis, and at most one integer list (not combined with plain ints, where NumPy's
    "advanced index" placement rules differ); anything else is `none` (the generator does not
    emit it). -/
def resolveIndex (s : Shape) (sels : List Sel) : Option (List RSel) := do
  let nEll := (sels.filter (· == .ellipsis)).length
  let nList := (sels.filter (fun x => match x with | .list _ => true | _ => false)).length
  let nInt := (sels.filter (fun x => match x with | .int _ => true | _ => false)).length
  if nEll > 1 || nList > 1 || (nList = 1 && nInt > 0) then none
  let consuming := (sels.filter (fun x => x != .ellipsis && x != .newaxis)).length
  if consuming > s.length then none
  let fill := s.length - consuming
  let expanded : List Sel :=
    if nEll = 1 then sels.flatMap (fun x => if x == .ellipsis then List.replicate fill (.slice none none 1) else [x])
    else sels ++ List.replicate fill (.slice none none 1)
  let rec go : List Sel → Shape → Option (List RSel)
    | [], _ => some []
    | .newaxis :: r, sh => (go r sh).map (RSel.new :: ·)
    | .int k :: r, n :: sh => do
      let k' ← normAxis n k
      (go r sh).map (RSel.fixed k' :: ·)
    | .slice a b st :: r, n :: sh => do
      let (s0, cnt) ← sliceIndices n a b st
      (go r sh).map (RSel.range s0 cnt st :: ·)
    | .list ks :: r, n :: sh => do
      let ks' ← ks.mapM (normAxis n)
      (go r sh).map (RSel.pick ks' :: ·)
    | _, _ => none
  go expanded s

def indexShape (rs : List RSel) : Shape :=
  rs.filterMap (fun r => match r with
    | .fixed _ => none | .range _ c _ => some c | .new => some 1 | .pick ks => some ks.length)

/-- input index selected by output index `j` -/
def indexMap (rs : List RSel) (j : Idx) : Idx :=
  (rs.foldl (fun (acc : Idx × Idx) r => match r with
    | .fixed k => (acc.1 ++ [k], acc.2)
    | .range s0 _ st => (acc.1 ++ [(s0 + st * (acc.2.headD 0 : Nat)).toNat], acc.2.drop 1)
    | .new => (acc.1, acc.2.drop 1)
    | .pick ks => (acc.1 ++ [ks.getD (acc.2.headD 0) 0], acc.2.drop 1)) (([] : Idx), j)).1

/-! ### joining and splitting -/
section
variable [Zero α]

/-- `np.concatenate(xs, axis)` -/
def concatenate (xs : List (NDArray α)) (axis : Int) : Option (NDArray α) := do
  let x0 ← xs.head?
  let a ← normAxis x0.shape.length axis
  if !(xs.all (fun x => x.shape.length == x0.shape.length &&
        (dropAxes x.shape [a]) == (dropAxes x0.shape [a]))) then none
  let total := (xs.map (fun x => x.shape.getD a 0)).sum
  let outShape := x0.shape.zipIdx.map (fun (n, k) => if k = a then total else n)
  pure (ofFn outShape (fun j =>
    let t := getI j a
    let rec find : List (NDArray α) → Nat → α
      | [], _ => 0
      | x :: r, off =>
        let n := x.shape.getD a 0
        if t < off + n then x.get (j.zipIdx.map (fun (v, k) => if k = a then t - off else v))
        else find r (off + n)
    find xs 0))

/-- the slice `a[..., k, ...]` along `axis` (axis removed) -/
def take (x : NDArray α) (axis k : Nat) : NDArray α :=
  gather (dropAxes x.shape [axis]) (fun j => insertAt j axis k) x

/-- `np.stack(xs, axis)`: all shapes equal; axis is normalised against rank + 1 -/
def stack (xs : List (NDArray α)) (axis : Int) : Option (NDArray α) := do
  let x0 ← xs.head?
  let a ← normAxis (x0.shape.length + 1) axis
  if !(xs.all (fun x => x.shape == x0.shape)) then none
  pure (ofFn (insertAt x0.shape a xs.length) (fun j =>
    match xs[getI j a]? with
    | some x => x.get (dropAxes j [a])
    | none => 0))

/-- iterating `np.rollaxis(a, axis)`: the slices along `axis` -/
def unbind (x : NDArray α) (axis : Int) : Option (List (NDArray α)) := do
  let a ← normAxis x.shape.length axis
  pure ((List.range (x.shape.getD a 0)).map (take x a))
end

/-! ### matrix product with batch broadcasting -/
section
variable [Zero α] [Add α] [Mul α]

/-- `a @ b` for operands of rank ≥ 2 -/
def matmul (a b : NDArray α) : Option (NDArray α) := do
  let ra := a.shape.length
  let rb := b.shape.length
  if ra < 2 || rb < 2 then none
  let n := a.shape.getD (ra - 2) 0
  let k := a.shape.getD (ra - 1) 0
  let k' := b.shape.getD (rb - 2) 0
  let m := b.shape.getD (rb - 1) 0
  if k ≠ k' then none
  let ba := a.shape.take (ra - 2)
  let bb := b.shape.take (rb - 2)
  let batch ← broadcastShapes ba bb
  pure (ofFn (batch ++ [n, m]) (fun j =>
    let jb := j.take batch.length
    let i := getI j batch.length
    let l := getI j (batch.length + 1)
    ((List.range k).map (fun t =>
      a.get (bcastIdx ba jb ++ [i, t]) * b.get (bcastIdx bb jb ++ [t, l]))).sum))
end

end Synap.Np
