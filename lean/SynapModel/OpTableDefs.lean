/-!
# Record types of the tables that `harness/extract.py` regenerates from the source, the
hand-written catalogue they are judged against, and the (decidable) well-formedness predicate.
-/
namespace Synap.OpTable

inductive AccOp where
  | iadd      -- `x._grad += …`
  | assign    -- `x._grad = …`
  | other
deriving Repr, DecidableEq

/-- one statement of a `backward` closure that writes a gradient buffer -/
structure BwStmt where
  target : String        -- operand name (`*` = every element of a list operand)
  op : AccOp
  guardedByOwnFlag : Bool   -- under `if <target>.requires_grad`
  presenceGuard : Bool      -- additionally under `<target>` / `<target> is not None`
  foreignGuard : Bool       -- under a condition on something else
deriving Repr, DecidableEq

structure OpRec where
  name : String
  operands : List String        -- tensor operands in `children=` order
  optional : List String        -- those that may be absent (bias, affine parameters)
  childrenAreOperands : Bool    -- `children=` is exactly the operand tuple
  reqGradIsAny : Bool           -- `requires_grad=any(operand.requires_grad)`
  gradFnGuarded : Bool          -- `grad_fn` attached only under `if out.requires_grad`
  hasBackward : Bool
  stmts : List BwStmt
deriving Repr, DecidableEq

structure RandomSite where
  file : String
  line : Nat
  callee : String
  seeded : Bool
  membershipOnly : Bool   -- the value only enters a set-membership test / insertion
deriving Repr, DecidableEq

/-- a place in the source where state can outlive a call: a module-level or class-level mutable object, a mutable
    default argument, a memoising decorator, a `global` statement -/
structure PersistentSite where
  file : String
  line : Nat
  kind : String      -- "module" | "class" | "default" | "cache" | "global"
  name : String      -- the variable / `Class.attr` / `function(default)` / function name
deriving Repr, DecidableEq

/-- hand-written catalogue entry: which operands of the op are differentiable (must receive a
    gradient); everything else (integer labels, running statistics) must never be written -/
structure CatEntry where
  name : String
  differentiable : List String
deriving Repr, DecidableEq

def catalogue : List CatEntry := [
  ⟨"add", ["x1", "x2"]⟩, ⟨"mul", ["x1", "x2"]⟩, ⟨"matmul", ["x1", "x2"]⟩, ⟨"addmm", ["x1", "x2", "x3"]⟩,
  ⟨"pow", ["x"]⟩, ⟨"rpow", ["x"]⟩, ⟨"neg", ["x"]⟩, ⟨"slice", ["x"]⟩,
  ⟨"concat", ["*"]⟩, ⟨"stack", ["*"]⟩, ⟨"unbind", ["x"]⟩,
  ⟨"clone", ["x"]⟩, ⟨"exp", ["x"]⟩, ⟨"log", ["x"]⟩, ⟨"sqrt", ["x"]⟩,
  ⟨"sum", ["x"]⟩, ⟨"mean", ["x"]⟩, ⟨"max", ["x"]⟩, ⟨"min", ["x"]⟩,
  ⟨"squeeze", ["x"]⟩, ⟨"unsqueeze", ["x"]⟩, ⟨"reshape", ["x"]⟩, ⟨"movedim", ["x"]⟩,
  ⟨"transpose", ["x"]⟩, ⟨"flatten", ["x"]⟩, ⟨"unfold_dim", ["x"]⟩,
  ⟨"relu", ["x"]⟩, ⟨"leaky_relu", ["x"]⟩, ⟨"selu", ["x"]⟩, ⟨"tanh", ["x"]⟩, ⟨"sigmoid", ["x"]⟩,
  ⟨"softmax", ["x"]⟩, ⟨"log_softmax", ["x"]⟩,
  ⟨"mse_loss", ["y_pred", "y_true"]⟩, ⟨"nll_loss", ["y_pred"]⟩, ⟨"binary_cross_entropy", ["y_pred"]⟩,
  ⟨"binary_cross_entropy_with_logits", ["y_pred"]⟩, ⟨"cross_entropy", ["y_pred"]⟩,
  ⟨"linear", ["x", "weight", "bias"]⟩,
  ⟨"max_pool1d", ["x"]⟩, ⟨"max_pool2d", ["x"]⟩, ⟨"avg_pool1d", ["x"]⟩, ⟨"avg_pool2d", ["x"]⟩,
  ⟨"unfold", ["x"]⟩, ⟨"fold", ["x"]⟩,
  ⟨"conv1d", ["x", "weight", "bias"]⟩, ⟨"conv2d", ["x", "weight", "bias"]⟩,
  ⟨"batch_norm", ["x", "weight", "bias"]⟩
]

def findCat (name : String) : Option CatEntry := catalogue.find? (·.name == name)

/-- the wrapper `r` has the structure the engine theorems assume:
    children = exactly the tensor operands; result flag = any operand flag; `grad_fn` attached iff
    the result requires grad; every differentiable operand is accumulated with `+=`, exactly once,
    under its own `requires_grad` guard (plus a presence guard exactly when it is optional), under
    no foreign condition; no other tensor's buffer is written. -/
def wellFormed (r : OpRec) : Bool :=
  match findCat r.name with
  | none => false
  | some c =>
    r.childrenAreOperands && r.reqGradIsAny && r.gradFnGuarded && r.hasBackward &&
    c.differentiable.all (fun d =>
      (r.stmts.filter (·.target == d)).length == 1 &&
      r.stmts.all (fun s => s.target != d ||
        (s.op == .iadd && s.guardedByOwnFlag && !s.foreignGuard && (s.presenceGuard == r.optional.contains d)))) &&
    r.stmts.all (fun s => c.differentiable.contains s.target) &&
    c.differentiable.all (fun d => r.operands.contains d)

/-- the extracted table and the catalogue name the same ops -/
def sameNames (t : List OpRec) : Bool :=
  t.all (fun r => (findCat r.name).isSome) && catalogue.all (fun c => t.any (·.name == c.name)) &&
  (t.map (·.name)).eraseDups.length == t.length

/-- randomness may only come from the generators `manual_seed` seeds -/
def siteOk (s : RandomSite) : Bool := s.seeded || (s.callee == "id" && s.membershipOnly)

/-- the process-wide state the library is documented to have: the two engine flags (set by the context managers, which
    restore them — C07), the lazily resolved circular imports, and one read-only default list in a plotting helper -/
def allowedPersistent : List (String × String × String) := [
  ("synapgrad/tensor.py", "global", "gradient__"),
  ("synapgrad/tensor.py", "global", "retain_grads__"),
  ("synapgrad/tensor.py", "global", "F"),
  ("synapgrad/tensor.py", "global", "autograd"),
  ("synapgrad/tensor.py", "global", "utils"),
  ("synapgrad/nn/utils/train.py", "default", "plot(['loss'])")]

def persistentOk (s : PersistentSite) : Bool := allowedPersistent.contains (s.file, s.kind, s.name)

end Synap.OpTable
