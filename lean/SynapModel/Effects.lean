/-!
# Effect programs of the NumPy kernels and a flow-insensitive may-alias analysis (C11, stage 2)

`harness/effects.py` translates every top-level function of `synapgrad/cpu_ops.py` and
`synapgrad/conv_tools.py` into a `Kernel`: a *set* of abstract statements over numbered variables.

* Variables `0 … nparams-1` are the parameters that can hold an array; further numbers are locals
  (and the locals of inlined callees, nested functions and comprehensions).
* `assign v fresh`          — `v = <expression whose outermost operation allocates>`
* `assign v (alias srcs)`   — `v = <expression whose value may share memory with one of srcs>`
  (names, slices, `.T`, `reshape`, `np.asarray`, tuples of arrays, conditional expressions, …)
* `write v`                 — the statement may change the contents of the memory `v` refers to
  (`v += …`, `v[i] = …`, `out=v`, `np.add.at(v, …)`, `v.fill(…)`, …)

The order of the statements, the branches and the loops of the Python function are forgotten:
the semantics below lets the statements of the body run in **any order, any number of times**
(`Trace`), which over-approximates every control flow of the function.  The analysis computes for
every variable the set of parameters whose *entry* buffer it may refer to (`solve`) and `safe`
says that no `write` goes through a variable that may refer to a protected parameter's buffer.
The soundness theorem is `Proofs.Effects.safe_sound` (Proofs/EffectsSound.lean).

Core Lean only (no Mathlib).
-/
namespace Synap.Effects

/-! ### Abstract programs -/

inductive Rhs where
  | fresh                       -- a newly allocated array
  | alias (srcs : List Nat)     -- may share memory with any one of `srcs` (or be new)
deriving Repr, DecidableEq

inductive Stmt where
  | assign (v : Nat) (rhs : Rhs)
  | write (v : Nat)
deriving Repr, DecidableEq

structure Kernel where
  name : String
  file : String
  line : Nat
  /-- variables `0 … nparams-1` are the array-valued parameters -/
  nparams : Nat
  /-- the parameters the function must not modify -/
  protectedParams : List Nat
  /-- the variable that holds the result (the array of the result for tensor-valued functions) -/
  ret : Nat
  body : List Stmt
deriving Repr

/-! ### Flow-insensitive may-alias analysis

The points-to map records, for every variable `v`, the parameters ("roots") whose *entry* buffer
`v` may refer to.  It is one natural number: bit `v * nparams + p` says "`v` may refer to the
entry buffer of parameter `p`" (row `v` = the `nparams` bits starting at `v * nparams`).  A single
number rather than a list of lists because the kernel evaluates `Nat` bit operations natively
(`decide +kernel` over the whole table: 13 s with lists, about 1 s with bits).  Every assignment is
a weak update (rows only grow). -/

abbrev Pts := Nat

/-- `v` may refer to the entry buffer of parameter `p` -/
def hasRoot (np : Nat) (pts : Pts) (v p : Nat) : Bool := pts.testBit (v * np + p)

/-- the roots of `v` as a bit mask -/
def row (np : Nat) (pts : Pts) (v : Nat) : Nat := (pts >>> (v * np)) % 2 ^ np

/-- the roots reachable through any of the source variables -/
def srcRoots (np : Nat) (pts : Pts) (srcs : List Nat) : Nat :=
  srcs.foldl (fun acc u => acc ||| row np pts u) 0

def stepStmt (np : Nat) (pts : Pts) : Stmt → Pts
  | .assign v (.alias srcs) => pts ||| (srcRoots np pts srcs <<< (v * np))
  | _ => pts

/-- one pass over the body -/
def pass (np : Nat) (pts : Pts) (body : List Stmt) : Pts := body.foldl (stepStmt np) pts

def closedStmt (np : Nat) (pts : Pts) : Stmt → Bool
  | .assign v (.alias srcs) => srcs.all (fun u => (row np pts u ||| row np pts v) == row np pts v)
  | _ => true

/-- `pts` is a post-fixpoint: every parameter is its own root and every `alias` assignment is
    accounted for.  This (not the way `pts` was computed) is what soundness rests on. -/
def closed (nparams : Nat) (pts : Pts) (body : List Stmt) : Bool :=
  (List.range nparams).all (fun p => hasRoot nparams pts p p) && body.all (closedStmt nparams pts)

def initPts (np : Nat) : Pts := (List.range np).foldl (fun acc p => acc ||| 1 <<< (p * np + p)) 0

def iterate (nparams : Nat) (body : List Stmt) : Nat → Pts → Pts
  | 0, pts => pts
  | fuel + 1, pts =>
    let next := pass nparams pts body
    if next == pts then pts else iterate nparams body fuel next

def solve (k : Kernel) : Pts := iterate k.nparams k.body (k.body.length + 1) (initPts k.nparams)

/-- no `write` goes through a variable that may refer to a protected parameter's buffer -/
def writesOk (np : Nat) (pts : Pts) (prot : List Nat) (body : List Stmt) : Bool :=
  body.all fun
    | .write v => (List.range np).all (fun p => !(hasRoot np pts v p && prot.contains p))
    | _ => true

/-- the judgement that `decide` evaluates for every kernel of the generated table -/
def safe (k : Kernel) : Bool :=
  closed k.nparams (solve k) k.body && writesOk k.nparams (solve k) k.protectedParams k.body

/-- every parameter is protected (there is no output parameter) -/
def allProtected (k : Kernel) : Bool :=
  (List.range k.nparams).all (fun p => k.protectedParams.contains p)

/-- the result variable can refer to no buffer that existed on entry: the function returns
    storage independent of everything it was given (`clone`, `detach`) -/
def returnsFresh (k : Kernel) : Bool :=
  closed k.nparams (solve k) k.body && row k.nparams (solve k) k.ret == 0

/-- the parameters whose entry buffer the result may share (diagnostics: which results are views) -/
def resultRoots (k : Kernel) : List Nat :=
  (List.range k.nparams).filter (fun p => hasRoot k.nparams (solve k) k.ret p)

/-! ### Concrete semantics with aliasing

Buffers have identities (`Nat`); `env` binds variables to buffer identities, so two variables —
in particular two *parameters* — may be bound to the same buffer (operands that are views of one
another).  `mem` gives the contents of every buffer.  Identities `≥ next` have not been handed out. -/

structure State where
  next : Nat
  env : Nat → Option Nat
  mem : Nat → List Int

def upd {β : Type} (f : Nat → β) (a : Nat) (b : β) : Nat → β := fun x => if x = a then b else f x

/-- bind `v` to a brand-new buffer holding `c` -/
def State.alloc (s : State) (v : Nat) (c : List Int) : State :=
  ⟨s.next + 1, upd s.env v (some s.next), upd s.mem s.next c⟩

/-- One step: *any* statement of the body (membership, not position) with *any* oracle choice:
    the contents of a new buffer, which source an `alias` picks (or a new buffer), the new contents
    written by a `write`. -/
inductive Step (body : List Stmt) : State → State → Prop
  | fresh (s : State) (v : Nat) (c : List Int) :
      Stmt.assign v .fresh ∈ body → Step body s (s.alloc v c)
  | aliasNew (s : State) (v : Nat) (srcs : List Nat) (c : List Int) :
      Stmt.assign v (.alias srcs) ∈ body → Step body s (s.alloc v c)
  | aliasSrc (s : State) (v : Nat) (srcs : List Nat) (u b : Nat) :
      Stmt.assign v (.alias srcs) ∈ body → u ∈ srcs → s.env u = some b →
      Step body s ⟨s.next, upd s.env v (some b), s.mem⟩
  | write (s : State) (v b : Nat) (c : List Int) :
      Stmt.write v ∈ body → s.env v = some b →
      Step body s ⟨s.next, s.env, upd s.mem b c⟩

/-- any finite sequence of steps: every order and every repetition of the statements, hence every
    path through the branches and loops of the translated function -/
inductive Trace (body : List Stmt) : State → State → Prop
  | done (s : State) : Trace body s s
  | step {s t u : State} : Step body s t → Trace body t u → Trace body s u

/-- the state in which a kernel is entered: only parameters are bound (a parameter may be unbound:
    an argument that is `None`), to buffers that exist; nothing is said about *which* buffers, so
    parameters may alias one another -/
structure Entry (k : Kernel) (s : State) : Prop where
  onlyParams : ∀ v b, s.env v = some b → v < k.nparams
  allocated : ∀ v b, s.env v = some b → b < s.next

/-- no protected parameter shares its buffer with an unprotected (output) parameter; vacuous when
    every parameter is protected -/
def Separated (k : Kernel) (s : State) : Prop :=
  ∀ p ∈ k.protectedParams, ∀ q b, s.env p = some b → s.env q = some b → q ∈ k.protectedParams

end Synap.Effects
