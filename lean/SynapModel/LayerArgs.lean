import SynapModel.Kernels.NN
/-!
# synapgrad/nn/layers.py : argument normalisation of the geometry-carrying layers

`int`-or-`tuple` arguments are broadcast to one value per spatial axis; pooling layers default
their stride to the kernel size; convolutions accept `padding='valid'` (0) and `padding='same'`
(stride 1, `dilation·(kernel−1)/2` per axis, rejected when that is not an integer).
-/
namespace Synap.LayerArgs
open Synap.Kernels

inductive IT where
  | int (n : Nat)
  | pair (a b : Nat)
deriving Repr, DecidableEq

def IT.bc : IT → Nat × Nat
  | .int n => (n, n)
  | .pair a b => (a, b)

inductive Pad where
  | same | valid | it (v : IT)
deriving Repr, DecidableEq

structure Geo2 where
  k : Nat × Nat
  s : Nat × Nat
  p : Nat × Nat
  d : Nat × Nat
deriving Repr, DecidableEq

/-- `Conv2d.__init__` -/
def conv2dArgs (k s : IT) (p : Pad) (d : IT) : Option Geo2 :=
  let k := k.bc; let s := s.bc; let d := d.bc
  match p with
  | .valid => some ⟨k, s, (0, 0), d⟩
  | .it v => some ⟨k, s, v.bc, d⟩
  | .same =>
    if s ≠ (1, 1) then none
    else if (d.1 * (k.1 - 1)) % 2 ≠ 0 ∨ (d.2 * (k.2 - 1)) % 2 ≠ 0 then none
    else some ⟨k, s, ((d.1 * (k.1 - 1)) / 2, (d.2 * (k.2 - 1)) / 2), d⟩

/-- `Conv1d.__init__` (all arguments ints) : (k, s, p, d) -/
def conv1dArgs (k s : Nat) (p : Option (Option Nat)) (d : Nat) : Option (Nat × Nat × Nat × Nat) :=
  match p with
  | some (some v) => some (k, s, v, d)          -- an int
  | some none => some (k, s, 0, d)              -- 'valid'
  | none =>                                     -- 'same'
    if s ≠ 1 then none else if (d * (k - 1)) % 2 ≠ 0 then none else some (k, s, (d * (k - 1)) / 2, d)

/-- `MaxPool2d / AvgPool2d.__init__`: stride defaults to the kernel size -/
def pool2dArgs (k : IT) (s : Option IT) (p d : IT) : Geo2 :=
  ⟨k.bc, (match s with | some v => v.bc | none => k.bc), p.bc, d.bc⟩

def pool1dArgs (k : Nat) (s : Option Nat) (p d : Nat) : Nat × Nat × Nat × Nat := (k, s.getD k, p, d)

/-- output spatial size of a 2-d geometry on an `h × w` input -/
def outSize2 (g : Geo2) (h w : Nat) : Option (Nat × Nat) :=
  match convOut h g.k.1 g.s.1 g.p.1 g.d.1, convOut w g.k.2 g.s.2 g.p.2 g.d.2 with
  | some a, some b => some (a, b)
  | _, _ => none

end Synap.LayerArgs
