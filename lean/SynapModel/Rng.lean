/-!
# Randomness: which global generator every random-consuming API draws from, and how much

`manual_seed(s)` seeds NumPy's and Python's global generators.  The model lists, for each API
call, the draws it makes (generator function, number of values), all from the seeded globals.
A *run* threads the generator state through the calls; an environment (hash seed, addresses,
time, number of repetitions) is available to every step and provably ignored.
-/
namespace Synap.Rng

inductive Api where
  | rand (shape : List Nat) | randn (shape : List Nat) | normal (shape : List Nat) | randint (shape : List Nat)
  | initUniform (shape : List Nat) | initNormal (shape : List Nat) | initConst (shape : List Nat)
  | linear (inF outF : Nat) (bias : Bool)
  | conv1d (cin cout k : Nat) (bias : Bool)
  | conv2d (cin cout kh kw : Nat) (bias : Bool)
  | dropout (n : Nat) (training : Bool)
  | split (n : Nat) (shuffle : Bool)
deriving Repr, DecidableEq

def size (s : List Nat) : Nat := s.foldr (· * ·) 1

/-- the draws an API call makes from NumPy's global generator: (function, number of values) -/
def draws : Api → List (String × Nat)
  | .rand s => [("rand", size s)]
  | .randn s => [("randn", size s)]
  | .normal s => [("normal", size s)]
  | .randint s => [("randint", size s)]
  | .initUniform s => [("uniform", size s)]
  | .initNormal s => [("normal", size s)]
  | .initConst _ => []
  | .linear i o b => [("uniform", o * i)] ++ (if b then [("uniform", o)] else [])
  | .conv1d ci co k b => [("uniform", co * ci * k)] ++ (if b then [("uniform", co)] else [])
  | .conv2d ci co kh kw b => [("uniform", co * ci * kh * kw)] ++ (if b then [("uniform", co)] else [])
  | .dropout n tr => if tr then [("rand", n)] else []
  | .split n sh => if sh then [("shuffle", n)] else []

/-- the generator functions `manual_seed` makes deterministic -/
def seededFns : List String := ["rand", "randn", "normal", "randint", "uniform", "shuffle"]

/-! ### abstract non-interference -/
variable {σ ε ω : Type}

/-- a step may look at the seeded state and at the environment -/
abbrev Step (σ ε ω : Type) := σ → ε → ω × σ

def run (steps : List (Step σ ε ω)) (s : σ) (e : ε) : List ω × σ :=
  steps.foldl (fun (acc : List ω × σ) st => let (o, s') := st acc.2 e; (acc.1 ++ [o], s')) ([], s)

/-- the step ignores the environment -/
def EnvFree (st : Step σ ε ω) : Prop := ∀ s e e', st s e = st s e'

end Synap.Rng
