import SynapModel.Modules
import SynapModel.Kernels.NN
/-!
# synapgrad/nn/modules.py `Sequential.forward`, synapgrad/nn/layers.py `Linear` / `Neuron` : forward passes (C14)

`Modules.lean` keeps the registries only; this file adds the two forward passes the property C14 names, line by
line after the Python code.  A module call may raise (`none`) and may change state the caller threads through
(autograd graph, batch-norm statistics, dropout draws): `σ` is that state, `τ` the tensor handle.
-/
namespace Synap.ModuleFwd
open Synap.Modules Synap.Kernels

/-- `Sequential.forward`:
    ```
    inp = x
    out = x
    for module in self.submodules():      # list(self._submodules.values())  =  `applyOrder`
        out = module(inp)
        inp = out
    return out
    ```
    `call k` is `__call__` of the module with id `k`.  The loop carries `(state, inp, out)`; an exception inside a
    member aborts the loop. -/
def sequentialForward {σ τ : Type} (call : Nat → σ → τ → Option (σ × τ)) (w : World) (m : Nat) (st : σ) (x : τ) :
    Option (σ × τ) :=
  let inp := x
  let out := x
  let r := (applyOrder w m).foldl (fun (acc : Option (σ × τ × τ)) k =>
      match acc with
      | none => none
      | some (st, inp, _) =>
        match call k st inp with
        | none => none
        | some (st', out) => some (st', out, out))        -- out = module(inp); inp = out
    (some (st, inp, out))
  r.map (fun (st, _, out) => (st, out))

variable {α : Type}

/-- the attributes of an `nn.Linear` object that `forward` reads -/
structure Linear (α : Type) where
  inFeatures : Nat
  outFeatures : Nat
  /-- `weight`, shape `(out_features, in_features)` -/
  weight : NDArray α
  /-- `bias`, shape `(out_features,)`, or `None` -/
  bias : Option (NDArray α)

/-- `Linear.__init__(in_features, out_features, bias)`; `wv`, `bv` are the values `reset_parameters` leaves in the
    two freshly allocated buffers (the draws themselves are the subject of C17) -/
def Linear.init (inF outF : Nat) (bias : Bool) (wv bv : List α) : Linear α :=
  { inFeatures := inF, outFeatures := outF, weight := ⟨[outF, inF], wv⟩,
    bias := if bias then some ⟨[outF], bv⟩ else none }

/-- `Neuron.__init__(in_features, bias)` : `super().__init__(in_features, 1, bias=bias)` -/
def Neuron.init (inF : Nat) (bias : Bool) (wv bv : List α) : Linear α := Linear.init inF 1 bias wv bv

section
variable [Zero α] [Add α] [Mul α]

/-- `Linear.forward` (inherited unchanged by `Neuron`):
    ```
    assert x.shape[1] == self.in_features
    return F.linear(x, self.weight, self.bias)
    ``` -/
def Linear.forward (L : Linear α) (x : NDArray α) : Option (NDArray α) :=
  match x.shape[1]? with
  | none => none                                   -- IndexError
  | some d => if d = L.inFeatures then linearForward x L.weight L.bias else none     -- AssertionError

/-- `Neuron` defines no `forward` of its own: the method resolution finds `Linear.forward` -/
def Neuron.forward (L : Linear α) (x : NDArray α) : Option (NDArray α) := Linear.forward L x
end

end Synap.ModuleFwd
