import SynapModel.Optim
/-!
# synapgrad/nn/layers.py : BatchNorm and Dropout over call histories (C13)

Batch normalisation acts on every channel separately; the model keeps, per channel, the running
mean and variance, plus the layer-wide `num_batches_tracked` and `training` flag.  A batch is
presented channel-wise: `xs[c]` lists the `n = N·∏rest` values of channel `c`.
-/
namespace Synap.Layers
open Synap.Optim (HasSqrt)

section
variable {α : Type} [Add α] [Sub α] [Mul α] [Div α] [Zero α] [One α] [NatCast α] [HasSqrt α]

structure BNCfg (α : Type) where
  momentum : Option α
  eps : α
  track : Bool          -- track_running_stats
deriving Repr

structure BNState (α : Type) where
  rm : List α           -- running_mean   (per channel)
  rv : List α           -- running_var
  gamma : Option (List α)
  beta : Option (List α)
  nbt : Nat             -- num_batches_tracked
  training : Bool
deriving Repr

def mean (xs : List α) : α := xs.sum / (xs.length : α)
/-- biased variance (`np.var`) -/
def var (xs : List α) : α := let m := mean xs; (xs.map (fun x => (x - m) * (x - m))).sum / (xs.length : α)

/-- `BatchNorm.__init__` -/
def bnInit (c : BNCfg α) (channels : Nat) (affine : Bool) : BNState α :=
  { rm := List.replicate channels 0, rv := List.replicate channels 1,
    gamma := if affine then some (List.replicate channels 1) else none,
    beta := if affine then some (List.replicate channels 0) else none,
    nbt := 0, training := true }

/-- what the layer owns after `BatchNorm1d(...)` / `BatchNorm2d(...)` with these options, whichever way the call spells them
    (positionally or by keyword): `weight` and `bias` exist iff `affine`, `running_mean` and `running_var` iff
    `track_running_stats`; the number of learnable parameters -/
structure BNOwns where
  weight : Bool
  bias : Bool
  runningMean : Bool
  runningVar : Bool
  params : Nat
deriving Repr, DecidableEq

def bnOwns (c : BNCfg α) (s : BNState α) : BNOwns :=
  { weight := s.gamma.isSome, bias := s.beta.isSome, runningMean := c.track, runningVar := c.track,
    params := (if s.gamma.isSome then 1 else 0) + (if s.beta.isSome then 1 else 0) }

/-- normalise one channel with the given statistics and optional affine parameters -/
def normalise (eps : α) (m v : α) (g b : Option α) (xs : List α) : List α :=
  xs.map (fun x =>
    let y := (x - m) / HasSqrt.sqrt (v + eps)
    let y := match g with | some g => y * g | none => y
    match b with | some b => y + b | none => y)

/-- the averaging factor `BatchNorm.forward` hands to `F.batch_norm`, and the new counter -/
def avgFactor (c : BNCfg α) (s : BNState α) : α × Nat :=
  if s.training && c.track then
    let nbt := s.nbt + 1
    (match c.momentum with | none => 1 / (nbt : α) | some m => m, nbt)
  else ((match c.momentum with | none => 0 | some m => m), s.nbt)

/-- one forward call.  The output is `none` when the call is rejected (batch statistics over a
    single value per channel); as in the code (and in PyTorch) the counter has already been
    advanced by then, so the state is returned in both cases. -/
def bnForward (c : BNCfg α) (s : BNState α) (xs : List (List α)) : Option (List (List α)) × BNState α :=
  let (f, nbt) := avgFactor c s
  let useBatch := s.training || !c.track      -- `bn_training`
  let n := (xs.head?.map List.length).getD 0
  if useBatch && n ≤ 1 then (none, { s with nbt := nbt })
  else
    let chan := fun (k : Nat) (x : List α) =>
      let m := if useBatch then mean x else s.rm.getD k 0
      let v := if useBatch then var x else s.rv.getD k 1
      (normalise c.eps m v (s.gamma.map (·.getD k 1)) (s.beta.map (·.getD k 0)) x, m, v)
    let r := xs.zipIdx.map (fun (x, k) => chan k x)
    let upd := s.training && c.track
    let nn : α := (n : α)
    let rm' := if upd then r.zipIdx.map (fun ((_, m, _), k) => m * f + s.rm.getD k 0 * (1 - f)) else s.rm
    let rv' := if upd then r.zipIdx.map (fun ((_, _, v), k) => (v * (nn / (nn - 1))) * f + s.rv.getD k 1 * (1 - f)) else s.rv
    (some (r.map (·.1)), { s with rm := rm', rv := rv', nbt := nbt })

/-! ### Dropout -/
variable [LE α] [DecidableLE α] [LT α] [DecidableLT α]

/-- the mask `Dropout.forward` builds from the uniform draws `us` -/
def dropMask (p : α) (us : List α) : List α :=
  us.map (fun u =>
    let keep : α := if u ≤ p then 0 else 1
    if p < 1 then keep / (1 - p) else keep)

/-- `Dropout.forward`: identity in eval mode, `x * mask` in training mode -/
def dropout (p : α) (training : Bool) (xs us : List α) : List α :=
  if training then List.zipWith (· * ·) xs (dropMask p us) else xs

/-- gradient of the training-mode forward w.r.t. `x` for upstream `g`: the same mask -/
def dropoutBackward (p : α) (gs us : List α) : List α := List.zipWith (· * ·) gs (dropMask p us)

end
end Synap.Layers
