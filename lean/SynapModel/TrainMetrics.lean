import SynapModel.Train
/-!
# synapgrad/nn/utils/train.py : the VALUES — `Evaluator` as a state machine and the history of `fit`

`Train.lean` carries the event trace and the shape of the history.  This file carries what the
history *contains*: the evaluator's `int16` buffers, `step` / `compute` / `reset`, the metric
list built by `Evaluator.__compute` (accuracy, then callback metrics, then the prefix), the
running loss of `Trainer.__train` / `__validate`, and `record_metrics`.

Everything is exact: model outputs are rows of integers (scores multiplied by a common positive
`scale`, so `output > 0.5` is `2 * score > scale`), losses are rationals (`Rat`, in core).

Quirks of the code that are mirrored here (line numbers of train.py):

* l.47-50 every axis of extent 1 EXCEPT the batch axis is dropped (fix a611d24; before it `.squeeze()` also dropped
  the batch axis and a batch of one sample raised in every mode — finding F-C20-1).  A batch of any size, one
  sample included, goes through.  What still raises (`wellShaped` = `false`, `evStep` = `none`):
  a single (or no) score column in the arg-max modes (`(N,1)` becomes `(N,)`, `np.argmax(axis=1)`: AxisError; `(N,0)`:
  ValueError), likewise a single / no label column in categorical mode; in binary mode an output with a number of
  columns other than one, and in binary / multi-class mode a label with a number of columns other than one
  (the decoded array stays 2-D and `np.concatenate` with the 1-D buffer raises).  `none` says "the call raises";
  what the buffers hold afterwards is not modelled (binary output with several columns: `y_true` has already
  been extended when `y_pred` fails).
* a `Sample` pairs a label with its output row: a call with a different number of labels and output rows is
  outside the model (the code then leaves buffers of different lengths, and raises only if the comparison
  `y_true == y_pred` cannot broadcast and accuracy is enabled).
* l.64-65 the decoded labels are stored as `int16` (`wrap16`).
* l.75 accuracy of an empty buffer is `0 / 0`: NumPy returns `nan` (with a RuntimeWarning), it does
  not raise.  `MVal.frac 0 0`; `MVal.toRat?` is `none` exactly there.
* l.140-144 `record_metrics` appends to `history[k]` once per *pair*: a callback metric that is named
  like another metric of the same epoch ("loss", "accuracy", "val_…") lands in the same list;
  the `assert` rejects a metric value that is not a floating-point number.
* l.172/188 and l.198/207 `i` is unbound for a loader with no batches (`none`).
* l.135-166 `fit` never resets the evaluator: whatever it had accumulated before `fit` is counted in
  the first epoch (`fitHist` takes the evaluator's state as an argument).
-/
namespace Synap.Train

inductive Mode where
  | binary | multiClass | categorical
deriving DecidableEq, Repr

/-- one sample as the evaluator receives it: the entries of its label (one entry, or a one-hot
    row in categorical mode) and the entries of its output row (one entry in binary mode), all
    as integers on the common `scale` -/
structure Sample where
  label : List Int
  score : List Int
deriving DecidableEq, Repr

/-- `.astype(np.int16)` of an integer -/
def wrap16 (x : Int) : Int := (x + 32768) % 65536 - 32768

/-- l.52 / l.55 / l.58 : the decoded prediction -/
def decodePred (mode : Mode) (scale : Nat) (s : Sample) : Int :=
  match mode with
  | .binary => if 2 * s.score.headD 0 > (scale : Int) then 1 else 0
  | .multiClass => (argmax s.score : Nat)
  | .categorical => (argmax s.score : Nat)

/-- l.53 / l.56 / l.59 : the decoded label -/
def decodeTrue (mode : Mode) (s : Sample) : Int :=
  match mode with
  | .binary => s.label.headD 0
  | .multiClass => s.label.headD 0
  | .categorical => (argmax s.label : Nat)

/-- a value in a metric list -/
inductive MVal where
  /-- `(y_true == y_pred).sum() / len(y_true)`; `frac 0 0` is NumPy's `0 / 0 = nan` -/
  | frac (correct total : Nat)
  /-- an exact rational (epoch loss) -/
  | num (q : Rat)
  /-- a value produced by a user callback, passed through untouched; `floating = false` models a
      value that is not a float (the `assert` of `record_metrics` rejects it) -/
  | cb (v : Int) (floating : Bool)
deriving DecidableEq, Repr

def MVal.toRat? : MVal → Option Rat
  | .frac c t => if t = 0 then none else some ((c : Rat) / (t : Rat))
  | .num q => some q
  | .cb v _ => some (v : Rat)

def MVal.isFloating : MVal → Bool
  | .cb _ f => f
  | _ => true

abbrev Metric := String × MVal
/-- `epoch_callback` / `step_callback` : any function of the two label arrays -/
abbrev Callback := List Int → List Int → List Metric

structure EvCfg where
  accuracy : Bool
  mode : Mode
  scale : Nat
  epochCb : Option Callback
  stepCb : Option Callback

/-- `self.y_true`, `self.y_pred` -/
structure EvState where
  yTrue : List Int
  yPred : List Int
deriving DecidableEq, Repr

def EvState.empty : EvState := ⟨[], []⟩

/-- l.31 `reset` -/
def evReset (_ : EvState) : EvState := EvState.empty

/-- `(y_true == y_pred).sum()` -/
def countEq (yt yp : List Int) : Nat := (List.zipWith (fun a b => if a = b then 1 else 0) yt yp).sum

/-- l.74 `basic_accuracy_callback` -/
def basicAccuracy (yt yp : List Int) : List Metric := [("accuracy", .frac (countEq yt yp) yt.length)]

/-- l.94-98 -/
def prefixed (pre : Option String) (ms : List Metric) : List Metric :=
  match pre with
  | none => ms
  | some p => ms.map (fun mv => (p ++ "_" ++ mv.1, mv.2))

/-- l.87 `__compute` -/
def computeMetrics (cfg : EvCfg) (yt yp : List Int) (pre : Option String) (cb : Option Callback) : List Metric :=
  let metrics := (if cfg.accuracy then basicAccuracy yt yp else [])
  let metrics := metrics ++ (match cb with | none => [] | some f => f yt yp)
  prefixed pre metrics

/-- does one sample have the shape l.47-68 need in this mode?  (after the singleton axes other than the batch
    axis are gone: binary — one output and one label entry; multi-class — at least two scores, one label entry;
    categorical — at least two scores and at least two label entries) -/
def wellShaped (mode : Mode) (s : Sample) : Bool :=
  match mode with
  | .binary => decide (s.score.length = 1) && decide (s.label.length = 1)
  | .multiClass => decide (2 ≤ s.score.length) && decide (s.label.length = 1)
  | .categorical => decide (2 ≤ s.score.length) && decide (2 ≤ s.label.length)

/-- do l.47-68 go through for this batch?  Any number of samples (0, 1, …), every one of them well shaped. -/
def stepOk (mode : Mode) (b : List Sample) : Bool := b.all (wellShaped mode)

def batchTrue (cfg : EvCfg) (b : List Sample) : List Int := b.map (fun s => wrap16 (decodeTrue cfg.mode s))
def batchPred (cfg : EvCfg) (b : List Sample) : List Int := b.map (fun s => wrap16 (decodePred cfg.mode cfg.scale s))

/-- l.35 `step` : the new buffers and the metrics of this batch alone -/
def evStep (cfg : EvCfg) (st : EvState) (pre : Option String) (b : List Sample) : Option (EvState × List Metric) :=
  if stepOk cfg.mode b then
    let yt := batchTrue cfg b
    let yp := batchPred cfg b
    some (⟨st.yTrue ++ yt, st.yPred ++ yp⟩, computeMetrics cfg yt yp pre cfg.stepCb)
  else none

/-- l.80 `compute` : metrics over everything accumulated, buffers emptied -/
def evCompute (cfg : EvCfg) (st : EvState) (pre : Option String) : EvState × List Metric :=
  (evReset st, computeMetrics cfg st.yTrue st.yPred pre cfg.epochCb)

/-- a sequence of `step` calls (the per-step metrics dropped) -/
def evSteps (cfg : EvCfg) (pre : Option String) : EvState → List (List Sample) → Option EvState
  | st, [] => some st
  | st, b :: bs => (evStep cfg st pre b).bind (fun r => evSteps cfg pre r.1 bs)

/-! ## `Trainer.fit` with values -/

/-- one batch as `fit` sees it: the loss the criterion returned and the samples handed to the evaluator -/
structure LBatch where
  loss : Rat
  samples : List Sample
deriving Repr

structure EpochData where
  train : List LBatch
  val : List LBatch
deriving Repr

/-- the `for` loop of `__train` (prefix `none`) / `__validate` (prefix `'val'`): the evaluator sees
    every batch, the running loss starts at 0 and grows by `loss.item()` -/
def batchLoop (ev : Option EvCfg) (pre : Option String) : EvState → Rat → List LBatch → Option (EvState × Rat)
  | st, acc, [] => some (st, acc)
  | st, acc, b :: bs =>
    match ev with
    | none => batchLoop ev pre st (acc + b.loss) bs
    | some cfg => (evStep cfg st pre b.samples).bind (fun r => batchLoop ev pre r.1 (acc + b.loss) bs)

/-- l.168 `__train` / l.193 `__validate` : `[(<pre_>loss, running / (i + 1))] + evaluator.compute(pre)` -/
def epochMetrics (ev : Option EvCfg) (pre : Option String) (lossKey : String) (st : EvState) (bs : List LBatch) :
    Option (EvState × List Metric) :=
  match batchLoop ev pre st 0 bs with
  | none => none
  | some (st, running) =>
    if bs.isEmpty then none                       -- `i` is unbound
    else
      let loss := running / (bs.length : Rat)
      match ev with
      | none => some (st, [(lossKey, .num loss)])
      | some cfg => let (st', ms) := evCompute cfg st pre; some (st', [(lossKey, .num loss)] ++ ms)

def trainEpochV (ev : Option EvCfg) := epochMetrics ev none "loss"
def validateV (ev : Option EvCfg) := epochMetrics ev (some "val") "val_loss"

/-- the history dictionary, in insertion order -/
abbrev Hist := List (String × List MVal)

/-- `if dictionary.get(k, False): dictionary[k].append(v) else: dictionary[k] = [v]`
    (a stored list is never empty, so the truth value of `.get` is the presence of the key) -/
def recordOne (h : Hist) (k : String) (v : MVal) : Hist :=
  if h.any (fun e => e.1 == k) then h.map (fun e => if e.1 == k then (e.1, e.2 ++ [v]) else e)
  else h ++ [(k, [v])]

/-- l.140 `record_metrics` : `none` is the failed `assert` -/
def record : Hist → List Metric → Option Hist
  | h, [] => some h
  | h, (k, v) :: ms => if v.isFloating then record (recordOne h k v) ms else none

/-- the list stored under `k` (`[]` when the key is absent) -/
def histGet (h : Hist) (k : String) : List MVal :=
  match h.find? (fun e => e.1 == k) with
  | some e => e.2
  | none => []

/-- one turn of the epoch loop of `fit` -/
def epochV (ev : Option EvCfg) (hasVal : Bool) (st : EvState) (h : Hist) (d : EpochData) : Option (EvState × Hist) :=
  match trainEpochV ev st d.train with
  | none => none
  | some (st, tm) =>
    match record h tm with
    | none => none
    | some h =>
      if hasVal then
        match validateV ev st d.val with
        | none => none
        | some (st, vm) =>
          match record h vm with
          | none => none
          | some h => some (st, h)
      else some (st, h)

def fitV (ev : Option EvCfg) (hasVal : Bool) : EvState → Hist → List EpochData → Option (EvState × Hist)
  | st, h, [] => some (st, h)
  | st, h, d :: ds => (epochV ev hasVal st h d).bind (fun r => fitV ev hasVal r.1 r.2 ds)

/-- **the returned history** of `fit` over `ds.length` epochs whose batches carried the losses and
    samples `ds`, with the evaluator (if any) found in state `st0`; also the state it is left in -/
def fitHist (ev : Option EvCfg) (hasVal : Bool) (st0 : EvState) (ds : List EpochData) : Option (EvState × Hist) :=
  fitV ev hasVal st0 [] ds

/-- l.232 `Trainer.test` : `(y_pred, y_true)` = every sample's output row and label, in loader order -/
def testReturn (batches : List (List Sample)) : List (List Int) × List (List Int) :=
  (batches.flatten.map (·.score), batches.flatten.map (·.label))

/-! ## a `Trainer` / `Evaluator` that is used again

`fit` starts with `self.history = {}` (l.136): the dictionary a call returns is a NEW object that holds what THIS
call recorded, whatever the Trainer did before (earlier `fit` calls with or without a validation loader, `test`,
`compile` again), and the dictionary an earlier call returned is never touched again.  What does cross from one
call to the next is the evaluator object: `fit` never resets it, so it finds what the evaluator had accumulated
(nothing after a `fit` that returned, after `compute` or `reset`).  A session is a list of calls on the objects
`compile` tied together; the evaluator's state is the only thing threaded through it. -/

/-- one call made on a compiled `Trainer` (or directly on its evaluator) -/
inductive Call where
  /-- `trainer.fit(train_loader, len ds, validation_loader if hasVal)` -/
  | fit (hasVal : Bool) (ds : List EpochData)
  /-- `trainer.test(loader)` -/
  | test (batches : List (List Sample))
  /-- `evaluator.step(labels, outputs, prefix)` by the user, between two calls of the trainer -/
  | userStep (pre : Option String) (b : List Sample)
  | userCompute (pre : Option String)
  | userReset

/-- what a call returns -/
inductive Ret where
  | hist (h : Hist)
  | testRet (yPred yTrue : List (List Int))
  | metrics (ms : List Metric)
  | unit

/-- one call: the evaluator's new state and the value returned; `none` when the call raises.  `test` does not look at
    the evaluator (l.232-249); the direct evaluator calls need an evaluator -/
def Call.run (ev : Option EvCfg) (st : EvState) : Call → Option (EvState × Ret)
  | .fit hasVal ds => (fitHist ev hasVal st ds).map (fun r => (r.1, .hist r.2))
  | .test batches => let r := testReturn batches; some (st, .testRet r.1 r.2)
  | .userStep pre b => match ev with
    | none => none
    | some cfg => (evStep cfg st pre b).map (fun r => (r.1, .metrics r.2))
  | .userCompute pre => match ev with
    | none => none
    | some cfg => let r := evCompute cfg st pre; some (r.1, .metrics r.2)
  | .userReset => some (evReset st, .unit)

/-- a session: successive calls on one compiled trainer and its evaluator -/
def session (ev : Option EvCfg) : EvState → List Call → Option (EvState × List Ret)
  | st, [] => some (st, [])
  | st, c :: cs =>
    match c.run ev st with
    | none => none
    | some (st', r) => (session ev st' cs).map (fun p => (p.1, r :: p.2))

/-- successive `fit` calls only (a second training stage on the same compiled trainer) -/
def refits (ev : Option EvCfg) : EvState → List (Bool × List EpochData) → Option (EvState × List Hist)
  | st, [] => some (st, [])
  | st, c :: cs =>
    match fitHist ev c.1 st c.2 with
    | none => none
    | some (st', h) => (refits ev st' cs).map (fun p => (p.1, h :: p.2))

end Synap.Train
