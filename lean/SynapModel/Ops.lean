import SynapModel.Api
import SynapModel.ConvTools
/-!
# The op catalogue of functional.py: forward value + `backward` closure of every wrapper

`evalOp op inputs` returns, for every output tensor of the op, its value and the closure
`backward` of the wrapper: given the output's gradient, one optional contribution per operand
(in the order of `children=`), `none` where the closure has no `+=` for that operand.
-/
namespace Synap.Ops
open Synap NDArray Np Kernels Api

inductive Op (α : Type) where
  | add | mul | matmul | addmm | neg | clone | exp | log | sqrt
  | pow (n : α) | rpow (n : α)
  | slice (sels : List Sel)
  | concat (dim : Int) | stack (dim : Int) | unbind (dim : Int)
  | sum (ax : Axes) (keep : Bool) | mean (ax : Axes) (keep : Bool)
  | max (dim : Option Int) (keep : Bool) | min (dim : Option Int) (keep : Bool)
  | squeeze (ax : Axes) | unsqueeze (axes : List Int)
  | reshape (target : List Int) | movedim (src dst : Int) | transpose (d0 d1 : Int)
  | flatten (startDim endDim : Int) | unfoldDim (dimension size step : Int)
  -- nn/functional.py
  | relu | leakyRelu (slope : α) | selu | tanh | sigmoid | softmax (dim : Int) | logSoftmax (dim : Int)
  | mse | nll (labels : List Nat) | bce | bceLogits | crossEntropy (labels : List Nat)
  | linear (hasBias : Bool)
  | conv1d (hasBias : Bool) (s p d : Nat) | conv2d (hasBias : Bool) (s p d : Nat × Nat)
  | maxPool1d (k s p d : Nat) | avgPool1d (k s p d : Nat)
  | maxPool2d (k s p d : Nat × Nat) | avgPool2d (k s p d : Nat × Nat)
  | unfold (k d s p : Nat × Nat) (pad : α) | fold (outSize k d s p : Nat × Nat)
  /-- `running` = the running statistics handed to `F.batch_norm` (absent when not tracked) -/
  | batchNorm (hasW hasB : Bool) (running : Option (List α × List α)) (training : Bool) (eps : α) (negInf : α)

variable {α : Type} [Zero α] [One α] [Add α] [Sub α] [Mul α] [Div α] [Neg α] [NatCast α]
  [OfScientific α] [LT α] [DecidableLT α] [LE α] [DecidableLE α] [Transc α]

/-- single-operand, single-output op -/
def unary (v : NDArray α) (bw : NDArray α → Option (NDArray α)) : List (OpOut α) :=
  [⟨v, fun g => (bw g).map (fun r => [some r])⟩]

def evalOp (op : Op α) (ins : List (NDArray α)) : Option (List (OpOut α)) :=
  match op, ins with
  | .add, [a, b] => do
    let v ← addForward a b
    pure [⟨v, fun g => let (ga, gb) := addBackward g a.shape b.shape; some [some ga, some gb]⟩]
  | .mul, [a, b] => do
    let v ← mulForward a b
    pure [⟨v, fun g => (mulBackward g a b).map (fun (ga, gb) => [some ga, some gb])⟩]
  | .matmul, [a, b] => do
    let v ← matmulForward a b
    pure [⟨v, fun g => (matmulBackward g a b).map (fun (ga, gb) => [some ga, some gb])⟩]
  | .addmm, [a, b, c] => do
    let v ← addmmForward a b c
    pure [⟨v, fun g => (addmmBackward g a b c).map (fun (ga, gb, gc) => [some ga, some gb, some gc])⟩]
  | .neg, [a] => some (unary (negForward a) (fun g => some (negBackward g)))
  | .clone, [a] => some (unary (cloneForward a) (fun g => some (cloneBackward g)))
  | .exp, [a] => let o := expForward a; some (unary o (fun g => some (expBackward g o)))
  | .log, [a] => some (unary (logForward a) (fun g => some (logBackward g a)))
  | .sqrt, [a] => let o := sqrtForward a; some (unary o (fun g => some (sqrtBackward g o)))
  | .pow n, [a] => some (unary (powForward a n) (fun g => some (powBackward g a n)))
  | .rpow n, [a] => let o := rpowForward a n; some (unary o (fun g => some (rpowBackward g o n)))
  | .slice sels, [a] => do
    let v ← sliceForward a sels
    pure (unary v (fun g => sliceBackward g a.shape sels))
  | .concat dim, xs => do
    let v ← concatForward xs dim
    pure [⟨v, fun g => (concatBackward g (xs.map (·.shape)) dim).map (·.map some)⟩]
  | .stack dim, xs => do
    let v ← stackForward xs dim
    pure [⟨v, fun g => (stackBackward g dim).map (·.map some)⟩]
  | .unbind dim, [a] => do
    let vs ← unbindForward a dim
    pure (vs.zipIdx.map (fun (v, k) => ⟨v, fun g => (unbindBackward g a.shape dim k).map (fun r => [some r])⟩))
  | .sum ax keep, [a] => do
    let v ← sumForward a ax keep
    pure (unary v (fun g => sumBackward g a.shape ax keep))
  | .mean ax keep, [a] => do
    let v ← meanForward a ax keep
    pure (unary v (fun g => meanBackward g a.shape ax keep))
  | .max dim keep, [a] => do
    let v ← maxForward a dim keep
    pure (unary v (fun g => maxBackward g a dim keep))
  | .min dim keep, [a] => do
    let v ← minForward a dim keep
    pure (unary v (fun g => minBackward g a dim keep))
  | .squeeze ax, [a] => do
    let v ← squeezeForward a ax
    pure (unary v (fun g => squeezeBackward g a.shape))
  | .unsqueeze axes, [a] => do
    let v ← unsqueezeForward a axes
    pure (unary v (fun g => unsqueezeBackward g axes))
  | .reshape t, [a] => do
    let v ← reshapeForward a t
    pure (unary v (fun g => reshapeBackward g a.shape))
  | .movedim s d, [a] => do
    let v ← movedimForward a s d
    pure (unary v (fun g => movedimBackward g s d))
  | .transpose d0 d1, [a] => do
    let v ← transposeForward a d0 d1
    pure (unary v (fun g => transposeBackward g d0 d1))
  | .flatten s e, [a] => do
    let v ← flattenForward a s e
    pure (unary v (fun g => reshapeBackward g a.shape))
  | .unfoldDim d sz st, [a] => do
    let v ← unfoldDimForward a d sz st
    pure (unary v (fun g => unfoldDimBackward g a.shape d sz st))
  -- ---------------------------------------------------------------- nn/functional.py
  | .relu, [a] => some (unary (reluForward a) (fun g => some (reluBackward g a)))
  | .leakyRelu sl, [a] => some (unary (leakyReluForward a sl) (fun g => some (leakyReluBackward g a sl)))
  | .selu, [a] => some (unary (seluForward a seluAlpha seluScale) (fun g => some (seluBackward g a seluAlpha seluScale)))
  | .tanh, [a] => let o := tanhForward a; some (unary o (fun g => some (tanhBackward g o)))
  | .sigmoid, [a] => let o := sigmoidForward a; some (unary o (fun g => some (sigmoidBackward g o)))
  | .softmax dim, [a] => do
    let o ← softmaxForward a dim
    pure (unary o (fun g => softmaxBackward g o dim))
  | .logSoftmax dim, [a] => do
    let o ← logSoftmaxForward a dim
    pure (unary o (fun g => logSoftmaxBackward g o dim))
  | .mse, [p, t] => do
    let v ← mseForward p t
    pure [⟨v, fun g => let (gp, gt) := mseBackward g p t; some [some gp, some gt]⟩]
  | .nll labels, [p, _] => do
    let v ← nllForward p labels
    pure [⟨v, fun g => some [some (nllBackward g p labels), none]⟩]
  | .bce, [p, t] => do
    let v ← bceForward p t
    pure [⟨v, fun g => (bceBackward g p t).map (fun r => [some r, none])⟩]
  | .bceLogits, [x, y] => do
    let v ← bceLogitsForward x y
    pure [⟨v, fun g => (bceLogitsBackward g x y).map (fun r => [some r, none])⟩]
  | .crossEntropy labels, [x, _] => do
    let v ← crossEntropyForward x labels
    pure [⟨v, fun g => (crossEntropyBackward g x labels).map (fun r => [some r, none])⟩]
  | .linear true, [x, w, b] => do
    let v ← linearForward x w (some b)
    pure [⟨v, fun g => (linearBackward g x w (some b)).map (fun (gx, gw, gb) => [some gx, some gw, gb])⟩]
  | .linear false, [x, w] => do
    let v ← linearForward x w none
    pure [⟨v, fun g => (linearBackward g x w none).map (fun (gx, gw, _) => [some gx, some gw])⟩]
  | .conv1d true s p d, [x, w, b] => do
    let v ← conv1dForward x w (some b) s p d
    pure [⟨v, fun g => (conv1dBackward g x w true s p d).map (fun (gx, gw, gb) => [some gx, some gw, gb])⟩]
  | .conv1d false s p d, [x, w] => do
    let v ← conv1dForward x w none s p d
    pure [⟨v, fun g => (conv1dBackward g x w false s p d).map (fun (gx, gw, _) => [some gx, some gw])⟩]
  | .conv2d true s p d, [x, w, b] => do
    let v ← conv2dForward x w (some b) s p d
    pure [⟨v, fun g => (conv2dBackward g x w true s p d).map (fun (gx, gw, gb) => [some gx, some gw, gb])⟩]
  | .conv2d false s p d, [x, w] => do
    let v ← conv2dForward x w none s p d
    pure [⟨v, fun g => (conv2dBackward g x w false s p d).map (fun (gx, gw, _) => [some gx, some gw])⟩]
  | .maxPool1d k s p d, [x] => do
    let v ← maxPool1dForward x (-(1 / (0 : α))) k s p d
    pure (unary v (fun g => maxPool1dBackward g x k s p d))
  | .avgPool1d k s p d, [x] => do
    let v ← avgPool1dForward x k s p d
    pure (unary v (fun g => avgPool1dBackward g x k s p d))
  | .maxPool2d k s p d, [x] => do
    let v ← maxPool2dForward x (-(1 / (0 : α))) k s p d
    pure (unary v (fun g => maxPool2dBackward g x k s p d))
  | .avgPool2d k s p d, [x] => do
    let v ← avgPool2dForward x k s p d
    pure (unary v (fun g => avgPool2dBackward g x k s p d))
  | .unfold k d s p pad, [x] =>
    match x.shape with
    | [n, c, h, w] => do
      let geo : ConvTools.Geom := ⟨n, c, h, w, k, s, p, d⟩
      let v ← ConvTools.im2colView geo x pad
      pure (unary v (fun g => ConvTools.col2imView geo g))
    | _ => none
  | .fold outSize k d s p, [x] =>
    match x.shape with
    | [n, ckk, _] =>
      if k.1 * k.2 = 0 then none else
      let geo : ConvTools.Geom := ⟨n, ckk / (k.1 * k.2), outSize.1, outSize.2, k, s, p, d⟩
      do
        let (lh, lw) ← geo.out
        if x.shape != [n, geo.rows, lh * lw] then none
        let v ← ConvTools.col2imView geo x
        pure (unary v (fun g => ConvTools.im2colView geo g 0))
    | _ => none
  | .batchNorm hasW hasB running training eps _, x :: rest =>
    let gamma := if hasW then rest.head? else none
    let beta := if hasB then (if hasW then rest.getD 1 x else rest.headD x) |> some else none
    if x.shape.length < 2 then none else
    let useBatch := training || running.isNone
    let ch := x.shape.getD 1 0
    let n := if ch = 0 then 0 else x.shape.size / ch
    if training && n ≤ 1 then none else
    let mean : Nat → α := fun c => if useBatch then (bnStats x c).1 else (running.map (·.1.getD c 0)).getD 0
    let var : Nat → α := fun c => if useBatch then (bnStats x c).2 else (running.map (·.2.getD c 1)).getD 1
    let v := bnForward x gamma beta mean var eps
    some [⟨v, fun g =>
      let (dx, dg, db) := bnBackward g x gamma hasB useBatch mean var eps
      some ([some dx] ++ (if hasW then [dg] else []) ++ (if hasB then [db] else []))⟩]
  | _, _ => none

/-- dtype of a result: NumPy promotion over the floating operands (integer operands of the
    catalogue are labels used for indexing only); all-integer inputs keep the first dtype -/
def resultDType (dts : List DType) : DType :=
  if dts.contains .f64 then .f64 else if dts.contains .f32 then .f32 else dts.headD .f64

/-- apply an op to tensors of the store -/
def apply (st : TState α) (op : Op α) (inputs : List Nat) : Option (TState α × List Nat) := do
  let ins ← inputs.mapM (fun i => st.vals[i]?)
  let outs ← evalOp op ins
  applyOp st inputs (resultDType (inputs.filterMap (fun i => st.dtypes[i]?))) outs

end Synap.Ops

/-! ### Operator forms of `Tensor` with Python scalars (tensor.py `__add__` … `__rtruediv__`)

Every operator is a composition of `add`, `mul`, `pow` on tensors; a Python scalar operand becomes
a 0-d tensor in the dtype of the tensor it meets (`_scalar_operand`), not requiring grad.  The
intermediate tensors are real nodes of the graph (they are listed in the result). -/
namespace Synap.Ops
open Synap NDArray Api

inductive SOp where
  | addS | mulS | neg | subT | subS | rsubS | divT | divS | rdivS
deriving Repr, DecidableEq

variable {α : Type} [Zero α] [One α] [Add α] [Sub α] [Mul α] [Div α] [Neg α] [NatCast α]
  [OfScientific α] [LT α] [DecidableLT α] [LE α] [DecidableLE α] [Transc α]

def scalarOperand (st : TState α) (v : α) (like : Nat) : Option (TState α × Nat) :=
  newLeaf st (scalar v) ((st.dtypes[like]?).getD .f64) false

def one1 (r : Option (TState α × List Nat)) : Option (TState α × Nat) :=
  r.bind (fun (st, ks) => ks.head?.map (fun k => (st, k)))

/-- `a ⊕ b` where `b` is a tensor id (`.inl`) or a Python scalar (`.inr`) -/
def applySOp (st : TState α) (k : SOp) (a : Nat) (b : Nat ⊕ α) : Option (TState α × Nat) :=
  match k, b with
  | .addS, .inr s => do let (st, S) ← scalarOperand st s a; one1 (apply st .add [a, S])
  | .mulS, .inr s => do let (st, S) ← scalarOperand st s a; one1 (apply st .mul [a, S])
  | .neg, _ => do let (st, S) ← scalarOperand st (-1) a; one1 (apply st .mul [a, S])
  | .subT, .inl b => do
    let (st, S) ← scalarOperand st (-1) b
    let (st, m) ← one1 (apply st .mul [b, S])
    one1 (apply st .add [a, m])
  | .subS, .inr s => do let (st, S) ← scalarOperand st (-s) a; one1 (apply st .add [a, S])
  | .rsubS, .inr s => do
    let (st, S1) ← scalarOperand st (-1) a
    let (st, m) ← one1 (apply st .mul [a, S1])
    let (st, S) ← scalarOperand st s m
    one1 (apply st .add [m, S])
  | .divT, .inl b => do
    let (st, p) ← one1 (apply st (.pow (-1)) [b])
    one1 (apply st .mul [a, p])
  | .divS, .inr s => do let (st, S) ← scalarOperand st (Transc.pow s (-1)) a; one1 (apply st .mul [a, S])
  | .rdivS, .inr s => do
    let (st, p) ← one1 (apply st (.pow (-1)) [a])
    let (st, S) ← scalarOperand st s p
    one1 (apply st .mul [p, S])
  | _, _ => none

end Synap.Ops
