import SynapModel.Api
/-!
# The op catalogue of functional.py: forward value + `backward` closure of every wrapper

`evalOp op inputs` returns, for every output tensor of the op, its value and the closure
`backward` of the wrapper: given the output's gradient, one optional contribution per operand
(in the order of `children=`), `none` where the closure has no `+=` for that operand.
-/
namespace Synap.Ops
open Synap NDArray Np Kernels Api

inductive Op (α : Type) where
  | add | mul | matmul | addmm | neg | clone | exp | log | sqrt
  | pow (n : α) | rpow (n : α)
  | slice (sels : List Sel)
  | concat (dim : Int) | stack (dim : Int) | unbind (dim : Int)
  | sum (ax : Axes) (keep : Bool) | mean (ax : Axes) (keep : Bool)
  | max (dim : Option Int) (keep : Bool) | min (dim : Option Int) (keep : Bool)
  | squeeze (ax : Axes) | unsqueeze (axes : List Int)
  | reshape (target : List Int) | movedim (src dst : Int) | transpose (d0 d1 : Int)
  | flatten (startDim endDim : Int) | unfoldDim (dimension size step : Int)

variable {α : Type} [Zero α] [One α] [Add α] [Sub α] [Mul α] [Div α] [Neg α] [NatCast α]
  [OfScientific α] [LT α] [DecidableLT α] [Transc α]

/-- single-operand, single-output op -/
def unary (v : NDArray α) (bw : NDArray α → Option (NDArray α)) : List (OpOut α) :=
  [⟨v, fun g => (bw g).map (fun r => [some r])⟩]

def evalOp (op : Op α) (ins : List (NDArray α)) : Option (List (OpOut α)) :=
  match op, ins with
  | .add, [a, b] => do
    let v ← addForward a b
    pure [⟨v, fun g => let (ga, gb) := addBackward g a.shape b.shape; some [some ga, some gb]⟩]
  | .mul, [a, b] => do
    let v ← mulForward a b
    pure [⟨v, fun g => (mulBackward g a b).map (fun (ga, gb) => [some ga, some gb])⟩]
  | .matmul, [a, b] => do
    let v ← matmulForward a b
    pure [⟨v, fun g => (matmulBackward g a b).map (fun (ga, gb) => [some ga, some gb])⟩]
  | .addmm, [a, b, c] => do
    let v ← addmmForward a b c
    pure [⟨v, fun g => (addmmBackward g a b c).map (fun (ga, gb, gc) => [some ga, some gb, some gc])⟩]
  | .neg, [a] => some (unary (negForward a) (fun g => some (negBackward g)))
  | .clone, [a] => some (unary (cloneForward a) (fun g => some (cloneBackward g)))
  | .exp, [a] => let o := expForward a; some (unary o (fun g => some (expBackward g o)))
  | .log, [a] => some (unary (logForward a) (fun g => some (logBackward g a)))
  | .sqrt, [a] => let o := sqrtForward a; some (unary o (fun g => some (sqrtBackward g o)))
  | .pow n, [a] => some (unary (powForward a n) (fun g => some (powBackward g a n)))
  | .rpow n, [a] => let o := rpowForward a n; some (unary o (fun g => some (rpowBackward g o n)))
  | .slice sels, [a] => do
    let v ← sliceForward a sels
    pure (unary v (fun g => sliceBackward g a.shape sels))
  | .concat dim, xs => do
    let v ← concatForward xs dim
    pure [⟨v, fun g => (concatBackward g (xs.map (·.shape)) dim).map (·.map some)⟩]
  | .stack dim, xs => do
    let v ← stackForward xs dim
    pure [⟨v, fun g => (stackBackward g dim).map (·.map some)⟩]
  | .unbind dim, [a] => do
    let vs ← unbindForward a dim
    pure (vs.zipIdx.map (fun (v, k) => ⟨v, fun g => (unbindBackward g a.shape dim k).map (fun r => [some r])⟩))
  | .sum ax keep, [a] => do
    let v ← sumForward a ax keep
    pure (unary v (fun g => sumBackward g a.shape ax keep))
  | .mean ax keep, [a] => do
    let v ← meanForward a ax keep
    pure (unary v (fun g => meanBackward g a.shape ax keep))
  | .max dim keep, [a] => do
    let v ← maxForward a dim keep
    pure (unary v (fun g => maxBackward g a dim keep))
  | .min dim keep, [a] => do
    let v ← minForward a dim keep
    pure (unary v (fun g => minBackward g a dim keep))
  | .squeeze ax, [a] => do
    let v ← squeezeForward a ax
    pure (unary v (fun g => squeezeBackward g a.shape))
  | .unsqueeze axes, [a] => do
    let v ← unsqueezeForward a axes
    pure (unary v (fun g => unsqueezeBackward g axes))
  | .reshape t, [a] => do
    let v ← reshapeForward a t
    pure (unary v (fun g => reshapeBackward g a.shape))
  | .movedim s d, [a] => do
    let v ← movedimForward a s d
    pure (unary v (fun g => movedimBackward g s d))
  | .transpose d0 d1, [a] => do
    let v ← transposeForward a d0 d1
    pure (unary v (fun g => transposeBackward g d0 d1))
  | .flatten s e, [a] => do
    let v ← flattenForward a s e
    pure (unary v (fun g => reshapeBackward g a.shape))
  | .unfoldDim d sz st, [a] => do
    let v ← unfoldDimForward a d sz st
    pure (unary v (fun g => unfoldDimBackward g a.shape d sz st))
  | _, _ => none

/-- apply an op to tensors of the store -/
def apply (st : TState α) (op : Op α) (inputs : List Nat) : Option (TState α × List Nat) := do
  let ins ← inputs.mapM (fun i => st.vals[i]?)
  let outs ← evalOp op ins
  let dt := (inputs.head?.bind (fun i => st.dtypes[i]?)).getD .f64
  applyOp st inputs dt outs

end Synap.Ops
