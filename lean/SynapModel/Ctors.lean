import SynapModel.Api
/-!
# tensor.py constructors as CALLS: every argument position, with the values a caller may legitimately pass

`zeros / ones / empty / rand / randn (*shape)`, `eye(dim)`, `arange(*interval)`, `normal(loc, scale, *shape)`,
`randint(low, high, shape)`, `zeros_like / ones_like(tensor)`, `tensor(data)` / `Tensor(data)`, each with the
optional `dtype=` and `requires_grad=` keywords.

What the model pins down (and `Api.ctorFull …` did not, being called with normalised arguments only):

* an optional argument is *omitted*, *`None`* or *given*; omitted and `None` mean the default, every GIVEN value — also one that
  Python reads as false (`0`, `0.0`, `-0.0`, `False`, `()`, `[]`) — is that value: `arange(-3, 0)` ends at `0`, `normal(1.5, 0, 2)`
  has scale `0`, `zeros(0)` has one axis of extent `0`, `zeros()` / `zeros(())` / `zeros([])` are 0-d;
* the forms of `arange` are told apart by the NUMBER of arguments;
* the dtype of the result: `default_type__` (float32) for everything built from Python data or a shape, the array's own dtype
  for `Tensor(ndarray)` / `Tensor(np scalar)` / `*_like`, `int32` for `randint`, and the `dtype=` argument on top of it
  (`astype`: floats to integers truncate towards zero);
* which calls NumPy rejects (step `0`, negative extents, `scale < 0`, `low >= high`, `np.random.rand()` without a shape,
  `requires_grad=True` on a non-float result).

Random / uninitialised constructors prescribe shape and dtype only (`determined = false`), except where the distribution is a
point mass (`scale = 0`, `high = low + 1`).
-/
namespace Synap.Ctors
open Synap Synap.Api NDArray

/-- an optional keyword argument as the caller wrote it -/
inductive Opt (β : Type) where
  | omitted
  | none
  | given (v : β)
deriving Repr

/-- omitted and `None` select the default; a given value is never replaced, whatever its truth value -/
def Opt.get {β : Type} (o : Opt β) (dflt : β) : β :=
  match o with
  | .given v => v
  | _ => dflt

/-- `np.arange(*interval)`: `arange(end)`, `arange(start, end)`, `arange(start, end, step)` -/
def arangeArgs {β : Type} [Zero β] [One β] : List β → Option (β × β × β)
  | [e] => some (0, e, 1)
  | [s, e] => some (s, e, 1)
  | [s, e, st] => some (s, e, st)
  | _ => none

/-- `np.arange(start, stop, step)` on floats: `ceil((stop - start) / step)` values `start + k·step` (none when that is not
    positive); step `0` raises ZeroDivisionError -/
def arangeF (start stop step : Float) : Option (List Float) :=
  if step == 0.0 then none
  else
    let q := Float.ceil ((stop - start) / step)
    let n : Nat := if q > 0.0 then q.toUInt64.toNat else 0
    some ((List.range n).map (fun (k : Nat) => start + step * k.toFloat))

/-- `astype`: floats stay, integer dtypes truncate towards zero -/
def castF (dt : DType) (v : Float) : Float :=
  if dt.isFloat then v else if v < 0.0 then Float.ceil v else Float.floor v

inductive RandomKind where
  | empty | rand | randn
deriving Repr, DecidableEq

inductive Call where
  | full (v : Float) (args : ShapeArgs)
  | random (kind : RandomKind) (args : ShapeArgs)
  | eye (n : Int)
  | arange (args : List Float)
  | normal (loc scale : Float) (dims : List Int)
  | randint (low high : Int) (dims : List Int)
  | like (i : Nat) (v : Float)
  | data (viaFn : Bool) (own : Option DType) (x : NDArray Float)

structure Made where
  value : NDArray Float
  dtype : DType                -- before the `dtype=` argument is applied
  determined : Bool            -- false: only shape and dtype are prescribed

def natDims? (dims : List Int) : Option (List Nat) :=
  if dims.all (fun d => decide (0 ≤ d)) then some (dims.map Int.toNat) else none

def make (st : TState Float) : Call → Option Made
  | .full v args => some ⟨full args.norm v, .f32, true⟩
  | .random k args =>
    -- `np.random.rand()` / `randn()` without a shape return a Python float: the `.astype` that follows raises
    if k != .empty && args.norm.isEmpty then none else some ⟨full args.norm 0.0, .f32, false⟩
  | .eye n =>
    if n < 0 then none
    else some ⟨ofFn [n.toNat, n.toNat] (fun i => if i.getD 0 0 = i.getD 1 1 then 1.0 else 0.0), .f32, true⟩
  | .arange args =>
    (arangeArgs args).bind (fun (s, e, d) => (arangeF s e d).map (fun vs => ⟨⟨[vs.length], vs⟩, .f32, true⟩))
  | .normal loc scale dims =>
    -- NumPy tests the SIGN BIT of the scale (`-0.0` raises "scale < 0" as well)
    if scale.toBits >>> 63 == 1 then none else (natDims? dims).map (fun d => ⟨full d loc, .f32, scale == 0.0⟩)
  | .randint low high dims =>
    -- (NumPy checks `low < high` only when at least one value is drawn)
    (natDims? dims).bind (fun d =>
      if low ≥ high && Shape.size d ≠ 0 then none else some ⟨full d (Float.ofInt low), .i32, high == low + 1⟩)
  | .like i v =>
    match st.vals[i]?, st.dtypes[i]? with
    | some x, some dt => some ⟨full x.shape v, dt, true⟩
    | _, _ => none
  | .data viaFn own x => some ⟨x, if viaFn then .f32 else own.getD .f32, true⟩

/-- the whole call: the value, `dtype=` on top, `Tensor.__init__` with `requires_grad=` -/
def call (st : TState Float) (c : Call) (dt : Opt DType) (rg : Opt Bool) : Option (TState Float × Nat × Made) :=
  (make st c).bind (fun m =>
    let d := dt.get m.dtype
    let v : NDArray Float := ⟨m.value.shape, m.value.data.map (castF d)⟩
    (newLeaf st v d (rg.get false)).map (fun (st', k) => (st', k, { m with value := v, dtype := d })))

end Synap.Ctors
