import Proofs.OptimStoreRefine
/-!
# The store model refines the value-level model `Synap.Optim`: Adam / AdamW

`AbsMo s i k mo`: the value-level moments `mo` of parameter `i` are element `k` of the two moment
buffers of the store (a moment that is still the integer `0` reads as `0`) and its step counter.
Every transition of the store model acts on the pair (`AbsP`, `AbsMo`) as the value-level transition.
-/
namespace Proofs.OptimStore
open Synap.OptimStore
open Synap.Optim (SGDCfg AdamCfg HasSqrt P Moments)

variable {α : Type}

/-- the moments of parameter `i` at element `k` (a moment that is still the integer 0 reads as 0) -/
def AbsMo [Zero α] (s : Store α) (i k : Nat) (mo : Moments α) : Prop :=
  ∃ o1 o2 v1 v2, s.b1[i]? = some o1 ∧ s.b2[i]? = some o2 ∧ s.steps[i]? = some mo.t ∧
    optVal s.heap o1 k = some v1 ∧ optVal s.heap o2 k = some v2 ∧ mo.m1 = v1.getD 0 ∧ mo.m2 = v2.getD 0

/-- a transition that keeps the moment places and the step counter of parameter `i` and does not
    overwrite its moment buffers keeps its moments -/
theorem AbsMo.frame [Zero α] {W : BufId → Prop} {C : Role → Nat → Prop} {s s' : Store α} {i k : Nat}
    {mo : Moments α} (hI : Inv s) (m : Moves W C s s') (h1 : s'.b1[i]? = s.b1[i]?)
    (h2 : s'.b2[i]? = s.b2[i]?) (h3 : s'.steps[i]? = s.steps[i]?)
    (hW : ∀ x, W x → slot s .b1 i ≠ some x ∧ slot s .b2 i ≠ some x) (a : AbsMo s i k mo) :
    AbsMo s' i k mo := by
  obtain ⟨o1, o2, v1, v2, hb1, hb2, hst, hv1, hv2, e1, e2⟩ := a
  refine ⟨o1, o2, v1, v2, h1.trans hb1, h2.trans hb2, h3.trans hst, ?_, ?_, e1, e2⟩
  · rw [optVal_congr k (fun x hx => ?_)]
    · exact hv1
    · have hs : slot s .b1 i = some x := by simp [slot, hb1, hx]
      exact m.ext.2 x (hI.bounded .b1 i _ hs) (fun w => (hW _ w).1 hs)
  · rw [optVal_congr k (fun x hx => ?_)]
    · exact hv2
    · have hs : slot s .b2 i = some x := by simp [slot, hb2, hx]
      exact m.ext.2 x (hI.bounded .b2 i _ hs) (fun w => (hW _ w).2 hs)

/-- the first moment of an `AbsMo` as an `AbsB` -/
theorem AbsMo.absB [Zero α] {s : Store α} {i k : Nat} {mo : Moments α} (a : AbsMo s i k mo) :
    ∃ v1, AbsB s i k v1 := by
  obtain ⟨o1, _, v1, _, hb1, _, _, hv1, _⟩ := a
  exact ⟨v1, o1, hb1, hv1⟩

/-! ### engine events keep the moments -/

theorem accumulate_b2 [Add α] [Zero α] (s : Store α) (i : Nat) (g : List α) : (accumulate s i g).b2 = s.b2 := by
  unfold accumulate; split
  · rfl
  · split
    · split <;> rfl
    · rfl

theorem accumulate_steps [Add α] [Zero α] (s : Store α) (i : Nat) (g : List α) :
    (accumulate s i g).steps = s.steps := by
  unfold accumulate; split
  · rfl
  · split
    · split <;> rfl
    · rfl

theorem accumulate_absMo [Add α] [Zero α] {s : Store α} {i k : Nat} {mo : Moments α} (hI : Inv s)
    (j : Nat) (g : List α) (a : AbsMo s i k mo) : AbsMo (accumulate s j g) i k mo := by
  refine a.frame hI (accumulate_moves s hI j g) (by rw [accumulate_b1]) (by rw [accumulate_b2])
    (by rw [accumulate_steps]) (fun x w => ⟨fun e => ?_, fun e => ?_⟩)
  · cases (hI.sep .grad j .b1 i x w e).1
  · cases (hI.sep .grad j .b2 i x w e).1

theorem accumulateRoot_b1 [Add α] (s : Store α) (i : Nat) (g : List α) : (accumulateRoot s i g).b1 = s.b1 := by
  unfold accumulateRoot; split
  · rfl
  · split <;> rfl

theorem accumulateRoot_b2 [Add α] (s : Store α) (i : Nat) (g : List α) : (accumulateRoot s i g).b2 = s.b2 := by
  unfold accumulateRoot; split
  · rfl
  · split <;> rfl

theorem accumulateRoot_steps [Add α] (s : Store α) (i : Nat) (g : List α) :
    (accumulateRoot s i g).steps = s.steps := by
  unfold accumulateRoot; split
  · rfl
  · split <;> rfl

theorem accumulateRoot_absMo [Add α] [Zero α] {s : Store α} {i k : Nat} {mo : Moments α} (hI : Inv s)
    (j : Nat) (g : List α) (a : AbsMo s i k mo) : AbsMo (accumulateRoot s j g) i k mo :=
  a.frame hI (accumulateRoot_moves s hI j g) (by rw [accumulateRoot_b1]) (by rw [accumulateRoot_b2])
    (by rw [accumulateRoot_steps]) (fun x w => w.elim)

theorem zeroGradAt_b2 [Zero α] (s : Store α) (j : Nat) : (zeroGradAt s j).b2 = s.b2 := by
  unfold zeroGradAt; split
  · rfl
  · split <;> rfl

theorem zeroGradAt_steps [Zero α] (s : Store α) (j : Nat) : (zeroGradAt s j).steps = s.steps := by
  unfold zeroGradAt; split
  · rfl
  · split <;> rfl

/-- a loop whose body keeps a component of the state keeps it -/
theorem foldl_keeps {σ β γ : Type} (f : σ → β → σ) (π : σ → γ) (hf : ∀ s j, π (f s j) = π s)
    (l : List β) (s : σ) : π (l.foldl f s) = π s := by
  induction l generalizing s with
  | nil => rfl
  | cons j l ih => exact (ih (f s j)).trans (hf s j)

theorem zeroGrad_b1 [Zero α] (s : Store α) : (zeroGrad s).b1 = s.b1 :=
  foldl_keeps zeroGradAt (·.b1) zeroGradAt_b1 _ s

theorem zeroGrad_b2 [Zero α] (s : Store α) : (zeroGrad s).b2 = s.b2 :=
  foldl_keeps zeroGradAt (·.b2) zeroGradAt_b2 _ s

theorem zeroGrad_steps [Zero α] (s : Store α) : (zeroGrad s).steps = s.steps :=
  foldl_keeps zeroGradAt (·.steps) zeroGradAt_steps _ s

theorem zeroGrad_absMo [Zero α] {s : Store α} {i k : Nat} {mo : Moments α} (hI : Inv s)
    (a : AbsMo s i k mo) : AbsMo (zeroGrad s) i k mo :=
  a.frame hI (zeroGrad_moves s hI) (by rw [zeroGrad_b1]) (by rw [zeroGrad_b2])
    (by rw [zeroGrad_steps]) (fun x w => w.elim)

theorem setRg_absMo [Zero α] {s : Store α} {i k : Nat} {mo : Moments α} (j : Nat) (r : Bool)
    (a : AbsMo s i k mo) : AbsMo (setRg s j r) i k mo := by
  unfold setRg
  split
  · exact a
  · exact a

/-! ### Adam.step / AdamW.step -/

section Adam
variable [Add α] [Sub α] [Mul α] [Div α] [Neg α] [Zero α] [One α] [HPow α Nat α] [HasSqrt α]
set_option linter.unusedSectionVars false

theorem adamStepAt_b1_ne (c : AdamCfg α) (s : Store α) {i j : Nat} (h : j ≠ i) :
    (adamStepAt c s j).b1[i]? = s.b1[i]? := by
  unfold adamStepAt
  split
  · rfl
  · split
    · exact List.getElem?_set_ne h
    · rfl

theorem adamStepAt_b2_ne (c : AdamCfg α) (s : Store α) {i j : Nat} (h : j ≠ i) :
    (adamStepAt c s j).b2[i]? = s.b2[i]? := by
  unfold adamStepAt
  split
  · rfl
  · split
    · exact List.getElem?_set_ne h
    · rfl

theorem adamStepAt_steps_ne (c : AdamCfg α) (s : Store α) {i j : Nat} (h : j ≠ i) :
    (adamStepAt c s j).steps[i]? = s.steps[i]? := by
  unfold adamStepAt
  split
  · rfl
  · split
    · exact List.getElem?_set_ne h
    · rfl

theorem adamStepAt_other (c : AdamCfg α) {s : Store α} (hI : Inv s) {i j k : Nat} (h : j ≠ i)
    {q : P α} {mo : Moments α} (a : AbsP s i k q) (am : AbsMo s i k mo) :
    AbsP (adamStepAt c s j) i k q ∧ AbsMo (adamStepAt c s j) i k mo := by
  have m := adamStepAt_moves c s hI j
  exact ⟨a.frame hI m (by rw [adamStepAt_ps]) (fun x w => ⟨active_other hI h x w _, active_other hI h x w _⟩),
    am.frame hI m (adamStepAt_b1_ne c s h) (adamStepAt_b2_ne c s h) (adamStepAt_steps_ne c s h)
      (fun x w => ⟨active_other hI h x w _, active_other hI h x w _⟩)⟩

/-! #### what each statement of the loop body does to element `k` -/

theorem adamNeg_val (c : AdamCfg α) (h : Heap α) (gb d : BufId) (k : Nat) {gv : α}
    (hgb : gb < h.length) (hd : d < h.length) (hne : gb ≠ d) (vg : val h gb k = some gv) :
    val (adamNeg c h gb).1 (adamNeg c h gb).2 k = some (if c.maximize then -gv else gv)
    ∧ (adamNeg c h gb).2 < (adamNeg c h gb).1.length ∧ (adamNeg c h gb).2 ≠ d := by
  unfold adamNeg
  cases c.maximize
  · simpa using ⟨vg, hgb, hne⟩
  · simp only [if_true, allocMap_snd, allocMap_length]
    refine ⟨?_, Nat.lt_succ_self _, fun e => ?_⟩
    · rw [val_allocMap, vg]; rfl
    · rw [← e] at hd; exact Nat.lt_irrefl _ hd

theorem adamDecay_val (c : AdamCfg α) (h : Heap α) (d g : BufId) (k : Nat) {θ gv : α}
    (hd : d < h.length) (hg : g < h.length) (hne : g ≠ d)
    (vθ : val h d k = some θ) (vg : val h g k = some gv) :
    val (adamDecay c h d g).1 d k = some (if c.decoupled then θ - c.lr * c.weightDecay * θ else θ)
    ∧ val (adamDecay c h d g).1 (adamDecay c h d g).2 k
        = some (if !c.decoupled && c.useWd
                then gv + c.weightDecay * (if c.decoupled then θ - c.lr * c.weightDecay * θ else θ) else gv)
    ∧ (adamDecay c h d g).2 < (adamDecay c h d g).1.length ∧ (adamDecay c h d g).2 ≠ d := by
  unfold adamDecay
  cases c.decoupled with
  | true =>
    simp only [if_true, Bool.not_true, Bool.false_and, Bool.false_eq_true, if_false, writeMap_length]
    refine ⟨?_, ?_, hg, hne⟩
    · rw [val_writeMap _ _ _ _ hd, vθ]; rfl
    · rw [(ext_writeMap h d _).val_eq hg (by simpa using hne)]; exact vg
  | false =>
    simp only [Bool.false_eq_true, if_false, Bool.not_false, Bool.true_and]
    cases c.useWd with
    | false =>
      simp only [Bool.false_eq_true, if_false]
      exact ⟨vθ, vg, hg, hne⟩
    | true =>
      simp only [if_true, allocZip_snd, allocZip_length]
      refine ⟨?_, val_allocZip h _ g d k vg vθ, Nat.lt_succ_self _, fun e => ?_⟩
      · rw [(ext_allocZip h _ g d).val_eq hd (by simp)]; exact vθ
      · rw [← e] at hd; exact Nat.lt_irrefl _ hd

theorem adamM1_val (c : AdamCfg α) (h : Heap α) (g : BufId) (ob : Option BufId) (k : Nat)
    {gv : α} {bo : Option α} (vg : val h g k = some gv) (vb : optVal h ob k = some bo) :
    val (adamM1 c h g ob).1 h.length k = some (c.beta1 * bo.getD 0 + (1 - c.beta1) * gv) := by
  unfold adamM1
  cases ob with
  | none =>
    simp only [optVal] at vb
    have : bo = none := by simpa using vb.symm
    subst this
    dsimp only
    rw [val_allocMap, vg]; rfl
  | some b =>
    simp only [optVal] at vb
    cases hv : val h b k with
    | none => rw [hv] at vb; cases vb
    | some bv =>
      rw [hv] at vb
      have : bo = some bv := by simpa using vb.symm
      subst this
      exact val_allocZip h _ b g k hv vg

theorem adamM2_val (c : AdamCfg α) (h : Heap α) (g : BufId) (ob : Option BufId) (k : Nat)
    {gv : α} {bo : Option α} (vg : val h g k = some gv) (vb : optVal h ob k = some bo) :
    val (adamM2 c h g ob).1 h.length k = some (c.beta2 * bo.getD 0 + (1 - c.beta2) * (gv * gv)) := by
  unfold adamM2
  cases ob with
  | none =>
    simp only [optVal] at vb
    have : bo = none := by simpa using vb.symm
    subst this
    dsimp only
    rw [val_allocMap, vg]; rfl
  | some b =>
    simp only [optVal] at vb
    cases hv : val h b k with
    | none => rw [hv] at vb; cases vb
    | some bv =>
      rw [hv] at vb
      have : bo = some bv := by simpa using vb.symm
      subst this
      exact val_allocZip h _ b g k hv vg

theorem adamApply_val (c : AdamCfg α) (t : Nat) (h : Heap α) (d m1 m2 : BufId) (k : Nat) {θ a b : α}
    (hd : d < h.length) (vθ : val h d k = some θ) (v1 : val h m1 k = some a) (v2 : val h m2 k = some b) :
    val (adamApply c t h d m1 m2) d k
      = some (θ - (c.lr * (a / (1 - c.beta1 ^ t))) / (HasSqrt.sqrt (b / (1 - c.beta2 ^ t)) + c.eps)) := by
  unfold adamApply
  dsimp only
  have e := ext_allocZip h
    (fun m v => (c.lr * (m / (1 - c.beta1 ^ t))) / (HasSqrt.sqrt (v / (1 - c.beta2 ^ t)) + c.eps)) m1 m2
  have vq := val_allocZip h
    (fun m v => (c.lr * (m / (1 - c.beta1 ^ t))) / (HasSqrt.sqrt (v / (1 - c.beta2 ^ t)) + c.eps)) m1 m2 k v1 v2
  have vθ' : val (allocZip h
      (fun m v => (c.lr * (m / (1 - c.beta1 ^ t))) / (HasSqrt.sqrt (v / (1 - c.beta2 ^ t)) + c.eps)) m1 m2).1 d k
        = some θ := by
    rw [e.val_eq hd (by simp)]; exact vθ
  rw [allocZip_snd]
  exact val_writeZip _ d _ _ k (Nat.lt_of_lt_of_le hd e.1) vθ' vq

/-- the loop body of `Adam.step` / `AdamW.step` on its own parameter is the value-level `adamStepP` -/
theorem adamStepAt_self (c : AdamCfg α) {s : Store α} (hI : Inv s) {i k : Nat}
    {q : P α} {mo : Moments α} (a : AbsP s i k q) (am : AbsMo s i k mo) :
    AbsP (adamStepAt c s i) i k (Synap.Optim.adamStepP c q mo).1 ∧
    AbsMo (adamStepAt c s i) i k (Synap.Optim.adamStepP c q mo).2 := by
  obtain ⟨p, hp, hθ, hg, hr⟩ := a
  obtain ⟨o1, o2, w1, w2, hb1, hb2, hst, hw1, hw2, hm1, hm2⟩ := am
  have hd := hI.bounded .data i _ (slot_data_of hp)
  -- inactive parameter: nothing happens on either side
  have inactive : (p.rg = false ∨ p.grad = none) →
      adamStepAt c s i = s ∧ Synap.Optim.adamStepP c q mo = (q, mo) := by
    intro h
    constructor
    · unfold adamStepAt; rw [hp]; dsimp only
      rcases h with h | h
      · rw [h]
      · rw [h]; cases p.rg <;> rfl
    · unfold Synap.Optim.adamStepP
      rcases h with h | h
      · rw [← hr, h]
      · rw [h] at hg; simp only [optVal] at hg
        have : q.grad = none := by simpa using hg.symm
        rw [this]; cases q.rg <;> rfl
  cases hrg : p.rg with
  | false =>
    obtain ⟨e1, e2⟩ := inactive (Or.inl hrg)
    rw [e1, e2]; exact ⟨⟨p, hp, hθ, hg, hr⟩, ⟨o1, o2, w1, w2, hb1, hb2, hst, hw1, hw2, hm1, hm2⟩⟩
  | true =>
  cases hgr : p.grad with
  | none =>
    obtain ⟨e1, e2⟩ := inactive (Or.inr hgr)
    rw [e1, e2]; exact ⟨⟨p, hp, hθ, hg, hr⟩, ⟨o1, o2, w1, w2, hb1, hb2, hst, hw1, hw2, hm1, hm2⟩⟩
  | some gb =>
    have hsg : slot s .grad i = some gb := by rw [slot_grad_of hp, hgr]
    have hgb := hI.bounded .grad i _ hsg
    have hne : gb ≠ p.data := fun e => by
      have := (hI.sep .grad i .data i gb hsg (by rw [slot_data_of hp, e])).1; cases this
    rw [hgr] at hg
    simp only [optVal] at hg
    cases hv : val s.heap gb k with
    | none => rw [hv] at hg; cases hg
    | some gv =>
    rw [hv] at hg
    have hq : q.grad = some gv := by simpa using hg.symm
    have hqr : q.rg = true := by rw [← hr, hrg]
    have hsb1 : slot s .b1 i = o1 := by simp [slot, hb1]
    have hsb2 : slot s .b2 i = o2 := by simp [slot, hb2]
    have ho1 : ∀ x, o1 = some x → x < s.heap.length ∧ x ≠ p.data := by
      intro x hx
      have hs : slot s .b1 i = some x := by rw [hsb1, hx]
      refine ⟨hI.bounded .b1 i _ hs, fun e => ?_⟩
      have := (hI.sep .b1 i .data i x hs (by rw [slot_data_of hp, e])).1; cases this
    have ho2 : ∀ x, o2 = some x → x < s.heap.length ∧ x ≠ p.data := by
      intro x hx
      have hs : slot s .b2 i = some x := by rw [hsb2, hx]
      refine ⟨hI.bounded .b2 i _ hs, fun e => ?_⟩
      have := (hI.sep .b2 i .data i x hs (by rw [slot_data_of hp, e])).1; cases this
    have hi1 : i < s.b1.length := (List.getElem?_eq_some_iff.mp hb1).1
    have hi2 : i < s.b2.length := (List.getElem?_eq_some_iff.mp hb2).1
    have hi3 : i < s.steps.length := (List.getElem?_eq_some_iff.mp hst).1
    -- the value-level step
    have hval : Synap.Optim.adamStepP c q mo
        = ({ q with θ := (Synap.Optim.adamUpdate c q.θ gv mo).1 }, (Synap.Optim.adamUpdate c q.θ gv mo).2) := by
      unfold Synap.Optim.adamStepP; rw [hqr, hq]
    rw [hval]
    -- the store-level step
    unfold adamStepAt
    rw [hp]; dsimp only; rw [hrg, hgr]; dsimp only
    rw [hsb1, hsb2, hst]
    dsimp only [Option.getD_some]
    -- grad = -p._grad if maximize else p._grad
    obtain ⟨v1, l1, ne1⟩ := adamNeg_val c s.heap gb p.data k hgb hd hne hv
    have e1 := adamNeg_ext c s.heap gb
    generalize adamNeg c s.heap gb = r1 at *
    have hd1 : p.data < r1.1.length := Nat.lt_of_lt_of_le hd e1.1
    have vθ1 : val r1.1 p.data k = some q.θ := by rw [e1.val_eq hd (by simp)]; exact hθ
    -- the weight decay
    obtain ⟨vθ2, v2, l2, ne2⟩ := adamDecay_val c r1.1 p.data r1.2 k hd1 l1 ne1 vθ1 v1
    have e2 := adamDecay_ext c r1.1 p.data r1.2
    generalize adamDecay c r1.1 p.data r1.2 = r2 at *
    have hd2 : p.data < r2.1.length := Nat.lt_of_lt_of_le hd1 e2.1
    have vo1 : optVal r2.1 o1 k = some w1 := by
      rw [optVal_congr k (fun x hx => e2.rd_eq (Nat.lt_of_lt_of_le (ho1 x hx).1 e1.1) (by
        simpa using (ho1 x hx).2)),
        optVal_congr k (fun x hx => e1.rd_eq (ho1 x hx).1 (by simp))]
      exact hw1
    have vo2 : optVal r2.1 o2 k = some w2 := by
      rw [optVal_congr k (fun x hx => e2.rd_eq (Nat.lt_of_lt_of_le (ho2 x hx).1 e1.1) (by
        simpa using (ho2 x hx).2)),
        optVal_congr k (fun x hx => e1.rd_eq (ho2 x hx).1 (by simp))]
      exact hw2
    -- the first moment
    have v3 := adamM1_val c r2.1 r2.2 o1 k v2 vo1
    have e3 := adamM1_ext c r2.1 r2.2 o1
    have l3 := adamM1_length c r2.1 r2.2 o1
    have i3 := adamM1_snd c r2.1 r2.2 o1
    generalize adamM1 c r2.1 r2.2 o1 = m1 at *
    rw [← i3] at v3
    have hm1l : m1.2 < m1.1.length := by rw [i3, l3]; exact Nat.lt_succ_self _
    have v2' := v2
    rw [← e3.val_eq l2 (by simp)] at v2'
    have vo2' : optVal m1.1 o2 k = some w2 := by
      rw [optVal_congr k (fun x hx => e3.rd_eq
        (Nat.lt_of_lt_of_le (ho2 x hx).1 (Nat.le_trans e1.1 e2.1)) (by simp))]
      exact vo2
    -- the second moment
    have v4 := adamM2_val c m1.1 r2.2 o2 k v2' vo2'
    have e4 := adamM2_ext c m1.1 r2.2 o2
    have l4 := adamM2_length c m1.1 r2.2 o2
    have i4 := adamM2_snd c m1.1 r2.2 o2
    generalize adamM2 c m1.1 r2.2 o2 = m2 at *
    rw [← i4] at v4
    have hm2l : m2.2 < m2.1.length := by rw [i4, l4]; exact Nat.lt_succ_self _
    have hm1l' : m1.2 < m2.1.length := Nat.lt_of_lt_of_le hm1l e4.1
    have v3' : val m2.1 m1.2 k = _ := (e4.val_eq hm1l (by simp) k).trans v3
    have hd4 : p.data < m2.1.length := Nat.lt_of_lt_of_le hd2 (Nat.le_trans e3.1 e4.1)
    have vθ4 : val m2.1 p.data k = _ :=
      ((e4.val_eq (Nat.lt_of_lt_of_le hd2 e3.1) (by simp) k).trans (e3.val_eq hd2 (by simp) k)).trans vθ2
    have nm1 : m1.2 ≠ p.data := by
      intro e; rw [i3] at e; rw [← e] at hd2; exact Nat.lt_irrefl _ hd2
    have nm2 : m2.2 ≠ p.data := by
      have hd3 : p.data < m1.1.length := Nat.lt_of_lt_of_le hd2 e3.1
      intro e; rw [i4] at e; rw [← e] at hd3; exact Nat.lt_irrefl _ hd3
    -- the update of p.data
    have v5 := adamApply_val c (mo.t + 1) m2.1 p.data m1.2 m2.2 k hd4 vθ4 v3' v4
    have e5 := adamApply_ext c (mo.t + 1) m2.1 p.data m1.2 m2.2
    generalize adamApply c (mo.t + 1) m2.1 p.data m1.2 m2.2 = h5 at *
    refine ⟨⟨p, hp, ?_, ?_, hr⟩,
      ⟨some m1.2, some m2.2, some (Synap.Optim.adamUpdate c q.θ gv mo).2.m1,
        some (Synap.Optim.adamUpdate c q.θ gv mo).2.m2, List.getElem?_set_self hi1, List.getElem?_set_self hi2,
        List.getElem?_set_self hi3, ?_, ?_, ?_, ?_⟩⟩
    · rw [← hm1, ← hm2] at v5; exact v5
    · rw [hgr]
      show optVal h5 (some gb) k = some q.grad
      simp only [optVal]
      have hgb1 := Nat.lt_of_lt_of_le hgb e1.1
      have hgb2 := Nat.lt_of_lt_of_le hgb1 e2.1
      rw [e5.val_eq (Nat.lt_of_lt_of_le hgb2 (Nat.le_trans e3.1 e4.1)) (by simpa using hne),
        e4.val_eq (Nat.lt_of_lt_of_le hgb2 e3.1) (by simp), e3.val_eq hgb2 (by simp),
        e2.val_eq hgb1 (by simpa using hne), e1.val_eq hgb (by simp), hv, hq]; rfl
    · show optVal h5 (some m1.2) k = _
      simp only [optVal]
      rw [e5.val_eq hm1l' (by simpa using nm1), v3', ← hm1]; rfl
    · show optVal h5 (some m2.2) k = _
      simp only [optVal]
      rw [e5.val_eq hm2l (by simpa using nm2), v4, ← hm2]; rfl
    · rfl
    · rfl

theorem adamStep_abs (c : AdamCfg α) {s : Store α} (hI : Inv s) {i k : Nat}
    {q : P α} {mo : Moments α} (a : AbsP s i k q) (am : AbsMo s i k mo) :
    AbsP (adamStep c s) i k (Synap.Optim.adamStepP c q mo).1 ∧
    AbsMo (adamStep c s) i k (Synap.Optim.adamStepP c q mo).2 := by
  have := foldl_range_at (adamStepAt c) Inv (fun s (v : P α × Moments α) => AbsP s i k v.1 ∧ AbsMo s i k v.2)
    (fun v => Synap.Optim.adamStepP c v.1 v.2) i
    (fun s j h => (adamStepAt_moves c s h j).inv h)
    (fun s j v hj h r => adamStepAt_other c h hj r.1 r.2)
    (fun s v h r => adamStepAt_self c h r.1 r.2) s.ps.length s (q, mo) hI ⟨a, am⟩
  rw [if_pos (absP_lt a)] at this
  exact this.2

end Adam

/-! ### engine events on the pair (`AbsP`, `AbsMo`) -/

theorem accumulate_absPMo [Add α] [Zero α] {s : Store α} {i k : Nat} {q : P α} {mo : Moments α}
    (hI : Inv s) (j : Nat) (g : List α) {gk : α} (hgk : j = i → g[k]? = some gk)
    (a : AbsP s i k q) (am : AbsMo s i k mo) :
    AbsP (accumulate s j g) i k (if j = i then Synap.Optim.accumulate q gk else q) ∧
    AbsMo (accumulate s j g) i k mo := by
  refine ⟨?_, accumulate_absMo hI j g am⟩
  obtain ⟨v1, ab⟩ := am.absB
  by_cases h : j = i
  · subst h
    rw [if_pos rfl]
    exact (accumulate_self hI g (hgk rfl) a ab).1
  · rw [if_neg h]
    exact (accumulate_other hI g h a ab).1

theorem accumulateRoot_absPMo [Add α] [Zero α] (h0 : ∀ x : α, 0 + x = x) {s : Store α} {i k : Nat}
    {q : P α} {mo : Moments α} (hI : Inv s) (j : Nat) (g : List α) {gk : α}
    (hgk : j = i → g[k]? = some gk) (a : AbsP s i k q) (am : AbsMo s i k mo) :
    AbsP (accumulateRoot s j g) i k (if j = i then Synap.Optim.accumulate q gk else q) ∧
    AbsMo (accumulateRoot s j g) i k mo := by
  refine ⟨?_, accumulateRoot_absMo hI j g am⟩
  obtain ⟨v1, ab⟩ := am.absB
  by_cases h : j = i
  · subst h
    rw [if_pos rfl]
    exact (accumulateRoot_self h0 hI g (hgk rfl) a ab).1
  · rw [if_neg h]
    exact (accumulateRoot_other hI g h a ab).1

theorem zeroGrad_absPMo [Zero α] {s : Store α} {i k : Nat} {q : P α} {mo : Moments α} (hI : Inv s)
    (a : AbsP s i k q) (am : AbsMo s i k mo) :
    AbsP (zeroGrad s) i k (Synap.Optim.zeroP q) ∧ AbsMo (zeroGrad s) i k mo := by
  obtain ⟨v1, ab⟩ := am.absB
  exact ⟨(zeroGrad_abs hI a ab).1, zeroGrad_absMo hI am⟩

theorem setRg_absPMo [Zero α] {s : Store α} {i j k : Nat} {q : P α} {mo : Moments α} (r : Bool)
    (a : AbsP s i k q) (am : AbsMo s i k mo) :
    AbsP (setRg s j r) i k (if j = i then { q with rg := r } else q) ∧ AbsMo (setRg s j r) i k mo := by
  obtain ⟨v1, ab⟩ := am.absB
  exact ⟨(setRg_abs r a ab).1, setRg_absMo j r am⟩

end Proofs.OptimStore
