import SynapModel.Api
import SynapModel.EngineStack
import SynapModel.Generated.EngineLogic
/-!
# The decision logic of `tensor.py`, as read on this run, is the decision logic of the engine model — traversal order, push / call conditions, loop skeletons (C03, C17)

`SynapModel/Generated/EngineLogic.lean` is rewritten from `/repo/synapgrad/tensor.py` by `harness/engine_logic.py` on every run.
Each generated condition is a Boolean function of *named* atoms; the theorems apply them with named arguments to the
corresponding fields of the model, so both a changed formula and a changed atom break them.  The `*_uses_src` theorems restate
transition functions of the model with the generated conditions in place.  (Split by property so that a changed condition breaks
the obligations of the properties that rest on it and no others.)
-/
set_option linter.unusedSectionVars false
namespace Proofs.EngineLogicTie
open Synap Synap.Engine Synap.Gen.Engine

/-- one turn of the explicit-stack machine: the child is pushed exactly when the source's push condition holds -/

theorem stackStep_uses_src (s : DfsSt G) (v c : Nat) (cs : List Nat) (st : List Frame) :
    stackStep s (⟨v, c :: cs⟩ :: st) =
      (let s' := zeroCheck s c
       if backward_push_cond (child_in_visited_nodes := s'.visited.contains c)
       then ({ s' with visited := c :: s'.visited }, ⟨c, childrenOf s'.ns c⟩ :: ⟨v, cs⟩ :: st)
       else (s', ⟨v, cs⟩ :: st)) := by
  simp only [stackStep, backward_push_cond]
  cases (zeroCheck s c).visited.contains c <;> rfl

theorem backward_guard_is_model [Add G] (ns : Graph G) (root : Nat) (g : G) (retainAll : Bool) (r : Node G) (h : ns[root]? = some r) :
    backward ns root g retainAll =
      if backward_rejects (self_requires_grad := r.reqGrad) then none else finish (traverse ns root) root g retainAll := by
  unfold backward backward_rejects; rw [h]

/-- `node.grad_fn()` is called exactly when the source's condition holds (`back = none` is `grad_fn is None`) -/

theorem calls_grad_fn_is_model (n : Node G) :
    n.back.isSome = backward_calls_grad_fn (node_grad_fn_is_None := n.back.isNone) := by
  unfold backward_calls_grad_fn; cases n.back <;> rfl

/-- the recursive traversal the engine theorems are stated for tests the same condition (it is proved equal to the
    explicit-stack machine in `Proofs.EngineStack`) -/

theorem visit_uses_src (f v : Nat) (s : DfsSt G) :
    visit (f + 1) v s =
      (if s.visited.contains v then s else
       let s := { s with visited := v :: s.visited }
       let ch := match s.ns[v]? with | some n => n.children | none => []
       let s := ch.foldl (fun s c => visit f c (zeroCheck s c)) s
       { s with ordered := s.ordered ++ [v] }) := by
  rw [visit]
  rfl

theorem traversal_skeleton_is_modelled : traversalSkeleton = [
    "ordered_nodes = []",
    "visited_nodes = set()",
    "visited_nodes.add(self)",
    "stack = [(self, iter(self._children))]",
    "while stack:",
    "  node, children = stack[-1]",
    "  for child in children:",
    "    if <backward_zero_cond>:",
    "      child.zero_()",
    "    if <backward_push_cond>:",
    "      visited_nodes.add(child)",
    "      stack.append((child, iter(child._children)))",
    "      break",
    "  else:",
    "    ordered_nodes.append(node)",
    "    stack.pop()"] := by decide

theorem sweep_skeleton_is_modelled : sweepSkeleton = [
    "for i, node in enumerate(reversed(ordered_nodes)):",
    "  if <backward_calls_grad_fn>:",
    "    node.grad_fn()",
    "  if <backward_releases>:",
    "    del node._grad",
    "    node._grad = None"] := by decide

end Proofs.EngineLogicTie
