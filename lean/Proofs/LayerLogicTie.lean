import SynapModel.Layers
import SynapModel.Generated.LayerLogic
import Mathlib.Algebra.Field.Basic
import Mathlib.Tactic.Ring
/-!
# The decision logic of `BatchNorm.forward`, as read from `layers.py` on this run, is the logic of the layer model

`SynapModel/Generated/LayerLogic.lean` is rewritten from `/repo/synapgrad/nn/layers.py` by `harness/layer_logic.py` on every run.
The layer model keeps `track_running_stats` as one flag; in the code the buffers `running_mean`, `running_var` and the counter
`num_batches_tracked` exist exactly when it is set (`Props.C13.init_owns_by_options`), which is how the atoms are instantiated.
-/
set_option linter.unusedSectionVars false
namespace Proofs.LayerLogicTie
open Synap.Layers Synap.Optim

variable {α : Type} [Field α] [HasSqrt α]

/-- counter, averaging factor, `bn_training` and "the running buffers are passed" are those of the model, for every option
    setting, mode and counter value -/
theorem bn_forward_logic_is_model (c : BNCfg α) (s : BNState α) :
    Synap.Gen.Layer.bn_forward_logic (momentum := c.momentum.getD 0) (self_momentum_is_None := c.momentum.isNone)
      (self_num_batches_tracked_is_None := !c.track) (self_running_mean_is_None := !c.track) (self_running_var_is_None := !c.track)
      (self_track_running_stats := c.track) (self_training := s.training) s.nbt
    = ((avgFactor c s).2, (avgFactor c s).1, s.training || !c.track, !s.training || c.track, !s.training || c.track) := by
  unfold Synap.Gen.Layer.bn_forward_logic avgFactor
  cases s.training <;> cases c.track <;> cases c.momentum <;> simp

end Proofs.LayerLogicTie
