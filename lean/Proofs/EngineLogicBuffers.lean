import SynapModel.Api
import SynapModel.EngineStack
import SynapModel.Generated.EngineLogic
/-!
# The decision logic of `tensor.py`, as read on this run, is the decision logic of the engine model — which gradient buffers are zeroed, accumulated, released (C04, C03)

`SynapModel/Generated/EngineLogic.lean` is rewritten from `/repo/synapgrad/tensor.py` by `harness/engine_logic.py` on every run.
Each generated condition is a Boolean function of *named* atoms; the theorems apply them with named arguments to the
corresponding fields of the model, so both a changed formula and a changed atom break them.  The `*_uses_src` theorems restate
transition functions of the model with the generated conditions in place.  (Split by property so that a changed condition breaks
the obligations of the properties that rest on it and no others.)
-/
set_option linter.unusedSectionVars false
namespace Proofs.EngineLogicTie
open Synap Synap.Engine Synap.Gen.Engine

theorem zero_cond_is_model (n : Node G) (visited : Bool) :
    (n.reqGrad && (n.grad.isNone || (!n.isLeaf && !visited))) =
      backward_zero_cond (child_requires_grad := n.reqGrad) (child__grad_is_None := n.grad.isNone)
        (child_is_leaf := n.isLeaf) (child_in_visited_nodes := visited) := by
  unfold backward_zero_cond; cases n.reqGrad <;> cases n.grad.isNone <;> cases n.isLeaf <;> cases visited <;> rfl

theorem release_cond_is_model (n : Node G) (v root : Nat) (retainAll : Bool) :
    (v ≠ root && !n.isLeaf && !n.retain && !retainAll) =
      backward_releases (node_is_self := decide (v = root)) (node_is_leaf := n.isLeaf) (node__retain_grad := n.retain)
        (retain_grads__ := retainAll) := by
  unfold backward_releases
  by_cases h : v = root <;> cases n.isLeaf <;> cases n.retain <;> cases retainAll <;> simp [h]

theorem zeroCheck_uses_src (s : DfsSt G) (c : Nat) :
    zeroCheck s c = match s.ns[c]? with
      | some n =>
        if backward_zero_cond (child_requires_grad := n.reqGrad) (child__grad_is_None := n.grad.isNone)
            (child_is_leaf := n.isLeaf) (child_in_visited_nodes := s.visited.contains c)
        then { s with ns := setGrad s.ns c (some n.zero), trace := s.trace ++ [TrEv.zero c] }
        else s
      | none => s := by
  unfold zeroCheck
  cases h : s.ns[c]? with
  | none => rfl
  | some n => simp only [zero_cond_is_model]

theorem root_accumulates_is_model (r : Node G) (s : DfsSt G) (root : Nat) (g : G) [Add G] :
    (match r.isLeaf, r.grad with
       | true, some old => setGrad s.ns root (some (old + g))
       | _, _ => setGrad s.ns root (some g)) =
    (if backward_root_accumulates (self_is_leaf := r.isLeaf) (self__grad_is_None := r.grad.isNone)
     then setGrad s.ns root (some ((r.grad.getD r.zero) + g)) else setGrad s.ns root (some g)) := by
  unfold backward_root_accumulates
  cases r.isLeaf <;> cases h : r.grad <;> simp

/-- one step of the sweep: after the (guarded) `grad_fn` call the buffer is released exactly when the source's condition holds -/

theorem sweep_uses_src [Add G] (root : Nat) (retainAll : Bool) (v : Nat) (rest : List Nat) (ns : Graph G) (tr : List TrEv)
    (n : Node G) (h : ns[v]? = some n) :
    sweep root retainAll (v :: rest) ns tr =
      (let r := match n.back, n.grad with
        | some f, some g => ((f g).bind (accumulate ns n.children)).map (fun ns' => (ns', tr ++ [TrEv.call v]))
        | some _, none => none
        | none, _ => some (ns, tr)
       match r with
       | none => none
       | some (ns, tr) =>
         if backward_releases (node_is_self := decide (v = root)) (node_is_leaf := n.isLeaf) (node__retain_grad := n.retain)
             (retain_grads__ := retainAll)
         then sweep root retainAll rest (setGrad ns v none) (tr ++ [TrEv.release v])
         else sweep root retainAll rest ns tr) := by
  rw [sweep, h]
  simp only [release_cond_is_model]
  rfl

end Proofs.EngineLogicTie
