import Proofs.VJPDefs
/-!
# Helper lemmas for the VJP theorems of batch normalisation (`Proofs.VJPBatchNorm`)
-/
namespace Proofs.NL
open Synap Synap.NDArray Synap.Np Synap.Kernels Proofs.Core Proofs.Calc

/-! ### the line `a + t·v` -/
theorem bn_line_shape (a v : NDArray ℝ) (t : ℝ) : (line a v t).shape = a.shape := rfl

theorem bn_line_wf (a v : NDArray ℝ) (t : ℝ) (ha : a.WF) (hv : v.WF) (hs : v.shape = a.shape) :
    (line a v t).WF := zipSame_wf _ _ _ ha hv hs.symm

theorem bn_line_get (a v : NDArray ℝ) (t : ℝ) (ha : a.WF) (hv : v.WF) (hs : v.shape = a.shape)
    (i : Idx) (hi : validIdx a.shape i) : (line a v t).get i = a.get i + t * v.get i :=
  get_zipSame _ _ _ ha hv hs.symm i hi

/-! ### derivative of a list sum -/
theorem bn_hasDerivAt_list_sum {ι : Type} (l : List ι) (f : ι → ℝ → ℝ) (f' : ι → ℝ) (x : ℝ)
    (h : ∀ i ∈ l, HasDerivAt (f i) (f' i) x) :
    HasDerivAt (fun t => (l.map (fun i => f i t)).sum) ((l.map f').sum) x := by
  induction l with
  | nil => simpa using hasDerivAt_const x (0 : ℝ)
  | cons a l ih =>
    simp only [List.map_cons, List.sum_cons]
    exact (h a (List.mem_cons_self)).add (ih (fun i hi => h i (List.mem_cons_of_mem _ hi)))

/-! ### channels -/
theorem bn_chan_lt (s : Shape) (i : Idx) (hr : 2 ≤ s.length) (hi : validIdx s i) :
    getI i 1 < s.getD 1 0 := by
  match s, i, hr, hi with
  | _ :: n :: s, _ :: a :: i, _, hi => exact hi.2.1
  | _ :: _ :: _, [], _, hi => simp [validIdx] at hi
  | _ :: _ :: _, [_], _, hi => simp [validIdx] at hi

theorem bn_mem_chanIdx (s : Shape) (c : Nat) (i : Idx) :
    i ∈ chanIdx s c ↔ validIdx s i ∧ getI i 1 = c := by
  simp [chanIdx, mem_allIdx]

/-- partition of the index set by channel -/
theorem bn_sum_chan (s : Shape) (hr : 2 ≤ s.length) (f : Idx → Nat → ℝ) :
    ((allIdx s).map (fun i => f i (getI i 1))).sum
      = ((List.range (s.getD 1 0)).map (fun c => ((chanIdx s c).map (fun i => f i c)).sum)).sum := by
  rw [← List.sum_toFinset _ (allIdx_nodup s), ← List.sum_toFinset _ (List.nodup_range)]
  rw [← Finset.sum_fiberwise_of_maps_to (s := (allIdx s).toFinset) (t := (List.range (s.getD 1 0)).toFinset)
    (g := fun i => getI i 1)]
  · apply Finset.sum_congr rfl
    intro c _
    rw [chanIdx, ← List.sum_toFinset _ ((allIdx_nodup s).filter _), List.toFinset_filter]
    apply Finset.sum_congr
    · ext i; simp
    · intro i hi
      rw [show getI i 1 = c from by simpa using (Finset.mem_filter.mp hi).2]
  · intro i hi
    rw [List.mem_toFinset, mem_allIdx] at hi
    rw [List.mem_toFinset, List.mem_range]
    exact bn_chan_lt s i hr hi

theorem bn_sum_allIdx_one (ch : Nat) (f : Idx → ℝ) :
    ((allIdx [ch]).map f).sum = ((List.range ch).map (fun c => f [c])).sum := by
  have : allIdx [ch] = (List.range ch).map (fun c => [c]) := by
    rw [List.map_eq_flatMap]; rfl
  rw [this, List.map_map]
  rfl

/-! ### the kernels in uniform form -/
/-- the scale of channel `c` the kernels use (`1` without `γ`) -/
noncomputable def bn_gam (gamma : Option (NDArray ℝ)) (c : Nat) : ℝ :=
  match gamma with | some g => g.data.getD c 1 | none => 1
/-- the shift of channel `c` the kernels use (`0` without `β`) -/
noncomputable def bn_bet (beta : Option (NDArray ℝ)) (c : Nat) : ℝ :=
  match beta with | some b => b.data.getD c 0 | none => 0

theorem bn_forward_eq (z : NDArray ℝ) (gamma beta : Option (NDArray ℝ)) (mean var : Nat → ℝ) (eps : ℝ) :
    bnForward z gamma beta mean var eps = ofFn z.shape (fun i =>
      (z.get i - mean (getI i 1)) / Real.sqrt (var (getI i 1) + eps) * bn_gam gamma (getI i 1)
        + bn_bet beta (getI i 1)) := by
  cases gamma <;> cases beta <;> simp only [bnForward, bn_gam, bn_bet, mul_one, add_zero] <;> rfl

theorem bn_backward_dx_eq (g x : NDArray ℝ) (gamma : Option (NDArray ℝ)) (hasB useBatch : Bool)
    (mean var : Nat → ℝ) (eps : ℝ) :
    (bnBackward g x gamma hasB useBatch mean var eps).1 = ofFn x.shape (fun i =>
      if useBatch then
        (g.get i * bn_gam gamma (getI i 1)) / Real.sqrt (var (getI i 1) + eps)
        + 2 * (((chanIdx x.shape (getI i 1)).map (fun k => -(1 / 2) * (g.get k * bn_gam gamma (getI k 1))
              * (x.get k - mean (getI i 1)))).sum * (var (getI i 1) + eps) ^ (-((3 : ℝ) / 2)))
            * (x.get i - mean (getI i 1)) / (((chanIdx x.shape (getI i 1)).length : Nat) : ℝ)
        + (((chanIdx x.shape (getI i 1)).map (fun k => -1 / Real.sqrt (var (getI i 1) + eps)
              * (g.get k * bn_gam gamma (getI k 1)))).sum
            + (((chanIdx x.shape (getI i 1)).map (fun k => -(1 / 2) * (g.get k * bn_gam gamma (getI k 1))
                * (x.get k - mean (getI i 1)))).sum * (var (getI i 1) + eps) ^ (-((3 : ℝ) / 2)))
              * ((chanIdx x.shape (getI i 1)).map (fun k => -2 * (x.get k - mean (getI i 1)))).sum
              / (((chanIdx x.shape (getI i 1)).length : Nat) : ℝ))
          / (((chanIdx x.shape (getI i 1)).length : Nat) : ℝ)
      else (g.get i * bn_gam gamma (getI i 1)) / Real.sqrt (var (getI i 1) + eps)) := by
  cases gamma <;> simp only [bnBackward, bn_gam, mul_one, Nat.cast_ofNat] <;> rfl

theorem bn_backward_dgamma_eq (g x gm : NDArray ℝ) (hasB useBatch : Bool) (mean var : Nat → ℝ) (eps : ℝ) :
    (bnBackward g x (some gm) hasB useBatch mean var eps).2.1 = some (ofFn [x.shape.getD 1 0] (fun j =>
      ((chanIdx x.shape (getI j 0)).map (fun i => g.get i *
        ((x.get i - mean (getI i 1)) / Real.sqrt (var (getI i 1) + eps)))).sum)) := rfl

theorem bn_backward_dbeta_eq (g x : NDArray ℝ) (gamma : Option (NDArray ℝ)) (useBatch : Bool) (mean var : Nat → ℝ) (eps : ℝ) :
    (bnBackward g x gamma true useBatch mean var eps).2.2 = some (ofFn [x.shape.getD 1 0] (fun j =>
      ((chanIdx x.shape (getI j 0)).map g.get).sum)) := rfl

/-! ### per-channel parameter vectors -/
theorem bn_valid_one (ch c : Nat) (hc : c < ch) : validIdx [ch] [c] := ⟨hc, trivial⟩

theorem bn_data_getD (a : NDArray ℝ) (ch : Nat) (hs : a.shape = [ch]) (ha : a.WF) (c : Nat) (hc : c < ch) (d : ℝ) :
    a.data.getD c d = a.get [c] := by
  have hl : c < a.data.length := by
    rw [ha, hs]; simpa [Shape.size] using hc
  simp [NDArray.get, hs, ravel, Shape.size, List.getD_eq_getElem?_getD, hl]

theorem bn_line_data_getD (a v : NDArray ℝ) (t : ℝ) (ch : Nat) (hs : a.shape = [ch]) (ha : a.WF) (hv : v.WF)
    (hvs : v.shape = a.shape) (c : Nat) (hc : c < ch) (d : ℝ) :
    (line a v t).data.getD c d = a.get [c] + t * v.get [c] := by
  rw [bn_data_getD (line a v t) ch hs (bn_line_wf a v t ha hv hvs) c hc d,
    bn_line_get a v t ha hv hvs [c] (hs ▸ bn_valid_one ch c hc)]

/-! ### training mode: the per-channel algebra -/
theorem bn_sum_lin3 (L : List Idx) (a b c : ℝ) (f g h : Idx → ℝ) :
    (L.map (fun i => a * f i + b * g i + c * h i)).sum
      = a * (L.map f).sum + b * (L.map g).sum + c * (L.map h).sum := by
  induction L with
  | nil => simp
  | cons k L ih => simp only [List.map_cons, List.sum_cons, ih]; ring

theorem bn_sum_lin2 (L : List Idx) (a b : ℝ) (f g : Idx → ℝ) :
    (L.map (fun i => a * f i + b * g i)).sum = a * (L.map f).sum + b * (L.map g).sum := by
  induction L with
  | nil => simp
  | cons k L ih => simp only [List.map_cons, List.sum_cons, ih]; ring

theorem bn_sum_lin1 (L : List Idx) (a : ℝ) (f : Idx → ℝ) :
    (L.map (fun i => a * f i)).sum = a * (L.map f).sum := by
  induction L with
  | nil => simp
  | cons k L ih => simp only [List.map_cons, List.sum_cons, ih]; ring

/-- the derivative of `t ↦ ŷ_i(t)·γ` weighted by the upstream gradient (`D i = g_i·γ`), for entry `i` of a channel `L` -/
noncomputable def bn_T (L : List Idx) (D xf vf : Idx → ℝ) (m sd n : ℝ) (i : Idx) : ℝ :=
  ((vf i - (L.map vf).sum / n) * sd⁻¹
    - (xf i - m) * ((L.map (fun k => 2 * (xf k - m) * (vf k - (L.map vf).sum / n))).sum / n) * sd⁻¹ ^ 3 / 2) * D i

/-- entry `i` of the input gradient the training-mode backward kernel computes -/
noncomputable def bn_R (L : List Idx) (D xf : Idx → ℝ) (m sd n pw : ℝ) (i : Idx) : ℝ :=
  D i / sd
  + 2 * ((L.map (fun k => -(1 / 2) * D k * (xf k - m))).sum * pw) * (xf i - m) / n
  + ((L.map (fun k => -1 / sd * D k)).sum
      + ((L.map (fun k => -(1 / 2) * D k * (xf k - m))).sum * pw) * (L.map (fun k => -2 * (xf k - m))).sum / n) / n

theorem bn_chan_identity (L : List Idx) (D xf vf : Idx → ℝ) (m sd n pw : ℝ) (hpw : pw = sd⁻¹ ^ 3) :
    (L.map (fun i => bn_T L D xf vf m sd n i)).sum = (L.map (fun i => vf i * bn_R L D xf m sd n pw i)).sum := by
  subst hpw
  have e1 : (L.map (fun k => 2 * (xf k - m) * (vf k - (L.map vf).sum / n))).sum
      = 2 * (L.map (fun k => vf k * (xf k - m))).sum
        + (-2 * ((L.map vf).sum / n)) * (L.map (fun k => xf k - m)).sum := by
    rw [← bn_sum_lin2]
    refine congrArg List.sum (List.map_congr_left (fun k _ => ?_)); ring
  have e2 : (L.map (fun k => -(1 / 2) * D k * (xf k - m))).sum
      = -(1 / 2) * (L.map (fun k => D k * (xf k - m))).sum := by
    rw [← bn_sum_lin1]
    refine congrArg List.sum (List.map_congr_left (fun k _ => ?_)); ring
  have e3 : (L.map (fun k => -1 / sd * D k)).sum = -1 / sd * (L.map D).sum := bn_sum_lin1 _ _ _
  have e4 : (L.map (fun k => -2 * (xf k - m))).sum = -2 * (L.map (fun k => xf k - m)).sum := bn_sum_lin1 _ _ _
  simp only [bn_T, bn_R, e1, e2, e3, e4]
  have l1 : ∀ a1 a2 : ℝ, (L.map (fun i => ((vf i - a1) * sd⁻¹ - (xf i - m) * a2 * sd⁻¹ ^ 3 / 2) * D i)).sum
      = sd⁻¹ * (L.map (fun i => D i * vf i)).sum + (-(a1 * sd⁻¹)) * (L.map D).sum
        + (-(a2 * sd⁻¹ ^ 3 / 2)) * (L.map (fun k => D k * (xf k - m))).sum := by
    intro a1 a2
    rw [← bn_sum_lin3]
    refine congrArg List.sum (List.map_congr_left (fun k _ => ?_)); ring
  have l2 : ∀ b2 b3 : ℝ, (L.map (fun i => vf i * (D i / sd + b2 * (xf i - m) / n + b3))).sum
      = sd⁻¹ * (L.map (fun i => D i * vf i)).sum + (b2 / n) * (L.map (fun k => vf k * (xf k - m))).sum
        + b3 * (L.map vf).sum := by
    intro b2 b3
    rw [← bn_sum_lin3]
    refine congrArg List.sum (List.map_congr_left (fun k _ => ?_)); ring
  rw [l1, l2]
  ring

/-! ### training mode: the batch statistics along the line, and their derivatives -/
/-- channel mean along the line -/
noncomputable def bn_M (L : List Idx) (xf vf : Idx → ℝ) (t : ℝ) : ℝ :=
  (L.map (fun k => xf k + t * vf k)).sum / ((L.length : Nat) : ℝ)
/-- channel (biased) variance along the line -/
noncomputable def bn_V (L : List Idx) (xf vf : Idx → ℝ) (t : ℝ) : ℝ :=
  (L.map (fun k => (xf k + t * vf k - bn_M L xf vf t) * (xf k + t * vf k - bn_M L xf vf t))).sum / ((L.length : Nat) : ℝ)

theorem bn_stats_line (x v : NDArray ℝ) (t : ℝ) (hx : x.WF) (hv : v.WF) (hvs : v.shape = x.shape) (c : Nat) :
    bnStats (line x v t) c = (bn_M (chanIdx x.shape c) x.get v.get t, bn_V (chanIdx x.shape c) x.get v.get t) := by
  have hvals : (chanIdx (line x v t).shape c).map (line x v t).get
      = (chanIdx x.shape c).map (fun k => x.get k + t * v.get k) :=
    List.map_congr_left (fun k hk => bn_line_get x v t hx hv hvs k ((bn_mem_chanIdx _ _ _).1 hk).1)
  unfold bnStats
  simp only [hvals, List.length_map, List.map_map, bn_M, bn_V, Function.comp_def]

theorem bn_stats_eq (x : NDArray ℝ) (c : Nat) :
    (bnStats x c).1 = ((chanIdx x.shape c).map x.get).sum / (((chanIdx x.shape c).length : Nat) : ℝ) ∧
    (bnStats x c).2 = ((chanIdx x.shape c).map (fun k => (x.get k - (bnStats x c).1) * (x.get k - (bnStats x c).1))).sum
      / (((chanIdx x.shape c).length : Nat) : ℝ) := by
  unfold bnStats
  simp only [List.length_map, List.map_map, Function.comp_def, and_self]

theorem bn_V_nonneg (L : List Idx) (xf vf : Idx → ℝ) (t : ℝ) : 0 ≤ bn_V L xf vf t := by
  unfold bn_V
  apply div_nonneg _ (Nat.cast_nonneg _)
  apply List.sum_nonneg
  intro y hy
  obtain ⟨k, _, rfl⟩ := List.mem_map.1 hy
  exact mul_self_nonneg _

theorem bn_hasDerivAt_M (L : List Idx) (xf vf : Idx → ℝ) :
    HasDerivAt (bn_M L xf vf) ((L.map vf).sum / ((L.length : Nat) : ℝ)) 0 := by
  unfold bn_M
  apply HasDerivAt.div_const
  apply bn_hasDerivAt_list_sum L (fun k t => xf k + t * vf k) vf 0
  intro k _
  simpa using ((hasDerivAt_id (0 : ℝ)).mul_const (vf k)).const_add (xf k)

theorem bn_M_zero (L : List Idx) (xf vf : Idx → ℝ) :
    bn_M L xf vf 0 = (L.map xf).sum / ((L.length : Nat) : ℝ) := by
  simp [bn_M]

theorem bn_hasDerivAt_V (L : List Idx) (xf vf : Idx → ℝ) (m : ℝ) (hm : m = (L.map xf).sum / ((L.length : Nat) : ℝ)) :
    HasDerivAt (bn_V L xf vf)
      ((L.map (fun k => 2 * (xf k - m) * (vf k - (L.map vf).sum / ((L.length : Nat) : ℝ)))).sum / ((L.length : Nat) : ℝ)) 0 := by
  unfold bn_V
  apply HasDerivAt.div_const
  apply bn_hasDerivAt_list_sum L
    (fun k t => (xf k + t * vf k - bn_M L xf vf t) * (xf k + t * vf k - bn_M L xf vf t)) _ 0
  intro k _
  have h1 : HasDerivAt (fun t : ℝ => xf k + t * vf k - bn_M L xf vf t)
      (vf k - (L.map vf).sum / ((L.length : Nat) : ℝ)) 0 := by
    have hk : HasDerivAt (fun t : ℝ => xf k + t * vf k) (vf k) 0 := by
      simpa using ((hasDerivAt_id (0 : ℝ)).mul_const (vf k)).const_add (xf k)
    exact hk.sub (bn_hasDerivAt_M L xf vf)
  have h2 := h1.mul h1
  refine h2.congr_deriv ?_
  simp only [zero_mul, add_zero, bn_M_zero, ← hm]
  ring

theorem bn_V_zero (L : List Idx) (xf vf : Idx → ℝ) (m : ℝ) (hm : m = (L.map xf).sum / ((L.length : Nat) : ℝ)) :
    bn_V L xf vf 0 = (L.map (fun k => (xf k - m) * (xf k - m))).sum / ((L.length : Nat) : ℝ) := by
  simp [bn_V, bn_M_zero, ← hm]

/-- derivative of one normalised entry along the line -/
theorem bn_hasDerivAt_xhat (L : List Idx) (xf vf : Idx → ℝ) (eps : ℝ) (heps : 0 < eps) (i : Idx) (m vr : ℝ)
    (hm : m = (L.map xf).sum / ((L.length : Nat) : ℝ))
    (hvr : vr = (L.map (fun k => (xf k - m) * (xf k - m))).sum / ((L.length : Nat) : ℝ)) :
    HasDerivAt (fun t => (xf i + t * vf i - bn_M L xf vf t) / Real.sqrt (bn_V L xf vf t + eps))
      ((vf i - (L.map vf).sum / ((L.length : Nat) : ℝ)) * (Real.sqrt (vr + eps))⁻¹
        - (xf i - m) * ((L.map (fun k => 2 * (xf k - m) * (vf k - (L.map vf).sum / ((L.length : Nat) : ℝ)))).sum
            / ((L.length : Nat) : ℝ)) * (Real.sqrt (vr + eps))⁻¹ ^ 3 / 2) 0 := by
  have hv0 : bn_V L xf vf 0 = vr := by rw [bn_V_zero L xf vf m hm, hvr]
  have hpos : 0 < vr + eps := by
    have := bn_V_nonneg L xf vf 0
    rw [hv0] at this
    linarith
  have hsd : Real.sqrt (vr + eps) ≠ 0 := (Real.sqrt_pos.2 hpos).ne'
  have h1 : HasDerivAt (fun t : ℝ => xf i + t * vf i - bn_M L xf vf t)
      (vf i - (L.map vf).sum / ((L.length : Nat) : ℝ)) 0 := by
    have hk : HasDerivAt (fun t : ℝ => xf i + t * vf i) (vf i) 0 := by
      simpa using ((hasDerivAt_id (0 : ℝ)).mul_const (vf i)).const_add (xf i)
    exact hk.sub (bn_hasDerivAt_M L xf vf)
  have h2 : HasDerivAt (fun t : ℝ => bn_V L xf vf t + eps) _ 0 := (bn_hasDerivAt_V L xf vf m hm).add_const eps
  have h3 := h2.sqrt (by rw [hv0]; exact hpos.ne')
  have h4 := h1.div h3 (by rw [hv0]; exact hsd)
  refine h4.congr_deriv ?_
  simp only [zero_mul, add_zero, bn_M_zero, ← hm, hv0]
  field_simp

theorem bn_rpow_neg_three_halves (y : ℝ) (hy : 0 < y) : y ^ (-((3 : ℝ) / 2)) = (Real.sqrt y)⁻¹ ^ 3 := by
  rw [Real.rpow_neg hy.le, Real.sqrt_eq_rpow, inv_pow, ← Real.rpow_natCast, ← Real.rpow_mul hy.le]
  norm_num

theorem bn_backward_dx_train_eq (g x : NDArray ℝ) (gamma : Option (NDArray ℝ)) (hasB : Bool)
    (mean var : Nat → ℝ) (eps : ℝ) :
    (bnBackward g x gamma hasB true mean var eps).1 = ofFn x.shape (fun i =>
      bn_R (chanIdx x.shape (getI i 1)) (fun k => g.get k * bn_gam gamma (getI k 1)) x.get (mean (getI i 1))
        (Real.sqrt (var (getI i 1) + eps)) (((chanIdx x.shape (getI i 1)).length : Nat) : ℝ)
        ((var (getI i 1) + eps) ^ (-((3 : ℝ) / 2))) i) := by
  rw [bn_backward_dx_eq]
  simp only [if_true, bn_R]

end Proofs.NL
