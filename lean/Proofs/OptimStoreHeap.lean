import SynapModel.OptimStore
/-!
# Heap lemmas for `Synap.OptimStore`: allocation, in-place writes, the extension order on heaps,
# and what each statement of the optimizers does to the heap
-/
namespace Proofs.OptimStore
open Synap.OptimStore
open Synap.Optim (SGDCfg AdamCfg HasSqrt)

variable {α : Type}

/-! ### rdBuf / alloc / wrBuf -/

@[simp] theorem alloc_length (h : Heap α) (a : List α) : (alloc h a).1.length = h.length + 1 := by
  simp [alloc]

@[simp] theorem alloc_snd (h : Heap α) (a : List α) : (alloc h a).2 = h.length := rfl

theorem rdBuf_alloc_lt (h : Heap α) (a : List α) {b : BufId} (hb : b < h.length) :
    rdBuf (alloc h a).1 b = rdBuf h b := by
  simp [rdBuf, alloc, List.getElem?_append_left hb]

theorem rdBuf_alloc_new (h : Heap α) (a : List α) : rdBuf (alloc h a).1 h.length = a := by
  simp [rdBuf, alloc]

@[simp] theorem wrBuf_length (h : Heap α) (d : BufId) (a : List α) : (wrBuf h d a).length = h.length := by
  simp [wrBuf]

theorem rdBuf_wrBuf_ne (h : Heap α) (a : List α) {d b : BufId} (hne : d ≠ b) :
    rdBuf (wrBuf h d a) b = rdBuf h b := by
  simp [rdBuf, wrBuf, List.getElem?_set_ne hne]

theorem rdBuf_wrBuf_eq (h : Heap α) (a : List α) {d : BufId} (hd : d < h.length) :
    rdBuf (wrBuf h d a) d = a := by
  simp [rdBuf, wrBuf, List.getElem?_set_self hd]

/-- element `k` of buffer `b` -/
def val (h : Heap α) (b : BufId) (k : Nat) : Option α := (rdBuf h b)[k]?

/-! ### the extension order: nothing freed, only buffer `w` (if any) overwritten -/

def Ext (w : Option BufId) (h h' : Heap α) : Prop :=
  h.length ≤ h'.length ∧ ∀ x, x < h.length → some x ≠ w → rdBuf h' x = rdBuf h x

theorem Ext.refl (w : Option BufId) (h : Heap α) : Ext w h h := ⟨Nat.le_refl _, fun _ _ _ => rfl⟩

theorem Ext.trans {w : Option BufId} {h₁ h₂ h₃ : Heap α} (a : Ext w h₁ h₂) (b : Ext w h₂ h₃) :
    Ext w h₁ h₃ :=
  ⟨Nat.le_trans a.1 b.1, fun x hx hw => by
    rw [b.2 x (Nat.lt_of_lt_of_le hx a.1) hw, a.2 x hx hw]⟩

theorem Ext.weaken {w : Option BufId} {h h' : Heap α} (a : Ext none h h') : Ext w h h' :=
  ⟨a.1, fun x hx _ => a.2 x hx (by simp)⟩

theorem Ext.rd_eq {w : Option BufId} {h h' : Heap α} (a : Ext w h h') {x : BufId} (hx : x < h.length)
    (hw : some x ≠ w) : rdBuf h' x = rdBuf h x := a.2 x hx hw

theorem Ext.val_eq {w : Option BufId} {h h' : Heap α} (a : Ext w h h') {x : BufId} (hx : x < h.length)
    (hw : some x ≠ w) (k : Nat) : val h' x k = val h x k := by
  unfold val; rw [a.2 x hx hw]

theorem ext_alloc (h : Heap α) (a : List α) : Ext none h (alloc h a).1 :=
  ⟨by simp, fun _ hx _ => rdBuf_alloc_lt h a hx⟩

theorem ext_wrBuf (h : Heap α) (d : BufId) (a : List α) : Ext (some d) h (wrBuf h d a) :=
  ⟨by simp, fun x _ hw => rdBuf_wrBuf_ne h a (fun e => hw (by rw [e]))⟩

/-! ### the statement forms -/

theorem ext_allocMap (h : Heap α) (f : α → α) (a : BufId) : Ext none h (allocMap h f a).1 :=
  ext_alloc _ _
theorem ext_allocZip (h : Heap α) (f : α → α → α) (a b : BufId) : Ext none h (allocZip h f a b).1 :=
  ext_alloc _ _
theorem ext_writeMap (h : Heap α) (d : BufId) (f : α → α) : Ext (some d) h (writeMap h d f) :=
  ext_wrBuf _ _ _
theorem ext_writeZip (h : Heap α) (d : BufId) (f : α → α → α) (b : BufId) :
    Ext (some d) h (writeZip h d f b) := ext_wrBuf _ _ _
theorem ext_writeZipLit (h : Heap α) (d : BufId) (f : α → α → α) (g : List α) :
    Ext (some d) h (writeZipLit h d f g) := ext_wrBuf _ _ _

@[simp] theorem allocMap_snd (h : Heap α) (f : α → α) (a : BufId) : (allocMap h f a).2 = h.length := rfl
@[simp] theorem allocZip_snd (h : Heap α) (f : α → α → α) (a b : BufId) :
    (allocZip h f a b).2 = h.length := rfl
@[simp] theorem allocMap_length (h : Heap α) (f : α → α) (a : BufId) :
    (allocMap h f a).1.length = h.length + 1 := alloc_length _ _
@[simp] theorem allocZip_length (h : Heap α) (f : α → α → α) (a b : BufId) :
    (allocZip h f a b).1.length = h.length + 1 := alloc_length _ _
@[simp] theorem writeMap_length (h : Heap α) (d : BufId) (f : α → α) :
    (writeMap h d f).length = h.length := wrBuf_length _ _ _
@[simp] theorem writeZip_length (h : Heap α) (d : BufId) (f : α → α → α) (b : BufId) :
    (writeZip h d f b).length = h.length := wrBuf_length _ _ _
@[simp] theorem writeZipLit_length (h : Heap α) (d : BufId) (f : α → α → α) (g : List α) :
    (writeZipLit h d f g).length = h.length := wrBuf_length _ _ _

theorem val_allocMap (h : Heap α) (f : α → α) (a : BufId) (k : Nat) :
    val (allocMap h f a).1 h.length k = (val h a k).map f := by
  unfold val allocMap; rw [rdBuf_alloc_new]; simp

theorem val_allocZip (h : Heap α) (f : α → α → α) (a b : BufId) (k : Nat) {x y : α}
    (ha : val h a k = some x) (hb : val h b k = some y) :
    val (allocZip h f a b).1 h.length k = some (f x y) := by
  unfold val at *; unfold allocZip; rw [rdBuf_alloc_new, List.getElem?_zipWith, ha, hb]

theorem val_writeMap (h : Heap α) (d : BufId) (f : α → α) (k : Nat) (hd : d < h.length) :
    val (writeMap h d f) d k = (val h d k).map f := by
  unfold val writeMap; rw [rdBuf_wrBuf_eq _ _ hd]; simp

theorem val_writeZip (h : Heap α) (d : BufId) (f : α → α → α) (b : BufId) (k : Nat) (hd : d < h.length)
    {x y : α} (hx : val h d k = some x) (hy : val h b k = some y) :
    val (writeZip h d f b) d k = some (f x y) := by
  unfold val at *; unfold writeZip; rw [rdBuf_wrBuf_eq _ _ hd, List.getElem?_zipWith, hx, hy]

theorem val_writeZipLit (h : Heap α) (d : BufId) (f : α → α → α) (g : List α) (k : Nat)
    (hd : d < h.length) {x y : α} (hx : val h d k = some x) (hy : g[k]? = some y) :
    val (writeZipLit h d f g) d k = some (f x y) := by
  unfold val at *; unfold writeZipLit; rw [rdBuf_wrBuf_eq _ _ hd, List.getElem?_zipWith, hx, hy]

/-- an in-place statement never makes a buffer longer -/
theorem length_rdBuf_wrBufZip_le (h : Heap α) (d : BufId) (f : α → α → α) (b : BufId) (x : BufId) :
    (rdBuf (writeZip h d f b) x).length ≤ (rdBuf h x).length := by
  by_cases hx : d = x
  · subst hx
    by_cases hd : d < h.length
    · unfold writeZip; rw [rdBuf_wrBuf_eq _ _ hd]; simp [List.length_zipWith]; exact Nat.min_le_left _ _
    · unfold writeZip wrBuf; rw [List.set_eq_of_length_le (Nat.le_of_not_lt hd)]; exact Nat.le_refl _
  · unfold writeZip; rw [rdBuf_wrBuf_ne _ _ hx]; exact Nat.le_refl _

end Proofs.OptimStore
