import Proofs.AdjointGenB
/-!
# Inserting / removing one axis: list lemmas, validity, and the "take / place" adjoint pair
-/
namespace Proofs.Adjoint
open Synap Synap.NDArray Synap.Np Proofs.Core

section ListLemmas
variable {α : Type}

@[simp] theorem insertAt_zero (l : List α) (x : α) : insertAt l 0 x = x :: l := by simp [insertAt]
@[simp] theorem insertAt_succ_cons (y : α) (l : List α) (a : Nat) (x : α) :
    insertAt (y :: l) (a + 1) x = y :: insertAt l a x := by simp [insertAt]

theorem length_insertAt (l : List α) (a : Nat) (x : α) : (insertAt l a x).length = l.length + 1 := by
  simp only [insertAt, List.length_append, List.length_take, List.length_cons, List.length_drop]
  omega

theorem zipIdx_map_of_forall (g : α × Nat → α) (l : List α) (k : Nat)
    (h : ∀ p ∈ l.zipIdx k, g p = p.1) : (l.zipIdx k).map g = l := by
  rw [List.map_congr_left h, List.zipIdx_map_fst]

theorem dropAxes_single_aux : ∀ (l : List α) (a k : Nat),
    ((l.zipIdx k).filter (fun (p : α × Nat) => ![a + k].contains p.2)).map (·.1) = l.eraseIdx a
  | [], _, _ => by simp
  | x :: l, 0, k => by
    have : (l.zipIdx (k + 1)).filter (fun (p : α × Nat) => ![0 + k].contains p.2) = l.zipIdx (k + 1) := by
      rw [List.filter_eq_self]
      rintro ⟨y, n⟩ hm
      have := List.mem_zipIdx hm
      simp
      omega
    simp only [List.zipIdx_cons, List.filter_cons, this]
    simp
  | x :: l, a + 1, k => by
    have ih := dropAxes_single_aux l a (k + 1)
    have e : a + 1 + k = a + (k + 1) := by omega
    simp only [List.zipIdx_cons, List.filter_cons, e, List.eraseIdx_cons_succ]
    have : ([a + (k + 1)].contains k) = false := by simp; omega
    simp only [this, Bool.not_false, if_true, List.map_cons, ih]

theorem dropAxes_single (l : List α) (a : Nat) : dropAxes l [a] = l.eraseIdx a := by
  have := dropAxes_single_aux l a 0
  simpa [dropAxes] using this

theorem zipIdx_map_modify_aux (f : α → α) : ∀ (l : List α) (a k : Nat),
    (l.zipIdx k).map (fun (p : α × Nat) => if p.2 = a + k then f p.1 else p.1) = l.modify a f
  | [], _, _ => by simp
  | x :: l, 0, k => by
    have : (l.zipIdx (k + 1)).map (fun (p : α × Nat) => if p.2 = 0 + k then f p.1 else p.1) = l := by
      apply zipIdx_map_of_forall
      rintro ⟨y, n⟩ hm
      have := List.mem_zipIdx hm
      have hne : ¬ n = k := by omega
      simp [hne]
    simp only [List.zipIdx_cons, List.map_cons, this, List.modify_zero_cons]
    simp
  | x :: l, a + 1, k => by
    have ih := zipIdx_map_modify_aux f l a (k + 1)
    have e : a + 1 + k = a + (k + 1) := by omega
    have hne : ¬ k = a + (k + 1) := by omega
    simp only [List.zipIdx_cons, List.map_cons, e, ih, List.modify_succ_cons, hne, if_false]

/-- "replace the entry at position `a`" written with `zipIdx`, as `List.modify` -/
theorem zipIdx_map_modify (f : α → α) (l : List α) (a : Nat) :
    l.zipIdx.map (fun (p : α × Nat) => if p.2 = a then f p.1 else p.1) = l.modify a f := by
  simpa using zipIdx_map_modify_aux f l a 0

theorem eraseIdx_insertAt : ∀ (l : List α) (a : Nat) (x : α), a ≤ l.length →
    (insertAt l a x).eraseIdx a = l
  | l, 0, x, _ => by simp
  | [], a + 1, x, h => by simp at h
  | y :: l, a + 1, x, h => by
    simp [eraseIdx_insertAt l a x (by simpa using h)]

theorem getD_insertAt : ∀ (l : List α) (a : Nat) (x d : α), a ≤ l.length →
    (insertAt l a x).getD a d = x
  | l, 0, x, d, _ => by simp
  | [], a + 1, x, d, h => by simp at h
  | y :: l, a + 1, x, d, h => by
    have := getD_insertAt l a x d (by simpa using h)
    simpa using this

theorem insertAt_eraseIdx : ∀ (l : List α) (a : Nat) (d : α), a < l.length →
    insertAt (l.eraseIdx a) a (l.getD a d) = l
  | [], _, _, h => by simp at h
  | y :: l, 0, d, _ => by simp
  | y :: l, a + 1, d, h => by
    have := insertAt_eraseIdx l a d (by simpa using h)
    simpa using this

theorem modify_insertAt (f : α → α) : ∀ (l : List α) (a : Nat) (x : α), a ≤ l.length →
    (insertAt l a x).modify a f = insertAt l a (f x)
  | l, 0, x, _ => by simp
  | [], a + 1, x, h => by simp at h
  | y :: l, a + 1, x, h => by
    simp [modify_insertAt f l a x (by simpa using h)]

theorem insertAt_injective_right (l : List α) (a : Nat) (x x' : α) (h : insertAt l a x = insertAt l a x') :
    x = x' := by
  simp only [insertAt] at h
  have := List.append_cancel_left h
  exact (List.cons.inj this).1

end ListLemmas

/-! ### validity -/
theorem validIdx_eraseIdx : ∀ (s : Shape) (i : Idx) (a : Nat), validIdx s i →
    validIdx (s.eraseIdx a) (i.eraseIdx a)
  | [], [], _, _ => by simp [validIdx]
  | n :: s, x :: i, 0, h => by simpa using h.2
  | n :: s, x :: i, a + 1, h => by
    simp only [List.eraseIdx_cons_succ]
    exact ⟨h.1, validIdx_eraseIdx s i a h.2⟩
  | [], _ :: _, _, h => by simp [validIdx] at h
  | _ :: _, [], _, h => by simp [validIdx] at h

theorem validIdx_getD : ∀ (s : Shape) (i : Idx) (a : Nat), validIdx s i → a < s.length →
    i.getD a 0 < s.getD a 0
  | [], [], _, _, h => by simp at h
  | n :: s, x :: i, 0, h, _ => by simpa using h.1
  | n :: s, x :: i, a + 1, h, ha => by
    have := validIdx_getD s i a h.2 (by simpa using ha)
    simpa using this
  | [], _ :: _, _, h, _ => by simp [validIdx] at h
  | _ :: _, [], _, h, _ => by simp [validIdx] at h

theorem validIdx_insertAt : ∀ (r : Shape) (q : Idx) (a n t : Nat), validIdx r q → a ≤ r.length → t < n →
    validIdx (insertAt r a n) (insertAt q a t)
  | r, q, 0, n, t, h, _, ht => by
    simp only [insertAt_zero]
    exact ⟨ht, h⟩
  | [], [], a + 1, _, _, _, ha, _ => by simp at ha
  | m :: r, x :: q, a + 1, n, t, h, ha, ht => by
    simp only [insertAt_succ_cons]
    exact ⟨h.1, validIdx_insertAt r q a n t h.2 (by simpa using ha) ht⟩
  | [], _ :: _, _ + 1, _, _, h, _, _ => by simp [validIdx] at h
  | _ :: _, [], _ + 1, _, _, h, _, _ => by simp [validIdx] at h

/-- a valid index of a shape with an axis at position `a`, in "insert" normal form -/
theorem validIdx_insertAt_iff (r : Shape) (a n : Nat) (ha : a ≤ r.length) (i : Idx) :
    validIdx (insertAt r a n) i ↔
      ∃ q t, i = insertAt q a t ∧ validIdx r q ∧ t < n := by
  constructor
  · intro h
    have hl := validIdx_length _ _ h
    rw [length_insertAt] at hl
    have hv := validIdx_eraseIdx _ _ a h
    rw [eraseIdx_insertAt r a n ha] at hv
    have hg := validIdx_getD _ _ a h (by rw [length_insertAt]; omega)
    rw [getD_insertAt r a n 0 ha] at hg
    exact ⟨i.eraseIdx a, i.getD a 0, (insertAt_eraseIdx i a 0 (by omega)).symm, hv, hg⟩
  · rintro ⟨q, t, rfl, hq, ht⟩
    exact validIdx_insertAt r q a n t hq ha ht

theorem normAxis_ltB (n : Nat) (ax : Int) (a : Nat) (h : normAxis n ax = some a) : a < n := by
  unfold normAxis at h
  split_ifs at h with h1 h2
  · have := Option.some.inj h; omega
  · have := Option.some.inj h; omega

variable {R : Type} [CommSemiring R]

/-- `take` along an axis (read `v` at `insertAt j a0 k`) and "place at position `k`" are transposes -/
theorem take_place_adj (sa : Shape) (a0 k : Nat) (ha0 : a0 < sa.length) (hk : k < sa.getD a0 0)
    (F B : NDArray R → Option (NDArray R))
    (hF : ∀ v : NDArray R, v.WF → v.shape = sa → ∃ y, F v = some y ∧ y.WF ∧ y.shape = dropAxes sa [a0] ∧
      ∀ j, validIdx (dropAxes sa [a0]) j → y.get j = v.get (insertAt j a0 k))
    (hB : ∀ g : NDArray R, g.WF → g.shape = dropAxes sa [a0] → ∃ b, B g = some b ∧ b.WF ∧ b.shape = sa ∧
      ∀ i, validIdx sa i → b.get i = if getI i a0 = k then g.get (dropAxes i [a0]) else 0) :
    IsAdjoint sa (dropAxes sa [a0]) F B := by
  apply isAdjoint_of_embed_spec sa (dropAxes sa [a0]) (fun j => insertAt j a0 k) (fun i => dropAxes i [a0])
    (fun i => getI i a0 = k) ?_ ?_ F B hF hB
  · intro j hj
    rw [dropAxes_single] at hj
    have hjl := validIdx_length _ _ hj
    rw [List.length_eraseIdx_of_lt ha0] at hjl
    have ha' : a0 ≤ j.length := by omega
    refine ⟨?_, ?_, ?_⟩
    · have := validIdx_insertAt _ j a0 _ k hj (by rw [List.length_eraseIdx_of_lt ha0]; omega) hk
      rwa [insertAt_eraseIdx sa a0 0 ha0] at this
    · exact getD_insertAt j a0 k 0 ha'
    · show dropAxes (insertAt j a0 k) [a0] = j
      rw [dropAxes_single, eraseIdx_insertAt j a0 k ha']
  · intro i hi hP
    have hil := validIdx_length _ _ hi
    refine ⟨?_, ?_⟩
    · show validIdx (dropAxes sa [a0]) (dropAxes i [a0])
      rw [dropAxes_single, dropAxes_single]
      exact validIdx_eraseIdx sa i a0 hi
    · show insertAt (dropAxes i [a0]) a0 k = i
      have hP' : i.getD a0 0 = k := hP
      rw [dropAxes_single, ← hP', insertAt_eraseIdx i a0 0 (by omega)]

/-! ### `stack` -/
section Stack
variable {α : Type} [Zero α]

theorem stack_some (xs : List (NDArray α)) (axis : Int) (y : NDArray α) (h : stack xs axis = some y) :
    ∃ s0 a0, xs ≠ [] ∧ (∀ x ∈ xs, x.shape = s0) ∧ normAxis (s0.length + 1) axis = some a0 ∧
      y.shape = insertAt s0 a0 xs.length := by
  cases xs with
  | nil => simp [stack] at h
  | cons x0 r =>
    cases hn : normAxis (x0.shape.length + 1) axis with
    | none => simp [stack, hn] at h
    | some a0 =>
      simp [stack, hn] at h
      obtain ⟨h1, h2⟩ := h
      refine ⟨x0.shape, a0, by simp, ?_, hn, by rw [← h2]; rfl⟩
      intro x hx
      rcases List.mem_cons.1 hx with rfl | hx
      · rfl
      · exact h1 x hx

theorem stack_eq (xs : List (NDArray α)) (axis : Int) (s0 : Shape) (a0 n : Nat) (hne : xs ≠ [])
    (hall : ∀ x ∈ xs, x.shape = s0) (hn : normAxis (s0.length + 1) axis = some a0) (hl : xs.length = n) :
    stack xs axis = some (ofFn (insertAt s0 a0 n) (fun j =>
      match xs[getI j a0]? with
      | some x => x.get (dropAxes j [a0])
      | none => 0)) := by
  cases xs with
  | nil => exact absurd rfl hne
  | cons x0 r =>
    have h0 : x0.shape = s0 := hall x0 (by simp)
    have hall' : ((x0 :: r).all (fun x => x.shape == x0.shape)) = true := by
      rw [List.all_eq_true]
      intro x hx
      simp [hall x hx, h0]
    simp only [stack, List.head?_cons, h0, hn, Option.bind_eq_bind, Option.bind_some, Option.pure_def]
    rw [h0] at hall'
    simp only [hall', Bool.not_true, Bool.false_eq_true, if_false, hl]
    rfl

/-- reading the stack of "zeros except operand `k`" -/
theorem get_set_zeros (xs : List (NDArray α)) (k : Nat) (v : NDArray α) (hk : k < xs.length) (t : Nat)
    (q : Idx) :
    (match ((xs.map (fun x => (zeros x.shape : NDArray α))).set k v)[t]? with
      | some x => x.get q
      | none => 0) = if t = k then v.get q else 0 := by
  rw [List.getElem?_set]
  by_cases e : k = t
  · subst e
    simp [hk]
  · have e' : ¬ t = k := fun h => e h.symm
    simp only [e, e', if_false, List.getElem?_map]
    cases xs[t]? with
    | none => rfl
    | some x => exact get_zeros _ _

end Stack

end Proofs.Adjoint
