import Proofs.VJPSoftmaxLemmas
import Proofs.VJPBce
/-!
# Fused kernels against their documented compositions, over ℝ (C14)

* `log_softmax = log ∘ softmax` : exact for the mathematical logarithm, for every array, axis and rank
  (including the rejected calls: both sides reject together).  Composing with the LIBRARY's `log`
  (`log(x + 1e-12)`, DESIGN §12.4 D15) gives a strictly larger value; the excess is `log(1 + ε / softmax)`.
* `BCE-with-logits = BCE ∘ sigmoid` : `bceForward` adds `ε = 1e-12` inside both logarithms and replaces the
  value `−log ε` by `100`; `bceLogitsForward` has no `ε`.  The exact relation, its bound for targets in `[0,1]`
  (where the clamp is provably inactive over ℝ), and the falsity of the naive equality are all stated.
-/
namespace Proofs.Fused
open Synap Synap.NDArray Synap.Np Synap.Kernels Proofs.Core Proofs.Calc Proofs.NL

theorem map_ofFn {α β : Type} (s : Shape) (f : Idx → α) (g : α → β) :
    (ofFn s f).map g = ofFn s (fun i => g (f i)) := by
  simp [ofFn, NDArray.map, Function.comp_def]

/-! ## (1) log_softmax = log ∘ softmax -/

theorem log_sig_eq_ls (x : Idx → ℝ) (n ax : Nat) (i : Idx) (hn : n ≠ 0) :
    Real.log (sm_sig x n ax i) = sm_ls x n ax i := by
  unfold sm_sig sm_ls
  rw [Real.log_div (Real.exp_ne_zero _) (sm_S_pos x n ax i hn).ne', Real.log_exp]

/-- **log_softmax = log ∘ softmax**, as arrays, for EVERY real array, axis and rank: the shifted form
    `x − max − log Σ exp(x − max)` the kernel evaluates is the (mathematical) logarithm of every entry of the
    shifted quotient `exp(x − max) / Σ exp(x − max)`; and the two kernels reject exactly the same calls
    (axis out of range — on a 0-d operand: every `dim` other than `0` / `−1` —, empty axis).  On a 0-d operand
    with `dim` `0` / `−1` the two sides are `0` and `log 1`. -/
theorem log_softmax_is_log_softmax (x : NDArray ℝ) (axis : Int) :
    logSoftmaxForward x axis = (softmaxForward x axis).map (fun s => s.map Real.log) := by
  by_cases h0 : zeroDimAxis x.shape axis
  · rw [sm_logSoftmaxForward_zero x axis h0, sm_softmaxForward_zero x axis h0, Option.map_some, map_ofFn]
    exact congrArg (fun f => some (ofFn [] f)) (funext fun _ => Real.log_one.symm)
  cases hax : normAxis x.shape.length axis with
  | none => simp [logSoftmaxForward, softmaxForward, hax, h0]
  | some ax =>
    by_cases hn : x.shape.getD ax 0 = 0
    · have hn' : x.shape[ax]?.getD 0 = 0 := by simpa [List.getD_eq_getElem?_getD] using hn
      simp [logSoftmaxForward, softmaxForward, hax, hn', h0]
    · rw [sm_logSoftmaxForward_eq x axis ax hax hn, sm_softmaxForward_eq x axis ax hax hn, Option.map_some,
        map_ofFn]
      exact congrArg (fun f => some (ofFn x.shape f)) (funext fun i => (log_sig_eq_ls _ _ _ i hn).symm)

/-- the same, entry by entry, on the accepted calls (valid axis, non-empty along it): both are accepted,
    have the operand's shape, every softmax entry is positive and `log_softmax[i] = Real.log (softmax[i])` -/
theorem log_softmax_entries (x : NDArray ℝ) (axis : Int) (ax : Nat)
    (hax : normAxis x.shape.length axis = some ax) (hn : x.shape.getD ax 0 ≠ 0) :
    ∃ ls s, logSoftmaxForward x axis = some ls ∧ softmaxForward x axis = some s ∧
      ls.WF ∧ s.WF ∧ ls.shape = x.shape ∧ s.shape = x.shape ∧
      ∀ i, validIdx x.shape i → 0 < s.get i ∧ ls.get i = Real.log (s.get i) := by
  refine ⟨_, _, sm_logSoftmaxForward_eq x axis ax hax hn, sm_softmaxForward_eq x axis ax hax hn,
    ofFn_wf _ _, ofFn_wf _ _, rfl, rfl, fun i hi => ?_⟩
  rw [get_ofFn _ _ _ hi, get_ofFn _ _ _ hi]
  exact ⟨div_pos (Real.exp_pos _) (sm_S_pos _ _ _ i hn), (log_sig_eq_ls _ _ _ i hn).symm⟩

example : ∃ ax, normAxis (⟨[2, 2], [1, 2, 3, 5]⟩ : NDArray ℝ).shape.length (-1) = some ax ∧
    (⟨[2, 2], [1, 2, 3, 5]⟩ : NDArray ℝ).shape.getD ax 0 ≠ 0 := ⟨1, by decide, by decide⟩

theorem log_one_add_pos_le (t : ℝ) (ht : 0 < t) : 0 < Real.log (1 + t) ∧ Real.log (1 + t) ≤ t := by
  refine ⟨Real.log_pos (by linarith), ?_⟩
  have := Real.log_le_sub_one_of_pos (show (0 : ℝ) < 1 + t by linarith)
  linarith

theorem log_add_eps (p e : ℝ) (hp : 0 < p) (he : 0 < e) :
    Real.log (p + e) = Real.log p + Real.log (1 + e / p) := by
  rw [← Real.log_mul hp.ne' (by positivity)]
  congr 1
  field_simp

/-- **the library's `log` of softmax is NOT log_softmax**: `log` computes `log(x + 1e-12)` (by design, D15), so on
    every accepted call and at every entry
    `log(softmax)[i] = log_softmax[i] + Real.log (1 + ε / softmax[i])`, which is strictly larger than
    `log_softmax[i]`, by at most `ε / softmax[i]`  (`ε = 1e-12`). -/
theorem library_log_of_softmax (x : NDArray ℝ) (axis : Int) (ax : Nat)
    (hax : normAxis x.shape.length axis = some ax) (hn : x.shape.getD ax 0 ≠ 0) :
    ∃ ls s, logSoftmaxForward x axis = some ls ∧ softmaxForward x axis = some s ∧
      (logForward s).shape = ls.shape ∧
      ∀ i, validIdx x.shape i →
        (logForward s).get i = ls.get i + Real.log (1 + (epsilon : ℝ) / s.get i) ∧
        ls.get i < (logForward s).get i ∧
        (logForward s).get i - ls.get i ≤ (epsilon : ℝ) / s.get i := by
  obtain ⟨ls, s, h1, h2, _, hswf, hlss, hss, hget⟩ := log_softmax_entries x axis ax hax hn
  refine ⟨ls, s, h1, h2, by rw [logForward, map_shape, hss, hlss], fun i hi => ?_⟩
  obtain ⟨hpos, hl⟩ := hget i hi
  have hlog : (logForward s).get i = Real.log (s.get i + (epsilon : ℝ)) := by
    rw [logForward, get_map _ _ hswf _ (hss ▸ hi)]; rfl
  have ht : 0 < (epsilon : ℝ) / s.get i := div_pos bce_epsilon_pos hpos
  obtain ⟨hp, hle⟩ := log_one_add_pos_le _ ht
  rw [hlog, log_add_eps _ _ hpos bce_epsilon_pos, hl]
  exact ⟨rfl, by linarith, by linarith⟩

/-- concrete witness: on `x = [0, 0]` the library composition `log(softmax(x))` differs from `log_softmax(x)` -/
theorem library_log_of_softmax_counterexample :
    ∃ (x : NDArray ℝ) (ls s : NDArray ℝ), x.WF ∧ logSoftmaxForward x 0 = some ls ∧ softmaxForward x 0 = some s ∧
      logForward s ≠ ls := by
  obtain ⟨ls, s, h1, h2, _, h⟩ := library_log_of_softmax (⟨[2], [0, 0]⟩ : NDArray ℝ) 0 0 (by decide) (by decide)
  refine ⟨⟨[2], [0, 0]⟩, ls, s, by simp [NDArray.WF, Shape.size], h1, h2, fun he => ?_⟩
  have := (h [0] (by simp [validIdx])).2.1
  rw [he] at this
  exact lt_irrefl _ this

/-! ## (2) BCE-with-logits against BCE ∘ sigmoid -/

/-- the logistic function as the kernel writes it -/
noncomputable def sigm (x : ℝ) : ℝ := 1 / (1 + Real.exp (-x))

theorem sigm_pos (x : ℝ) : 0 < sigm x := by unfold sigm; positivity
theorem one_sub_sigm (x : ℝ) : 1 - sigm x = Real.exp (-x) / (1 + Real.exp (-x)) := by
  unfold sigm
  have : (1 : ℝ) + Real.exp (-x) ≠ 0 := by positivity
  field_simp
  ring
theorem one_sub_sigm_pos (x : ℝ) : 0 < 1 - sigm x := by rw [one_sub_sigm]; positivity
theorem inv_sigm (x : ℝ) : 1 / sigm x = 1 + Real.exp (-x) := by unfold sigm; simp
theorem inv_one_sub_sigm (x : ℝ) : 1 / (1 - sigm x) = 1 + Real.exp x := by
  rw [one_sub_sigm, Real.exp_neg]
  have : Real.exp x ≠ 0 := (Real.exp_pos x).ne'
  have : (1 : ℝ) + (Real.exp x)⁻¹ ≠ 0 := by positivity
  field_simp
  ring

/-- the value `bceForward` computes BEFORE its clamp, at prediction `p` and target `t` -/
noncomputable def bceRaw (p t : ℝ) : ℝ :=
  -(t * Real.log (p + (epsilon : ℝ)) + (1 - t) * Real.log (1 - p + (epsilon : ℝ)))

/-- what the `ε` inside the two logarithms of `bceForward` takes away at prediction `sigmoid x`, target `t` -/
noncomputable def bceGap (x t : ℝ) : ℝ :=
  t * Real.log (1 + (epsilon : ℝ) / sigm x) + (1 - t) * Real.log (1 + (epsilon : ℝ) / (1 - sigm x))

theorem bceScalar_eq (p t : ℝ) : bceScalar p t = if bceRaw p t = -(Real.log (epsilon : ℝ)) then 100 else bceRaw p t := rfl

/-- without any `ε`, the identity is exact: `−(t·log σ(x) + (1−t)·log(1−σ(x))) = (1−t)·x + log(1 + e^{−x})` -/
theorem bce_sigmoid_no_eps (x t : ℝ) :
    -(t * Real.log (sigm x) + (1 - t) * Real.log (1 - sigm x)) = (1 - t) * x + Real.log (1 + Real.exp (-x)) := by
  have h1 : Real.log (sigm x) = -Real.log (1 + Real.exp (-x)) := by
    unfold sigm; rw [one_div, Real.log_inv]
  have h2 : Real.log (1 - sigm x) = -x - Real.log (1 + Real.exp (-x)) := by
    rw [one_sub_sigm, Real.log_div (Real.exp_ne_zero _) (by positivity), Real.log_exp]
  rw [h1, h2]; ring

/-- **scalar relation, exact**: the stabilised with-logits value minus the unclamped BCE value at `sigmoid x` is `bceGap` -/
theorem bce_logits_sub_raw (x t : ℝ) : bceLogitsScalar x t - bceRaw (sigm x) t = bceGap x t := by
  have hl : bceLogitsScalar x t = (1 - t) * x + Real.log (1 + Real.exp (-x)) := bce_logits_scalar_eq _ x t
  rw [hl, ← bce_sigmoid_no_eps]
  unfold bceRaw bceGap
  rw [log_add_eps _ _ (sigm_pos x) bce_epsilon_pos, log_add_eps _ _ (one_sub_sigm_pos x) bce_epsilon_pos]
  ring

/-- for a target in `[0,1]`: the gap is positive and at most `ε·(t·(1+e^{−x}) + (1−t)·(1+e^{x}))` -/
theorem bceGap_bounds (x t : ℝ) (h0 : 0 ≤ t) (h1 : t ≤ 1) :
    0 < bceGap x t ∧ bceGap x t ≤ (epsilon : ℝ) * (t * (1 + Real.exp (-x)) + (1 - t) * (1 + Real.exp x)) := by
  have ha := log_one_add_pos_le _ (div_pos bce_epsilon_pos (sigm_pos x))
  have hb := log_one_add_pos_le _ (div_pos bce_epsilon_pos (one_sub_sigm_pos x))
  have e1 : (epsilon : ℝ) / sigm x = (epsilon : ℝ) * (1 + Real.exp (-x)) := by rw [← inv_sigm]; ring
  have e2 : (epsilon : ℝ) / (1 - sigm x) = (epsilon : ℝ) * (1 + Real.exp x) := by rw [← inv_one_sub_sigm]; ring
  unfold bceGap
  constructor
  · rcases lt_or_eq_of_le h0 with ht | ht
    · have := mul_pos ht ha.1
      have := mul_nonneg (sub_nonneg.2 h1) hb.1.le
      linarith
    · rw [← ht]; simp only [zero_mul, sub_zero, one_mul, zero_add]; exact hb.1
  · have := mul_le_mul_of_nonneg_left ha.2 h0
    have := mul_le_mul_of_nonneg_left hb.2 (sub_nonneg.2 h1)
    rw [e1] at *
    rw [e2] at *
    nlinarith

/-- for a target in `[0,1]` and a prediction strictly inside `(0,1)` the clamp of `bceForward` is inactive: the raw
    value is strictly below `−log ε` -/
theorem bceRaw_lt_clamp (p t : ℝ) (hp0 : 0 < p) (hp1 : p < 1) (h0 : 0 ≤ t) (h1 : t ≤ 1) :
    bceRaw p t < -(Real.log (epsilon : ℝ)) := by
  have hA : Real.log (epsilon : ℝ) < Real.log (p + (epsilon : ℝ)) :=
    Real.log_lt_log bce_epsilon_pos (by linarith)
  have hB : Real.log (epsilon : ℝ) < Real.log (1 - p + (epsilon : ℝ)) :=
    Real.log_lt_log bce_epsilon_pos (by linarith)
  unfold bceRaw
  rcases lt_or_eq_of_le h0 with ht | ht
  · have := mul_lt_mul_of_pos_left hA ht
    have := mul_le_mul_of_nonneg_left hB.le (sub_nonneg.2 h1)
    nlinarith
  · rw [← ht]; simp only [zero_mul, sub_zero, one_mul, zero_add]; linarith

theorem sigm_lt_one (x : ℝ) : sigm x < 1 := by have := one_sub_sigm_pos x; linarith

/-- **scalar relation through the clamp** (any target): `bceForward`'s value at `sigmoid x` is `100` when the
    with-logits value minus the gap hits `−log ε`, and the with-logits value minus the gap otherwise -/
theorem bceScalar_sigm (x t : ℝ) :
    bceScalar (sigm x) t = if bceLogitsScalar x t - bceGap x t = -(Real.log (epsilon : ℝ)) then 100
      else bceLogitsScalar x t - bceGap x t := by
  have h : bceRaw (sigm x) t = bceLogitsScalar x t - bceGap x t := by rw [← bce_logits_sub_raw]; ring
  rw [bceScalar_eq, h]

/-- the two composite kernels on arrays (with NumPy broadcasting of logits against targets): both are accepted
    exactly when the shapes broadcast, and then entry `i` of the results is the scalar function of the
    broadcast entries -/
theorem bce_both_entries (x y : NDArray ℝ) (hx : x.WF) (s : Shape) (hs : broadcastShapes x.shape y.shape = some s) :
    ∃ l r, bceLogitsForward x y = some l ∧ bceForward (sigmoidForward x) y = some r ∧
      l.WF ∧ r.WF ∧ l.shape = s ∧ r.shape = s ∧
      ∀ i, validIdx s i →
        l.get i = bceLogitsScalar (x.get (bcastIdx x.shape i)) (y.get (bcastIdx y.shape i)) ∧
        r.get i = bceScalar (sigm (x.get (bcastIdx x.shape i))) (y.get (bcastIdx y.shape i)) := by
  have hs' : broadcastShapes (sigmoidForward x).shape y.shape = some s := hs
  let F : Idx → ℝ := fun j => -(y.get (bcastIdx y.shape j) *
      Real.log ((sigmoidForward x).get (bcastIdx (sigmoidForward x).shape j) + epsilon) +
    (1 - y.get (bcastIdx y.shape j)) * Real.log (1 - (sigmoidForward x).get (bcastIdx (sigmoidForward x).shape j) + epsilon))
  let C : ℝ → ℝ := fun v => if ¬ (v < -(Real.log (epsilon : ℝ))) ∧ ¬ (-(Real.log (epsilon : ℝ)) < v) then ((100 : Nat) : ℝ) else v
  refine ⟨_, (ofFn s F).map C, Proofs.Adjoint.bcast2_eq _ x y s hs, ?_, ofFn_wf _ _, ?_, rfl, ?_, fun i hi => ⟨?_, ?_⟩⟩
  · simp only [bceForward, Proofs.Adjoint.bcast2_eq _ (sigmoidForward x) y s hs', Option.bind_eq_bind,
      Option.bind_some, Option.pure_def]
    rfl
  · exact map_wf _ _ (ofFn_wf _ _)
  · rfl
  · rw [get_ofFn _ _ _ hi]; rfl
  · rw [map_ofFn, get_ofFn _ _ _ hi]
    have hv := (bcastIdx_valid x.shape y.shape s hs i hi).1
    have hg : (sigmoidForward x).get (bcastIdx (sigmoidForward x).shape i) = sigm (x.get (bcastIdx x.shape i)) := by
      show (sigmoidForward x).get (bcastIdx x.shape i) = _
      rw [sigmoidForward, get_map _ _ hx _ hv]; rfl
    have hF : F i = bceRaw (sigm (x.get (bcastIdx x.shape i))) (y.get (bcastIdx y.shape i)) := by
      simp only [F]; rw [hg]; rfl
    show C (F i) = _
    rw [hF, bceScalar_eq]
    simp only [C, not_lt, Nat.cast_ofNat]
    by_cases h : bceRaw (sigm (x.get (bcastIdx x.shape i))) (y.get (bcastIdx y.shape i)) = -Real.log (epsilon : ℝ)
    · rw [if_pos ⟨le_of_eq h.symm, le_of_eq h⟩, if_pos h]
    · rw [if_neg (fun hh => h (le_antisymm hh.2 hh.1)), if_neg h]

/-- both composite kernels reject together: when the shapes do not broadcast, neither is accepted -/
theorem bce_both_reject (x y : NDArray ℝ) (hs : broadcastShapes x.shape y.shape = none) :
    bceLogitsForward x y = none ∧ bceForward (sigmoidForward x) y = none := by
  have hs' : broadcastShapes (sigmoidForward x).shape y.shape = none := hs
  constructor
  · simp [bceLogitsForward, bcast2, hs]
  · simp [bceForward, bcast2, hs']

/-- **BCE-with-logits against BCE ∘ sigmoid, exact relation for arbitrary targets**: with
    `gap = t·log(1 + ε/σ(x)) + (1−t)·log(1 + ε/(1−σ(x)))` (`ε = 1e-12`, the guard inside `bceForward`'s logarithms),
    entry `i` of `BCE(sigmoid x, t)` is `BCEL(x, t)[i] − gap` unless that number equals `−log ε`, in which case
    `bceForward`'s clamp turns it into `100`. -/
theorem bce_logits_vs_bce_sigmoid (x y : NDArray ℝ) (hx : x.WF) (s : Shape)
    (hs : broadcastShapes x.shape y.shape = some s) :
    ∃ l r, bceLogitsForward x y = some l ∧ bceForward (sigmoidForward x) y = some r ∧ l.shape = s ∧ r.shape = s ∧
      ∀ i, validIdx s i →
        r.get i = (let gap := bceGap (x.get (bcastIdx x.shape i)) (y.get (bcastIdx y.shape i))
          if l.get i - gap = -(Real.log (epsilon : ℝ)) then 100 else l.get i - gap) := by
  obtain ⟨l, r, h1, h2, _, _, h3, h4, h⟩ := bce_both_entries x y hx s hs
  refine ⟨l, r, h1, h2, h3, h4, fun i hi => ?_⟩
  rw [(h i hi).1, (h i hi).2]
  exact bceScalar_sigm _ _

/-- **BCE-with-logits against BCE ∘ sigmoid for targets in `[0,1]`** (a decidable condition on the target array;
    over ℝ `sigmoid` is strictly inside `(0,1)`, so the clamp at `−log ε` is never active): the naive equality is
    FALSE at every entry — `BCE(sigmoid x, t)[i] < BCEL(x, t)[i]` — and the deviation is exactly `gap`, at most
    `ε·(t·(1+e^{−x}) + (1−t)·(1+e^{x}))`. -/
theorem bce_logits_vs_bce_sigmoid_unit_targets (x y : NDArray ℝ) (hx : x.WF) (s : Shape)
    (hs : broadcastShapes x.shape y.shape = some s)
    (hy : ∀ i, validIdx s i → 0 ≤ y.get (bcastIdx y.shape i) ∧ y.get (bcastIdx y.shape i) ≤ 1) :
    ∃ l r, bceLogitsForward x y = some l ∧ bceForward (sigmoidForward x) y = some r ∧ l.shape = s ∧ r.shape = s ∧
      ∀ i, validIdx s i →
        l.get i - r.get i = bceGap (x.get (bcastIdx x.shape i)) (y.get (bcastIdx y.shape i)) ∧
        r.get i < l.get i ∧
        l.get i - r.get i ≤ (epsilon : ℝ) * (y.get (bcastIdx y.shape i) * (1 + Real.exp (-(x.get (bcastIdx x.shape i)))) +
          (1 - y.get (bcastIdx y.shape i)) * (1 + Real.exp (x.get (bcastIdx x.shape i)))) := by
  obtain ⟨l, r, h1, h2, _, _, h3, h4, h⟩ := bce_both_entries x y hx s hs
  refine ⟨l, r, h1, h2, h3, h4, fun i hi => ?_⟩
  obtain ⟨ht0, ht1⟩ := hy i hi
  have hclamp := bceRaw_lt_clamp (sigm (x.get (bcastIdx x.shape i))) (y.get (bcastIdx y.shape i))
    (sigm_pos _) (sigm_lt_one _) ht0 ht1
  have hr : r.get i = bceRaw (sigm (x.get (bcastIdx x.shape i))) (y.get (bcastIdx y.shape i)) := by
    rw [(h i hi).2, bceScalar_eq, if_neg hclamp.ne]
  have hgap := bce_logits_sub_raw (x.get (bcastIdx x.shape i)) (y.get (bcastIdx y.shape i))
  obtain ⟨hpos, hle⟩ := bceGap_bounds (x.get (bcastIdx x.shape i)) (y.get (bcastIdx y.shape i)) ht0 ht1
  rw [(h i hi).1, hr, hgap]
  exact ⟨rfl, by linarith, hle⟩

/-- concrete witness against the naive equality: logits `[0]`, targets `[1]` -/
theorem bce_logits_ne_bce_sigmoid_counterexample :
    ∃ (x y l r : NDArray ℝ), x.WF ∧ y.WF ∧ bceLogitsForward x y = some l ∧ bceForward (sigmoidForward x) y = some r ∧
      l ≠ r := by
  obtain ⟨l, r, h1, h2, _, _, h⟩ := bce_logits_vs_bce_sigmoid_unit_targets (⟨[1], [0]⟩ : NDArray ℝ) ⟨[1], [1]⟩
    (by simp [NDArray.WF, Shape.size]) [1] (by decide) (by
      intro i hi
      have : i = [0] := by
        match i, hi with
        | [k], hk => simp [validIdx] at hk; simp [hk]
      subst this
      simp [bcastIdx, NDArray.get, ravel])
  refine ⟨⟨[1], [0]⟩, ⟨[1], [1]⟩, l, r, by simp [NDArray.WF, Shape.size], by simp [NDArray.WF, Shape.size], h1, h2, fun he => ?_⟩
  have := (h [0] (by simp [validIdx])).2.1
  rw [he] at this
  exact lt_irrefl _ this

end Proofs.Fused
