import Props.C01
import Proofs.VJPSoftmax
import Proofs.AdjointNN
/-!
# Gradients of fused ops equal the gradients of their documented compositions (C14, gradient side)

The argument "both backward kernels are vector-Jacobian products of the same function, hence equal" as theorems:

* `adjoint_grad_eq_of_forward_eq` (linear ops, any commutative ring) and `vjpAt_grad_eq_of_forward_eq` (nonlinear ops over ℝ):
  equal forwards + each backward is a VJP of its forward ⇒ the two backward kernels return the same array for every
  upstream gradient.
* `IsAdjoint.comp` (`Proofs/AdjointGenB.lean`) and `IsVJPAt.comp_adjoint` (here): VJPs compose contravariantly, so the
  composition side HAS a VJP made of the members' backward kernels (the chain rule the engine applies).
* instances: cross-entropy | NLL ∘ log_softmax;  linear | matmul with the transposed weight (both operands);
  mean | sum then division by the count.
-/
namespace Proofs.FusedGrad
open Synap Synap.NDArray Synap.Np Synap.Kernels Proofs.Core Proofs.Adjoint Proofs.Calc Proofs.NL

section Linear
variable {R : Type} [CommRing R]

/-- **equal forwards have equal backwards (linear ops)**: if `F` and `G` agree on every well-formed operand of shape
    `sa`, `B_F` is an adjoint (VJP) of `F` and `B_G` an adjoint of `G`, then `B_F g = B_G g` for every upstream `g`. -/
theorem adjoint_grad_eq_of_forward_eq (sa sy : Shape) (F G BF BG : NDArray R → Option (NDArray R))
    (hF : IsAdjoint sa sy F BF) (hG : IsAdjoint sa sy G BG)
    (hFG : ∀ v : NDArray R, v.WF → v.shape = sa → F v = G v)
    (g : NDArray R) (hg : g.WF) (hs : g.shape = sy) : BF g = BG g :=
  Props.C01.vjp_unique sa sy F BF BG hF (hG.congr hFG (fun _ _ _ => rfl)) g hg hs

end Linear

/-! ### nonlinear ops over ℝ -/

theorem dot_basis (s : Shape) (i : Idx) (hi : validIdx s i) (c : NDArray ℝ) :
    dot (ofFn s (fun k => if k = i then (1 : ℝ) else 0)) c = c.get i := by
  rw [dot_ofFn, Proofs.Core.sum_map_ite_mul (allIdx s) (allIdx_nodup s) i c.get]
  simp [(mem_allIdx s i).mpr hi]

/-- **equal forwards have equal backwards (nonlinear ops)**: if `F` and `G` agree on every well-formed array of the
    operand's shape and `B_F`, `B_G` are vector-Jacobian products (`IsVJPAt`) of `F`, `G` at `a`, then
    `B_F g = B_G g` for every upstream `g`. -/
theorem vjpAt_grad_eq_of_forward_eq (F G : NDArray ℝ → Option (NDArray ℝ)) (a : NDArray ℝ) (ha : a.WF) (sy : Shape)
    (BF BG : NDArray ℝ → Option (NDArray ℝ)) (hF : IsVJPAt F a sy BF) (hG : IsVJPAt G a sy BG)
    (hFG : ∀ z : NDArray ℝ, z.WF → z.shape = a.shape → F z = G z)
    (g : NDArray ℝ) (hg : g.WF) (hs : g.shape = sy) : BF g = BG g := by
  obtain ⟨_, b, hb, hbw, hbs, _⟩ := hF (zeros a.shape) g (zeros_wf _) rfl hg hs
  obtain ⟨_, b', hb', hbw', hbs', _⟩ := hG (zeros a.shape) g (zeros_wf _) rfl hg hs
  rw [hb, hb']
  congr 1
  refine ext_get b b' hbw hbw' (by rw [hbs, hbs']) (fun i hi => ?_)
  rw [hbs] at hi
  let e : NDArray ℝ := ofFn a.shape (fun k => if k = i then (1 : ℝ) else 0)
  obtain ⟨_, c, hc, _, _, d1⟩ := hF e g (ofFn_wf _ _) rfl hg hs
  obtain ⟨_, c', hc', _, _, d2⟩ := hG e g (ofFn_wf _ _) rfl hg hs
  rw [hb] at hc; rw [hb'] at hc'
  cases hc; cases hc'
  have hfun : (fun t : ℝ => ((F (line a e t)).map (fun y => dot y g)).getD 0)
      = fun t : ℝ => ((G (line a e t)).map (fun y => dot y g)).getD 0 := by
    funext t
    rw [hFG _ (sm_line_wf a e t ha (ofFn_wf _ _) rfl) (sm_line_shape a e t)]
  rw [hfun] at d1
  have := d1.unique d2
  rwa [dot_basis _ i hi, dot_basis _ i hi] at this

/-- **chain rule, nonlinear then linear**: a VJP of `F` at `a` followed by an adjoint of the linear `L` is a VJP of
    `L ∘ F` at `a`, with the backward kernels composed in the opposite order -/
theorem IsVJPAt.comp_adjoint {F B L BL : NDArray ℝ → Option (NDArray ℝ)} {a : NDArray ℝ} {sm sy : Shape}
    (hF : IsVJPAt F a sm B) (hL : IsAdjoint sm sy L BL) :
    IsVJPAt (fun x => (F x).bind L) a sy (fun g => (BL g).bind B) := by
  intro v g hv hvs hg hgs
  obtain ⟨_, c, _, hc, _, _, hcw, hcs, _⟩ := hL (zeros sm) g (zeros_wf sm) rfl hg hgs
  obtain ⟨htot, b, hb, hbw, hbs, hd⟩ := hF v c hv hvs hcw hcs
  refine ⟨fun t => ?_, b, by simp [hc, hb], hbw, hbs, ?_⟩
  · obtain ⟨y, hy, hyw, hys⟩ := htot t
    obtain ⟨z, _, hz, _, hzw, hzs, _⟩ := hL y g hyw hys hg hgs
    exact ⟨z, by simp [hy, hz], hzw, hzs⟩
  · have hfun : (fun t : ℝ => (((F (line a v t)).bind L).map (fun y => dot y g)).getD 0)
        = fun t : ℝ => ((F (line a v t)).map (fun y => dot y c)).getD 0 := by
      funext t
      obtain ⟨y, hy, hyw, hys⟩ := htot t
      obtain ⟨z, c', hz, hc', _, _, _, _, hdot⟩ := hL y g hyw hys hg hgs
      rw [hc] at hc'; cases hc'
      simp [hy, hz, hdot]
    rw [hfun]
    exact hd

/-! ### instances -/

/-- **gradient of cross-entropy = gradient of NLL ∘ log_softmax**: the fused backward kernel returns exactly what
    the chain rule through the two member kernels returns, for every upstream gradient -/
theorem cross_entropy_grad_is_nll_log_softmax_grad (x y ls : NDArray ℝ) (labels : List Nat) (hx : x.WF)
    (h : crossEntropyForward x labels = some y) (hls : logSoftmaxForward x 1 = some ls)
    (g : NDArray ℝ) (hg : g.WF) (hgs : g.shape = y.shape) :
    crossEntropyBackward g x labels = logSoftmaxBackward (nllBackward g ls labels) ls 1 := by
  have hlen : x.shape.length = 2 := by
    by_contra hne
    simp [crossEntropyForward, hne] at h
  have hnll : nllForward ls labels = some y := by
    simpa [crossEntropyForward, hlen, hls] using h
  obtain ⟨ax, hax, hn⟩ := sm_logSoftmaxForward_some x ls 1 (sm_not_zeroDim_one _) hls
  have hlse : ls = ofFn x.shape (sm_ls x.get (x.shape.getD ax 0) ax) := by
    rw [sm_logSoftmaxForward_eq x 1 ax hax hn] at hls
    exact (Option.some.inj hls).symm
  have hlsw : ls.WF := by rw [hlse]; exact ofFn_wf _ _
  have hlss : ls.shape = x.shape := by rw [hlse]; rfl
  have hG := IsVJPAt.comp_adjoint (log_softmax_vjp x ls 1 hx hls)
    ((nll_adj ls y labels hlsw hnll).of_shape_eq hlss rfl)
  have hF := cross_entropy_vjp x y labels hx h
  have := vjpAt_grad_eq_of_forward_eq _ _ x hx y.shape _ _ hF hG (fun z _ hz => by
    have : z.shape.length = 2 := by rw [hz]; exact hlen
    simp [crossEntropyForward, this]) g hg hgs
  simpa using this

section Linear2
variable {R : Type} [CommRing R]

/-- **gradient of linear w.r.t. `x` = gradient of `x @ Wᵀ` w.r.t. `x`** -/
theorem linear_grad_x_is_matmul_grad (x w wt y : NDArray R) (hx : x.WF) (hw : w.WF)
    (h : linearForward x w none = some y) (hwt : transposeForward w 0 1 = some wt)
    (g : NDArray R) (hg : g.WF) (hgs : g.shape = y.shape) :
    (linearBackward g x w none).map (·.1) = (matmulBackward g x wt).map (·.1) := by
  have hwtw : wt.WF := by
    obtain ⟨y', _, hy', _, hyw, _⟩ := (transpose_adj w wt 0 1 hw hwt) w (zeros wt.shape) hw rfl (zeros_wf _) rfl
    have hy'' : transposeForward w 0 1 = some y' := hy'
    rw [hwt] at hy''; cases hy''; exact hyw
  have hmm : matmulForward x wt = some y := by
    have : swapaxes w 0 1 = some wt := hwt
    simpa [linearForward, this] using h
  refine adjoint_grad_eq_of_forward_eq x.shape y.shape _ _ _ _ (linear_adj_x x w y hx hw h)
    (matmul_adj_left x wt y hx hwtw hmm) (fun v _ _ => ?_) g hg hgs
  have : swapaxes w 0 1 = some wt := hwt
  simp [linearForward, this]

/-- **gradient of linear w.r.t. `W` = gradient of `x @ transpose(W)` w.r.t. `W`**: the chain rule through `matmul`
    (right operand) and `transpose` -/
theorem linear_grad_w_is_transpose_matmul_grad (x w wt y : NDArray R) (hx : x.WF) (hw : w.WF)
    (h : linearForward x w none = some y) (hwt : transposeForward w 0 1 = some wt)
    (g : NDArray R) (hg : g.WF) (hgs : g.shape = y.shape) :
    (linearBackward g x w none).map (·.2.1) = ((matmulBackward g x wt).map (·.2)).bind (fun gwt => transposeBackward gwt 0 1) := by
  have hwtw : wt.WF := by
    obtain ⟨y', _, hy', _, hyw, _⟩ := (transpose_adj w wt 0 1 hw hwt) w (zeros wt.shape) hw rfl (zeros_wf _) rfl
    have hy'' : transposeForward w 0 1 = some y' := hy'
    rw [hwt] at hy''; cases hy''; exact hyw
  have hmm : matmulForward x wt = some y := by
    have : swapaxes w 0 1 = some wt := hwt
    simpa [linearForward, this] using h
  exact adjoint_grad_eq_of_forward_eq w.shape y.shape _ _ _ _ (linear_adj_w x w y hx hw h)
    ((transpose_adj w wt 0 1 hw hwt).comp (matmul_adj_right x wt y hx hwtw hmm)) (fun v _ _ => rfl) g hg hgs

end Linear2

section Mean
variable {K : Type} [Field K]

/-- dividing every entry by a constant is self-adjoint -/
theorem div_const_adj (s : Shape) (c : K) :
    IsAdjoint (R := K) s s (fun v => some (v.map (· / c))) (fun g => some (g.map (· / c))) := by
  have h := (clone_adj (R := K) s).map_mul c⁻¹
  refine h.congr (fun v _ _ => ?_) (fun g _ _ => ?_) <;>
    simp [cloneForward, cloneBackward, div_eq_mul_inv]

/-- **gradient of mean = gradient of sum / count**: the fused backward kernel returns what the chain rule through
    "divide by the count" and `sum` returns -/
theorem mean_grad_is_sum_div_grad (a y : NDArray K) (ax : Axes) (keep : Bool) (axes : List Nat) (ha : a.WF)
    (h : meanForward a ax keep = some y) (hax : ax.norm a.shape.length = some axes)
    (g : NDArray K) (hg : g.WF) (hgs : g.shape = y.shape) :
    meanBackward g a.shape ax keep =
      sumBackward (g.map (· / (((axes.map (fun k => a.shape.getD k 0)).foldr (· * ·) 1 : Nat) : K))) a.shape ax keep := by
  cases hs : sumForward a ax keep with
  | none =>
    have hs' : Np.sum a ax keep = none := hs
    simp [meanForward, hax, hs'] at h
  | some y0 =>
    have hy : y0.shape = y.shape := by
      have hs' : Np.sum a ax keep = some y0 := hs
      simp only [meanForward, hax, hs', Option.bind_eq_bind, Option.bind_some, Option.pure_def,
        Option.some.injEq] at h
      rw [← h]; rfl
    have hG := ((sum_adj a y0 ax keep ha hs).of_shape_eq rfl hy).comp
      (div_const_adj y.shape (((axes.map (fun k => a.shape.getD k 0)).foldr (· * ·) 1 : Nat) : K))
    have := adjoint_grad_eq_of_forward_eq a.shape y.shape _ _ _ _ (mean_adj a y ax keep ha h) hG (fun v _ hv => by
      simp only [meanForward, sumForward, hv, hax, Option.bind_eq_bind, Option.bind_some, Option.pure_def]) g hg hgs
    simpa using this

end Mean

end Proofs.FusedGrad
